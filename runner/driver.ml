(* Glue only: bytes <-> Coq [string]; one case per input line, one result per output line. *)

let ascii_of_char (c : char) : Model.ascii =
  let n = Char.code c in
  let b i = (n lsr i) land 1 = 1 in
  Model.Ascii (b 0, b 1, b 2, b 3, b 4, b 5, b 6, b 7)

let char_of_ascii (a : Model.ascii) : char =
  match a with
  | Model.Ascii (b0, b1, b2, b3, b4, b5, b6, b7) ->
    let v b i = if b then 1 lsl i else 0 in
    Char.chr (v b0 0 + v b1 1 + v b2 2 + v b3 3 + v b4 4 + v b5 5 + v b6 6 + v b7 7)

let coq_of_string (s : Stdlib.String.t) : Model.string =
  let r = ref Model.EmptyString in
  for i = Stdlib.String.length s - 1 downto 0 do
    r := Model.String (ascii_of_char s.[i], !r)
  done;
  !r

let string_of_coq (s : Model.string) : Stdlib.String.t =
  let b = Buffer.create 256 in
  let rec go = function
    | Model.EmptyString -> ()
    | Model.String (a, r) -> Buffer.add_char b (char_of_ascii a); go r
  in
  go s; Buffer.contents b

let () =
  let ic = if Array.length Sys.argv > 1 then open_in Sys.argv.(1) else stdin in
  (try
     while true do
       let line = input_line ic in
       if Stdlib.String.length line > 0 then
         print_endline (string_of_coq (Model.run_line (coq_of_string line)))
     done
   with End_of_file -> ());
  close_in ic
