HOOK_COMMITS = []
NOTES = "All checks share bin/check; each run regenerates tables from /repo, rebuilds the Coq development (full .vo), re-checks Properties/<id>.v, builds the harness with -tags verif against /repo's working tree, runs generators/oracles and the model correspondence. known-findings.json lists genuine defects that are recorded rather than repaired."
NOT_CLAIMED = {}
CLAIMED = {
 "C16": {
  "technique": "Coq proof (stable-sort uniqueness => permutation invariance of the schema key) + differential execution of the model against schema.NewSchemaKey on all permutations",
  "text": "Theorem C16_schema_key_order_independent: for distinct label indices and attribute names the key is invariant under every permutation (unbounded, proved over the Gallina model of MarshalJSON incl. JSON/%q escaping); the model is compared with schema.NewSchemaKey on every permutation of generated key sets; injectivity and the repeated-index stream are explored by the direct oracle.",
  "note": "Trusted: Coq kernel; model of encoding/json escaping validated by execution only (ASCII + valid UTF-8 alphabet); harness serialisation; extraction (ExtrOcamlBasic). Injectivity is checked by exploration, not yet proved.",
 },
}
