module verif/tools

go 1.22.0

require (
	github.com/apparentlymart/go-textseg/v15 v15.0.0
	github.com/google/go-cmp v0.6.0
	github.com/hashicorp/hcl-lang v0.0.0
	github.com/hashicorp/hcl/v2 v2.23.0
	github.com/zclconf/go-cty v1.16.2
	github.com/zclconf/go-cty-debug v0.0.0-20240509010212-0d6042c53940
	golang.org/x/tools v0.29.0
)

require (
	github.com/agext/levenshtein v1.2.1 // indirect
	github.com/hashicorp/errwrap v1.0.0 // indirect
	github.com/hashicorp/go-multierror v1.1.1 // indirect
	github.com/mitchellh/go-wordwrap v0.0.0-20150314170334-ad45545899c7 // indirect
	golang.org/x/text v0.11.0 // indirect
)

replace github.com/hashicorp/hcl-lang => /repo
