package main

// A small Terraform-like language with ground truth: the generator knows every declaration it
// writes (with its address) and every reference it writes (with the address it denotes and the
// attribute it sits in).  Used by the oracles of C02, C08, C09, C10, C13, C18, C19.

import (
	"fmt"
	"github.com/hashicorp/hcl/v2"
	"math/rand"
	"strings"

	"github.com/hashicorp/hcl-lang/lang"
	"github.com/hashicorp/hcl-lang/schema"
	"github.com/zclconf/go-cty/cty"
)

var tfNames = []string{"alpha", "beta", "größe", "サイズ", "a1", "ab", "abc", "name_x"}
var tfTypes = []string{"aws", "gcp"}

func tfSchema() *schema.BodySchema {
	resBody := func() *schema.BodySchema {
		return &schema.BodySchema{
			Extensions: &schema.BodyExtensions{Count: true, ForEach: true, SelfRefs: true, DynamicBlocks: true},
			Attributes: map[string]*schema.AttributeSchema{
				"str":  {IsOptional: true, Constraint: schema.LiteralType{Type: cty.String}, SemanticTokenModifiers: lang.SemanticTokenModifiers{"m-str"}},
				"num":  {IsOptional: true, Constraint: schema.LiteralType{Type: cty.Number}},
				"ref":  {IsOptional: true, Constraint: schema.Reference{OfScopeId: "variable"}},
				"tref": {IsOptional: true, Constraint: schema.Reference{OfType: cty.String}},
				"any":  {IsOptional: true, Constraint: schema.AnyExpression{OfType: cty.String}},
				"dyn":  {IsOptional: true, Constraint: schema.AnyExpression{OfType: cty.DynamicPseudoType}},
				"nums": {IsOptional: true, Constraint: schema.AnyExpression{OfType: cty.Number}},
				"elem": {IsOptional: true, Constraint: schema.AnyExpression{OfType: cty.DynamicPseudoType}},
				"ev":   {IsOptional: true, Constraint: schema.AnyExpression{OfType: cty.DynamicPseudoType}},
				"sz":   {IsOptional: true, Constraint: schema.AnyExpression{OfType: cty.DynamicPseudoType}},
				// computed-only (not meant to be set, but decoded like any other attribute when it is)
				"arn": {IsComputed: true, Constraint: schema.AnyExpression{OfType: cty.DynamicPseudoType}},
				"ci":   {IsOptional: true, Constraint: schema.AnyExpression{OfType: cty.Number}},
				"refs": {IsOptional: true, Constraint: schema.List{Elem: schema.Reference{OfScopeId: "variable"}}},
				"obj": {IsOptional: true, Constraint: schema.Object{Attributes: schema.ObjectAttributes{
					"first":  {IsOptional: true, Constraint: schema.AnyExpression{OfType: cty.String}},
					"second": {IsOptional: true, Constraint: schema.Reference{OfScopeId: "local"}},
				}}},
				"tags":  {IsOptional: true, Constraint: schema.Map{Elem: schema.AnyExpression{OfType: cty.String}}},
				"kw":    {IsOptional: true, Constraint: schema.Keyword{Keyword: "enabled"}},
				"oneof": {IsOptional: true, Constraint: schema.OneOf{schema.Reference{OfScopeId: "variable"}, schema.LiteralType{Type: cty.String}}},
				"strs":  {IsOptional: true, Constraint: schema.LiteralType{Type: cty.List(cty.String)}},
				"multi": {IsOptional: true, Constraint: schema.OneOf{schema.List{Elem: schema.Reference{OfScopeId: "variable"}}, schema.AnyExpression{OfType: cty.String}}},
				// one attribute per collection constraint kind (each is a block-local declaration, self.<name>)
				"cset":  {IsOptional: true, Constraint: schema.Set{Elem: schema.LiteralType{Type: cty.String}}},
				"clist": {IsOptional: true, Constraint: schema.List{Elem: schema.LiteralType{Type: cty.String}}},
				"cmap":  {IsOptional: true, Constraint: schema.Map{Elem: schema.LiteralType{Type: cty.String}}},
				"cobj":  {IsOptional: true, Constraint: schema.Object{Attributes: schema.ObjectAttributes{"a": {IsOptional: true, Constraint: schema.LiteralType{Type: cty.String}}}}},
				"ctup":  {IsOptional: true, Constraint: schema.Tuple{Elems: []schema.Constraint{schema.LiteralType{Type: cty.String}, schema.LiteralType{Type: cty.Number}}}},
				"cany":  {IsOptional: true, Constraint: schema.AnyExpression{OfType: cty.List(cty.String)}},
				"cself": {IsOptional: true, Constraint: schema.AnyExpression{OfType: cty.DynamicPseudoType}},
			},
			Blocks: map[string]*schema.BlockSchema{
				"opts": {Type: schema.BlockTypeObject, MaxItems: 1, Body: &schema.BodySchema{Attributes: map[string]*schema.AttributeSchema{
					"flag": {IsOptional: true, Constraint: schema.LiteralType{Type: cty.Bool}},
					"via":  {IsOptional: true, Constraint: schema.AnyExpression{OfType: cty.String}},
				}, Blocks: map[string]*schema.BlockSchema{
					// a block type two levels down, under a block WITHOUT dependent bodies (dynamic blocks are propagated to it)
					"sub": {Body: &schema.BodySchema{Attributes: map[string]*schema.AttributeSchema{"s": {IsOptional: true, Constraint: schema.LiteralType{Type: cty.String}}}}},
				}}},
				"item": {Type: schema.BlockTypeList, Body: &schema.BodySchema{Attributes: map[string]*schema.AttributeSchema{
					"val":   {IsOptional: true, Constraint: schema.AnyExpression{OfType: cty.String}},
					"count": {IsOptional: true, Constraint: schema.LiteralType{Type: cty.Number}},
					"note":  {IsOptional: true, Constraint: schema.AnyExpression{OfType: cty.String}},
					"zeta":  {IsOptional: true, Constraint: schema.LiteralType{Type: cty.Bool}},
					"pair":  {IsOptional: true, Constraint: schema.Tuple{Elems: []schema.Constraint{schema.LiteralType{Type: cty.String}, schema.LiteralType{Type: cty.String}}}},
				}}},
				"entry": {Type: schema.BlockTypeMap, Labels: []*schema.LabelSchema{{Name: "key"}}, Body: &schema.BodySchema{Attributes: map[string]*schema.AttributeSchema{
					"val":  {IsOptional: true, Constraint: schema.LiteralType{Type: cty.String}},
					"port": {IsOptional: true, Constraint: schema.LiteralType{Type: cty.Number}},
					"mode": {IsOptional: true, Constraint: schema.LiteralType{Type: cty.String}},
				}}},
			},
		}
	}
	res := &schema.BlockSchema{
		Labels: []*schema.LabelSchema{{Name: "type", IsDepKey: true, Completable: true, SemanticTokenModifiers: lang.SemanticTokenModifiers{"m-type"}}, {Name: "name"}},
		Address: &schema.BlockAddrSchema{
			Steps:   schema.Address{schema.StaticStep{Name: "res"}, schema.LabelStep{Index: 0}, schema.LabelStep{Index: 1}},
			ScopeId: "resource", FriendlyName: "resource", BodyAsData: true, InferBody: true, BodySelfRef: true,
			DependentBodyAsData: true, InferDependentBody: true, DependentBodySelfRef: true,
		},
		SemanticTokenModifiers: lang.SemanticTokenModifiers{"m-res"},
		Body:                   resBody(),
		DependentBody: map[schema.SchemaKey]*schema.BodySchema{
			schema.NewSchemaKey(schema.DependencyKeys{Labels: []schema.LabelDependent{{Index: 0, Value: "aws"}}}): {
				Detail: "AWS thing", Description: lang.Markdown("aws description"),
				Attributes: map[string]*schema.AttributeSchema{
					"region": {IsOptional: true, Constraint: schema.AnyExpression{OfType: cty.String}},
					"zone":   {IsRequired: true, Constraint: schema.LiteralType{Type: cty.String}},
					"size":   {IsOptional: true, Constraint: schema.LiteralType{Type: cty.Number}}, // (a string for the other type)
				},
			},
			schema.NewSchemaKey(schema.DependencyKeys{Labels: []schema.LabelDependent{{Index: 0, Value: "gcp"}}}): {
				Detail: "GCP thing",
				Attributes: map[string]*schema.AttributeSchema{
					"project": {IsOptional: true, Constraint: schema.AnyExpression{OfType: cty.String}},
					"size":    {IsOptional: true, Constraint: schema.LiteralType{Type: cty.String}},
					"labels":  {IsRequired: true, Constraint: schema.Map{Elem: schema.LiteralType{Type: cty.String}}},
					"title":   {IsRequired: true, Constraint: schema.LiteralType{Type: cty.String}},
				},
				Blocks: map[string]*schema.BlockSchema{
					"extra": {Body: &schema.BodySchema{Attributes: map[string]*schema.AttributeSchema{
						"e1": {IsOptional: true, Constraint: schema.LiteralType{Type: cty.String}},
						"e2": {IsOptional: true, Constraint: schema.LiteralType{Type: cty.Number}},
					}}},
					"meta": {MinItems: 1, Labels: []*schema.LabelSchema{{Name: "kind"}}, Body: &schema.BodySchema{Attributes: map[string]*schema.AttributeSchema{
						"key": {IsRequired: true, Constraint: schema.LiteralType{Type: cty.String}},
						"obj": {IsRequired: true, Constraint: schema.LiteralType{Type: cty.Object(map[string]cty.Type{"a": cty.String, "b": cty.Number})}},
					}}},
				},
			},
		},
	}
	// a block type resolved in two steps: the label selects a body that declares a further key attribute,
	// label + that attribute's value select one more body
	dataKey1 := schema.DependencyKeys{Labels: []schema.LabelDependent{{Index: 0, Value: "remote_state"}}}
	dataKey2 := schema.DependencyKeys{Labels: []schema.LabelDependent{{Index: 0, Value: "remote_state"}},
		Attributes: []schema.AttributeDependent{{Name: "backend", Expr: schema.ExpressionValue{Static: cty.StringVal("s3")}}}}
	data := &schema.BlockSchema{
		Labels: []*schema.LabelSchema{{Name: "type", IsDepKey: true}, {Name: "name"}},
		Body: &schema.BodySchema{Attributes: map[string]*schema.AttributeSchema{
			"provider": {IsOptional: true, Constraint: schema.LiteralType{Type: cty.String}},
		}},
		DependentBody: map[schema.SchemaKey]*schema.BodySchema{
			schema.NewSchemaKey(dataKey1): {
				Attributes: map[string]*schema.AttributeSchema{
					"backend":   {IsOptional: true, IsDepKey: true, Constraint: schema.LiteralType{Type: cty.String}},
					"workspace": {IsOptional: true, Constraint: schema.AnyExpression{OfType: cty.String}},
				},
				Blocks: map[string]*schema.BlockSchema{"defaults": {Body: &schema.BodySchema{Attributes: map[string]*schema.AttributeSchema{
					"region": {IsOptional: true, Constraint: schema.LiteralType{Type: cty.String}},
				}}}},
			},
			// (as in terraform-schema, the second-step body repeats what the first-step body declares)
			schema.NewSchemaKey(dataKey2): {
				Attributes: map[string]*schema.AttributeSchema{
					"backend":   {IsOptional: true, IsDepKey: true, Constraint: schema.LiteralType{Type: cty.String}},
					"workspace": {IsOptional: true, Constraint: schema.AnyExpression{OfType: cty.String}},
					"bucket":    {IsOptional: true, Constraint: schema.LiteralType{Type: cty.String}},
				},
				Blocks: map[string]*schema.BlockSchema{"defaults": {Body: &schema.BodySchema{Attributes: map[string]*schema.AttributeSchema{
					"region": {IsOptional: true, Constraint: schema.LiteralType{Type: cty.String}},
				}}}},
			},
		},
	}
	// a block type whose static body is what schema.NewBodySchema() builds (empty, non-nil maps): every
	// attribute comes from the body the label selects
	plug := &schema.BlockSchema{Labels: []*schema.LabelSchema{{Name: "kind", IsDepKey: true}}, Body: schema.NewBodySchema(),
		DependentBody: map[schema.SchemaKey]*schema.BodySchema{}}
	for _, k := range []string{"aws", "gcp"} {
		plug.DependentBody[schema.NewSchemaKey(schema.DependencyKeys{Labels: []schema.LabelDependent{{Index: 0, Value: k}}})] = &schema.BodySchema{
			Attributes: map[string]*schema.AttributeSchema{
				k + "_only": {IsOptional: true, Constraint: schema.LiteralType{Type: cty.String}},
				"common":    {IsOptional: true, Constraint: schema.LiteralType{Type: cty.Number}},
			}}
	}
	return &schema.BodySchema{
		Blocks: map[string]*schema.BlockSchema{
			"plug": plug,
			"data": data,
			"variable": {
				Labels:  []*schema.LabelSchema{{Name: "name"}},
				Address: &schema.BlockAddrSchema{Steps: schema.Address{schema.StaticStep{Name: "var"}, schema.LabelStep{Index: 0}}, ScopeId: "variable", FriendlyName: "variable", AsReference: true, AsTypeOf: &schema.BlockAsTypeOf{AttributeExpr: "type"}},
				Body: &schema.BodySchema{Attributes: map[string]*schema.AttributeSchema{
					"type":        {IsOptional: true, Constraint: schema.TypeDeclaration{}},
					"default":     {IsOptional: true, Constraint: schema.AnyExpression{OfType: cty.DynamicPseudoType}},
					"description": {IsOptional: true, Constraint: schema.LiteralType{Type: cty.String}},
				}},
			},
			"locals": {
				Body: &schema.BodySchema{AnyAttribute: &schema.AttributeSchema{
					IsOptional: true, Constraint: schema.AnyExpression{OfType: cty.DynamicPseudoType},
					Address: &schema.AttributeAddrSchema{Steps: schema.Address{schema.StaticStep{Name: "local"}, schema.AttrNameStep{}}, ScopeId: "local", AsExprType: true, AsReference: true},
				}},
			},
			"res": res,
			"output": {
				Labels: []*schema.LabelSchema{{Name: "name"}},
				Body: &schema.BodySchema{
					Attributes: map[string]*schema.AttributeSchema{
						"value": {IsRequired: true, Constraint: schema.AnyExpression{OfType: cty.DynamicPseudoType}},
						// a dependency key in a body that declares Targets: its value also yields a direct origin
						"dep": {IsOptional: true, IsDepKey: true, Constraint: schema.Reference{OfScopeId: "variable"}},
						// references that declare what they name (a traversal written here IS a declaration)
						"decl":  {IsOptional: true, Constraint: schema.Reference{Address: &schema.ReferenceAddrSchema{ScopeId: "mark"}}},
						"decls": {IsOptional: true, Constraint: schema.List{Elem: schema.Reference{Address: &schema.ReferenceAddrSchema{ScopeId: "mark"}}}},
					},
					Targets: &schema.Target{Path: lang.Path{Path: "other", LanguageID: "hcl"}, Range: hcl.Range{Filename: callerSupplied, Start: hcl.InitialPos, End: hcl.InitialPos}},
				},
			},
			// free-form attributes and a nested block at the same level; the label selects a body that
			// declares further attributes by name
			"cfg": {
				Labels: []*schema.LabelSchema{{Name: "kind", IsDepKey: true}},
				Body: &schema.BodySchema{
					// the block also stands for a known value (like the outputs of a module): its nested
					// declarations are derived from the value with the library's own helper
					TargetableAs: schema.Targetables{cfgTargetable()},
					AnyAttribute: &schema.AttributeSchema{IsOptional: true, Constraint: schema.AnyExpression{OfType: cty.String}},
					Blocks: map[string]*schema.BlockSchema{
						"sub": {Body: &schema.BodySchema{Attributes: map[string]*schema.AttributeSchema{
							"x": {IsOptional: true, Constraint: schema.LiteralType{Type: cty.Number}},
						}}},
						// a nested block whose dependent body is selected by an attribute that is usually
						// left to its default value
						"backend": {
							Body: &schema.BodySchema{Attributes: map[string]*schema.AttributeSchema{
								"kind": {IsOptional: true, IsDepKey: true, Constraint: schema.LiteralType{Type: cty.String}, DefaultValue: schema.DefaultValue{Value: cty.StringVal("local")}},
							}},
							DependentBody: map[schema.SchemaKey]*schema.BodySchema{
								schema.NewSchemaKey(schema.DependencyKeys{Attributes: []schema.AttributeDependent{{Name: "kind", Expr: schema.ExpressionValue{Static: cty.StringVal("local")}}}}): {
									Attributes: map[string]*schema.AttributeSchema{"path": {IsOptional: true, Constraint: schema.LiteralType{Type: cty.String}}},
									Blocks: map[string]*schema.BlockSchema{"bopts": {Body: &schema.BodySchema{Attributes: map[string]*schema.AttributeSchema{
										"mode": {IsOptional: true, Constraint: schema.LiteralType{Type: cty.String}},
									}}}},
								},
							},
						},
					},
				},
				DependentBody: map[schema.SchemaKey]*schema.BodySchema{
					schema.NewSchemaKey(schema.DependencyKeys{Labels: []schema.LabelDependent{{Index: 0, Value: "role"}}}): {
						Attributes: map[string]*schema.AttributeSchema{
							"role": {IsOptional: true, Constraint: schema.Reference{OfScopeId: "variable"}},
							"alias": {IsOptional: true, Constraint: schema.LiteralType{Type: cty.String},
								Address: &schema.AttributeAddrSchema{Steps: schema.Address{schema.StaticStep{Name: "alias"}, schema.AttrNameStep{}}, ScopeId: "alias", AsExprType: true}},
						},
					},
				},
			},
		},
		// (the "data" block type is added below)
		ImpliedOrigins: schema.ImpliedOrigins{{
			OriginAddress: lang.Address{lang.RootStep{Name: "var"}, lang.AttrStep{Name: "alpha"}},
			TargetAddress: lang.Address{lang.RootStep{Name: "var"}, lang.AttrStep{Name: "alpha"}},
			Path:          lang.Path{Path: "other", LanguageID: "hcl"},
			Constraints:   schema.Constraints{ScopeId: "variable", Type: cty.DynamicPseudoType},
		}},
	}
}

var cfgValue = cty.ObjectVal(map[string]cty.Value{
	"cidrs": cty.ListVal([]cty.Value{cty.StringVal("a"), cty.StringVal("b"), cty.StringVal("c")}),
	"tags":  cty.MapVal(map[string]cty.Value{"env": cty.StringVal("x"), "team": cty.StringVal("y")}),
	"peer": cty.ObjectVal(map[string]cty.Value{"id": cty.StringVal("p"), "zone": cty.StringVal("z"),
		"ports": cty.ListVal([]cty.Value{cty.NumberIntVal(1), cty.NumberIntVal(2)})}),
})

func cfgTargetable() *schema.Targetable {
	addr := lang.Address{lang.RootStep{Name: "cfgdata"}, lang.AttrStep{Name: "net"}, lang.AttrStep{Name: "out"}}
	return &schema.Targetable{Address: addr, ScopeId: "cfg", AsType: cfgValue.Type(),
		NestedTargetables: schema.NestedTargetablesForValue(addr, "cfg", cfgValue)}
}

type TfDecl struct {
	Addr  string // address as written in references, e.g. var.alpha, local.x, res.aws.n
	Kind  string // variable | local | resource
	Typ   string // string | number | list | object | ""
	Attrs []string
}

type TfRef struct {
	Addr      string // written text of the traversal
	Attr      string // attribute name it is written in
	Declared  bool
	AdmitsRef bool // the attribute's constraint admits a reference at that place
}

type TfConfig struct {
	Src   string
	Decls []TfDecl
	Refs  []TfRef
}

type tfGen struct {
	r     *rand.Rand
	sb    strings.Builder
	decls []TfDecl
	refs  []TfRef
}

func (g *tfGen) pickDecl(kind string) (TfDecl, bool) {
	var c []TfDecl
	for _, d := range g.decls {
		if kind == "" || d.Kind == kind {
			c = append(c, d)
		}
	}
	if len(c) == 0 {
		return TfDecl{}, false
	}
	return c[g.r.Intn(len(c))], true
}

// refText writes a reference (to a declared item most of the time) and records it
func (g *tfGen) refText(attr, kind string, admits bool) string {
	d, ok := g.pickDecl(kind)
	txt := ""
	declared := ok && g.r.Intn(6) > 0
	if declared {
		txt = d.Addr
		if d.Kind == "resource" && len(d.Attrs) > 0 && g.r.Intn(2) == 0 {
			txt += "." + d.Attrs[g.r.Intn(len(d.Attrs))]
		}
		if d.Kind == "local" && len(d.Attrs) > 0 && g.r.Intn(2) == 0 {
			txt += "." + d.Attrs[g.r.Intn(len(d.Attrs))] // an element nested in the local's value
		}
	} else {
		txt = pick(g.r, []string{"var.missing", "local.nope", "res.aws.ghost", "other.thing"})
	}
	g.refs = append(g.refs, TfRef{Addr: txt, Attr: attr, Declared: declared, AdmitsRef: admits})
	return txt
}

func (g *tfGen) anyExprWithRefs(attr string, d int) string {
	r := g.r
	switch r.Intn(9) {
	case 0:
		return fmt.Sprintf("%q", pick(r, []string{"lit", "größe", ""}))
	case 1:
		return `"pre-${` + g.refText(attr, "", true) + `}-post"`
	case 2:
		if d > 0 {
			return g.anyExprWithRefs(attr, d-1) + " == " + g.anyExprWithRefs(attr, d-1)
		}
	case 3:
		if d > 0 {
			return g.refText(attr, "", true) + " ? " + g.anyExprWithRefs(attr, d-1) + " : " + g.anyExprWithRefs(attr, d-1)
		}
	case 4:
		return "f1(" + g.refText(attr, "", true) + ")"
	case 5:
		return "[for v in " + g.refText(attr, "", true) + " : v]"
	case 6:
		return "(" + g.refText(attr, "", true) + ")"
	}
	return g.refText(attr, "", true)
}

func (g *tfGen) resource(i int) {
	r := g.r
	typ := pick(r, tfTypes)
	name := pick(r, tfNames) + fmt.Sprint(i)
	d := TfDecl{Addr: fmt.Sprintf("res.%s.%s", typ, name), Kind: "resource"}
	fmt.Fprintf(&g.sb, "res %q %q {\n", typ, name)
	w := func(attr, val string) {
		fmt.Fprintf(&g.sb, "  %s = %s\n", attr, val)
		d.Attrs = append(d.Attrs, attr)
	}
	hasCount := false
	if r.Intn(3) == 0 {
		hasCount = true
		cv := "2"
		if r.Intn(2) == 0 {
			cv = g.refText("count", "variable", true)
		}
		fmt.Fprintf(&g.sb, "  count = %s\n", cv)
		// the name count declares, used in this block (no random draw)
		g.refs = append(g.refs, TfRef{Addr: "count.index", Attr: "ci", Declared: true, AdmitsRef: true})
		fmt.Fprintf(&g.sb, "  ci = count.index\n")
	}
	if r.Intn(2) == 0 {
		w("str", fmt.Sprintf("%q", pick(r, []string{"x", "größe", "a b"})))
	}
	if r.Intn(2) == 0 {
		w("num", "42")
	}
	if r.Intn(2) == 0 {
		w("ref", g.refText("ref", "variable", true))
	}
	if r.Intn(3) == 0 {
		w("tref", g.refText("tref", "", true))
	}
	if r.Intn(2) == 0 {
		w("any", g.anyExprWithRefs("any", 2))
	}
	if r.Intn(3) == 0 {
		if r.Intn(3) == 0 {
			w("dyn", `{ a = ["x", "y", "z"], b = { c = "d", e = "f" } }`)
		} else {
			w("dyn", g.anyExprWithRefs("dyn", 1))
		}
	}
	if r.Intn(3) == 0 {
		w("refs", "["+g.refText("refs", "variable", true)+", "+g.refText("refs", "variable", true)+"]")
	}
	if r.Intn(3) == 0 {
		w("obj", "{ first = "+g.anyExprWithRefs("obj", 1)+", second = "+g.refText("obj", "local", true)+" }")
	}
	if r.Intn(3) == 0 {
		w("tags", "{ env = "+g.anyExprWithRefs("tags", 1)+`, "k 2" = "v" }`)
	}
	if r.Intn(4) == 0 {
		w("kw", "enabled")
	}
	if r.Intn(3) == 0 {
		ov := `"lit"`
		if r.Intn(2) == 0 {
			ov = g.refText("oneof", "variable", true)
		}
		w("oneof", ov)
	}
	if r.Intn(4) == 0 {
		w("strs", `["a", "b"]`)
	}
	if r.Intn(3) == 0 {
		// the same address written more than once in one value under a one-of constraint
		a := g.refText("multi", "variable", true)
		g.refs = append(g.refs, g.refs[len(g.refs)-1])
		if r.Intn(2) == 0 {
			w("multi", "["+a+", "+g.refText("multi", "variable", true)+", "+a+"]")
		} else {
			w("multi", `"${`+a+`}-${`+a+`}"`)
		}
	}
	if r.Intn(4) == 0 {
		a := g.refText("for_each", "", true)
		g.refs = append(g.refs, g.refs[len(g.refs)-1])
		fmt.Fprintf(&g.sb, "  for_each = %s == %s ? {} : {}\n", a, a)
		// the names for_each declares, used in this block (no random draw)
		ev := []string{"each.value", "each.key"}[i%2]
		g.refs = append(g.refs, TfRef{Addr: ev, Attr: "ev", Declared: true, AdmitsRef: true})
		fmt.Fprintf(&g.sb, "  ev = %s\n", ev)
	}
	if r.Intn(4) == 0 {
		// a literal-only place: references written here must NOT become origins
		txt := "var." + pick(r, tfNames)
		g.refs = append(g.refs, TfRef{Addr: txt, Attr: "str-literal-place", Declared: false, AdmitsRef: false})
		fmt.Fprintf(&g.sb, "  num = %s\n", txt)
	}
	if len(d.Attrs) > 0 && r.Intn(2) == 0 {
		// a self reference to an attribute of this very block
		txt := "self." + d.Attrs[r.Intn(len(d.Attrs))]
		g.refs = append(g.refs, TfRef{Addr: txt, Attr: "nums", Declared: true, AdmitsRef: true})
		fmt.Fprintf(&g.sb, "  nums = %s\n", txt)
	}
	if i%3 != 2 && len(g.decls) > 0 && g.decls[0].Kind == "variable" {
		// a computed-only attribute set anyway, holding a reference (no random draw)
		g.refs = append(g.refs, TfRef{Addr: g.decls[0].Addr, Attr: "arn", Declared: true, AdmitsRef: true})
		w("arn", g.decls[0].Addr)
	}
	if i%2 == 0 {
		// an attribute both resource types declare, with different types, and a self reference to it (no random draw)
		// (a number literal is a declaration under either type: it converts to a string)
		fmt.Fprintf(&g.sb, "  size = 1\n")
		g.refs = append(g.refs, TfRef{Addr: "self.size", Attr: "sz", Declared: true, AdmitsRef: true})
		fmt.Fprintf(&g.sb, "  sz = self.size\n")
	}
	{
		// a set-typed attribute in every block, one attribute of another collection constraint kind in turn, and a
		// self reference to one of the two (no random draw)
		ck := [][2]string{{"clist", `["a"]`}, {"cmap", `{ k = "v" }`}, {"cobj", `{ a = "v" }`}, {"ctup", `["a", 1]`}, {"cany", `["a"]`}}[(i+len(g.decls))%5]
		fmt.Fprintf(&g.sb, "  cset = [\"a\", \"b\"]\n  %s = %s\n", ck[0], ck[1])
		target := "self.cset"
		if i%2 == 1 {
			target = "self." + ck[0]
		}
		g.refs = append(g.refs, TfRef{Addr: target, Attr: "cself", Declared: true, AdmitsRef: true})
		fmt.Fprintf(&g.sb, "  cself = %s\n", target)
	}
	if i%2 == 0 && len(g.decls)%2 == 0 && !hasCount {
		// a block-local name inside the count meta-argument (size is written in every even block; no random draw)
		g.refs = append(g.refs, TfRef{Addr: "self.size", Attr: "count", Declared: true, AdmitsRef: true})
		fmt.Fprintf(&g.sb, "  count = self.size\n")
	}
	if typ == "aws" {
		fmt.Fprintf(&g.sb, "  zone = %q\n", "z1")
		d.Attrs = append(d.Attrs, "zone")
		if r.Intn(2) == 0 {
			w("region", g.anyExprWithRefs("region", 1))
		}
	} else if r.Intn(2) == 0 {
		w("project", g.anyExprWithRefs("project", 1))
	}
	// inside nested blocks self.* is not enabled: such a reference is written but admits no origin
	nestedVal := func(attr string) string {
		if len(d.Attrs) > 0 && r.Intn(4) == 0 {
			txt := "self." + d.Attrs[r.Intn(len(d.Attrs))]
			g.refs = append(g.refs, TfRef{Addr: txt, Attr: attr + "-nested-self", Declared: true, AdmitsRef: false})
			return txt
		}
		return g.anyExprWithRefs(attr, 1)
	}
	if r.Intn(3) == 0 {
		fmt.Fprintf(&g.sb, "  opts {\n    flag = true\n    via = %s\n  }\n", nestedVal("via"))
	}
	items := 0
	for k, n := 0, r.Intn(3); k < n; k++ {
		extra := ""
		if r.Intn(3) == 0 {
			extra = "    count = 2\n"
		}
		if k == 0 && i%2 == 1 {
			// a tuple written in the first element (no random draw)
			extra += "    pair = [\"x0\", \"x1\"]\n"
		}
		fmt.Fprintf(&g.sb, "  item {\n    val = %s\n%s  }\n", nestedVal("val"), extra)
		items++
	}
	if items > 0 {
		// a self reference into an element of a nested list block (no random draw: the streams stay as they were)
		txt := "self.item[0]." + []string{"val", "note", "zeta"}[(i+items)%3]
		if i%2 == 1 {
			txt = fmt.Sprintf("self.item[0].pair[%d]", items%2)
			if (items+len(g.decls))%2 == 0 {
				// the index steps written over several lines (newlines are insignificant between brackets)
				txt = fmt.Sprintf("self.item[\n    0\n  ].pair[\n    %d\n  ]", items%2)
			}
		}
		g.refs = append(g.refs, TfRef{Addr: txt, Attr: "elem", Declared: true, AdmitsRef: true})
		fmt.Fprintf(&g.sb, "  elem = %s\n", txt)
	}
	if r.Intn(4) == 0 {
		fmt.Fprintf(&g.sb, "  entry %q {\n    val = \"e\"\n  }\n", pick(r, []string{"k1", "größe"}))
	}
	if r.Intn(5) == 0 {
		fmt.Fprintf(&g.sb, "  unknown_attr = %s\n", g.refTextUnknownPlace())
	}
	g.sb.WriteString("}\n")
	g.decls = append(g.decls, d)
}

func (g *tfGen) refTextUnknownPlace() string {
	txt := "var." + pick(g.r, tfNames)
	g.refs = append(g.refs, TfRef{Addr: txt, Attr: "unknown_attr", Declared: false, AdmitsRef: false})
	return txt
}

func genTf(r *rand.Rand) *TfConfig {
	g := &tfGen{r: r}
	used := map[string]bool{}
	for i, n := 0, 1+r.Intn(4); i < n; i++ {
		name := pick(r, tfNames)
		if used[name] {
			continue
		}
		used[name] = true
		typ := pick(r, []string{"string", "number", "list(string)", "object({ a = string })", "", "tuple([string, number])", "tuple([])", "tuple([  ])", "tuple([string,  ])"})
		fmt.Fprintf(&g.sb, "variable %q {\n", name)
		if typ != "" {
			fmt.Fprintf(&g.sb, "  type = %s\n", typ)
		}
		if r.Intn(2) == 0 {
			fmt.Fprintf(&g.sb, "  default = %s\n", pick(r, []string{`"d"`, "1", `["x"]`, "null"}))
		}
		g.sb.WriteString("}\n")
		g.decls = append(g.decls, TfDecl{Addr: "var." + name, Kind: "variable", Typ: typ})
		if r.Intn(3) == 0 {
			g.sb.WriteString(pick(r, []string{"\n", "# コメント\n", "// c\n"}))
		}
	}
	if r.Intn(3) > 0 {
		g.sb.WriteString("locals {\n")
		usedL := map[string]bool{}
		for i, n := 0, 1+r.Intn(3); i < n; i++ {
			name := pick(r, tfNames)
			if usedL[name] {
				continue
			}
			usedL[name] = true
			val := pick(r, []string{`"s"`, "7", `["a", "b"]`, `{ k = "v", n = 1 }`, `{ k = ["a", "b", "c"], m = { q = "z", r = "y" } }`, `[["a", "b"], ["c"]]`})
			if r.Intn(3) == 0 {
				val = g.anyExprWithRefs("local:"+name, 1)
			}
			fmt.Fprintf(&g.sb, "  %s = %s\n", name, val)
			var sub []string
			switch val {
			case `{ k = "v", n = 1 }`:
				sub = []string{"k", "n"}
			case `{ k = ["a", "b", "c"], m = { q = "z", r = "y" } }`:
				sub = []string{"k", "m", "m.q", "m.r"}
			}
			g.decls = append(g.decls, TfDecl{Addr: "local." + name, Kind: "local", Attrs: sub})
		}
		g.sb.WriteString("}\n")
	}
	for i, n := 0, 1+r.Intn(3); i < n; i++ {
		g.resource(i)
	}
	for i, n := 0, r.Intn(3); i < n; i++ {
		dep := ""
		if r.Intn(3) == 0 {
			dep = "  dep = " + g.refText("dep", "variable", true) + "\n"
		}
		fmt.Fprintf(&g.sb, "output \"o%d\" {\n  value = %s\n%s}\n", i, g.anyExprWithRefs("value", 2), dep)
	}
	if r.Intn(3) == 0 {
		backend := pick(r, []string{"s3", "gcs", ""})
		fmt.Fprintf(&g.sb, "data \"remote_state\" \"d%d\" {\n  provider = \"p\"\n", r.Intn(3))
		if backend != "" {
			fmt.Fprintf(&g.sb, "  backend = %q\n", backend)
		}
		fmt.Fprintf(&g.sb, "  workspace = %s\n", g.anyExprWithRefs("workspace", 1))
		if backend == "s3" {
			g.sb.WriteString("  bucket = \"b\"\n")
		}
		if r.Intn(2) == 0 {
			g.sb.WriteString("  defaults {\n    region = \"r\"\n  }\n")
		}
		g.sb.WriteString("}\n")
	}
	if r.Intn(3) == 0 {
		kind := pick(r, []string{"role", "role", "plain"})
		fmt.Fprintf(&g.sb, "cfg %q {\n  extra = %s\n", kind, g.anyExprWithRefs("extra", 1))
		if kind == "role" {
			if r.Intn(2) == 0 {
				fmt.Fprintf(&g.sb, "  role = %s\n", g.refText("role", "variable", true))
			}
			if r.Intn(2) == 0 {
				g.sb.WriteString("  alias = \"al\"\n")
			}
		}
		if r.Intn(2) == 0 {
			g.sb.WriteString("  sub {\n    x = 1\n  }\n")
		}
		if r.Intn(2) == 0 {
			g.sb.WriteString("  backend {\n    path = \"p\"\n    bopts {\n      mode = \"m\"\n    }\n  }\n")
		}
		g.sb.WriteString("}\n")
	}
	return &TfConfig{Src: g.sb.String(), Decls: g.decls, Refs: g.refs}
}

// tfScenario builds a world for a generated configuration (targets/origins collected)
func tfScenario(r *rand.Rand) (*Scenario, *TfConfig) {
	cfg := genTf(r)
	w := newWorld()
	pd := w.AddPath("root", tfSchema(), map[string]string{"main.tf": cfg.Src}, genFunctions(r))
	s := &Scenario{W: w, Main: pd, File: "main.tf", Src: []byte(cfg.Src), Kind: "tf"}
	return s, cfg
}
