package main

// Correspondence case for Model/ValueHover.v: the hover ranges inside attribute values (with the body-level
// outcomes of Model/Hover.v) for the sampled positions of a file.

import (
	"github.com/hashicorp/hcl/v2"
	"github.com/hashicorp/hcl/v2/ext/typeexpr"
	"github.com/hashicorp/hcl/v2/hclsyntax"
)

func hoverTables(b *hclsyntax.Body, parens, opens, typeok *List) {
	for _, n := range sortedKeys(b.Attributes) {
		seen := map[hcl.Range]bool{}
		_ = hclsyntax.VisitAll(b.Attributes[n].Expr, func(nd hclsyntax.Node) hcl.Diagnostics {
			switch x := nd.(type) {
			case *hclsyntax.FunctionCallExpr:
				if !seen[x.Range()] {
					seen[x.Range()] = true
					*parens = append(*parens, L(rangeS(x.Range()), rangeS(hcl.RangeBetween(x.OpenParenRange, x.CloseParenRange))))
					func() {
						defer func() { _ = recover() }()
						if _, diags := typeexpr.TypeConstraint(x); len(diags) == 0 {
							*typeok = append(*typeok, rangeS(x.Range()))
						}
					}()
				}
			case *hclsyntax.ObjectConsExpr:
				*opens = append(*opens, L(rangeS(x.Range()), rangeS(x.OpenRange)))
			case *hclsyntax.TupleConsExpr:
				*opens = append(*opens, L(rangeS(x.Range()), rangeS(x.OpenRange)))
			}
			return nil
		})
	}
	for _, k := range b.Blocks {
		hoverTables(k.Body, parens, opens, typeok)
	}
}

// hoverValueCase: pairs = ((position observed-outcome)...) as for the "hovers" kind
func hoverValueCase(run *Run, sc *Scenario, body *hclsyntax.Body, pairs List) {
	if len(pairs) == 0 {
		return
	}
	exprs, vals := List{}, List{}
	allSexprs(sc.Main.Ctx, body, &exprs, &vals)
	parens, opens, typeok := List{}, List{}, List{}
	hoverTables(body, &parens, &opens, &typeok)
	run.Case("hoversv", []S{bodyS(body), sc.schemaS(), pairs, exprs, fsigsS(sc.Main.Ctx.Functions), vals, parens, opens, typeok}, T("allok"))
	run.Count("hoversv_files")
}
