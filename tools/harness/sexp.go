package main

import (
	"fmt"
	"strings"
)

// S is an s-expression in the format read by coq/Base/Sexp.v.
type S interface{ write(b *strings.Builder) }

type Atom string
type Str string
type List []S

func (a Atom) write(b *strings.Builder) { b.WriteString(string(a)) }
func (s Str) write(b *strings.Builder) {
	b.WriteByte('"')
	for i := 0; i < len(s); i++ {
		c := s[i]
		if c < 32 || c >= 127 || c == '"' || c == '\\' {
			fmt.Fprintf(b, "\\x%02x", c)
		} else {
			b.WriteByte(c)
		}
	}
	b.WriteByte('"')
}
func (l List) write(b *strings.Builder) {
	b.WriteByte('(')
	for i, x := range l {
		if i > 0 {
			b.WriteByte(' ')
		}
		x.write(b)
	}
	b.WriteByte(')')
}

func Show(s S) string {
	var b strings.Builder
	s.write(&b)
	return b.String()
}

func Int(i int) Atom     { return Atom(fmt.Sprintf("%d", i)) }
func Int64(i int64) Atom { return Atom(fmt.Sprintf("%d", i)) }
func Bool(v bool) Atom {
	if v {
		return "t"
	}
	return "f"
}
func L(xs ...S) List { return List(xs) }
func T(tag string, xs ...S) List {
	return append(List{Atom(tag)}, xs...)
}
