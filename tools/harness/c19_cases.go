package main

// Correspondence cases for Model/Json.v: schema-driven decoding of JSON bodies, native decoding,
// the JSON rendering, and references written in JSON strings.

import (
	gojson "encoding/json"
	"fmt"
	"math/rand"
	"sort"
	"strings"

	"github.com/hashicorp/hcl-lang/decoder"
	"github.com/hashicorp/hcl-lang/reference"
	"github.com/hashicorp/hcl-lang/schema"
	"github.com/hashicorp/hcl/v2"
	"github.com/hashicorp/hcl/v2/hclsyntax"
	"github.com/zclconf/go-cty/cty"
)

// ---- jval S-expressions
func (e DExpr) jvalS(legacy bool) S {
	switch e.Kind {
	case "str":
		return L(Atom("s"), Str(e.Str))
	case "num", "bool":
		return L(Atom("l"), Str(e.Str))
	case "ref":
		if legacy {
			return L(Atom("s"), Str(e.Str))
		}
		return L(Atom("s"), Str("${"+e.Str+"}"))
	case "tmpl":
		return L(Atom("s"), Str("pre-${"+e.Str+"}-post"))
	case "tmpl2":
		return L(Atom("s"), Str("${self.zone}-${"+e.Str+"}"))
	case "list":
		xs := List{Atom("a")}
		for _, i := range e.Items {
			xs = append(xs, i.jvalS(false))
		}
		return xs
	case "obj":
		xs := List{Atom("o")}
		for i, k := range e.Keys {
			xs = append(xs, L(Str(k), e.Items[i].jvalS(false)))
		}
		return xs
	}
	return L(Atom("null"))
}

type dGroup struct {
	Type  string
	Insts []DBlock
}

func (b DBody) groups() []dGroup {
	var gs []dGroup
	idx := map[string]int{}
	for _, k := range b.Blocks {
		i, ok := idx[k.Type]
		if !ok {
			i = len(gs)
			idx[k.Type] = i
			gs = append(gs, dGroup{Type: k.Type})
		}
		gs[i].Insts = append(gs[i].Insts, k)
	}
	return gs
}

// the JSON value tree of the rendering (same structure as DBody.json writes)
func (b DBody) jvalS(legacy map[string]bool) S {
	xs := List{Atom("o")}
	for _, a := range b.Attrs {
		xs = append(xs, L(Str(a.Name), a.Val.jvalS(legacy[a.Name])))
	}
	for _, g := range b.groups() {
		arr := List{Atom("a")}
		for _, k := range g.Insts {
			var inner S = k.Body.jvalS(legacy)
			for i := len(k.Labels) - 1; i >= 0; i-- {
				inner = L(Atom("o"), L(Str(k.Labels[i]), inner))
			}
			arr = append(arr, inner)
		}
		xs = append(xs, L(Str(g.Type), arr))
	}
	return xs
}

// (body ((name jval)...) ((type ((labels...) body)...)...))
func (b DBody) dbodyS(legacy map[string]bool) S {
	attrs := List{}
	for _, a := range b.Attrs {
		attrs = append(attrs, L(Str(a.Name), a.Val.jvalS(legacy[a.Name])))
	}
	groups := List{}
	for _, g := range b.groups() {
		insts := List{}
		for _, k := range g.Insts {
			ls := List{}
			for _, l := range k.Labels {
				ls = append(ls, Str(l))
			}
			insts = append(insts, L(ls, k.Body.dbodyS(legacy)))
		}
		groups = append(groups, L(Str(g.Type), insts))
	}
	return L(Atom("body"), attrs, groups)
}

// ---- the part of a schema the JSON decoder looks at
func jschemaS(b *schema.BodySchema) (S, bool) {
	if b == nil {
		return L(Atom("sch"), L(), Bool(false), L(), Bool(false)), true
	}
	names := List{}
	for _, n := range sortedKeys(b.Attributes) {
		names = append(names, Str(n))
	}
	blocks := List{}
	for _, t := range sortedKeys(b.Blocks) {
		k := b.Blocks[t]
		body, ok := jschemaS(k.Body)
		if !ok {
			return nil, false
		}
		deps := List{}
		var keys []string
		for key := range k.DependentBody {
			keys = append(keys, string(key))
		}
		sort.Strings(keys)
		for _, key := range keys {
			var dk struct {
				Labels []struct {
					Index int    `json:"index"`
					Value string `json:"value"`
				} `json:"labels"`
				Attrs []struct {
					Name string `json:"name"`
					Expr struct {
						Static *string `json:"static"`
					} `json:"expr"`
				} `json:"attrs"`
			}
			if err := gojson.Unmarshal([]byte(key), &dk); err != nil {
				return nil, false
			}
			d, ok := jschemaS(k.DependentBody[schema.SchemaKey(key)])
			if !ok {
				return nil, false
			}
			if len(dk.Labels) == 0 && len(dk.Attrs) == 1 && dk.Attrs[0].Expr.Static != nil && k.Body != nil {
				// selected by one attribute value (as written, or its default)
				def := S(Nil)
				if as := k.Body.Attributes[dk.Attrs[0].Name]; as != nil {
					if dv, isDef := as.DefaultValue.(schema.DefaultValue); isDef && dv.Value.Type() == cty.String && dv.Value.IsKnown() && !dv.Value.IsNull() {
						def = Str(dv.Value.AsString())
					}
				}
				deps = append(deps, L(Atom("attr"), Str(dk.Attrs[0].Name), Str(*dk.Attrs[0].Expr.Static), def, d))
				continue
			}
			if len(dk.Labels) != 1 || len(dk.Attrs) != 0 {
				// (bodies selected by label AND attribute - two-step lookups - are outside the JSON model:
				// configurations using such block types are not turned into model cases)
				continue
			}
			deps = append(deps, L(Int(dk.Labels[0].Index), Str(dk.Labels[0].Value), d))
		}
		blocks = append(blocks, L(Str(t), Int(len(k.Labels)), body, deps))
	}
	return L(Atom("sch"), names, Bool(b.AnyAttribute != nil), blocks, Bool(b.Extensions != nil && b.Extensions.DynamicBlocks)), true
}

// ---- what the implementation decodes
func nativeExprJSONText(e hcl.Expression, src []byte) string {
	switch x := e.(type) {
	case *hclsyntax.TemplateExpr:
		return string(x.Range().SliceBytes(src))
	case *hclsyntax.LiteralValueExpr:
		return string(x.Range().SliceBytes(src))
	case *hclsyntax.ScopeTraversalExpr:
		return `"${` + string(x.Range().SliceBytes(src)) + `}"`
	case *hclsyntax.TupleConsExpr:
		var xs []string
		for _, i := range x.Exprs {
			xs = append(xs, nativeExprJSONText(i, src))
		}
		return "[" + strings.Join(xs, ", ") + "]"
	case *hclsyntax.ObjectConsExpr:
		var xs []string
		for _, it := range x.Items {
			k := string(it.KeyExpr.Range().SliceBytes(src))
			xs = append(xs, fmt.Sprintf("%q: %s", k, nativeExprJSONText(it.ValueExpr, src)))
		}
		return "{" + strings.Join(xs, ", ") + "}"
	}
	return "?" + string(e.Range().SliceBytes(src))
}

func realContentS(body hcl.Body, sch *schema.BodySchema, src []byte, native bool) S {
	attrs, blocks := decoder.VerifDecodeBody(body, sch)
	as := List{}
	for _, n := range sortedKeys(attrs) {
		var text string
		if native {
			text = nativeExprJSONText(attrs[n].Expr, src)
		} else {
			text = string(attrs[n].Expr.Range().SliceBytes(src))
		}
		as = append(as, L(Str(n), Str(text)))
	}
	bs := List{}
	for _, k := range blocks {
		var inner *schema.BodySchema
		if sch != nil {
			if ks, ok := sch.Blocks[k.Type]; ok && ks != nil {
				inner, _ = decoder.VerifMergeBlockBodySchemas(k, ks)
			}
		}
		ls := List{}
		for _, l := range k.Labels {
			ls = append(ls, Str(l))
		}
		bs = append(bs, L(Str(k.Type), ls, realContentS(k.Body, inner, src, native)))
	}
	return L(Atom("content"), as, bs)
}

func jsonCases(run *Run, db DBody, nat, js string) {
	for _, k := range db.Blocks {
		if k.Type == "data" || k.Type == "plug" {
			return // two-step dependent bodies, properties unknown to the schema: paired-rendering oracle only
		}
	}
	sch := tfSchema()
	schS, ok := jschemaS(sch)
	if !ok {
		return
	}
	legacy := map[string]bool{"ref": true, "dep": true, "decl": true}
	fj := parseFile("main.tf.json", []byte(js))
	fn := parseFile("main.tf", []byte(nat))
	if fj == nil || fn == nil {
		return
	}
	obsJ := realContentS(fj.Body, sch, []byte(js), false)
	run.Case("jsondecode", []S{schS, db.jvalS(legacy)}, obsJ)
	run.Case("tojson", []S{schS, db.dbodyS(legacy)}, L(Atom("conforms"), obsJ))
	run.Case("nativedecode", []S{db.dbodyS(nil)}, realContentS(fn.Body, sch, []byte(nat), true))
}

// ---- references in JSON strings
func genTravText(r *rand.Rand) string {
	idents := []string{"var", "local", "res", "a", "x_1", "a-b", "Z9", "_u"}
	s := pick(r, idents)
	for i, n := 0, r.Intn(4); i < n; i++ {
		if r.Intn(3) == 0 {
			s += fmt.Sprintf("[%d]", r.Intn(30))
		} else {
			s += "." + pick(r, idents)
		}
	}
	return s
}

func jsonRefCases(run *Run, r *rand.Rand, n int) {
	sch := &schema.BodySchema{Attributes: map[string]*schema.AttributeSchema{
		"ref": {IsOptional: true, Constraint: schema.Reference{OfType: cty.String}},
	}}
	for i := 0; i < n; i++ {
		t := genTravText(r)
		var s string
		switch r.Intn(12) {
		case 0, 1, 2:
			s = t
		case 3, 4, 5:
			s = "${" + t + "}"
		case 6:
			s = "${ " + t + " }"
		case 7:
			s = "x-${" + t + "}"
		case 8:
			s = "${" + t + "}${" + genTravText(r) + "}"
		case 9:
			s = "${" + t + "}-x"
		case 10:
			s = t + pick(r, []string{".", "[", " x", "[a]", "..y", "}", "[1"})
		default:
			s = pick(r, []string{"${", "${}", "}", "$", "1x", "a b", "${1}", "${[0]}", ".a"}) // never empty: an empty JSON string is a separate parser path
		}
		src := fmt.Sprintf(`{"ref": %q}`, s)
		if strings.ContainsAny(s, `"\`) {
			continue
		}
		w := newWorld()
		pd := w.AddPath("root", sch, map[string]string{"main.tf.json": src}, nil)
		w.Collect()
		obs := L(Atom("none"))
		if len(pd.Ctx.ReferenceOrigins) == 1 {
			if lo, ok := pd.Ctx.ReferenceOrigins[0].(reference.LocalOrigin); ok {
				obs = L(Atom("origin"), Str(lo.Addr.String()))
			}
		} else if len(pd.Ctx.ReferenceOrigins) > 1 {
			obs = L(Atom("several"), Int(len(pd.Ctx.ReferenceOrigins)))
		}
		run.Case("jsonref", []S{Str(s)}, obs)
		run.Count("jsonref_" + Show(obs[0]))
	}
}

// ---- generic JSON trees: other spellings of the same configuration and malformed ones
type JV struct {
	Kind  string // null | s | l | a | o
	Str   string
	Items []JV
	Keys  []string // for o
}

func jvOfS(x S) JV {
	l := x.(List)
	switch string(l[0].(Atom)) {
	case "null":
		return JV{Kind: "null"}
	case "s":
		return JV{Kind: "s", Str: string(l[1].(Str))}
	case "l":
		return JV{Kind: "l", Str: string(l[1].(Str))}
	case "a":
		v := JV{Kind: "a"}
		for _, e := range l[1:] {
			v.Items = append(v.Items, jvOfS(e))
		}
		return v
	default:
		v := JV{Kind: "o"}
		for _, e := range l[1:] {
			kv := e.(List)
			v.Keys = append(v.Keys, string(kv[0].(Str)))
			v.Items = append(v.Items, jvOfS(kv[1]))
		}
		return v
	}
}

func (v JV) S() S {
	switch v.Kind {
	case "null":
		return L(Atom("null"))
	case "s", "l":
		return L(Atom(v.Kind), Str(v.Str))
	case "a":
		xs := List{Atom("a")}
		for _, i := range v.Items {
			xs = append(xs, i.S())
		}
		return xs
	}
	xs := List{Atom("o")}
	for i, k := range v.Keys {
		xs = append(xs, L(Str(k), v.Items[i].S()))
	}
	return xs
}

func (v JV) text() string {
	switch v.Kind {
	case "null":
		return "null"
	case "s":
		return `"` + v.Str + `"`
	case "l":
		return v.Str
	case "a":
		var xs []string
		for _, i := range v.Items {
			xs = append(xs, i.text())
		}
		return "[" + strings.Join(xs, ", ") + "]"
	}
	var xs []string
	for i, k := range v.Keys {
		xs = append(xs, `"`+k+`": `+v.Items[i].text())
	}
	return "{" + strings.Join(xs, ", ") + "}"
}

// mutate rewrites a body value (object) under the given schema into another spelling, or breaks it
func mutateBody(r *rand.Rand, v JV, sch *schema.BodySchema, top bool) JV {
	if v.Kind != "o" {
		return v
	}
	out := JV{Kind: "o"}
	add := func(k string, x JV) { out.Keys = append(out.Keys, k); out.Items = append(out.Items, x) }
	for i, k := range v.Keys {
		val := v.Items[i]
		var bs *schema.BlockSchema
		if sch != nil {
			bs = sch.Blocks[k]
		}
		if bs != nil {
			val = mutateBlockValue(r, val, bs, len(bs.Labels))
			if r.Intn(25) == 0 {
				val = pick(r, []JV{{Kind: "null"}, {Kind: "s", Str: "oops"}, {Kind: "l", Str: "7"}, {Kind: "a"}})
			}
		}
		add(k, val)
		if r.Intn(12) == 0 {
			add(pick(r, []string{"//", "unknown_member", "zz"}), pick(r, []JV{{Kind: "s", Str: "comment"}, {Kind: "o"}, {Kind: "a", Items: []JV{{Kind: "l", Str: "1"}}}}))
		}
	}
	if !top && len(out.Keys) > 1 && r.Intn(6) == 0 {
		// a body may be an array of objects whose members are collected in order
		cut := 1 + r.Intn(len(out.Keys)-1)
		a := JV{Kind: "o", Keys: out.Keys[:cut], Items: out.Items[:cut]}
		b := JV{Kind: "o", Keys: out.Keys[cut:], Items: out.Items[cut:]}
		arr := JV{Kind: "a", Items: []JV{a, b}}
		if r.Intn(3) == 0 {
			arr.Items = append(arr.Items, pick(r, []JV{{Kind: "null"}, {Kind: "s", Str: "x"}}))
		}
		return arr
	}
	return out
}

func mutateBlockValue(r *rand.Rand, v JV, bs *schema.BlockSchema, labelsLeft int) JV {
	if labelsLeft == 0 {
		body := func(b JV) JV {
			// the instance's schema: static body only is enough to find nested block types
			return mutateBody(r, b, bs.Body, false)
		}
		switch v.Kind {
		case "a":
			out := JV{Kind: "a"}
			for _, i := range v.Items {
				out.Items = append(out.Items, body(i))
			}
			if len(out.Items) == 1 && r.Intn(2) == 0 && out.Items[0].Kind == "o" {
				return out.Items[0] // a single instance may be written as an object
			}
			return out
		case "o":
			return body(v)
		}
		return v
	}
	switch v.Kind {
	case "a":
		out := JV{Kind: "a"}
		for _, i := range v.Items {
			out.Items = append(out.Items, mutateBlockValue(r, i, bs, labelsLeft))
		}
		// adjacent single-label objects may be merged into one object
		if r.Intn(2) == 0 {
			merged := JV{Kind: "o"}
			ok := true
			for _, i := range out.Items {
				if i.Kind != "o" {
					ok = false
					break
				}
				merged.Keys = append(merged.Keys, i.Keys...)
				merged.Items = append(merged.Items, i.Items...)
			}
			seen := map[string]bool{}
			for _, k := range merged.Keys {
				if seen[k] {
					ok = false
				}
				seen[k] = true
			}
			if ok && len(merged.Keys) > 0 {
				return merged
			}
		}
		return out
	case "o":
		out := JV{Kind: "o"}
		for i, k := range v.Keys {
			out.Keys = append(out.Keys, k)
			out.Items = append(out.Items, mutateBlockValue(r, v.Items[i], bs, labelsLeft-1))
		}
		return out
	}
	return v
}

func jsonVariantCases(run *Run, r *rand.Rand, db DBody) {
	for _, k := range db.Blocks {
		if k.Type == "data" || k.Type == "plug" {
			return
		}
	}
	sch := tfSchema()
	schS, ok := jschemaS(sch)
	if !ok {
		return
	}
	v := mutateBody(r, jvOfS(db.jvalS(map[string]bool{"ref": true, "dep": true, "decl": true})), sch, true)
	src := v.text()
	f := parseFile("main.tf.json", []byte(src))
	if f == nil {
		run.Count("variant_unparsed")
		return
	}
	run.Count("variant")
	run.Case("jsondecode", []S{schS, v.S()}, realContentS(f.Body, sch, []byte(src), false))
}
