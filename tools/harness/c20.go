package main

// C20: signature help names the innermost enclosing call and the argument being typed.

import (
	"context"
	"fmt"
	"math/rand"
	"strings"

	"github.com/hashicorp/hcl-lang/lang"
	"github.com/hashicorp/hcl-lang/schema"
	"github.com/hashicorp/hcl/v2"
	"github.com/hashicorp/hcl/v2/hclsyntax"
	"github.com/zclconf/go-cty/cty"
	"github.com/zclconf/go-cty/cty/function"
)

func init() { props["C20"] = runC20 }

func genSigFunctions(r *rand.Rand) map[string]schema.FunctionSignature {
	fs := map[string]schema.FunctionSignature{}
	types := []cty.Type{cty.String, cty.Number, cty.Bool, cty.List(cty.String), cty.DynamicPseudoType}
	for i := 0; i < 6; i++ {
		var ps []function.Parameter
		for j, n := 0, r.Intn(4); j < n; j++ {
			ps = append(ps, function.Parameter{Name: fmt.Sprintf("p%d", j), Type: pick(r, types), Description: pick(r, []string{"", "param desc"})})
		}
		f := schema.FunctionSignature{Params: ps, ReturnType: pick(r, types), Description: pick(r, []string{"", "fn desc"})}
		if r.Intn(3) == 0 {
			f.VarParam = &function.Parameter{Name: "rest", Type: pick(r, types), Description: "variadic"}
		}
		fs[fmt.Sprintf("f%d", i)] = f
	}
	if r.Intn(2) == 0 {
		// signatures generated as prefixes of one parameter list (slices sharing a backing array with
		// spare capacity), each with a variadic parameter
		pool := make([]function.Parameter, 0, 8)
		for j := 0; j < 5; j++ {
			pool = append(pool, function.Parameter{Name: fmt.Sprintf("q%d", j), Type: pick(r, types)})
		}
		for n := 1; n <= 5; n++ {
			fs[fmt.Sprintf("g%d", n)] = schema.FunctionSignature{Params: pool[:n], ReturnType: cty.String,
				VarParam: &function.Parameter{Name: "more", Type: cty.String}}
		}
	}
	fs["noargs"] = schema.FunctionSignature{ReturnType: cty.String}
	fs["ns::fn::x"] = schema.FunctionSignature{ReturnType: cty.String, Params: []function.Parameter{{Name: "a", Type: cty.String}}}
	return fs
}

func genCallExpr(r *rand.Rand, d int) string {
	if d <= 0 || r.Intn(4) == 0 {
		return pick(r, []string{"1", `"s"`, "var.a", "true", "[1, 2]", `{ k = "v" }`, `"é"`, "local.x[0]",
			// arguments whose start is not where their first token of interest stands (index with a computed key, splat, operators)
			"var.keys[count.index]", "res.web[*].id", "var.m[var.k].x", "var.c ? var.a : var.b", "var.l[var.i] + 1", "!var.flags[var.i]"})
	}
	name := pick(r, []string{"f0", "f1", "f2", "f3", "f4", "f5", "noargs", "unknown", "ns::fn::x", "g1", "g2", "g3", "g4", "g5"})
	n := r.Intn(5)
	var args []string
	for i := 0; i < n; i++ {
		args = append(args, genCallExpr(r, d-1))
	}
	sep := pick(r, []string{", ", ",", " , ", ",\n    "})
	s := name + "(" + strings.Join(args, sep)
	switch r.Intn(8) {
	case 0:
		s += ", " // trailing comma
	case 1:
		s += ",  "
	}
	if r.Intn(10) == 0 {
		return s // missing parenthesis
	}
	return s + ")"
}

func callsInOrder(body *hclsyntax.Body) []*hclsyntax.FunctionCallExpr {
	var out []*hclsyntax.FunctionCallExpr
	hclsyntax.VisitAll(body, func(n hclsyntax.Node) hcl.Diagnostics {
		if c, ok := n.(*hclsyntax.FunctionCallExpr); ok {
			out = append(out, c)
		}
		return nil
	})
	return out
}

func sigFuncsS(fs map[string]schema.FunctionSignature) S {
	l := List{}
	for _, n := range sortedKeys(fs) {
		f := fs[n]
		ps := List{}
		for _, p := range f.Params {
			ps = append(ps, L(Str(p.Name), Str(p.Type.FriendlyName()), Str(p.Description)))
		}
		v := S(Nil)
		if f.VarParam != nil {
			v = L(Str(f.VarParam.Name), Str(f.VarParam.Type.FriendlyName()), Str(f.VarParam.Description))
		}
		l = append(l, L(Str(n), ps, v, Str(f.ReturnType.FriendlyName()), Str(f.Description)))
	}
	return l
}

func sigObservedS(s *lang.FunctionSignature) S {
	if s == nil {
		return T("nosig")
	}
	ps := List{}
	for _, p := range s.Parameters {
		ps = append(ps, L(Str(p.Name), Str(p.Description.Value)))
	}
	return T("sig", Str(s.Name), Str(s.Description.Value), ps, Int(int(s.ActiveParameter)))
}

func runC20(run *Run, replay string) {
	run.Res.Rule = "generated function tables (0-3 fixed parameters, with/without variadic, parameterless, namespaced) x files of attributes whose values nest calls to depth 3 with literals, references, collections as arguments, complete and half-typed (trailing comma, missing closing parenthesis, multi-line argument lists, multi-byte strings), plus typing-history states x every byte offset; SignatureAtPos must equal the model; direct oracle: a signature implies an enclosing known call, the parameter list is fixed+variadic of the named function, the active parameter is a valid index, the named call is the innermost known call whose parentheses contain the cursor; distinct non-trivial = distinct (file text, offset) with a signature"
	bases, hist := 40, 5
	if run.Thorough {
		bases, hist = 500, 25
	}
	for bi := 0; bi < bases; bi++ {
		r := rand.New(rand.NewSource(subSeed(run.Res.Seed, bi)))
		funcs := genSigFunctions(r)
		var sb strings.Builder
		for i, n := 0, 1+r.Intn(4); i < n; i++ {
			fmt.Fprintf(&sb, "a%d = %s\n", i, genCallExpr(r, 3))
		}
		if r.Intn(3) == 0 {
			fmt.Fprintf(&sb, "blk {\n  x = %s\n}\n", genCallExpr(r, 2))
		}
		// a function with a variadic parameter only
		funcs["vonly"] = schema.FunctionSignature{ReturnType: cty.String, VarParam: &function.Parameter{Name: "items", Type: cty.String, Description: "variadic only"}}
		served := funcs
		if bi%2 == 1 {
			// the table handed to the decoder is a copy of the generated one (as a table derived per request is)
			served = map[string]schema.FunctionSignature{}
			for k, v := range funcs {
				v := v
				served[k] = *v.Copy()
			}
			fmt.Fprintf(&sb, "zv = vonly(\"a\", noargs(), 3)\n")
		}
		if _, ok := funcs["g1"]; ok {
			// calls with more arguments than fixed parameters to the functions cut from one shared parameter list
			fmt.Fprintf(&sb, "zg = g1(\"a\", g2(1, 2, 3, 4), \"c\")\n")
		}
		base := sb.String()
		texts := append([]string{base}, histories(r, base, hist)...)
		for ti, text := range texts {
			switch bi % 5 {
			case 2:
				text = "/* header */ " + text // the root body starts behind the comment
			case 4:
				text = "  " + text // ... or behind the indentation of the first item
			}
			w := newWorld()
			// the table as generated, rendered before any query has run
			funcsBefore := sigFuncsS(funcs)
			// (a schema under which every attribute value is an expression of any type, so that the other requests look into the calls)
			anyAttr := &schema.AttributeSchema{IsOptional: true, Constraint: schema.AnyExpression{OfType: cty.DynamicPseudoType}}
			sch := &schema.BodySchema{AnyAttribute: anyAttr, Blocks: map[string]*schema.BlockSchema{"blk": {Body: &schema.BodySchema{AnyAttribute: anyAttr}}}}
			pd := w.AddPath("root", sch, map[string]string{"main.tf": text}, served)
			f := pd.Ctx.Files["main.tf"]
			body, ok := f.Body.(*hclsyntax.Body)
			if !ok {
				continue
			}
			calls := callsInOrder(body)
			cs := List{}
			for _, c := range calls {
				args := List{}
				for _, a := range c.Args {
					args = append(args, rangeS(a.Range()))
				}
				cs = append(cs, L(Str(c.Name), rangeS(c.Range()), rangeS(c.OpenParenRange), rangeS(c.CloseParenRange), args))
			}
			d, _ := w.Dec.Path(pd.Path)
			// other requests of an editing session come first (they are given the same function table)
			safeCall("SemanticTokensInFile", func() (interface{}, error) { return d.SemanticTokensInFile(context.Background(), "main.tf") })
			safeCall("CollectReferenceOrigins", func() (interface{}, error) { return d.CollectReferenceOrigins() })
			src := []byte(text)
			tbl := lcTable(src)
			pairs := List{}
			loc := map[string]interface{}{"seed": run.Res.Seed, "base": bi, "text": ti, "src": text}
			_, pdg := hclsyntax.ParseConfig(src, "main.tf", hcl.InitialPos)
			clean := !pdg.HasErrors()
			for off := 0; off <= len(src); off++ {
				pos, ok := tbl[off]
				if !ok {
					continue
				}
				res := safeCall("SignatureAtPos", func() (interface{}, error) { return d.SignatureAtPos("main.tf", pos) })
				run.Res.Evaluations++
				if res.Panic != "" {
					continue
				}
				// an error (position outside the root body, e.g. inside a leading comment) is "no signature"
				var sig *lang.FunctionSignature
				if res.Err == nil {
					sig, _ = res.Val.(*lang.FunctionSignature)
				} else {
					run.Count("positions_answered_with_an_error")
				}
				pairs = append(pairs, L(posS(pos), sigObservedS(sig)))
				q := Query{Name: "SignatureAtPos", Pos: &pos, File: "main.tf"}
				// ---- direct oracle
				// innermost known call whose parentheses contain the cursor (or a known parameterless call containing it)
				var inner *hclsyntax.FunctionCallExpr
				for _, c := range calls {
					fs, known := funcs[c.Name]
					if !known || !c.Range().ContainsPos(pos) {
						continue
					}
					par := hcl.RangeBetween(c.OpenParenRange, c.CloseParenRange)
					if (len(fs.Params) == 0 && fs.VarParam == nil) || par.ContainsPos(pos) {
						if inner == nil || (c.Range().Start.Byte >= inner.Range().Start.Byte && c.Range().End.Byte <= inner.Range().End.Byte) {
							inner = c
						}
					}
				}
				if sig != nil {
					run.Distinct(fmt.Sprintf("%s|%d", text, off))
					run.Count("with_signature")
					if inner == nil {
						run.Violate(Violation{Key: "C20/signature-outside-any-call", Rule: "a signature is returned only inside the parentheses of a call to a known function", Func: "SignatureAtPos", Detail: sig.Name, Replay: locWith(loc, q)})
					} else if clean && !strings.HasPrefix(sig.Name, inner.Name+"(") {
						run.Violate(Violation{Key: "C20/not-innermost", Rule: "it is the signature of the innermost such call", Func: "SignatureAtPos",
							Detail: fmt.Sprintf("got %s, innermost known call is %s", sig.Name, inner.Name), Replay: locWith(loc, q)})
					}
					if len(sig.Parameters) > 0 && int(sig.ActiveParameter) >= len(sig.Parameters) {
						run.Violate(Violation{Key: "C20/active-parameter-out-of-range", Rule: "the active parameter is always a valid index", Func: "SignatureAtPos",
							Detail: fmt.Sprintf("%d of %d", sig.ActiveParameter, len(sig.Parameters)), Replay: locWith(loc, q)})
					}
					name := strings.SplitN(sig.Name, "(", 2)[0]
					if fs, ok := funcs[name]; ok {
						want := len(fs.Params)
						if fs.VarParam != nil {
							want++
						}
						okp := len(sig.Parameters) == want
						for i := 0; okp && i < len(fs.Params); i++ {
							okp = sig.Parameters[i].Name == fs.Params[i].Name
						}
						if okp && fs.VarParam != nil {
							okp = sig.Parameters[want-1].Name == fs.VarParam.Name
						}
						if !okp {
							run.Violate(Violation{Key: "C20/wrong-parameter-list", Rule: "its parameter list is the function's fixed parameters followed by the variadic one", Func: "SignatureAtPos", Detail: sig.Name, Replay: locWith(loc, q)})
						}
					}
				} else {
					run.Count("no_signature")
					if clean && inner != nil {
						fs := funcs[inner.Name]
						// a signature must be there unless the cursor is in a surplus slot of a non-variadic function
						before := 0
						for _, a := range inner.Args {
							if a.Range().End.Byte <= pos.Byte && !(a.Range().End.Byte == pos.Byte) {
								before++
							}
						}
						if fs.VarParam != nil || before < len(fs.Params) || (len(fs.Params) == 0) {
							if !(len(fs.Params) > 0 && before >= len(fs.Params)) {
								run.Violate(Violation{Key: "C20/missing-signature", Rule: "inside the parentheses of a call to a known function the signature of the innermost such call is returned", Func: "SignatureAtPos",
									Detail: fmt.Sprintf("no signature inside %s(...) with %d argument(s) before the cursor", inner.Name, before), Replay: locWith(loc, q)})
							}
						}
					}
				}
			}
			run.Case("signatures", []S{funcsBefore, Str(text), cs, pairs}, T("allok"))
			if len(run.Res.Samples) < 2 && ti == 0 {
				run.Sample(map[string]interface{}{"src": text, "calls": len(calls)})
			}
		}
	}
}
