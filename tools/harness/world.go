package main

import (
	"sync"
	"os"
	"runtime/debug"
	"context"
	"fmt"
	"math/rand"
	"runtime"
	"sort"
	"strings"
	"time"

	"github.com/apparentlymart/go-textseg/v15/textseg"
	"github.com/hashicorp/hcl-lang/decoder"
	"github.com/hashicorp/hcl-lang/lang"
	"github.com/hashicorp/hcl-lang/reference"
	"github.com/hashicorp/hcl-lang/schema"
	"github.com/hashicorp/hcl-lang/validator"
	"github.com/hashicorp/hcl/v2"
	"github.com/hashicorp/hcl/v2/hclsyntax"
	"github.com/hashicorp/hcl/v2/json"
	"github.com/zclconf/go-cty/cty"
)

type PathData struct {
	Path   lang.Path
	Schema *schema.BodySchema
	Src    map[string][]byte
	Ctx    *decoder.PathContext
	Fail   bool
}

type World struct {
	Paths []*PathData
	Dec   *decoder.Decoder
	// what the "echo" completion hook was last called with
	HookCalls []HookCall
	hookMu    sync.Mutex
}

type HookCall struct {
	Prefix   string
	Pos      hcl.Pos
	PosOk    bool
	Filename string
	Max      uint
	Path     lang.Path
}

type reader struct{ w *World }

func (r reader) Paths(ctx context.Context) []lang.Path {
	var ps []lang.Path
	for _, p := range r.w.Paths {
		ps = append(ps, p.Path)
	}
	return ps
}

func (r reader) PathContext(path lang.Path) (*decoder.PathContext, error) {
	for _, p := range r.w.Paths {
		if p.Path.Path == path.Path && p.Path.LanguageID == path.LanguageID {
			if p.Fail {
				return nil, fmt.Errorf("path %q cannot be read", path.Path)
			}
			return p.Ctx, nil
		}
	}
	return nil, fmt.Errorf("no such path %q", path.Path)
}

var stockValidators = []validator.Validator{
	validator.BlockLabelsLength{},
	validator.DeprecatedAttribute{},
	validator.DeprecatedBlock{},
	validator.MaxBlocks{},
	validator.MinBlocks{},
	validator.MissingRequiredAttribute{},
	validator.UnexpectedAttribute{},
	validator.UnexpectedBlock{},
}

func parseFile(name string, src []byte) *hcl.File {
	if strings.HasSuffix(name, ".json") {
		f, _ := json.Parse(src, name)
		return f
	}
	f, _ := hclsyntax.ParseConfig(src, name, hcl.InitialPos)
	return f
}

func newWorld() *World {
	w := &World{}
	w.Dec = decoder.NewDecoder(reader{w})
	dc := decoder.NewDecoderContext()
	dc.CompletionHooks["hook1"] = func(ctx context.Context, value cty.Value) ([]decoder.Candidate, error) {
		return []decoder.Candidate{{Label: "hooked", Kind: lang.StringCandidateKind, RawInsertText: `"hooked"`}}, nil
	}
	// hooks returning many candidates: "many60" -> 60, "many99" -> 99, "many1" -> 1
	for _, n := range []int{1, 30, 60, 99} {
		n := n
		dc.CompletionHooks[fmt.Sprintf("many%d", n)] = func(ctx context.Context, value cty.Value) ([]decoder.Candidate, error) {
			out := make([]decoder.Candidate, n)
			for i := range out {
				out[i] = decoder.Candidate{Label: fmt.Sprintf("hooked-%03d", i), Kind: lang.StringCandidateKind, RawInsertText: fmt.Sprintf("\"h%03d\"", i)}
			}
			return out, nil
		}
	}
	// "echo": one candidate naming the text the hook was handed; the call is recorded
	dc.CompletionHooks["echo"] = func(ctx context.Context, value cty.Value) ([]decoder.Candidate, error) {
		hc := HookCall{}
		if value.Type() == cty.String && value.IsKnown() && !value.IsNull() {
			hc.Prefix = value.AsString()
		}
		hc.Pos, hc.PosOk = decoder.PosFromContext(ctx)
		hc.Filename, _ = decoder.FilenameFromContext(ctx)
		hc.Max, _ = decoder.MaxCandidatesFromContext(ctx)
		hc.Path, _ = decoder.PathFromContext(ctx)
		w.hookMu.Lock()
		w.HookCalls = append(w.HookCalls, hc)
		w.hookMu.Unlock()
		return []decoder.Candidate{{Label: "echo:" + hc.Prefix, Kind: lang.StringCandidateKind, RawInsertText: fmt.Sprintf("%q", hc.Prefix+"-done")}}, nil
	}
	w.Dec.SetContext(dc)
	return w
}

func (w *World) AddPath(path string, sch *schema.BodySchema, files map[string]string, funcs map[string]schema.FunctionSignature) *PathData {
	pd := &PathData{Path: lang.Path{Path: path, LanguageID: "hcl"}, Schema: sch, Src: map[string][]byte{}}
	pd.Ctx = &decoder.PathContext{Schema: sch, Files: map[string]*hcl.File{}, Functions: funcs, Validators: stockValidators,
		ReferenceTargets: reference.Targets{}, ReferenceOrigins: reference.Origins{}}
	for n, s := range files {
		pd.Src[n] = []byte(s)
		f := parseFile(n, []byte(s))
		if f != nil {
			pd.Ctx.Files[n] = f
		}
	}
	w.Paths = append(w.Paths, pd)
	return pd
}

// Collect fills the path contexts with collected targets/origins (as a language server does).
var collectCount int

type CollectRes struct {
	P *PathData
	R QResult
}

func (w *World) Collect() []CollectRes {
	var out []CollectRes
	for _, p := range w.Paths {
		if p.Fail {
			continue
		}
		p := p
		rt := safeCall("CollectReferenceTargets", func() (interface{}, error) {
			d, err := w.Dec.Path(p.Path)
			if err != nil {
				return nil, err
			}
			return d.CollectReferenceTargets()
		})
		out = append(out, CollectRes{p, rt})
		// every other collection is stored the way a language server's state store would: as a copy
		collectCount++
		asCopy := collectCount%2 == 0
		if t, ok := rt.Val.(reference.Targets); ok && rt.Panic == "" {
			p.Ctx.ReferenceTargets = t
			if asCopy {
				p.Ctx.ReferenceTargets = t.Copy()
			}
		}
		ro := safeCall("CollectReferenceOrigins", func() (interface{}, error) {
			d, err := w.Dec.Path(p.Path)
			if err != nil {
				return nil, err
			}
			return d.CollectReferenceOrigins()
		})
		out = append(out, CollectRes{p, ro})
		if o, ok := ro.Val.(reference.Origins); ok && ro.Panic == "" {
			p.Ctx.ReferenceOrigins = o
			if asCopy {
				p.Ctx.ReferenceOrigins = o.Copy()
			}
		}
	}
	return out
}

type QResult struct {
	Name      string
	Panic     string // panic message, "" if none
	PanicFunc string // innermost hcl-lang function on the panicking stack
	Timeout   bool
	Err       error
	Val       interface{}
}

func panicFunc() string {
	pcs := make([]uintptr, 64)
	n := runtime.Callers(3, pcs)
	frames := runtime.CallersFrames(pcs[:n])
	for {
		fr, more := frames.Next()
		if strings.Contains(fr.Function, "github.com/hashicorp/hcl-lang/") {
			f := strings.TrimPrefix(fr.Function, "github.com/hashicorp/hcl-lang/")
			return f
		}
		if !more {
			break
		}
	}
	return "?"
}

func safeCall(name string, f func() (interface{}, error)) (res QResult) {
	res.Name = name
	done := make(chan QResult, 1)
	go func() {
		var r QResult
		r.Name = name
		defer func() {
			if p := recover(); p != nil {
				r.Panic = fmt.Sprint(p)
				r.PanicFunc = panicFunc()
				if os.Getenv("DEBUG_STACK") != "" {
					fmt.Fprintln(os.Stderr, string(debug.Stack()))
				}
			}
			done <- r
		}()
		r.Val, r.Err = f()
	}()
	select {
	case r := <-done:
		return r
	case <-time.After(20 * time.Second):
		res.Timeout = true
		return res
	}
}

// ---------------------------------------------------------------- positions

// lcTable: for every byte offset that starts a grapheme cluster (and for len(src)), the position
// HCL's scanner assigns to it.  Computed with hcl.RangeScanner, independently of hcl-lang.
func lcTable(src []byte) map[int]hcl.Pos {
	tbl := map[int]hcl.Pos{0: hcl.InitialPos}
	sc := hcl.NewRangeScanner(src, "", textseg.ScanGraphemeClusters)
	for sc.Scan() {
		rng := sc.Range()
		tbl[rng.Start.Byte] = hcl.Pos{Line: rng.Start.Line, Column: rng.Start.Column, Byte: rng.Start.Byte}
		tbl[rng.End.Byte] = hcl.Pos{Line: rng.End.Line, Column: rng.End.Column, Byte: rng.End.Byte}
	}
	return tbl
}

// ---------------------------------------------------------------- standard scenario

type Scenario struct {
	W       *World
	Main    *PathData
	File    string
	Src     []byte
	Decls   []Decl
	Kind    string // valid | injected | history
	Canon   string
	SchemaS string
	// serialisations taken when the scenario was generated, before any query ran: what the caller supplied
	SchS   S
	BlockS map[*schema.BlockSchema]S
	// cursor offsets that are always queried, in addition to the sampled ones
	Offsets []int
}

// schemaS: the main schema as the caller supplied it
func (s *Scenario) schemaS() S {
	if s.SchS != nil {
		return s.SchS
	}
	return bodySchemaS(s.Main.Schema)
}

// blockSchemaSnapshot: a block schema as the caller supplied it (schemas derived by the library are serialised live)
func (s *Scenario) blockSchemaSnapshot(b *schema.BlockSchema) S {
	if x, ok := s.BlockS[b]; ok {
		return x
	}
	return blockSchemaS(b)
}

func snapshotBlocks(b *schema.BodySchema, out map[*schema.BlockSchema]S, depth int) {
	if b == nil || depth > 6 {
		return
	}
	for _, k := range b.Blocks {
		if k == nil {
			continue
		}
		if _, seen := out[k]; !seen {
			out[k] = blockSchemaS(k)
			snapshotBlocks(k.Body, out, depth+1)
			for _, d := range k.DependentBody {
				snapshotBlocks(d, out, depth+1)
			}
		}
	}
}

type ScenarioOpts struct {
	Gen       GenOpts
	Histories int  // number of history/mutation states per base file
	Inject    bool // inject violations
	SecondPath bool
}

// genScenarios produces one base scenario and its history states, all against the same schema.
// schemaHook, when set, sees every generated schema (dependency-key cases, see depKeyCases)
var schemaHook func(sch *schema.BodySchema)

func genScenarios(r *rand.Rand, o ScenarioOpts) []*Scenario {
	var sch *schema.BodySchema
	for i := 0; i < 50; i++ {
		depth := 2
		if o.Gen.MaxDepth > 2 {
			depth = o.Gen.MaxDepth
		}
		sch = genBodySchema(r, depth, &o.Gen, true)
		if sch.Validate() == nil {
			break
		}
		sch = nil
	}
	if sch == nil {
		sch = schema.NewBodySchema()
	}
	if o.Gen.DynFocus {
		sch = dynFocusSchema(r)
	}
	if schemaHook != nil {
		schemaHook(sch)
	}
	funcs := genFunctions(r)
	src, decls := genConfig(r, sch, o.Inject)
	schSnap := bodySchemaS(sch)
	blockSnap := map[*schema.BlockSchema]S{}
	snapshotBlocks(sch, blockSnap, 0)
	mk := func(text string, kind string) *Scenario {
		w := newWorld()
		files := map[string]string{"main.tf": text}
		if r.Intn(3) == 0 {
			other, _ := genConfig(r, sch, false)
			files["other.tf"] = other
		}
		pd := w.AddPath("root", sch, files, funcs)
		if o.SecondPath {
			o2, _ := genConfig(r, sch, false)
			w.AddPath("other", sch, map[string]string{"o.tf": o2}, funcs)
		}
		return &Scenario{W: w, Main: pd, File: "main.tf", Src: []byte(text), Decls: decls, Kind: kind, SchS: schSnap, BlockS: blockSnap}
	}
	kind := "valid"
	if o.Inject {
		kind = "injected"
	}
	out := []*Scenario{mk(src, kind)}
	if o.Histories > 0 {
		for _, h := range histories(r, src, o.Histories) {
			out = append(out, mk(h, "history"))
		}
	}
	return out
}

func sortedFileNames(m map[string][]byte) []string {
	ks := make([]string, 0, len(m))
	for k := range m {
		ks = append(ks, k)
	}
	sort.Strings(ks)
	return ks
}

// parserRanges: every range present in the parsed syntax trees of a path (what the HCL parser
// itself supplies).  A malformed range that is copied verbatim from here is the parser's.
func parserRanges(p *PathData) map[hcl.Range]bool {
	set := map[hcl.Range]bool{}
	for _, f := range p.Ctx.Files {
		body, ok := f.Body.(*hclsyntax.Body)
		if !ok {
			continue
		}
		hclsyntax.VisitAll(body, func(n hclsyntax.Node) hcl.Diagnostics {
			set[n.Range()] = true
			switch x := n.(type) {
			case *hclsyntax.Body:
				set[x.SrcRange] = true
				set[x.EndRange] = true
			case *hclsyntax.Attribute:
				set[x.SrcRange] = true
				set[x.NameRange] = true
				set[x.EqualsRange] = true
			case *hclsyntax.Block:
				set[x.TypeRange] = true
				set[x.OpenBraceRange] = true
				set[x.CloseBraceRange] = true
				set[x.DefRange()] = true
				for _, l := range x.LabelRanges {
					set[l] = true
				}
			case *hclsyntax.ScopeTraversalExpr:
				for _, t := range x.Traversal {
					set[t.SourceRange()] = true
				}
			case *hclsyntax.FunctionCallExpr:
				set[x.NameRange] = true
				set[x.OpenParenRange] = true
				set[x.CloseParenRange] = true
			}
			return nil
		})
	}
	return set
}
