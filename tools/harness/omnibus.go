package main

import (
	"regexp"
	"strings"
	"fmt"
	"math/rand"

	"github.com/hashicorp/hcl/v2"
)

// Visit is called for every executed query.
type Visit func(s *Scenario, p *PathData, q Query, res QResult, loc map[string]interface{})

type Omni struct {
	NoValueFocus bool
	FocusThin    int // > 1: only every FocusThin-th scenario of the shared focus families
	Bases     int
	Opts      ScenarioOpts
	PosSample int
	AllPos    bool
	// AllPosEvery > 0: every AllPosEvery-th base is queried at all offsets (the others at a sample)
	AllPosEvery int
	OnlyBase  int // replay: >=0 restricts to one base
	OnScenario func(s *Scenario, loc map[string]interface{}, collect []CollectRes)
	// BeforeCollect runs before the scenario's reference collection (the first calls made with its schemas)
	BeforeCollect func(s *Scenario, loc map[string]interface{})
}

func subSeed(seed int64, i int) int64 { return seed*1000003 + int64(i)*7919 + 17 }

// omnibus generates scenarios and runs every public query on them.
func omnibus(run *Run, o Omni, visit Visit) {
	for bi := 0; bi < o.Bases; bi++ {
		if o.OnlyBase >= 0 && bi != o.OnlyBase {
			continue
		}
		r := rand.New(rand.NewSource(subSeed(run.Res.Seed, bi)))
		opts := o.Opts
		opts.Inject = bi%3 == 1
		opts.Gen.Degenerate = bi%3 == 2
		opts.SecondPath = bi%4 == 2
		if bi%5 == 1 {
			opts.Gen.MaxDepth = 3
		}
		opts.Gen.DynFocus = bi%7 == 4
		scs := genScenarios(r, opts)
		if bi%2 == 0 {
			// a Terraform-like configuration whose references resolve (multi-byte identifiers included)
			ts, cfg := tfScenario(r)
			scs = append(scs, ts)
			for _, h := range histories(r, cfg.Src, 2) {
				w := newWorld()
				pd := w.AddPath("root", tfSchema(), map[string]string{"main.tf": h}, genFunctions(r))
				scs = append(scs, &Scenario{W: w, Main: pd, File: "main.tf", Src: []byte(h), Kind: "tf-history"})
			}
			// typing states: a reference cut after its first dot (the parser's syntax-error expression), with the
			// cursor right behind the equals sign, in front of the value and at its end
			for _, inc := range incompleteReferences(r, cfg.Src, 2) {
				w := newWorld()
				pd := w.AddPath("root", tfSchema(), map[string]string{"main.tf": inc.src}, genFunctions(r))
				scs = append(scs, &Scenario{W: w, Main: pd, File: "main.tf", Src: []byte(inc.src), Kind: "tf-incomplete-reference", Offsets: inc.offsets})
			}
		}
		scs = append(scs, blockAddrScenario(r))
		if bi%4 == 1 {
			// implied origins at the root and in nested bodies, several references to one implied address per body (own random stream)
			scs = append(scs, impliedScenario(rand.New(rand.NewSource(subSeed(run.Res.Seed, 555000+bi)))))
		}
		if bi < 4 {
			// a missing value behind every constraint kind, every offset (deterministic)
			scs = append(scs, missingValueKindsScenario(bi))
		}
		if bi%3 == 0 {
			// fixed-value constraints of every shape against matching / wrong-typed / surplus written values, every
			// cursor offset (own random stream: the scenarios above and below do not move)
			lf := literalValueFocusScenario(rand.New(rand.NewSource(subSeed(run.Res.Seed, 777000+bi))))
			for off := 0; off <= len(lf.Src); off++ {
				lf.Offsets = append(lf.Offsets, off)
			}
			scs = append(scs, lf)
		}
		// typing states of a value under every constraint kind (a share of the family per base), every offset of the value
		if !o.NoValueFocus {
			thin := o.FocusThin
			if thin < 1 {
				thin = 1
			}
			scs = append(scs, valueFocusShare(bi, o.Bases*thin)...)
			// addressable collections over elements of every kind, referenced from other attributes
			scs = append(scs, valueTargetProbeShare(bi, o.Bases*thin)...)
		}
		// JSON renderings of the first (complete) configuration, plain and with hostile strings
		if len(scs) > 0 {
			for _, hostile := range []bool{false, true} {
				if js := jsonScenario(r, scs[0], hostile); js != nil {
					scs = append(scs, js)
				}
			}
		}
		for si, s := range scs {
			run.Count("scenario_" + s.Kind)
			loc := map[string]interface{}{"seed": run.Res.Seed, "base": bi, "scenario": si, "kind": s.Kind, "src": string(s.Src)}
			if o.BeforeCollect != nil {
				o.BeforeCollect(s, loc)
			}
			coll := s.W.Collect()
			if o.OnScenario != nil {
				o.OnScenario(s, loc, coll)
			}
			for _, c := range coll {
				visit(s, c.P, Query{Name: c.R.Name}, c.R, loc)
			}
			for _, p := range s.W.Paths {
				for _, q := range s.pathQueries(p) {
					visit(s, p, q, safeCall(q.Name, q.Run), loc)
				}
				for _, f := range sortedFileNames(p.Src) {
					for _, q := range s.fileQueries(p, f) {
						visit(s, p, q, safeCall(q.Name, q.Run), loc)
					}
				}
			}
			tbl := lcTable(s.Src)
			allPos := o.AllPos || (o.AllPosEvery > 0 && bi%o.AllPosEvery == 0 && si == 0)
			for _, off := range append(append(cursorOffsets(r, s.Src, allPos, o.PosSample), s.Offsets...), callOffsets(s.Src)...) {
				pos, ok := tbl[off]
				if !ok {
					continue // inside a grapheme cluster: not a position an editor can send
				}
				for _, q := range s.posQueries(s.Main, s.File, pos) {
					visit(s, s.Main, q, safeCall(q.Name, q.Run), loc)
				}
			}
		}
	}
}

func locWith(loc map[string]interface{}, q Query) map[string]interface{} {
	m := map[string]interface{}{"kind": "omnibus"}
	for k, v := range loc {
		m[k] = v
	}
	m["query"] = q.Name
	if q.File != "" {
		m["file"] = q.File
	}
	if q.Pos != nil {
		m["pos"] = fmt.Sprintf("%d:%d@%d", q.Pos.Line, q.Pos.Column, q.Pos.Byte)
		m["offset"] = q.Pos.Byte
	}
	return m
}

func nonTrivial(v interface{}) bool {
	return len(rangesOf(v, "")) > 0
}

var _ = hcl.InitialPos

type incompleteRef struct {
	src     string
	offsets []int
}

var refValueRe = regexp.MustCompile(`(?m)=( +)((?:var|local|res)\.)[^\n]*$`)

// incompleteReferences: copies of the configuration in which one attribute value that starts with a
// reference is cut down to the root name and its dot ("var."), sometimes with more blanks after "="
func incompleteReferences(r *rand.Rand, src string, max int) []incompleteRef {
	ms := refValueRe.FindAllStringSubmatchIndex(src, -1)
	r.Shuffle(len(ms), func(i, j int) { ms[i], ms[j] = ms[j], ms[i] })
	var out []incompleteRef
	for _, m := range ms {
		if len(out) >= max {
			break
		}
		eq, root0, root1 := m[0], m[4], m[5]
		blanks := strings.Repeat(" ", 1+r.Intn(3))
		val := src[root0:root1]
		if r.Intn(3) == 0 {
			// a namespaced function name being typed, also with a multi-byte character right behind it
			val = pick(r, []string{"provider::", "provider::a::", "var.alpha.", "provider::a\u2026", "provider::a::b\u2192 # c", "provider::a::\u00a0x", "provider::a::b # \u00e9"})
		}
		s := src[:eq+1] + blanks + val + src[m[1]:]
		v0 := eq + 1 + len(blanks)
		offs := []int{eq + 1, eq + 2}
		for i := 0; i <= len(val); i++ {
			offs = append(offs, v0+i)
		}
		out = append(out, incompleteRef{src: s, offsets: offs})
	}
	return out
}
