package main

// Correspondence cases for Model/Collect.v and the completion walk of Model/Ref.v.

import (
	"context"
	"math/rand"

	"github.com/hashicorp/hcl-lang/decoder"
	"github.com/hashicorp/hcl-lang/lang"
	"github.com/hashicorp/hcl-lang/reference"
	"github.com/hashicorp/hcl-lang/schema"
	"github.com/hashicorp/hcl/v2/hclsyntax"
	"github.com/zclconf/go-cty/cty"
)

// blockAddrCases: resolveBlockAddress on every schema-known block of a scenario
func blockAddrCases(run *Run, sc *Scenario, limit int) int {
	f := sc.Main.Ctx.Files[sc.File]
	body, ok := f.Body.(*hclsyntax.Body)
	if !ok {
		return 0
	}
	n := 0
	walkBlocks(body, sc.Main.Schema, 0, func(b *hclsyntax.Block, bsch *schema.BlockSchema, merged *schema.BodySchema, res int, depth int) {
		if n >= limit {
			return
		}
		steps := S(Nil)
		avs := List{}
		if bsch.Address != nil {
			steps = schemaAddrS(bsch.Address.Steps)
			for _, st := range bsch.Address.Steps {
				av, ok := st.(schema.AttrValueStep)
				if !ok {
					continue
				}
				attr, present := b.Body.Attributes[av.Name]
				switch {
				case !present:
					avs = append(avs, L(Str(av.Name), T("absent")))
				default:
					v, _ := attr.Expr.Value(nil)
					if !v.IsWhollyKnown() || v.Type() != cty.String || v.IsNull() {
						// (a known null string makes AsString panic: the harness records it as a C01 matter)
						avs = append(avs, L(Str(av.Name), T("notstring")))
					} else {
						avs = append(avs, L(Str(av.Name), T("str", Str(v.AsString()))))
					}
				}
			}
		}
		var addr lang.Address
		var okk bool
		r := safeCall("resolveBlockAddress", func() (interface{}, error) {
			addr, okk = decoder.VerifResolveBlockAddress(b.AsHCLBlock(), bsch)
			return nil, nil
		})
		if r.Panic != "" {
			run.Violate(Violation{Key: "C01/panic/" + r.PanicFunc, Rule: "a query never panics", Func: r.PanicFunc, Detail: r.Panic,
				Replay: map[string]interface{}{"src": string(sc.Src), "block": b.Type}})
			return
		}
		ls := List{}
		for _, l := range b.Labels {
			ls = append(ls, Str(l))
		}
		obs := S(T("none"))
		if okk {
			obs = T("addr", addrS(addr))
		}
		n++
		run.Case("blockaddr", []S{steps, ls, avs}, obs)
	})
	return n
}

func genOriginList(r *rand.Rand, g *forestGen, n int) reference.Origins {
	paths := []lang.Path{{Path: "p0", LanguageID: "hcl"}, {Path: "p1", LanguageID: "hcl"}}
	os := g.origins(n, paths, 6)
	// make repeated (address, range) pairs likely
	for i := range os {
		if i > 0 && r.Intn(3) == 0 {
			if lo, ok := os[r.Intn(i)].(reference.LocalOrigin); ok {
				cp := lo
				cp.Constraints = g.cons()
				if r.Intn(3) == 0 {
					cp.Range.Filename = "b.tf" // same positions, other file name: rangesEqual ignores the name
				}
				os[i] = cp
			}
		}
	}
	return os
}

func originCases(run *Run, r *rand.Rand, n int) {
	for i := 0; i < n; i++ {
		g := &forestGen{r: r, wf: true, files: []string{"main.tf", "b.tf"}}
		g.forest(2)
		a := genOriginList(r, g, r.Intn(5))
		b := genOriginList(r, g, 1+r.Intn(5))
		if len(a) > 0 && r.Intn(2) == 0 {
			b = append(b, a[r.Intn(len(a))])
		}
		aa := append(reference.Origins{}, a...)
		got := decoder.VerifAppendOrigins(aa, b)
		run.Case("appendorigins", []S{originsS(a), originsS(b)}, originsS(got))
		run.Res.Evaluations++
	}
}

func matchWalkCases(run *Run, r *rand.Rand, n int) {
	ctx := context.Background()
	for i := 0; i < n; i++ {
		g := &forestGen{r: r, wf: i%3 != 2, files: []string{"main.tf", "b.tf"}}
		ts := g.forest(1 + r.Intn(5))
		self := r.Intn(2) == 0
		ref := schema.Reference{OfScopeId: pick(r, scopeIds), OfType: pick(r, refTypePool)}
		prefix := pick(r, []string{"", "v", "var", "var.", "self", "self.", "lo", "res.a", "count.", "blk"})
		l := 1 + r.Intn(12)
		outer := mkRange("main.tf", l, 1, l+r.Intn(5), 2)
		ol := 1 + r.Intn(14)
		org := mkRange("main.tf", ol, 5, ol, 5+r.Intn(8))
		c := ctx
		if self {
			c = schema.WithActiveSelfRefs(c)
		}
		labels := List{}
		ts.MatchWalk(c, ref, prefix, outer, org, func(t reference.Target) error {
			labels = append(labels, Str(t.Address(c, org.Start).String()))
			return nil
		})
		run.Case("matchwalk", []S{convTable(), Bool(self), Str(string(ref.OfScopeId)), tyS(ref.OfType), Str(prefix), rangeS(outer), rangeS(org), targetsS(ts)}, labels)
		run.Res.Evaluations++
	}
}

// blockAddrScenario: blocks whose address is built from labels and attribute values, written with
// attribute values of every awkward kind (typed nulls, unknown, non-string, interpolated, absent)
func blockAddrScenario(r *rand.Rand) *Scenario {
	blocks := map[string]*schema.BlockSchema{}
	var sb []byte
	vals := []string{`"x"`, `"y"`, `true ? null : "a"`, "null", "7", `"a${1}"`, "var.x", `upper("a")`, `""`, `"é"`, "[]", `true ? "t" : "f"`}
	for bi := 0; bi < 3; bi++ {
		nl := r.Intn(3)
		labels := make([]*schema.LabelSchema, nl)
		for i := range labels {
			labels[i] = &schema.LabelSchema{Name: "l"}
		}
		var steps schema.Address
		steps = append(steps, schema.StaticStep{Name: pick(r, []string{"b", "data"})})
		for i, n := 0, 1+r.Intn(3); i < n; i++ {
			switch r.Intn(3) {
			case 0:
				steps = append(steps, schema.LabelStep{Index: uint(r.Intn(3))})
			case 1:
				steps = append(steps, schema.AttrValueStep{Name: pick(r, []string{"name", "kind"}), IsOptional: r.Intn(2) == 0})
			default:
				steps = append(steps, schema.StaticStep{Name: "s"})
			}
		}
		bt := pick(r, []string{"blk", "thing", "item"})
		blocks[bt] = &schema.BlockSchema{Labels: labels,
			Address: &schema.BlockAddrSchema{Steps: steps, ScopeId: "x", AsReference: true},
			Body: &schema.BodySchema{Attributes: map[string]*schema.AttributeSchema{
				"name": {IsOptional: true, Constraint: schema.LiteralType{Type: cty.String}},
				"kind": {IsOptional: true, Constraint: schema.AnyExpression{OfType: cty.String}},
			}}}
	}
	for _, bt := range sortedKeys(blocks) {
		for k, n := 0, 1+r.Intn(3); k < n; k++ {
			hdr := bt
			for i := 0; i < len(blocks[bt].Labels); i++ {
				hdr += " \"" + pick(r, []string{"a", "b", "größe"}) + "\""
			}
			sb = append(sb, (hdr + " {\n")...)
			for _, an := range []string{"name", "kind"} {
				if r.Intn(4) > 0 {
					sb = append(sb, ("  " + an + " = " + pick(r, vals) + "\n")...)
				}
			}
			sb = append(sb, "}\n"...)
		}
	}
	w := newWorld()
	sch := &schema.BodySchema{Blocks: blocks}
	pd := w.AddPath("root", sch, map[string]string{"main.tf": string(sb)}, nil)
	return &Scenario{W: w, Main: pd, File: "main.tf", Src: sb, Kind: "blockaddr-focus"}
}
