package main

// C08 (value completion offers only what fits), C09 (targets are exactly the addressable
// declarations), C10 (origins are exactly the written references) - on the Terraform-like language
// of tfgen.go where the generator knows every declaration and every reference it wrote.

import (
	"time"
	"context"
	"fmt"
	"math/rand"
	"sort"
	"strings"

	"github.com/hashicorp/hcl-lang/decoder"
	"github.com/hashicorp/hcl-lang/lang"
	"github.com/hashicorp/hcl-lang/reference"
	"github.com/hashicorp/hcl-lang/schema"
	"github.com/hashicorp/hcl/v2"
	"github.com/hashicorp/hcl/v2/hclsyntax"
	"github.com/zclconf/go-cty/cty"
)

func init() { props["C08"] = runC08; props["C09"] = runC09; props["C10"] = runC10 }

func flattenTargets(ts reference.Targets, out *[]reference.Target) {
	for _, t := range ts {
		*out = append(*out, t)
		flattenTargets(t.NestedTargets, out)
	}
}

func rangeInside(in, out hcl.Range) bool {
	return in.Filename == out.Filename && in.Start.Byte >= out.Start.Byte && in.End.Byte <= out.End.Byte
}

func runC09(run *Run, replay string) {
	run.Res.Rule = "Terraform-like configurations with generator ground truth (variables as reference + type-of, locals as any-attribute expression types, resources as body-as-data with inferred static and dependent bodies, nested object/list/map blocks, self references, multi-byte names) plus the generic generated schemas; CollectReferenceTargets: every declared item has a target with its address and a range starting at the declaration; nothing for unknown items; every nested target extends its parent's address by exactly one step, list indices follow source order, nested ranges lie inside the parent's; distinct non-trivial = distinct configuration with at least 3 targets"
	n := 150
	if run.Thorough {
		n = 3000
	}
	valueTargetWitness(run)
	valueTargetFocus(run)
	for i := 0; i < n; i++ {
		r := rand.New(rand.NewSource(subSeed(run.Res.Seed, i)))
		var sc *Scenario
		var cfg *TfConfig
		if i%3 == 2 {
			scs := genScenarios(r, ScenarioOpts{Gen: GenOpts{MaxDepth: 2}})
			sc = scs[0]
		} else {
			sc, cfg = tfScenario(r)
		}
		blockAddrCases(run, blockAddrScenario(r), 12)
		valueTargetCases(run, r, 12)
		bodyTargetsCase(run, sc)
		if i%3 == 0 {
			// ... and for the generic schemas with focus blocks and typing-history states
			for _, gs := range genScenarios(r, ScenarioOpts{Histories: 2, Inject: i%2 == 1, Gen: GenOpts{DynFocus: i%6 == 3, MaxDepth: 2}}) {
				bodyTargetsCase(run, gs)
			}
		}
		d, _ := sc.W.Dec.Path(sc.Main.Path)
		res := safeCall("CollectReferenceTargets", func() (interface{}, error) { return d.CollectReferenceTargets() })
		run.Res.Evaluations++
		if res.Panic != "" || res.Err != nil {
			continue
		}
		ts := res.Val.(reference.Targets)
		loc := map[string]interface{}{"seed": run.Res.Seed, "config": i, "src": string(sc.Src)}
		q := Query{Name: "CollectReferenceTargets"}
		var flat []reference.Target
		flattenTargets(ts, &flat)
		if len(flat) >= 3 {
			run.Distinct(string(sc.Src))
		}
		run.Count(fmt.Sprintf("targets_%d+", min(len(flat)/5*5, 30)))
		// ---- structural invariants on every target
		var walk func(parent *reference.Target, ts reference.Targets)
		walk = func(parent *reference.Target, ts reference.Targets) {
			type idxAt struct{ idx, start int }
			var idxs []idxAt
			for ti := range ts {
				t := ts[ti]
				if parent != nil {
					// (in arbitrary schemas a Reference constraint with an Address declares the referenced
					// address itself as a target, wherever it is written: the one-step rule is checked on the
					// ground-truth language only)
					if len(parent.Addr) > 0 && len(t.Addr) > 0 && sc.Kind == "tf" {
						if len(t.Addr) != len(parent.Addr)+1 || !strings.HasPrefix(t.Addr.String(), parent.Addr.String()) {
							run.Violate(Violation{Key: "C09/nested-address-not-one-step", Rule: "nested targets extend their parent's address by exactly one step", Func: "CollectReferenceTargets",
								Detail: fmt.Sprintf("parent %s, nested %s", parent.Addr.String(), t.Addr.String()), Replay: locWith(loc, q)})
						}
					}
					if sc.Kind == "tf" && parent.Type.IsObjectType() && len(t.Addr) == len(parent.Addr)+1 && len(parent.Addr) > 0 {
						// the target's type is the type of the value: what is nested in it is an attribute of that type
						if as, ok := t.Addr[len(t.Addr)-1].(lang.AttrStep); ok && !parent.Type.HasAttribute(as.Name) {
							run.Violate(Violation{Key: "C09/nested-target-not-an-attribute-of-the-parents-type", Rule: "a target's type is the declared/inferred type of the value", Func: "CollectReferenceTargets",
								Detail: fmt.Sprintf("%s is nested in %s, whose type %s has no attribute %q", t.Addr.String(), parent.Addr.String(), parent.Type.FriendlyName(), as.Name), Replay: locWith(loc, q)})
						}
					}
					if len(parent.LocalAddr) > 0 && len(t.LocalAddr) > 0 && sc.Kind == "tf" {
						if len(t.LocalAddr) != len(parent.LocalAddr)+1 || !strings.HasPrefix(t.LocalAddr.String(), parent.LocalAddr.String()) {
							run.Violate(Violation{Key: "C09/nested-local-address-not-one-step", Rule: "nested targets extend their parent's (local) address by exactly one step", Func: "CollectReferenceTargets",
								Detail: fmt.Sprintf("parent %s, nested %s", parent.LocalAddr.String(), t.LocalAddr.String()), Replay: locWith(loc, q)})
						}
					}
					if parent.RangePtr != nil && t.RangePtr != nil && t.RangePtr.Start.Byte < t.RangePtr.End.Byte && !rangeInside(*t.RangePtr, *parent.RangePtr) && sc.Kind == "tf" {
						run.Violate(Violation{Key: "C09/nested-range-outside-parent", Rule: "elements of a written value lie inside that value's range", Func: "CollectReferenceTargets",
							Detail: fmt.Sprintf("%s %v not inside %s %v", t.Addr.String(), *t.RangePtr, parent.Addr.String(), *parent.RangePtr), Replay: locWith(loc, q)})
					}
					if len(t.Addr) > 0 {
						if is, ok := t.Addr[len(t.Addr)-1].(lang.IndexStep); ok && is.Key.Type() == cty.Number && t.RangePtr != nil {
							ix, _ := is.Key.AsBigFloat().Int64()
							idxs = append(idxs, idxAt{int(ix), t.RangePtr.Start.Byte})
						}
					}
				}
				walk(&t, t.NestedTargets)
			}
			if len(idxs) > 1 && sc.Kind == "tf" {
				sort.Slice(idxs, func(a, b int) bool { return idxs[a].start < idxs[b].start })
				for k, x := range idxs {
					if x.idx != k {
						run.Violate(Violation{Key: "C09/list-index-not-source-order", Rule: "list index = source order", Func: "CollectReferenceTargets",
							Detail: fmt.Sprintf("element #%d in source order under %s has index %d", k, parent.Addr.String(), x.idx), Replay: locWith(loc, q)})
						break
					}
				}
			}
		}
		walk(nil, ts)
		if sc.Kind == "tf" {
			elemRangeOracle(run, sc, ts, loc)
			cfgTargetableOracle(run, ts, loc)
		}
		targetableOracle(run, sc, ts, loc)
		mergeCases(run, sc, 6)
		blockAddrCases(run, sc, 8)
		// ---- ground truth
		if cfg != nil {
			top := map[string][]reference.Target{}
			for _, t := range ts {
				top[t.Addr.String()] = append(top[t.Addr.String()], t)
			}
			for _, dcl := range cfg.Decls {
				cands := top[dcl.Addr]
				if len(cands) == 0 {
					run.Violate(Violation{Key: "C09/declaration-without-target/" + dcl.Kind, Rule: "every block and attribute the schema marks addressable yields a target", Func: "CollectReferenceTargets",
						Detail: dcl.Addr, Replay: locWith(loc, q)})
					continue
				}
				for _, t := range cands {
					if t.RangePtr == nil {
						continue
					}
					text := string(sc.Src[t.RangePtr.Start.Byte:min(t.RangePtr.End.Byte, len(sc.Src))])
					wantPrefix := map[string]string{"variable": "variable ", "resource": "res ", "local": strings.TrimPrefix(dcl.Addr, "local.") + " ="}[dcl.Kind]
					if !strings.HasPrefix(text, wantPrefix) {
						run.Violate(Violation{Key: "C09/target-range-not-the-declaration/" + dcl.Kind, Rule: "the target's range is the declaration's own extent", Func: "CollectReferenceTargets",
							Detail: fmt.Sprintf("%s: range text starts with %q", dcl.Addr, text[:min(len(text), 30)]), Replay: locWith(loc, q)})
					}
				}
				if dcl.Kind == "resource" {
					nested := map[string]bool{}
					for _, t := range cands {
						for _, n := range t.NestedTargets {
							nested[n.Addr.String()] = true
						}
					}
					typeAware := map[string]bool{"str": true, "num": true, "any": true, "dyn": true, "strs": true, "zone": true, "region": true, "project": true, "tags": true}
					for _, a := range dcl.Attrs {
						if typeAware[a] && !nested[dcl.Addr+"."+a] {
							run.Violate(Violation{Key: "C09/written-attribute-without-nested-target", Rule: "nested targets for the attributes of a body-as-data block", Func: "CollectReferenceTargets",
								Detail: dcl.Addr + "." + a, Replay: locWith(loc, q)})
						}
					}
				}
			}
			for _, t := range flat {
				if strings.Contains(t.Addr.String(), "unknown_attr") {
					run.Violate(Violation{Key: "C09/target-for-unknown-item", Rule: "nothing is collected for items unknown to the schema", Func: "CollectReferenceTargets", Detail: t.Addr.String(), Replay: locWith(loc, q)})
				}
			}
		}
		if len(run.Res.Samples) < 2 && cfg != nil {
			run.Sample(map[string]interface{}{"src": string(sc.Src), "declared": fmt.Sprint(cfg.Decls), "targets": len(flat)})
		}
	}
}

func runC10(run *Run, replay string) {
	run.Res.Rule = "Terraform-like configurations with generator ground truth: every reference the generator wrote is recorded with its text, the attribute it sits in and whether that place admits a reference (any-expression / reference constraints at any depth of lists, objects, maps, templates, operators, conditionals, for expressions, call arguments, parentheses; literal-only places and unknown attributes do not); CollectReferenceOrigins must yield exactly one local origin per admitted reference (same address text, range = exactly that text), none for the others, ordered by file and position; distinct non-trivial = distinct configuration with at least 2 references"
	n := 200
	if run.Thorough {
		n = 4000
	}
	originCases(run, rand.New(rand.NewSource(subSeed(run.Res.Seed, 424242))), n)
	exprOriginCases(run, rand.New(rand.NewSource(subSeed(run.Res.Seed, 434343))), n*10)
	// whole-path collection under generated schemas: dynamic-block bodies over label-dependent bodies whose
	// nested blocks carry extensions of their own (count / for_each / self references), resolved and
	// unresolved lookups side by side; every other base a generic schema
	for i := 0; i < n/4; i++ {
		r := rand.New(rand.NewSource(subSeed(run.Res.Seed, 900000+i)))
		for _, sc := range genScenarios(r, ScenarioOpts{Gen: GenOpts{DynFocus: i%2 == 0, MaxDepth: 2}}) {
			d, _ := sc.W.Dec.Path(sc.Main.Path)
			res := safeCall("CollectReferenceOrigins", func() (interface{}, error) { return d.CollectReferenceOrigins() })
			run.Res.Evaluations++
			if res.Panic != "" || res.Err != nil {
				continue
			}
			if collectOriginsCase(run, sc, res.Val.(reference.Origins)) {
				run.Count("collectorigins_generated_schemas")
			}
		}
	}
	for i := 0; i < n; i++ {
		r := rand.New(rand.NewSource(subSeed(run.Res.Seed, i)))
		sc, cfg := tfScenario(r)
		d, _ := sc.W.Dec.Path(sc.Main.Path)
		res := safeCall("CollectReferenceOrigins", func() (interface{}, error) { return d.CollectReferenceOrigins() })
		run.Res.Evaluations++
		if res.Panic != "" || res.Err != nil {
			continue
		}
		os := res.Val.(reference.Origins)
		collectOriginsCase(run, sc, os)
		loc := map[string]interface{}{"seed": run.Res.Seed, "config": i, "src": string(sc.Src)}
		q := Query{Name: "CollectReferenceOrigins"}
		if len(cfg.Refs) >= 2 {
			run.Distinct(cfg.Src)
		}
		want := map[string]int{}
		for _, rf := range cfg.Refs {
			run.Count("refs_in_" + strings.SplitN(rf.Attr, ":", 2)[0])
			if rf.AdmitsRef {
				want[rf.Addr]++
			}
		}
		got := map[string]int{}
		seen := map[string]bool{}
		prev := -1
		// the whole list (local, path and direct origins alike) is ordered by file and position
		for k := 1; k < len(os); k++ {
			a, b := os[k-1].OriginRange(), os[k].OriginRange()
			if a.Filename > b.Filename || (a.Filename == b.Filename && a.Start.Byte > b.Start.Byte) {
				run.Violate(Violation{Key: "C10/origins-not-ordered", Rule: "the list is ordered by file and position", Func: "CollectReferenceOrigins",
					Detail: fmt.Sprintf("#%d %T at %s:%d comes after #%d %T at %s:%d", k, os[k], b.Filename, b.Start.Byte, k-1, os[k-1], a.Filename, a.Start.Byte), Replay: locWith(loc, q)})
				break
			}
		}
		for _, o := range os {
			lo, ok := o.(reference.LocalOrigin)
			if !ok {
				continue
			}
			rng := lo.Range
			text := string(sc.Src[rng.Start.Byte:min(rng.End.Byte, len(sc.Src))])
			if text != lo.Addr.String() && !strings.Contains(text, "[") {
				run.Violate(Violation{Key: "C10/origin-range-not-the-reference-text", Rule: "the origin has the address the text denotes and the range of exactly that text", Func: "CollectReferenceOrigins",
					Detail: fmt.Sprintf("address %s, range text %q", lo.Addr.String(), text), Replay: locWith(loc, q)})
			}
			key := fmt.Sprintf("%s@%d", lo.Addr.String(), rng.Start.Byte)
			if seen[key] {
				run.Violate(Violation{Key: "C10/duplicate-origin", Rule: "exactly one origin for every written reference", Func: "CollectReferenceOrigins", Detail: key, Replay: locWith(loc, q)})
			}
			seen[key] = true
			got[text]++
			if rng.Start.Byte < prev {
				run.Violate(Violation{Key: "C10/origins-not-ordered", Rule: "the list is ordered by file and position", Func: "CollectReferenceOrigins", Detail: key, Replay: locWith(loc, q)})
			}
			prev = rng.Start.Byte
		}
		for addr, w := range want {
			if got[addr] < w {
				run.Violate(Violation{Key: "C10/reference-without-origin", Rule: "exactly one origin for every reference written where the constraint admits a reference or an arbitrary expression", Func: "CollectReferenceOrigins",
					Detail: fmt.Sprintf("%s written %d time(s) in reference-admitting places, %d origin(s)", addr, w, got[addr]), Replay: locWith(loc, q)})
			}
		}
		for addr, g := range got {
			if g > want[addr] && (strings.HasPrefix(addr, "var.") || strings.HasPrefix(addr, "local.") || strings.HasPrefix(addr, "res.") || strings.HasPrefix(addr, "other.")) {
				run.Violate(Violation{Key: "C10/origin-without-admitted-reference", Rule: "it yields none for text in places the constraint reserves for literals, keywords or type names, or unknown to the schema", Func: "CollectReferenceOrigins",
					Detail: fmt.Sprintf("%s: %d origin(s), written %d time(s) in reference-admitting places", addr, g, want[addr]), Replay: locWith(loc, q)})
			}
		}
		if len(run.Res.Samples) < 2 {
			run.Sample(map[string]interface{}{"src": cfg.Src, "references_written": fmt.Sprint(cfg.Refs), "origins": len(os)})
		}
	}
}

func runC08(run *Run, replay string) {
	run.Res.Rule = "Terraform-like configurations with collected targets/origins; at every cut point of every written reference (prefix typed so far) CompletionAtPos is asked: every reference candidate must start with the typed text, be the address of a collected declaration (at any nesting depth), be a block-local name (self./count./each.) only inside the block that declares it, and never be the attribute being edited; keyword/bool candidates only for constraints that admit them; accepting a candidate whose declaration fits resolves to that declaration; distinct non-trivial = distinct (configuration, cut point) with at least one reference candidate"
	n := 48
	if run.Thorough {
		n = 1200
	}
	ctx := context.Background()
	matchWalkCases(run, rand.New(rand.NewSource(subSeed(run.Res.Seed, 515151))), n*6)
	crossFileFocusCases(run)
	operandSymmetryOracle(run, rand.New(rand.NewSource(subSeed(run.Res.Seed, 616161))), n*2)
	funcCandidateCases(run, rand.New(rand.NewSource(subSeed(run.Res.Seed, 717171))), 1+n/12)
	t0 := time.Now()
	valueCandsCases(run)
	run.Res.Distribution["valuecands_ms"] = int(time.Since(t0).Milliseconds())
	for i := 0; i < n; i++ {
		r := rand.New(rand.NewSource(subSeed(run.Res.Seed, i)))
		sc, cfg := tfScenario(r)
		files := map[string]string{"main.tf": cfg.Src}
		if i%2 == 1 {
			// a second file of the same path with other declarations: its block-local names
			// (count.index, each.*, self.*) must not be visible from this file
			files["other.tf"] = genTf(r).Src
			w := newWorld()
			pd := w.AddPath("root", tfSchema(), files, sc.Main.Ctx.Functions)
			sc = &Scenario{W: w, Main: pd, File: "main.tf", Src: sc.Src, Kind: "tf"}
		}
		sc.W.Collect()
		d, _ := sc.W.Dec.Path(sc.Main.Path)
		var flat []reference.Target
		flattenTargets(sc.Main.Ctx.ReferenceTargets, &flat)
		addrs := map[string][]reference.Target{}
		for _, t := range flat {
			if len(t.Addr) > 0 {
				addrs[t.Addr.String()] = append(addrs[t.Addr.String()], t)
			}
			if len(t.LocalAddr) > 0 {
				addrs[t.LocalAddr.String()] = append(addrs[t.LocalAddr.String()], t)
			}
		}
		tbl := lcTable(sc.Src)
		loc := map[string]interface{}{"seed": run.Res.Seed, "config": i, "src": cfg.Src}
		for _, o := range sc.Main.Ctx.ReferenceOrigins {
			lo, ok := o.(reference.LocalOrigin)
			if !ok || lo.Range.Filename != "main.tf" {
				continue
			}
			s, e := lo.Range.Start.Byte, lo.Range.End.Byte
			for _, cut := range []int{s, s + 1, s + 3, (s + e) / 2, e - 1, e} {
				if cut < s || cut > e {
					continue
				}
				pos, ok := tbl[cut]
				if !ok {
					continue
				}
				// the buffer as it is while the reference is being typed: text after the cursor removed
				typed := string(sc.Src[s:cut])
				// inside the brackets of an index the text being typed is either the whole traversal so far or - where
				// the parser sees the key as an expression of its own - what follows the bracket
				typedKey := typed
				if i := strings.LastIndex(typed, "["); i >= 0 && !strings.Contains(typed[i:], "]") {
					typedKey = typed[i+1:]
				}
				nsrc := string(sc.Src[:cut]) + string(sc.Src[e:])
				w2 := newWorld()
				files2 := map[string]string{"main.tf": nsrc}
				if o, ok := files["other.tf"]; ok {
					files2["other.tf"] = o
				}
				pd2 := w2.AddPath("root", tfSchema(), files2, sc.Main.Ctx.Functions)
				w2.Collect()
				d2, _ := w2.Dec.Path(pd2.Path)
				_ = d
				res := safeCall("CompletionAtPos", func() (interface{}, error) { return d2.CompletionAtPos(ctx, "main.tf", pos) })
				run.Res.Evaluations++
				if res.Panic != "" || res.Err != nil {
					continue
				}
				cands := res.Val.(lang.Candidates)
				var flat2 []reference.Target
				flattenTargets(pd2.Ctx.ReferenceTargets, &flat2)
				known := map[string][]reference.Target{}
				for _, t := range flat2 {
					if len(t.Addr) > 0 {
						known[t.Addr.String()] = append(known[t.Addr.String()], t)
					}
					if len(t.LocalAddr) > 0 {
						known[t.LocalAddr.String()] = append(known[t.LocalAddr.String()], t)
					}
				}
				q := Query{Name: "CompletionAtPos", Pos: &pos, File: "main.tf"}
				nref := 0
				for i, c := range cands.List {
					if c.Kind != lang.ReferenceCandidateKind {
						continue
					}
					nref++
					m := locWith(loc, q)
					m["typed"] = typed
					m["candidate"] = c.Label
					m["buffer"] = nsrc
					if !strings.HasPrefix(c.Label, typed) && !strings.HasPrefix(c.Label, typedKey) {
						key := "C08/reference-candidate-ignores-typed-text"
						if (c.Label == "self" || strings.HasPrefix(c.Label, "self.")) && crossFileSelfAt(pd2, "main.tf", pos) {
							// Target.Address labels a declaration of another file self.* when its byte range contains the cursor
							key += "/self-address-chosen-by-byte-range-of-another-file"
						} else if exprAtIsParserPlaceholder(pd2, pos) {
							// the parser could not recover the half-typed expression at all: the syntax tree holds a
							// placeholder literal in its place and the library completes as for an empty value
							key += "/expression-replaced-by-parser-placeholder"
						}
						run.Violate(Violation{Key: key, Rule: "every reference candidate starts with the typed text", Func: "Reference.CompletionAtPos",
							Detail: fmt.Sprintf("typed %q, candidate %q", typed, c.Label), Replay: m})
					}
					ts, ok := known[c.Label]
					if !ok {
						run.Violate(Violation{Key: "C08/candidate-not-a-declaration", Rule: "every reference candidate is the address of a collected declaration", Func: "Reference.CompletionAtPos",
							Detail: c.Label, Replay: m})
						continue
					}
					if strings.HasPrefix(c.Label, "self.") || strings.HasPrefix(c.Label, "count.") || strings.HasPrefix(c.Label, "each.") {
						// ground truth from the syntax tree: one of the declarations carrying that name is written inside the
						// top-level block the cursor is in
						visible := false
						var enclosing *hcl.Range
						if f2 := pd2.Ctx.Files["main.tf"]; f2 != nil {
							if b2, ok := f2.Body.(*hclsyntax.Body); ok {
								for _, blk := range b2.Blocks {
									if r := blk.Range(); r.Start.Byte <= pos.Byte && pos.Byte <= r.End.Byte {
										enclosing = &r
									}
								}
							}
						}
						for _, t := range ts {
							if enclosing == nil {
								break
							}
							if t.RangePtr != nil && t.RangePtr.Filename == "main.tf" && enclosing.Start.Byte <= t.RangePtr.Start.Byte && t.RangePtr.End.Byte <= enclosing.End.Byte {
								visible = true
							}
						}
						if !visible {
							run.Violate(Violation{Key: "C08/block-local-name-offered-outside-its-block", Rule: "block-local names are offered only inside their block", Func: "Reference.CompletionAtPos",
								Detail: c.Label, Replay: m})
						}
					}
					// accepting the candidate and asking for the definition: what is found is the declaration the label names
					// (the name written at the declaration is the label's last step).  All self.* candidates, a sample of the others.
					if strings.HasPrefix(c.Label, "self.") || (len(c.Label)+cut+i)%7 == 0 {
						acceptRoundTrip(run, nsrc, files2, c, sc.Main.Ctx.Functions, m)
					}
					for _, t := range ts {
						if t.RangePtr != nil && t.RangePtr.Filename == "main.tf" && t.RangePtr.Start.Byte <= pos.Byte && pos.Byte <= t.RangePtr.End.Byte && len(t.NestedTargets) == 0 && len(ts) == 1 {
							run.Violate(Violation{Key: "C08/candidate-is-the-attribute-being-edited", Rule: "never the attribute being edited itself", Func: "Reference.CompletionAtPos",
								Detail: c.Label, Replay: m})
						}
					}
				}
				if nref > 0 {
					run.Distinct(fmt.Sprintf("%s|%d", cfg.Src, cut))
					run.Count("positions_with_reference_candidates")
				}
			}
		}
		selfOutsideOracle(run, sc, cfg, tbl, loc)
		if len(run.Res.Samples) < 2 {
			run.Sample(map[string]interface{}{"src": cfg.Src, "origins": len(sc.Main.Ctx.ReferenceOrigins), "targets": len(flat)})
		}
	}
	_ = schema.Reference{}
}

// acceptRoundTrip applies a reference candidate's edit to the buffer, collects again and asks for the definition
// of the reference now written there: every declaration found that is an attribute (its definition range is
// the attribute's name) must carry the name the label ends with.
func acceptRoundTrip(run *Run, buf string, files map[string]string, c lang.Candidate, funcs map[string]schema.FunctionSignature, loc map[string]interface{}) {
	er := c.TextEdit.Range
	if er.Filename != "main.tf" || er.Start.Byte < 0 || er.End.Byte < er.Start.Byte || er.End.Byte > len(buf) {
		return
	}
	last := c.Label
	if i := strings.LastIndex(last, "."); i >= 0 {
		last = last[i+1:]
	}
	if !isIdent(last) || strings.ContainsAny(c.Label[len(c.Label)-len(last):], "[]\"") {
		return
	}
	nsrc := buf[:er.Start.Byte] + c.TextEdit.NewText + buf[er.End.Byte:]
	files3 := map[string]string{}
	for k, v := range files {
		files3[k] = v
	}
	files3["main.tf"] = nsrc
	w := newWorld()
	pd := w.AddPath("root", tfSchema(), files3, funcs)
	w.Collect()
	d, err := w.Dec.Path(pd.Path)
	if err != nil {
		return
	}
	pos, ok := lcTable([]byte(nsrc))[er.Start.Byte+1]
	if !ok {
		return
	}
	res := safeCall("ReferenceTargetsForOriginAtPos", func() (interface{}, error) {
		return w.Dec.ReferenceTargetsForOriginAtPos(pd.Path, "main.tf", pos)
	})
	_ = d
	run.Res.Evaluations++
	run.Count("accepted_candidates_resolved")
	if res.Panic != "" || res.Err != nil {
		return
	}
	// among the attribute declarations found (definition range = an attribute's name) one carries the name the
	// label ends with (others may be declarations of unknown type that may contain it, e.g. in another file)
	var names []string
	found := false
	for _, rt := range res.Val.(decoder.ReferenceTargets) {
		if rt.DefRangePtr == nil || rt.Path.Path != "root" {
			continue
		}
		src, ok := files3[rt.DefRangePtr.Filename]
		if !ok || rt.DefRangePtr.End.Byte > len(src) || rt.DefRangePtr.Start.Byte > rt.DefRangePtr.End.Byte {
			continue
		}
		name := src[rt.DefRangePtr.Start.Byte:rt.DefRangePtr.End.Byte]
		if !isIdent(name) || name == "count" || name == "for_each" {
			return // a block header, or the attribute standing for count.index / each.*
		}
		names = append(names, fmt.Sprintf("%s at %v", name, rt.DefRangePtr))
		if name == last {
			found = true
		}
	}
	if len(names) == 0 {
		return
	}
	run.Count("accepted_candidates_resolved_to_attribute")
	if !found {
		m := map[string]interface{}{}
		for k, v := range loc {
			m[k] = v
		}
		m["accepted_buffer"] = nsrc
		run.Violate(Violation{Key: "C08/accepted-candidate-resolves-to-another-declaration", Rule: "accepting a reference candidate produces a reference that go-to-definition resolves to that declaration",
			Func: "CompletionAtPos + ReferenceTargetsForOriginAtPos", Detail: fmt.Sprintf("candidate %q accepted: the definitions found are the attributes %v", c.Label, names), Replay: m})
	}
}

// selfOutsideOracle: wherever "self." is being typed inside a body that does not enable self
// references (in the ground-truth language: every body except the resource body itself), no
// self.* candidate may be offered
func selfOutsideOracle(run *Run, sc *Scenario, cfg *TfConfig, tbl map[int]hcl.Pos, loc map[string]interface{}) {
	f := sc.Main.Ctx.Files[sc.File]
	body, ok := f.Body.(*hclsyntax.Body)
	if !ok {
		return
	}
	src := string(sc.Src)
	ctx := context.Background()
	for from := 0; ; {
		i := strings.Index(src[from:], "self.")
		if i < 0 {
			break
		}
		s := from + i
		from = s + 5
		if s > 0 && (src[s-1] == '.' || src[s-1] == '_' || (src[s-1] >= 'a' && src[s-1] <= 'z')) {
			continue
		}
		e := s + 5
		for e < len(src) && (src[e] == '_' || src[e] == '.' || (src[e] >= 'a' && src[e] <= 'z') || (src[e] >= '0' && src[e] <= '9')) {
			e++
		}
		// the innermost block around the reference
		inner := ""
		var find func(b *hclsyntax.Body)
		find = func(b *hclsyntax.Body) {
			for _, k := range b.Blocks {
				if k.Range().Start.Byte <= s && s < k.Range().End.Byte {
					inner = k.Type
					find(k.Body)
				}
			}
		}
		find(body)
		if inner == "res" || inner == "" {
			continue
		}
		for _, cut := range []int{s + 5, s + 4} {
			pos, ok := tbl[cut]
			if !ok {
				continue
			}
			nsrc := src[:cut] + src[e:]
			w2 := newWorld()
			pd2 := w2.AddPath("root", tfSchema(), map[string]string{"main.tf": nsrc}, sc.Main.Ctx.Functions)
			w2.Collect()
			d2, _ := w2.Dec.Path(pd2.Path)
			res := safeCall("CompletionAtPos", func() (interface{}, error) { return d2.CompletionAtPos(ctx, "main.tf", pos) })
			run.Res.Evaluations++
			run.Count("self_typed_where_not_enabled")
			if res.Panic != "" || res.Err != nil {
				continue
			}
			q := Query{Name: "CompletionAtPos", Pos: &pos, File: "main.tf"}
			for _, c := range res.Val.(lang.Candidates).List {
				if c.Kind == lang.ReferenceCandidateKind && (c.Label == "self" || strings.HasPrefix(c.Label, "self.")) {
					m := locWith(loc, q)
					m["buffer"] = nsrc
					m["candidate"] = c.Label
					run.Violate(Violation{Key: "C08/self-candidate-where-self-references-are-not-enabled", Rule: "self.* is offered only where the body enables self references",
						Func: "Reference.CompletionAtPos", Detail: fmt.Sprintf("%s offered inside a %q block", c.Label, inner), Replay: m})
					break
				}
			}
		}
	}
}

// exprAtIsParserPlaceholder: is the attribute value around the position a placeholder the parser
// put in place of an expression it could not recover (a literal of unknown value)?
func exprAtIsParserPlaceholder(pd *PathData, pos hcl.Pos) bool {
	f := pd.Ctx.Files["main.tf"]
	body, ok := f.Body.(*hclsyntax.Body)
	if !ok {
		return false
	}
	found := false
	hclsyntax.VisitAll(body, func(n hclsyntax.Node) hcl.Diagnostics {
		if a, ok := n.(*hclsyntax.Attribute); ok {
			if a.SrcRange.ContainsPos(pos) || a.SrcRange.End.Byte == pos.Byte {
				if lit, ok := a.Expr.(*hclsyntax.LiteralValueExpr); ok && !lit.Val.IsKnown() {
					found = true
				}
			}
		}
		return nil
	})
	return found
}
