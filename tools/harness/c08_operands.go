package main

// C08 oracle on operator expressions: both operands of a binary operator take the same parameter type,
// so the same text completed at the same relative position of the left and of the right operand must
// offer the same candidates (references, functions, literals).

import (
	"context"
	"fmt"
	"math/rand"
	"sort"
	"strings"

	"github.com/hashicorp/hcl-lang/lang"
	"github.com/hashicorp/hcl-lang/schema"
	"github.com/zclconf/go-cty/cty"
)

var debugOperands bool

func operandSymmetryOracle(run *Run, r *rand.Rand, n int) {
	ctx := context.Background()
	vars := "variable \"flag\" {\n  type = bool\n}\nvariable \"num\" {\n  type = number\n}\nvariable \"str\" {\n  type = string\n}\nvariable \"lst\" {\n  type = list(string)\n}\nvariable \"isit\" {\n  type = bool\n}\n"
	ops := map[string]string{"<": "out_b", "<=": "out_b", ">": "out_b", ">=": "out_b", "==": "out_b", "!=": "out_b", "&&": "out_b", "||": "out_b",
		"+": "out_n", "-": "out_n", "*": "out_n", "/": "out_n", "%": "out_n"}
	base := tfSchema()
	sch := &schema.BodySchema{
		Blocks: map[string]*schema.BlockSchema{"variable": base.Blocks["variable"]},
		Attributes: map[string]*schema.AttributeSchema{
			"out_b": {IsOptional: true, Constraint: schema.AnyExpression{OfType: cty.Bool}},
			"out_n": {IsOptional: true, Constraint: schema.AnyExpression{OfType: cty.Number}},
			"out_d": {IsOptional: true, Constraint: schema.AnyExpression{OfType: cty.DynamicPseudoType}},
		},
	}
	for i := 0; i < n; i++ {
		op := pick(r, sortedKeys(ops))
		attr := ops[op]
		if r.Intn(4) == 0 {
			attr = "out_d"
		}
		operand := pick(r, []string{"var.num", "var.flag", "var.isit", "var.str", "i", "t", "f", "v", "var.s"})
		lead := pick(r, []string{"", "", "("})
		trail := ""
		if lead == "(" {
			trail = ")"
		}
		line := attr + " = " + lead + operand + " " + op + " " + operand + trail + "\n"
		src := line
		lstart := len(attr) + 3 + len(lead)
		rstart := lstart + len(operand) + 1 + len(op) + 1
		w := newWorld()
		pd := w.AddPath("root", sch, map[string]string{"main.tf": src, "vars.tf": vars}, genFunctions(r))
		w.Collect()
		d, err := w.Dec.Path(pd.Path)
		if err != nil {
			continue
		}
		tbl := lcTable([]byte(src))
		labels := func(off int) (string, bool) {
			res := safeCall("CompletionAtPos", func() (interface{}, error) { return d.CompletionAtPos(ctx, "main.tf", tbl[off]) })
			if res.Panic != "" || res.Err != nil {
				return "", false
			}
			var ls []string
			for _, c := range res.Val.(lang.Candidates).List {
				ls = append(ls, fmt.Sprintf("%s/%d", c.Label, c.Kind))
			}
			sort.Strings(ls)
			return strings.Join(ls, " "), true
		}
		for k := 1; k < len(operand); k++ {
			l, ok1 := labels(lstart + k)
			rr, ok2 := labels(rstart + k)
			run.Res.Evaluations += 2
			if !ok1 || !ok2 {
				continue
			}
			if l != "" {
				run.Distinct(fmt.Sprintf("%s|%d", line, k))
				run.Count("operand_candidates_nonempty")
			} else {
				run.Count("operand_candidates_empty")
			}
			if debugOperands {
				fmt.Printf("%q k=%d L=[%s] R=[%s]\n", line, k, l, rr)
			}
			if l != rr {
				run.Violate(Violation{Key: "C08/operand-candidates-differ-between-sides/" + op, Rule: "an operand of a binary operator is completed against the operator's parameter type, on either side",
					Func: "CompletionAtPos", Detail: fmt.Sprintf("%q: %d bytes into the left operand: [%s], into the right operand: [%s]", strings.TrimSpace(line), k, l, rr),
					Replay: map[string]interface{}{"src": src, "vars.tf": vars, "left_offset": lstart + k, "right_offset": rstart + k}})
			}
		}
	}
}
