package main

// C06: completion items are applicable edits; lists honour limit and 'complete' flag.

import (
	"context"
	"fmt"
	"github.com/hashicorp/hcl/v2"
	"github.com/hashicorp/hcl/v2/hclsyntax"
	"github.com/zclconf/go-cty/cty"
	"math/rand"
	"regexp"
	"sort"
	"strconv"
	"strings"

	"github.com/hashicorp/hcl-lang/decoder"
	"github.com/hashicorp/hcl-lang/lang"
	"github.com/hashicorp/hcl-lang/schema"
)

func init() { props["C06"] = runC06 }

var stopRe = regexp.MustCompile(`\$\{(\d+)(?::[^}]*)?\}|\$(\d+)`)

// snippetStops: the tab-stop numbers of an LSP snippet, in order
func snippetStops(s string) []int {
	var out []int
	for _, m := range stopRe.FindAllStringSubmatch(s, -1) {
		d := m[1]
		if d == "" {
			d = m[2]
		}
		n, _ := strconv.Atoi(d)
		out = append(out, n)
	}
	return out
}

// stopsWellFormed: consecutive numbers, each used once, an optional final ${0} aside
func stopsWellFormed(st []int) string {
	var xs []int
	for i, n := range st {
		if n == 0 {
			if i != len(st)-1 {
				return "the final stop ${0} is not last"
			}
			continue
		}
		xs = append(xs, n)
	}
	seen := map[int]bool{}
	for _, n := range xs {
		if seen[n] {
			return fmt.Sprintf("tab stop %d is used twice", n)
		}
		seen[n] = true
	}
	s := append([]int{}, xs...)
	sort.Ints(s)
	for i := 1; i < len(s); i++ {
		if s[i] != s[i-1]+1 {
			return fmt.Sprintf("tab stops are not consecutive: %v", xs)
		}
	}
	return ""
}

func cleanSchemaText(s string) bool { return !strings.Contains(s, "$") }

func runC06(run *Run, replay string) {
	run.Res.Rule = "(1) generated constraints of every kind and nesting: Constraint.EmptyCompletionData with and without required-field prefilling, two starting placeholders and nesting levels, compared with the model; its snippet must use consecutive tab stops from the starting placeholder and its plain text none; (2) CompletionAtPos (prefill on and off; candidate limit 100 and lowered to 3) on generated scenarios at token boundaries: every candidate's edit range is in the requested file, well formed, starts at or before the cursor and reaches it up to blanks, the plain text has no tab-stop syntax, the snippet's stops are consecutive and used once, the list never exceeds the limit and a list marked complete is not a truncation; distinct non-trivial = distinct (file text, offset, prefill) with candidates"
	hookLimitOracle(run)
	hookCandsCases(run)
	valueCandsCases(run)
	// ---- (1) EmptyCompletionData
	r := rand.New(rand.NewSource(subSeed(run.Res.Seed, 606060)))
	nc := 400
	if run.Thorough {
		nc = 8000
	}
	o := &GenOpts{}
	fixedVals := literalValueFamily()
	for i := -2 * len(fixedVals); i < nc; i++ {
		if i%9 == 8 {
			o.Degenerate = true
		} else {
			o.Degenerate = false
		}
		var c schema.Constraint
		if i < 0 {
			// fixed values of every shape (own family, no random draw), alone and inside other constraints
			k := -i - 1
			v := fixedVals[k%len(fixedVals)]
			c = schema.LiteralValue{Value: v}
			if k >= len(fixedVals) {
				w := fixedVals[(k+3)%len(fixedVals)]
				switch k % 5 {
				case 0:
					c = schema.List{Elem: schema.LiteralValue{Value: v}}
				case 1:
					c = schema.Tuple{Elems: []schema.Constraint{schema.LiteralValue{Value: v}, schema.LiteralType{Type: cty.String}, schema.LiteralValue{Value: w}}}
				case 2:
					c = schema.Object{Attributes: schema.ObjectAttributes{"a": {IsRequired: true, Constraint: schema.LiteralValue{Value: v}}, "b": {IsRequired: true, Constraint: schema.LiteralValue{Value: w}}}}
				case 3:
					c = schema.Map{Elem: schema.LiteralValue{Value: v}}
				default:
					c = schema.OneOf{schema.LiteralValue{Value: v}, schema.LiteralValue{Value: w}}
				}
			}
		} else {
			c = genConstraint(r, 3, o)
		}
		for _, prefill := range []bool{false, true} {
			next := pick(r, []int{1, 3})
			lvl := pick(r, []int{0, 1})
			ctx := schema.WithPrefillRequiredFields(context.Background(), prefill)
			var cd schema.CompletionData
			res := safeCall("EmptyCompletionData", func() (interface{}, error) { cd = c.EmptyCompletionData(ctx, next, lvl); return nil, nil })
			run.Res.Evaluations++
			if res.Panic != "" {
				run.Violate(Violation{Key: "C01/panic/" + res.PanicFunc, Rule: "never panics", Func: res.PanicFunc, Detail: res.Panic, Replay: map[string]interface{}{"constraint": Show(consS(c))}})
				continue
			}
			run.Case("ecd", []S{Bool(prefill), consS(c), Int(next), Int(lvl)}, T("cd", Str(cd.NewText), Str(cd.Snippet), Bool(cd.TriggerSuggest), Int(cd.NextPlaceholder)))
			cs := Show(consS(c))
			if cd.NewText != "" && cd.Snippet != "" && cleanSchemaText(cs) {
				run.Distinct(fmt.Sprintf("%s|%v|%d", cs, prefill, next))
				rp := map[string]interface{}{"kind": "constraint", "constraint": cs, "prefill": prefill, "next": next, "level": lvl, "snippet": cd.Snippet}
				st := snippetStops(cd.Snippet)
				for k, n := range st {
					if n != next+k {
						run.Violate(Violation{Key: "C06/ecd-stops-not-consecutive/" + fmt.Sprintf("%T", c), Rule: "the snippet form uses consecutive tab-stop numbers, each at most once", Func: fmt.Sprintf("%T.EmptyCompletionData", c),
							Detail: fmt.Sprintf("stops %v, starting placeholder %d", st, next), Replay: rp})
						break
					}
				}
				if len(st) > 0 && cd.NextPlaceholder != next+len(st) {
					run.Violate(Violation{Key: "C06/ecd-next-placeholder-wrong/" + fmt.Sprintf("%T", c), Rule: "consecutive tab-stop numbers (the counter handed to the caller continues the sequence)", Func: fmt.Sprintf("%T.EmptyCompletionData", c),
						Detail: fmt.Sprintf("stops %v, NextPlaceholder %d", st, cd.NextPlaceholder), Replay: rp})
				}
				if len(snippetStops(cd.NewText)) > 0 {
					run.Violate(Violation{Key: "C06/ecd-newtext-has-stops", Rule: "the plain-text form contains no tab-stop syntax", Func: fmt.Sprintf("%T.EmptyCompletionData", c), Detail: cd.NewText, Replay: rp})
				}
			}
		}
	}
	// ---- hooked attributes of the value-focus family (top level and inside a block), deterministic
	for _, sp := range valueFocusSpecs() {
		if !strings.HasPrefix(sp.kind, "value-focus/hk") {
			continue
		}
		sc := sp.scenario()
		sc.W.Collect()
		hookedAttributesOracle(run, sc, lcTable(sc.Src), map[string]interface{}{"seed": run.Res.Seed, "kind": sc.Kind, "src": string(sc.Src)})
	}
	// ---- (2) candidates of CompletionAtPos
	bases, hist, posN := 36, 3, 24
	if run.Thorough {
		bases, hist, posN = 400, 15, 200
	}
	ctx := context.Background()
	for bi := 0; bi < bases; bi++ {
		rr := rand.New(rand.NewSource(subSeed(run.Res.Seed, bi)))
		var scs []*Scenario
		if bi%3 == 0 {
			s, cfg := tfScenario(rr)
			scs = append(scs, s)
			for _, h := range histories(rr, cfg.Src, hist) {
				w := newWorld()
				pd := w.AddPath("root", tfSchema(), map[string]string{"main.tf": h}, genFunctions(rr))
				scs = append(scs, &Scenario{W: w, Main: pd, File: "main.tf", Src: []byte(h), Kind: "tf-history"})
			}
		} else {
			opts := ScenarioOpts{Histories: hist, Inject: bi%3 == 1, Gen: GenOpts{}}
			if bi%6 == 1 {
				opts.Gen.ManyAttrs = 110 + bi
			}
			scs = genScenarios(rr, opts)
		}
		if bi%6 == 2 {
			// fixed values, literal types and type declarations (own random stream), every offset
			lf := literalValueFocusScenario(rand.New(rand.NewSource(subSeed(run.Res.Seed, 777000+bi))))
			for off := 0; off <= len(lf.Src); off++ {
				lf.Offsets = append(lf.Offsets, off)
			}
			scs = append(scs, lf)
		}
		// typing states of a value under every constraint kind (a share of the family per base), every offset of the value
		scs = append(scs, valueFocusShare(bi, bases)...)
		max := uint(100)
		if bi%4 == 3 {
			max = 3
		}
		for si, sc := range scs {
			sc.W.Collect()
			tbl := lcTable(sc.Src)
			garbage := parserRangesMalformed(sc)
			hookedAttributesOracle(run, sc, tbl, map[string]interface{}{"seed": run.Res.Seed, "base": bi, "scenario": si, "kind": sc.Kind, "src": string(sc.Src)})
			loc := map[string]interface{}{"seed": run.Res.Seed, "base": bi, "scenario": si, "kind": sc.Kind, "src": string(sc.Src), "max_candidates": max}
			for _, off := range append(cursorOffsets(rr, sc.Src, false, posN), sc.Offsets...) {
				pos, ok := tbl[off]
				if !ok {
					continue
				}
				for _, prefill := range []bool{false, true} {
					d, _ := sc.W.Dec.Path(sc.Main.Path)
					d.PrefillRequiredFields = prefill
					decoder.VerifSetMaxCandidates(d, max)
					res := safeCall("CompletionAtPos", func() (interface{}, error) { return d.CompletionAtPos(ctx, sc.File, pos) })
					run.Res.Evaluations++
					if res.Panic != "" || res.Err != nil {
						continue
					}
					cands := res.Val.(lang.Candidates)
					if len(cands.List) == 0 {
						continue
					}
					run.Distinct(fmt.Sprintf("%s|%d|%v", sc.Src, off, prefill))
					q := Query{Name: "CompletionAtPos", Pos: &pos, File: sc.File}
					if prefill {
						q.Name = "CompletionAtPos(prefill)"
					}
					if uint(len(cands.List)) > max {
						run.Violate(Violation{Key: "C06/limit-exceeded", Rule: "a candidate list never exceeds the decoder's limit", Func: "CompletionAtPos",
							Detail: fmt.Sprintf("%d candidates, limit %d", len(cands.List), max), Replay: locWith(loc, q)})
					}
					if cands.IsComplete && uint(len(cands.List)) == max && max == 3 {
						// is it a truncation?  ask again with the normal limit
						d2, _ := sc.W.Dec.Path(sc.Main.Path)
						d2.PrefillRequiredFields = prefill
						full, err := d2.CompletionAtPos(ctx, sc.File, pos)
						if err == nil && len(full.List) > len(cands.List) {
							run.Violate(Violation{Key: "C06/complete-flag-on-truncated-list/" + fmt.Sprint(cands.List[0].Kind), Rule: "a list is marked complete only when no matching candidate was left out", Func: "CompletionAtPos",
								Detail: fmt.Sprintf("%d of %d candidates returned with IsComplete = true", len(cands.List), len(full.List)), Replay: locWith(loc, q)})
						}
					}
					for _, c := range cands.List {
						er := c.TextEdit.Range
						m := locWith(loc, q)
						m["candidate"] = c.Label
						m["edit_range"] = fmt.Sprint(er)
						kind := fmt.Sprint(int(c.Kind))
						if garbage {
							continue
						}
						if er.Filename != sc.File {
							run.Violate(Violation{Key: "C06/edit-in-wrong-file/" + kind, Rule: "every candidate carries an edit for the requested file", Func: "CompletionAtPos", Detail: er.Filename, Replay: m})
							continue
						}
						if er.Start.Byte > er.End.Byte {
							run.Violate(Violation{Key: "C06/edit-range-malformed/" + kind, Rule: "the edit range is well formed", Func: "CompletionAtPos", Detail: fmt.Sprint(er), Replay: m})
							continue
						}
						if er.Start.Byte > pos.Byte {
							run.Violate(Violation{Key: "C06/edit-starts-after-cursor/" + kind, Rule: "the edit range starts at or before the cursor", Func: "CompletionAtPos", Detail: fmt.Sprintf("cursor %d, range %v", pos.Byte, er), Replay: m})
						}
						if er.End.Byte < pos.Byte && er.End.Byte >= 0 && pos.Byte <= len(sc.Src) {
							between := string(sc.Src[er.End.Byte:pos.Byte])
							if strings.Trim(between, " \t") != "" {
								run.Violate(Violation{Key: "C06/edit-does-not-reach-cursor/" + kind, Rule: "the edit range reaches the cursor (at most blanks lie between its end and the cursor)", Func: "CompletionAtPos",
									Detail: fmt.Sprintf("cursor %d, range %v, between %q", pos.Byte, er, between), Replay: m})
							}
						}
						if cleanSchemaText(c.TextEdit.NewText) || true {
							if st := snippetStops(c.TextEdit.NewText); len(st) > 0 && !strings.Contains(c.Label, "$") {
								run.Violate(Violation{Key: "C06/newtext-has-tab-stops/" + kind, Rule: "the plain-text form contains no tab-stop syntax", Func: "CompletionAtPos", Detail: c.TextEdit.NewText, Replay: m})
							}
						}
						if !strings.Contains(c.Label, "$") && !strings.Contains(c.TextEdit.NewText, "$") {
							if why := stopsWellFormed(snippetStops(c.TextEdit.Snippet)); why != "" {
								reason := "not-consecutive"
								if strings.Contains(why, "twice") {
									reason = "stop-used-twice"
								} else if strings.Contains(why, "final stop") {
									reason = "final-stop-repeated"
								}
								run.Violate(Violation{Key: "C06/snippet-stops/" + map[string]string{"1": "attribute", "2": "block", "3": "label"}[kind] + "/" + reason, Rule: "the snippet form uses consecutive tab-stop numbers, each at most once (an optional final stop aside)", Func: "CompletionAtPos",
									Detail: why + ": " + c.TextEdit.Snippet, Replay: m})
							}
						}
					}
				}
			}
			if len(run.Res.Samples) < 2 && si == 0 {
				run.Sample(map[string]interface{}{"src": string(sc.Src), "max_candidates": max})
			}
		}
	}
}

// hookedAttributesOracle: at the value of every written attribute whose schema (as the caller declared it,
// at any nesting depth of static bodies) carries completion hooks, the list is not marked complete - a hook
// may add more - and, for string-typed attributes, the registered hook's candidate is offered
func hookedAttributesOracle(run *Run, sc *Scenario, tbl map[int]hcl.Pos, loc map[string]interface{}) {
	f := sc.Main.Ctx.Files[sc.File]
	if f == nil || sc.Main.Schema == nil {
		return
	}
	body, ok := f.Body.(*hclsyntax.Body)
	if !ok {
		return
	}
	if _, diags := hclsyntax.ParseConfig(sc.Src, sc.File, hcl.InitialPos); diags.HasErrors() {
		return // on recovered trees the cursor may not be attributed to the attribute at all
	}
	ctx := context.Background()
	var walk func(b *hclsyntax.Body, bs *schema.BodySchema)
	walk = func(b *hclsyntax.Body, bs *schema.BodySchema) {
		if b == nil || bs == nil {
			return
		}
		for name, a := range b.Attributes {
			as := bs.Attributes[name]
			if as == nil || len(as.CompletionHooks) == 0 {
				continue
			}
			registered := false
			for _, h := range as.CompletionHooks {
				if h.Name == "hook1" {
					registered = true
				}
			}
			pos, ok := tbl[a.Expr.Range().Start.Byte]
			if !ok || a.Expr.Range().Start.Byte < a.EqualsRange.End.Byte {
				continue
			}
			d, _ := sc.W.Dec.Path(sc.Main.Path)
			res := safeCall("CompletionAtPos", func() (interface{}, error) { return d.CompletionAtPos(ctx, sc.File, pos) })
			run.Res.Evaluations++
			run.Count("hooked_attribute_values")
			if res.Panic != "" || res.Err != nil {
				continue
			}
			cands := res.Val.(lang.Candidates)
			q := Query{Name: "CompletionAtPos", Pos: &pos, File: sc.File}
			// the same attribute asked right behind its equals sign (blanks in front of the value)
			if eq := a.EqualsRange.End.Byte; eq < a.Expr.Range().Start.Byte {
				if pe, ok := tbl[eq]; ok {
					re := safeCall("CompletionAtPos", func() (interface{}, error) { return d.CompletionAtPos(ctx, sc.File, pe) })
					run.Res.Evaluations++
					if re.Panic == "" && re.Err == nil {
						for _, c := range re.Val.(lang.Candidates).List {
							if c.TextEdit.Range.Start.Byte > pe.Byte || c.TextEdit.Range.End.Byte < c.TextEdit.Range.Start.Byte {
								run.Violate(Violation{Key: fmt.Sprintf("C06/edit-starts-after-cursor/%d", c.Kind), Rule: "the edit range starts at or before the cursor", Func: "CompletionAtPos",
									Detail: fmt.Sprintf("cursor %d (right behind the equals sign of %q), candidate %q, range %v", pe.Byte, name, c.Label, c.TextEdit.Range),
									Replay: locWith(loc, Query{Name: "CompletionAtPos", Pos: &pe, File: sc.File})})
								break
							}
						}
					}
				}
			}
			if cands.IsComplete {
				run.Violate(Violation{Key: "C06/complete-flag-although-hooks-are-attached", Rule: "a list is marked complete only when no matching candidate was left out and no hook may add more",
					Func: "attrValueCompletionAtPos", Detail: fmt.Sprintf("attribute %q has %d completion hook(s), the list of %d candidate(s) is marked complete", name, len(as.CompletionHooks), len(cands.List)), Replay: locWith(loc, q)})
			}
			if tc, isTA := as.Constraint.(schema.TypeAwareConstraint); isTA && registered {
				if t, ok := tc.ConstraintType(); ok && t == cty.String {
					found := false
					for _, c := range cands.List {
						if c.Label == "hooked" {
							found = true
						}
					}
					if !found && len(cands.List) < 100 {
						run.Violate(Violation{Key: "C06/hook-candidate-missing", Rule: "candidates of the attribute's completion hooks are offered", Func: "candidatesFromHooks",
							Detail: fmt.Sprintf("attribute %q: the registered hook's candidate is not among the %d candidates", name, len(cands.List)), Replay: locWith(loc, q)})
					}
				}
			}
		}
		for _, k := range b.Blocks {
			if ks := bs.Blocks[k.Type]; ks != nil {
				// the body in force: the dependent body selected by the block's labels / key attributes may
				// redeclare an attribute without hooks
				if len(ks.DependentBody) == 0 && ks.Body != nil {
					// nothing can redeclare: the body as the caller declared it is binding (a derived copy that lost hooks must not hide them)
					walk(k.Body, ks.Body)
					continue
				}
				merged, _ := decoder.VerifMergeBlockBodySchemas(k.AsHCLBlock(), ks)
				walk(k.Body, merged)
			}
		}
	}
	walk(body, sc.Main.Schema)
}

// hookLimitOracle: candidates of completion hooks and the expression's own candidates together never exceed the limit
func hookLimitOracle(run *Run) {
	ctx := context.Background()
	for _, tc := range []struct{ hooks, refs int }{{30, 30}, {60, 60}, {1, 100}, {99, 100}, {60, 45}, {1, 99}} {
		var vars strings.Builder
		for i := 0; i < tc.refs; i++ {
			fmt.Fprintf(&vars, "variable \"v%03d\" {\n  type = string\n}\n", i)
		}
		base := tfSchema()
		for _, typed := range []string{"", "var", "var.v0"} {
			sch := &schema.BodySchema{
				Blocks: map[string]*schema.BlockSchema{"variable": base.Blocks["variable"]},
				Attributes: map[string]*schema.AttributeSchema{"attr": {IsOptional: true, Constraint: schema.AnyExpression{OfType: cty.String},
					CompletionHooks: lang.CompletionHooks{{Name: fmt.Sprintf("many%d", tc.hooks)}}}},
			}
			src := "attr = " + typed + "\n"
			w := newWorld()
			pd := w.AddPath("root", sch, map[string]string{"main.tf": src, "vars.tf": vars.String()}, nil)
			w.Collect()
			d, err := w.Dec.Path(pd.Path)
			if err != nil {
				continue
			}
			pos := lcTable([]byte(src))[len("attr = "+typed)]
			res := safeCall("CompletionAtPos", func() (interface{}, error) { return d.CompletionAtPos(ctx, "main.tf", pos) })
			run.Res.Evaluations++
			if res.Panic != "" || res.Err != nil {
				continue
			}
			cands := res.Val.(lang.Candidates)
			run.Count("hook_limit_queries")
			if len(cands.List) > 100 {
				run.Violate(Violation{Key: "C06/over-limit/hooks-plus-expression", Rule: "a candidate list never exceeds the limit", Func: "attrValueCompletionAtPos",
					Detail: fmt.Sprintf("%d candidates (%d from the hook, %d declarations) for %q", len(cands.List), tc.hooks, tc.refs, strings.TrimSpace(src)),
					Replay: map[string]interface{}{"src": src, "hook_candidates": tc.hooks, "declarations": tc.refs}})
			}
			if cands.IsComplete {
				run.Violate(Violation{Key: "C06/complete-flag-although-hooks-are-attached", Rule: "a list is marked complete only when no matching candidate was left out and no hook may add more",
					Func: "attrValueCompletionAtPos", Detail: fmt.Sprintf("%d candidates marked complete with a hook attached", len(cands.List)),
					Replay: map[string]interface{}{"src": src, "hook_candidates": tc.hooks, "declarations": tc.refs}})
			}
		}
	}
}

// literalValueFamily: fixed values of every shape LiteralValue.EmptyCompletionData distinguishes - primitives
// (multi-line and quoted strings, fractions), sequences and maps of them, objects (whose rendering depends on
// required-field prefilling and holds tab stops) alone and as elements of lists, sets, tuples and maps, nested
func literalValueFamily() []cty.Value {
	eo := cty.EmptyObjectVal
	o1 := cty.ObjectVal(map[string]cty.Value{"k": cty.StringVal("v"), "n": cty.NumberIntVal(1)})
	o2 := cty.ObjectVal(map[string]cty.Value{"inner": eo, "s": cty.StringVal("x")})
	oopt := cty.ObjectVal(map[string]cty.Value{"a": cty.StringVal("x"), "b": cty.True})
	return []cty.Value{
		cty.True, cty.False, cty.NumberIntVal(42), cty.NumberFloatVal(1.5), cty.NumberIntVal(-7),
		cty.StringVal("plain"), cty.StringVal("q\"x\\y"), cty.StringVal("two\nlines"), cty.StringVal("ends\n"), cty.StringVal("tab\there"), cty.StringVal(""),
		cty.ListVal([]cty.Value{cty.StringVal("a"), cty.StringVal("b")}), cty.ListValEmpty(cty.String),
		cty.SetVal([]cty.Value{cty.NumberIntVal(2), cty.NumberIntVal(1)}),
		cty.TupleVal([]cty.Value{cty.StringVal("t"), cty.NumberIntVal(3), cty.True}), cty.EmptyTupleVal,
		cty.MapVal(map[string]cty.Value{"k1": cty.NumberIntVal(1), "k 2": cty.NumberIntVal(2)}), cty.MapValEmpty(cty.Bool),
		eo, o1, o2, oopt,
		cty.TupleVal([]cty.Value{eo, eo}), cty.TupleVal([]cty.Value{o1, cty.StringVal("mid"), eo, o2}),
		cty.ListVal([]cty.Value{eo, eo, eo}), cty.ListVal([]cty.Value{o1, o1}), cty.SetVal([]cty.Value{o1}),
		cty.MapVal(map[string]cty.Value{"x": eo, "y": eo}), cty.MapVal(map[string]cty.Value{"m": o1}),
		cty.MapVal(map[string]cty.Value{"t": cty.TupleVal([]cty.Value{eo, eo}), "u": cty.TupleVal([]cty.Value{eo, eo})}),
		cty.TupleVal([]cty.Value{cty.MapVal(map[string]cty.Value{"x": eo}), cty.TupleVal([]cty.Value{eo, o2}), cty.StringVal("two\nlines")}),
		cty.ObjectVal(map[string]cty.Value{"list": cty.TupleVal([]cty.Value{eo, eo}), "obj": o2, "txt": cty.StringVal("two\nlines")}),
	}
}
