package main

// C12, content of the hover on an attribute NAME (and the detail of the attribute's completion candidate): the name in
// bold, the marks the schema's flags say, the friendly name of the constraint, the description - against the model
// (Model/AttrDetail.v).

import (
	"context"
	"fmt"
	"math/rand"
	"strings"

	"github.com/hashicorp/hcl-lang/lang"
	"github.com/hashicorp/hcl-lang/schema"
	"github.com/hashicorp/hcl/v2"
	"github.com/zclconf/go-cty/cty"
)

func attrHoverCases(run *Run) {
	ctx := context.Background()
	r := rand.New(rand.NewSource(subSeed(run.Res.Seed, 121313)))
	nc := 320
	if run.Thorough {
		nc = 6000
	}
	o := &GenOpts{}
	kw := schema.Keyword{Keyword: "kw"}
	lts := schema.LiteralType{Type: cty.String}
	// constraints whose friendly name has a special form (no random draw)
	fixed := []schema.Constraint{
		kw, schema.Keyword{Keyword: "kw", Name: "mode"}, schema.TypeDeclaration{}, schema.Tuple{Elems: []schema.Constraint{lts, kw}},
		schema.Reference{OfScopeId: "variable"}, schema.Reference{OfType: cty.List(cty.DynamicPseudoType)}, schema.Reference{OfScopeId: "variable", Name: "variable name"},
		schema.List{}, schema.List{Elem: schema.OneOf{}}, schema.Set{Elem: schema.List{Elem: kw}}, schema.Map{}, schema.Map{Elem: lts, Name: "tags"}, schema.Map{Elem: schema.OneOf{}},
		schema.Object{}, schema.Object{Name: "settings"}, schema.OneOf{}, schema.OneOf{kw, lts, schema.AnyExpression{OfType: cty.String}, schema.Keyword{Keyword: "other"}},
		schema.OneOf{schema.OneOf{}, schema.List{}}, schema.AnyExpression{OfType: cty.DynamicPseudoType}, schema.LiteralType{Type: cty.Map(cty.DynamicPseudoType)},
		schema.LiteralType{Type: cty.Set(cty.List(cty.DynamicPseudoType))}, schema.LiteralType{Type: cty.EmptyObject}, schema.LiteralType{Type: cty.EmptyTuple},
		schema.LiteralValue{Value: cty.StringVal("v")}, schema.LiteralValue{Value: cty.ListVal([]cty.Value{cty.True})}, schema.LiteralValue{Value: cty.EmptyObjectVal},
	}
	names := []string{"attr", "größe", "a1", "with-dash"}
	for i := -len(fixed) * 2; i < nc; i++ {
		o.Degenerate = i%9 == 8
		var c schema.Constraint
		if i < 0 {
			c = fixed[(-i-1)%len(fixed)]
		} else {
			c = genConstraint(r, 3, o)
		}
		k := i + 2*len(fixed)
		a := &schema.AttributeSchema{Constraint: c}
		switch k % 4 {
		case 0:
			a.IsRequired = true
		case 1:
			a.IsOptional = true
		case 2:
			a.IsComputed = true
		default:
			a.IsOptional, a.IsComputed = true, true
		}
		a.IsSensitive = (k/4)%2 == 1
		a.IsWriteOnly = (k/8)%3 == 1
		a.IsDeprecated = (k/24)%4 == 1
		if (k/2)%3 != 0 {
			a.Description = lang.Markdown(fmt.Sprintf("About *%d*.", k))
		}
		name := names[k%len(names)]
		sch := &schema.BodySchema{Attributes: map[string]*schema.AttributeSchema{name: a}}
		content, detail, okH, okC := "", "", false, false
		{
			w := newWorld()
			pd := w.AddPath("root", sch, map[string]string{"main.tf": name + " = 1\n"}, nil)
			if d, err := w.Dec.Path(pd.Path); err == nil {
				res := safeCall("HoverAtPos", func() (interface{}, error) { return d.HoverAtPos(ctx, "main.tf", hcl.InitialPos) })
				run.Res.Evaluations++
				if hv, _ := res.Val.(*lang.HoverData); res.Panic == "" && res.Err == nil && hv != nil {
					content, okH = hv.Content.Value, true
				}
			}
		}
		{
			w := newWorld()
			pd := w.AddPath("root", sch, map[string]string{"main.tf": "\n"}, nil)
			if d, err := w.Dec.Path(pd.Path); err == nil {
				res := safeCall("CompletionAtPos", func() (interface{}, error) { return d.CompletionAtPos(ctx, "main.tf", hcl.InitialPos) })
				run.Res.Evaluations++
				if cs, ok := res.Val.(lang.Candidates); ok && res.Panic == "" && res.Err == nil {
					for _, cd := range cs.List {
						if cd.Label == name {
							detail, okC = cd.Detail, true
						}
					}
				}
			}
		}
		if !okH {
			run.Count("attribute_hover_not_observed")
			continue
		}
		// what the property itself says about this hover: it names the attribute and carries the schema's description
		{
			pos := hcl.InitialPos
			q := Query{Name: "HoverAtPos", Pos: &pos, File: "main.tf"}
			loc := map[string]interface{}{"seed": run.Res.Seed, "kind": "attribute-hover", "src": name + " = 1\n", "attribute": Show(attrSchemaS(a))}
			if !strings.Contains(content, name) {
				run.Violate(Violation{Key: "C12/attribute-hover-without-name", Rule: "on an attribute name the content names that element", Func: "HoverAtPos",
					Detail: fmt.Sprintf("hover on %q says %q", name, content), Replay: locWith(loc, q)})
			}
			if a.Description.Value != "" && !strings.Contains(content, a.Description.Value) {
				run.Violate(Violation{Key: "C12/attribute-hover-without-description", Rule: "on an attribute name the content carries the description the effective schema gives it", Func: "HoverAtPos",
					Detail: fmt.Sprintf("description %q, hover says %q", a.Description.Value, content), Replay: locWith(loc, q)})
			}
		}
		if !okC {
			// computed-only attributes are not offered as candidates: the hover alone
			run.Count("attribute_hover_only_cases")
			run.Case("attrhover", []S{Str(name), attrSchemaS(a), Atom("hover-only")}, T("ahc", Str(content)))
			continue
		}
		run.Count("attribute_hover_cases")
		run.Distinct(fmt.Sprintf("attrhover|%s|%s", name, Show(attrSchemaS(a))))
		run.Case("attrhover", []S{Str(name), attrSchemaS(a)}, T("ah", Str(content), Str(detail)))
	}
}
