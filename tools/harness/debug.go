package main

import (
	gojson "encoding/json"
	"context"
	"github.com/hashicorp/hcl/v2"
	"github.com/hashicorp/hcl/v2/hclsyntax"
	"fmt"
	"math/rand"
	"os"
	"strconv"

	"github.com/hashicorp/hcl-lang/decoder"
	"github.com/hashicorp/hcl-lang/reference"
	"github.com/hashicorp/hcl-lang/schema"
	"github.com/hashicorp/hcl-lang/lang"
	"github.com/zclconf/go-cty/cty"
)

func init() { props["debug-c09"] = debugC09 }

// debug-c09: print schema + targets of one generated configuration of the C09 run (replay = index)
func debugC09(run *Run, replay string) {
	i, _ := strconv.Atoi(os.Getenv("DEBUG_INDEX"))
	r := rand.New(rand.NewSource(subSeed(run.Res.Seed, i)))
	var sc *Scenario
	if i%3 == 2 {
		sc = genScenarios(r, ScenarioOpts{Gen: GenOpts{MaxDepth: 2}})[0]
	} else {
		sc, _ = tfScenario(r)
	}
	d, _ := sc.W.Dec.Path(sc.Main.Path)
	ts, _ := d.CollectReferenceTargets()
	var pr func(ts reference.Targets, ind string)
	pr = func(ts reference.Targets, ind string) {
		for _, t := range ts {
			fmt.Printf("%s%s | local %s | %v | type %s\n", ind, t.Addr.String(), t.LocalAddr.String(), t.RangePtr, Show(tyS(t.Type)))
			pr(t.NestedTargets, ind+"    ")
		}
	}
	pr(ts, "")
	fmt.Println(Show(bodySchemaS(sc.Main.Schema)))
}

func init() { props["debug-tf"] = debugTf }

// debug-tf: DEBUG_SRC is a configuration of the Terraform-like language; prints the parse tree of
// every attribute expression and, if DEBUG_OFFSET is set, the completion candidates at that offset.
func debugTf(run *Run, replay string) {
	src := os.Getenv("DEBUG_SRC")
	w := newWorld()
	pd := w.AddPath("root", tfSchema(), map[string]string{"main.tf": src}, genFunctions(rand.New(rand.NewSource(1))))
	w.Collect()
	f := pd.Ctx.Files["main.tf"]
	fmt.Println(Show(bodyS(f.Body.(*hclsyntax.Body))))
	hclsyntax.VisitAll(f.Body.(*hclsyntax.Body), func(n hclsyntax.Node) hcl.Diagnostics {
		fmt.Printf("  %T %v\n", n, n.Range())
		return nil
	})
	if o := os.Getenv("DEBUG_OFFSET"); o != "" {
		off, _ := strconv.Atoi(o)
		pos := lcTable([]byte(src))[off]
		d, _ := w.Dec.Path(pd.Path)
		c, err := d.CompletionAtPos(context.Background(), "main.tf", pos)
		fmt.Println("completion:", err)
		for _, x := range c.List {
			fmt.Printf("  %q kind=%d range=%v newtext=%q\n", x.Label, x.Kind, x.TextEdit.Range, x.TextEdit.NewText)
		}
	}
}

func init() { props["debug-tokens"] = debugTokens }

func debugTokens(run *Run, replay string) {
	for _, src := range []string{"# c\nvariable \"a\" {\n}\n", "/* c */\nvariable \"a\" {\n}\n", "\n\nvariable \"a\" {\n}\n", "/* c */ variable \"a\" {\n}\n"} {
		w := newWorld()
		pd := w.AddPath("root", tfSchema(), map[string]string{"main.tf": src}, nil)
		d, _ := w.Dec.Path(pd.Path)
		t, err := d.SemanticTokensInFile(context.Background(), "main.tf")
		b := pd.Ctx.Files["main.tf"].Body.(*hclsyntax.Body)
		fmt.Printf("%q body=%v tokens=%d err=%v\n", src, b.Range(), len(t), err)
	}
}

func init() { props["debug-c18"] = debugC18 }

// debug-c18: DEBUG_REPLAY=<replay file>: targets and completion at the position, original vs translated
func debugC18(run *Run, replay string) {
	b, _ := os.ReadFile(os.Getenv("DEBUG_REPLAY"))
	var d map[string]interface{}
	gojson.Unmarshal(b, &d)
	rp := d["violation"].(map[string]interface{})["replay"].(map[string]interface{})
	src := rp["src"].(string)
	ins := rp["inserted"].(string)
	at := int(rp["insert_at"].(float64))
	off := int(rp["offset"].(float64))
	nsrc := src[:at] + ins + src[at:]
	ctx := context.Background()
	for i, s := range []string{src, nsrc} {
		w := newWorld()
		pd := w.AddPath("root", tfSchema(), map[string]string{"main.tf": s}, nil)
		w.Collect()
		o := off
		if i == 1 && off >= at {
			o += len(ins)
		}
		pos := lcTable([]byte(s))[o]
		fmt.Println("== file", i, "pos", pos)
		for _, t := range pd.Ctx.ReferenceTargets {
			if len(t.LocalAddr) > 0 || t.TargetableFromRangePtr != nil {
				fmt.Printf("  target %s local %s from %v range %v\n", t.Addr.String(), t.LocalAddr.String(), t.TargetableFromRangePtr, t.RangePtr)
			}
		}
		dd, _ := w.Dec.Path(pd.Path)
		cs, err := dd.CompletionAtPos(ctx, "main.tf", pos)
		fmt.Println("  err", err)
		for _, c := range cs.List {
			fmt.Printf("  cand %s\n", c.Label)
		}
	}
}

func init() { props["debug-vt"] = debugVT }

func debugVT(run *Run, replay string) {
	for i := 0; i < 40; i++ {
		valueTargetCases(run, rand.New(rand.NewSource(subSeed(run.Res.Seed, i))), 50)
	}
}

func init() { props["debug-vt2"] = debugVT2 }

func debugVT2(run *Run, replay string) {
	cons := schema.List{Elem: schema.OneOf{schema.Reference{Address: &schema.ReferenceAddrSchema{ScopeId: "provider"}}, schema.LiteralType{Type: cty.String}}}
	sch := &schema.BodySchema{Attributes: map[string]*schema.AttributeSchema{"attr": {IsOptional: true, Constraint: cons,
		Address: &schema.AttributeAddrSchema{Steps: schema.Address{schema.StaticStep{Name: "var"}, schema.AttrNameStep{}}, AsExprType: true}}}}
	w := newWorld()
	w.AddPath("p", sch, map[string]string{"main.tf": "attr = [aws.west, \"x\"]\n"}, nil)
	pd, _ := w.Dec.Path(lang.Path{Path: "p", LanguageID: "hcl"})
	ts, _ := pd.CollectReferenceTargets()
	fmt.Println(Show(targetsS(ts)))
}

func init() { props["debug-wo"] = debugWO }

func debugWO(run *Run, replay string) {
	sch := dynFocusSchema(rand.New(rand.NewSource(1)))
	for _, src := range []string{"resource {\n  secret_wo = \"x\"\n}\n", "resource \"aws\" {\n  secret_wo = \"x\"\n}\n", "resource aws {\n}\n"} {
		w := newWorld()
		w.AddPath("p", sch, map[string]string{"main.tf": src}, nil)
		pd, _ := w.Dec.Path(lang.Path{Path: "p", LanguageID: "hcl"})
		res := safeCall("CollectWriteOnlyAttributes", func() (interface{}, error) { return pd.CollectWriteOnlyAttributes() })
		fmt.Printf("%q -> %v panic=%q err=%v\n", src, res.Val, res.Panic, res.Err)
	}
	// a resource block type without a static body
	sch2 := &schema.BodySchema{Blocks: map[string]*schema.BlockSchema{"resource": {Labels: []*schema.LabelSchema{{Name: "type"}}}}}
	{
		sch3 := &schema.BodySchema{Blocks: map[string]*schema.BlockSchema{"resource": {Labels: []*schema.LabelSchema{{Name: "type"}},
			Body: &schema.BodySchema{Attributes: map[string]*schema.AttributeSchema{"pw": {IsOptional: true, IsWriteOnly: true, Constraint: schema.LiteralType{Type: cty.String}}}}}}}
		w := newWorld()
		w.AddPath("p", sch3, map[string]string{"main.tf": "resource {\n  pw = \"x\"\n}\n"}, nil)
		pd, _ := w.Dec.Path(lang.Path{Path: "p", LanguageID: "hcl"})
		res := safeCall("CollectWriteOnlyAttributes", func() (interface{}, error) { return pd.CollectWriteOnlyAttributes() })
		fmt.Printf("static wo, no label -> %v panic=%q err=%v\n", res.Val, res.Panic, res.Err)
	}
	w := newWorld()
	w.AddPath("p", sch2, map[string]string{"main.tf": "resource \"a\" {\n  x = 1\n}\n"}, nil)
	pd, _ := w.Dec.Path(lang.Path{Path: "p", LanguageID: "hcl"})
	res := safeCall("CollectWriteOnlyAttributes", func() (interface{}, error) { return pd.CollectWriteOnlyAttributes() })
	fmt.Printf("no body -> %v panic=%q err=%v\n", res.Val, res.Panic, res.Err)
}

func init() { props["debug-ops"] = debugOps }

func debugOps(run *Run, replay string) {
	debugOperands = true
	operandSymmetryOracle(run, rand.New(rand.NewSource(5)), 12)
	fmt.Println("violations:", len(run.Res.Violations), "evals", run.Res.Evaluations)
	for i, v := range run.Res.Violations {
		if i < 3 {
			fmt.Println(v.Key, v.Detail)
		}
	}
}

func init() { props["debug-ops2"] = debugOps2 }

func debugOps2(run *Run, replay string) {
	base := tfSchema()
	sch := &schema.BodySchema{
		Blocks:     map[string]*schema.BlockSchema{"variable": base.Blocks["variable"]},
		Attributes: map[string]*schema.AttributeSchema{"out_b": {IsOptional: true, Constraint: schema.AnyExpression{OfType: cty.Bool}}},
	}
	src := "variable \"num\" {\n  type = number\n}\nout_b = var.num < var.num\n"
	if os.Getenv("DEBUG_SRC") != "" {
		src = os.Getenv("DEBUG_SRC")
	}
	w := newWorld()
	pd := w.AddPath("root", sch, map[string]string{"main.tf": src}, nil)
	fmt.Println(w.Collect())
	fmt.Println("targets", len(pd.Ctx.ReferenceTargets), Show(targetsS(pd.Ctx.ReferenceTargets)))
	d, _ := w.Dec.Path(pd.Path)
	tbl := lcTable([]byte(src))
	for off := len(src) - 24; off < len(src); off++ {
		c, err := d.CompletionAtPos(context.Background(), "main.tf", tbl[off])
		fmt.Printf("%d %q %d %v\n", off, src[:off][len(src)-24:], len(c.List), err)
	}
}

func init() { props["debug-bt"] = debugBT }

func debugBT(run *Run, replay string) {
	for bi := 0; bi < 60; bi++ {
		r := rand.New(rand.NewSource(subSeed(run.Res.Seed, bi)))
		for _, sc := range genScenarios(r, ScenarioOpts{Histories: 2, Inject: bi%3 == 1, Gen: GenOpts{Degenerate: bi%5 == 4, DynFocus: bi%6 == 5, MaxDepth: 2}}) {
			bodyTargetsCase(run, sc)
		}
		ts, _ := tfScenario(r)
		bodyTargetsCase(run, ts)
	}
}

func init() { props["debug-at"] = debugAT }

func debugAT(run *Run, replay string) {
	for bi := 0; bi < 60; bi++ {
		r := rand.New(rand.NewSource(subSeed(run.Res.Seed, bi)))
		for _, sc := range genScenarios(r, ScenarioOpts{Histories: 2, Inject: bi%3 == 1, Gen: GenOpts{Degenerate: bi%5 == 4, DynFocus: bi%6 == 5, MaxDepth: 2}}) {
			sc.W.Collect()
			allTokensCase(run, sc)
		}
		ts, _ := tfScenario(r)
		ts.W.Collect()
		allTokensCase(run, ts)
		lf := literalValueFocusScenario(r)
		lf.W.Collect()
		allTokensCase(run, lf)
	}
}

func init() { props["debug-lk"] = debugLK }

func debugLK(run *Run, replay string) {
	for bi := 0; bi < 80; bi++ {
		r := rand.New(rand.NewSource(subSeed(run.Res.Seed, bi)))
		for _, sc := range genScenarios(r, ScenarioOpts{Histories: 2, Inject: bi%3 == 1, Gen: GenOpts{Degenerate: bi%5 == 4, DynFocus: bi%2 == 1, MaxDepth: 2}}) {
			linksCase(run, sc)
		}
	}
}

func init() { props["debug-mapiter"] = debugMapIter }

func debugMapIter(run *Run, replay string) {
	sch := &schema.BodySchema{Attributes: map[string]*schema.AttributeSchema{
		"a": {IsOptional: true, Constraint: schema.LiteralType{Type: cty.Bool}},
		"b": {IsOptional: true, Constraint: schema.LiteralType{Type: cty.Bool}},
		"c": {IsOptional: true, Constraint: schema.LiteralType{Type: cty.Bool}},
	}}
	src := "a =\nb =\n"
	counts := map[string]int{}
	for i := 0; i < 200; i++ {
		w := newWorld()
		pd := w.AddPath("p", sch, map[string]string{"main.tf": src}, nil)
		d, _ := w.Dec.Path(pd.Path)
		c, err := d.CompletionAtPos(context.Background(), "main.tf", hcl.Pos{Line: 2, Column: 1, Byte: 4})
		var ls []string
		for _, x := range c.List {
			ls = append(ls, x.Label)
		}
		counts[fmt.Sprint(ls, err)]++
	}
	fmt.Println(counts)
	f := parseFile("main.tf", []byte(src))
	for n, a := range f.Body.(*hclsyntax.Body).Attributes {
		fmt.Println(n, a.SrcRange, a.NameRange, a.Expr.Range())
	}
}

func init() { props["debug-hv"] = debugHV }

func debugHV(run *Run, replay string) {
	for _, tc := range []struct {
		t   cty.Type
		src string
	}{
		{cty.Bool, "attr = true ? null : false\n"},
		{cty.List(cty.Tuple([]cty.Type{cty.Bool})), "attr = [[true ? null : false]]\n"},
		{cty.Tuple([]cty.Type{cty.Bool}), "attr = [true ? null : false]\n"},
		{cty.List(cty.Bool), "attr = [true ? null : false]\n"},
	} {
		sch := &schema.BodySchema{Attributes: map[string]*schema.AttributeSchema{"attr": {IsOptional: true, Constraint: schema.AnyExpression{OfType: tc.t}}}}
		w := newWorld()
		pd := w.AddPath("p", sch, map[string]string{"main.tf": tc.src}, nil)
		d, _ := w.Dec.Path(pd.Path)
		tbl := lcTable([]byte(tc.src))
		for off := 7; off < len(tc.src); off++ {
			h, err := d.HoverAtPos(context.Background(), "main.tf", tbl[off])
			if h != nil {
				fmt.Printf("%q off %d: %q %v\n", tc.src, off, h.Content.Value, h.Range)
			} else {
				fmt.Printf("%q off %d: nil %v\n", tc.src, off, err)
			}
		}
	}
}

func init() { props["debug-c06"] = debugC06 }

func debugC06(run *Run, replay string) {
	bi, si, off := 31, 3, 1832
	rr := rand.New(rand.NewSource(subSeed(run.Res.Seed, bi)))
	opts := ScenarioOpts{Histories: 3, Inject: bi%3 == 1, Gen: GenOpts{}}
	if bi%6 == 1 {
		opts.Gen.ManyAttrs = 110 + bi
	}
	scs := genScenarios(rr, opts)
	sc := scs[si]
	sc.W.Collect()
	tbl := lcTable(sc.Src)
	pos := tbl[off]
	d, _ := sc.W.Dec.Path(sc.Main.Path)
	decoder.VerifSetMaxCandidates(d, 3)
	c, err := d.CompletionAtPos(context.Background(), sc.File, pos)
	fmt.Println(pos, err, len(c.List))
	for _, x := range c.List {
		fmt.Printf("  %q kind=%d range=%v bytes %d-%d\n", x.Label, x.Kind, x.TextEdit.Range, x.TextEdit.Range.Start.Byte, x.TextEdit.Range.End.Byte)
	}
	lo := off - 40
	fmt.Printf("%q | %q\n", sc.Src[lo:off], sc.Src[off:off+20])
	body := sc.Main.Ctx.Files[sc.File].Body.(*hclsyntax.Body)
	for n, a := range body.Attributes {
		if a.SrcRange.Start.Byte <= off+10 && a.SrcRange.End.Byte >= off-10 {
			fmt.Println(n, a.SrcRange, "name", a.NameRange, "eq", a.EqualsRange, "expr", a.Expr.Range(), fmt.Sprintf("%T", a.Expr))
		}
	}
}

func init() { props["debug-vc"] = func(run *Run, replay string) { valueCandsCases(run) } }

func init() {
	props["debug-fe"] = func(run *Run, replay string) {
		src := "hk = provider::a::b({for k, v in self.a.attr :"
		w := newWorld()
		pd := w.AddPath("root", valueFocusSchema(), map[string]string{"main.tf": src}, valueFocusFunctions())
		w.Collect()
		d, _ := w.Dec.Path(pd.Path)
		body := pd.Ctx.Files["main.tf"].Body.(*hclsyntax.Body)
		for _, b := range body.Blocks {
			for n, a := range b.Body.Attributes {
				fmt.Printf("attr %s expr %T range %v\n", n, a.Expr, a.Expr.Range())
			}
		}
		tbl := lcTable([]byte(src))
		for n, a := range body.Attributes {
			fmt.Printf("attr %s expr %T range %v\n", n, a.Expr, a.Expr.Range())
		}
		for off := 3; off <= len(src); off++ {
			pos, ok := tbl[off]
			if !ok {
				continue
			}
			c, err := d.CompletionAtPos(context.Background(), "main.tf", pos)
			for _, x := range c.List {
				if x.TextEdit.Range.End.Byte < x.TextEdit.Range.Start.Byte {
					fmt.Printf("off %d cand %q kind %d range %v err %v\n", off, x.Label, x.Kind, x.TextEdit.Range, err)
					break
				}
			}
		}
	}
}
