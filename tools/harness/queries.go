package main

import (
	"context"
	"fmt"

	"github.com/hashicorp/hcl-lang/decoder"
	"github.com/hashicorp/hcl-lang/lang"
	"github.com/hashicorp/hcl-lang/reference"
	"github.com/hashicorp/hcl/v2"
)

type Query struct {
	Name string
	Pos  *hcl.Pos
	File string
	Run  func() (interface{}, error)
}

// fileQueries: every public query that takes no position, for one path/file.
func (s *Scenario) fileQueries(p *PathData, file string) []Query {
	ctx := context.Background()
	pd := func() *decoder.PathDecoder {
		d, _ := s.W.Dec.Path(p.Path)
		return d
	}
	return []Query{
		{Name: "SemanticTokensInFile", File: file, Run: func() (interface{}, error) { return pd().SemanticTokensInFile(ctx, file) }},
		{Name: "SymbolsInFile", File: file, Run: func() (interface{}, error) { return pd().SymbolsInFile(file) }},
		{Name: "LinksInFile", File: file, Run: func() (interface{}, error) { return pd().LinksInFile(file) }},
		{Name: "ValidateFile", File: file, Run: func() (interface{}, error) { return pd().ValidateFile(ctx, file) }},
	}
}

func (s *Scenario) pathQueries(p *PathData) []Query {
	ctx := context.Background()
	pd := func() *decoder.PathDecoder {
		d, _ := s.W.Dec.Path(p.Path)
		return d
	}
	return []Query{
		{Name: "Validate", Run: func() (interface{}, error) { return pd().Validate(ctx) }},
		{Name: "CollectReferenceTargets", Run: func() (interface{}, error) { return pd().CollectReferenceTargets() }},
		{Name: "CollectReferenceOrigins", Run: func() (interface{}, error) { return pd().CollectReferenceOrigins() }},
		{Name: "CollectWriteOnlyAttributes", Run: func() (interface{}, error) { return pd().CollectWriteOnlyAttributes() }},
		{Name: "Symbols", Run: func() (interface{}, error) { return s.W.Dec.Symbols(ctx, "") }},
		{Name: "Symbols(a)", Run: func() (interface{}, error) { return s.W.Dec.Symbols(ctx, "a") }},
	}
}

func (s *Scenario) posQueries(p *PathData, file string, pos hcl.Pos) []Query {
	ctx := context.Background()
	pd := func(prefill bool) *decoder.PathDecoder {
		d, _ := s.W.Dec.Path(p.Path)
		d.PrefillRequiredFields = prefill
		return d
	}
	pp := pos
	return []Query{
		{Name: "CompletionAtPos", Pos: &pp, File: file, Run: func() (interface{}, error) { return pd(false).CompletionAtPos(ctx, file, pos) }},
		{Name: "CompletionAtPos(prefill)", Pos: &pp, File: file, Run: func() (interface{}, error) { return pd(true).CompletionAtPos(ctx, file, pos) }},
		{Name: "HoverAtPos", Pos: &pp, File: file, Run: func() (interface{}, error) { return pd(false).HoverAtPos(ctx, file, pos) }},
		{Name: "SignatureAtPos", Pos: &pp, File: file, Run: func() (interface{}, error) { return pd(false).SignatureAtPos(file, pos) }},
		{Name: "ReferenceTargetsForOriginAtPos", Pos: &pp, File: file, Run: func() (interface{}, error) {
			return s.W.Dec.ReferenceTargetsForOriginAtPos(p.Path, file, pos)
		}},
		{Name: "ReferenceOriginsTargetingPos", Pos: &pp, File: file, Run: func() (interface{}, error) {
			return s.W.Dec.ReferenceOriginsTargetingPos(p.Path, file, pos), nil
		}},
	}
}

// RRange is a range found in a result, with the path it is reported for ("" = the queried path).
type RRange struct {
	Rng  hcl.Range
	Path string
	What string
}

const callerSupplied = "caller-supplied.tf"

func rangesOf(v interface{}, path string) []RRange {
	var out []RRange
	add := func(r hcl.Range, p, what string) {
		if r.Filename == callerSupplied {
			return
		}
		out = append(out, RRange{r, p, what})
	}
	addp := func(r *hcl.Range, p, what string) {
		if r != nil {
			add(*r, p, what)
		}
	}
	var symbols func(ss []decoder.Symbol)
	symbols = func(ss []decoder.Symbol) {
		for _, sy := range ss {
			add(sy.Range(), sy.Path().Path, "symbol range")
			symbols(sy.NestedSymbols())
		}
	}
	var targets func(ts reference.Targets)
	targets = func(ts reference.Targets) {
		for _, t := range ts {
			addp(t.RangePtr, path, "target range")
			addp(t.DefRangePtr, path, "target definition range")
			addp(t.TargetableFromRangePtr, path, "target visible-from range")
			targets(t.NestedTargets)
		}
	}
	switch x := v.(type) {
	case lang.Candidates:
		for _, c := range x.List {
			add(c.TextEdit.Range, path, "completion edit range")
			for _, e := range c.AdditionalTextEdits {
				add(e.Range, path, "completion additional edit range")
			}
		}
	case *lang.HoverData:
		if x != nil {
			add(x.Range, path, "hover range")
		}
	case []lang.SemanticToken:
		for _, t := range x {
			add(t.Range, path, "semantic token range")
		}
	case []decoder.Symbol:
		symbols(x)
	case []lang.Link:
		for _, l := range x {
			add(l.Range, path, "link range")
		}
	case hcl.Diagnostics:
		for _, d := range x {
			addp(d.Subject, path, "diagnostic subject")
			addp(d.Context, path, "diagnostic context")
		}
	case lang.DiagnosticsMap:
		for _, ds := range x {
			for _, d := range ds {
				addp(d.Subject, path, "diagnostic subject")
			}
		}
	case reference.Targets:
		targets(x)
		// ... and as a caller's state store would keep them
		func() {
			defer func() { _ = recover() }()
			targets(x.Copy())
		}()
	case reference.Origins:
		for _, o := range x {
			add(o.OriginRange(), path, "origin range")
		}
		func() {
			defer func() { _ = recover() }()
			for _, o := range x.Copy() {
				add(o.OriginRange(), path, "origin range of a copy")
			}
		}()
	case decoder.ReferenceTargets:
		for _, t := range x {
			if t == nil {
				continue
			}
			add(t.OriginRange, path, "lookup origin range")
			add(t.Range, t.Path.Path, "lookup target range")
			addp(t.DefRangePtr, t.Path.Path, "lookup target definition range")
		}
	case decoder.ReferenceOrigins:
		for _, o := range x {
			add(o.Range, o.Path.Path, "lookup origin range")
		}
	case decoder.WriteOnlyAttributes:
	case *lang.FunctionSignature:
	case nil:
	default:
		panic(fmt.Sprintf("rangesOf: unhandled %T", v))
	}
	return out
}
