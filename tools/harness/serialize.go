package main

// Serialisation of schema values and syntax trees into the model's input format
// (readers: coq/Model/Schema.v, coq/Model/Ast.v).  Go maps are emitted sorted by key.

import (
	"fmt"
	"sort"

	"github.com/hashicorp/hcl-lang/lang"
	"github.com/hashicorp/hcl-lang/schema"
	"github.com/hashicorp/hcl/v2"
	"github.com/hashicorp/hcl/v2/hclsyntax"
	"github.com/zclconf/go-cty/cty"
	ctyjson "github.com/zclconf/go-cty/cty/json"
)

var Nil = List{}

func tyS(t cty.Type) S {
	switch {
	case t == cty.NilType:
		return Atom("nil")
	case t == cty.DynamicPseudoType:
		return Atom("dyn")
	case t == cty.Bool:
		return Atom("bool")
	case t == cty.Number:
		return Atom("num")
	case t == cty.String:
		return Atom("str")
	case t.IsListType():
		return T("list", tyS(t.ElementType()))
	case t.IsSetType():
		return T("set", tyS(t.ElementType()))
	case t.IsMapType():
		return T("map", tyS(t.ElementType()))
	case t.IsTupleType():
		l := List{}
		for _, e := range t.TupleElementTypes() {
			l = append(l, tyS(e))
		}
		return T("tuple", l)
	case t.IsObjectType():
		l := List{}
		ats := t.AttributeTypes()
		for _, n := range sortedKeys(ats) {
			l = append(l, L(Str(n), tyS(ats[n]), Bool(t.AttributeOptional(n))))
		}
		return T("object", l)
	}
	return Atom("dyn") // capsule etc.: not generated
}

func modsS(m lang.SemanticTokenModifiers) S {
	l := List{}
	for _, x := range m {
		l = append(l, Str(string(x)))
	}
	return l
}

func valS(v cty.Value) S {
	if v == cty.NilVal {
		return T("nilval")
	}
	if !v.IsWhollyKnown() {
		return T("unknown")
	}
	if v.IsNull() {
		return T("null", tyS(v.Type()))
	}
	t := v.Type()
	switch {
	case t == cty.String:
		return T("str", Str(v.AsString()))
	case t == cty.Bool:
		return T("bool", Bool(v.True()))
	case t == cty.Number:
		return T("num", Str(v.AsBigFloat().Text('f', -1)))
	case t.IsListType() || t.IsSetType() || t.IsTupleType():
		l := List{}
		for _, e := range v.AsValueSlice() {
			l = append(l, valS(e))
		}
		return T("seq", tyS(t), l)
	case t.IsMapType() || t.IsObjectType():
		l := List{}
		m := v.AsValueMap()
		for _, k := range sortedKeys(m) {
			l = append(l, L(Str(k), valS(m[k])))
		}
		return T("kv", tyS(t), l)
	}
	return T("other")
}

func consS(c schema.Constraint) S {
	oc := func(e schema.Constraint) S {
		if e == nil {
			return Nil
		}
		return consS(e)
	}
	switch x := c.(type) {
	case nil:
		return T("oneof", List{})
	case schema.AnyExpression:
		return T("any", tyS(x.OfType), Bool(x.SkipLiteralComplexTypes))
	case schema.LiteralType:
		return T("littype", tyS(x.Type), Bool(x.SkipComplexTypes))
	case schema.LiteralValue:
		return T("litval", valS(x.Value), tyS(x.Value.Type()), Bool(x.IsDeprecated))
	case schema.Keyword:
		return T("keyword", Str(x.Keyword), Str(x.Name))
	case schema.Reference:
		ad := S(Nil)
		if x.Address != nil {
			ad = Str(string(x.Address.ScopeId))
		}
		return T("ref", Str(string(x.OfScopeId)), tyS(x.OfType), Str(x.Name), ad)
	case schema.TypeDeclaration:
		return T("typedecl")
	case schema.List:
		return T("list", oc(x.Elem), Int64(int64(x.MinItems)), Int64(int64(x.MaxItems)))
	case schema.Set:
		return T("set", oc(x.Elem), Int64(int64(x.MinItems)), Int64(int64(x.MaxItems)))
	case schema.Tuple:
		l := List{}
		for _, e := range x.Elems {
			l = append(l, oc(e))
		}
		return T("tuple", l)
	case schema.Map:
		return T("map", oc(x.Elem), Str(x.Name), Bool(x.AllowInterpolatedKeys), Int64(int64(x.MinItems)), Int64(int64(x.MaxItems)))
	case schema.Object:
		l := List{}
		for _, n := range sortedKeys(x.Attributes) {
			l = append(l, L(Str(n), attrSchemaS(x.Attributes[n])))
		}
		return T("object", l, Bool(x.Attributes == nil), Str(x.Name), Bool(x.AllowInterpolatedKeys))
	case schema.OneOf:
		l := List{}
		for _, e := range x {
			l = append(l, oc(e))
		}
		return T("oneof", l)
	}
	panic(fmt.Sprintf("consS: %T", c))
}

func schemaAddrS(a schema.Address) S {
	l := List{}
	for _, s := range a {
		switch x := s.(type) {
		case schema.StaticStep:
			l = append(l, T("static", Str(x.Name)))
		case schema.LabelStep:
			l = append(l, T("label", Int(int(x.Index))))
		case schema.AttrNameStep:
			l = append(l, T("attrname"))
		case schema.AttrValueStep:
			l = append(l, T("attrvalue", Str(x.Name), Bool(x.IsOptional)))
		}
	}
	return l
}

func staticKeyS(v cty.Value) S { return staticS(v) }

func attrSchemaS(a *schema.AttributeSchema) S {
	if a == nil {
		return Nil
	}
	def := S(Nil)
	if a.DefaultValue != nil {
		if dv, ok := a.DefaultValue.(schema.DefaultValue); ok {
			def = staticDefaultS(dv.Value)
		}
	}
	ad := S(Nil)
	if a.Address != nil {
		ad = T("aaddr", schemaAddrS(a.Address.Steps), Str(a.Address.FriendlyName), Str(string(a.Address.ScopeId)), Bool(a.Address.AsExprType), Bool(a.Address.AsReference))
	}
	og := S(Nil)
	if a.OriginForTarget != nil {
		og = T("originfor", schemaAddrS(a.OriginForTarget.Address), Str(a.OriginForTarget.Path.Path), Str(string(a.OriginForTarget.Constraints.ScopeId)), tyS(a.OriginForTarget.Constraints.Type))
	}
	return T("attr",
		L(Bool(a.IsRequired), Bool(a.IsOptional), Bool(a.IsComputed), Bool(a.IsDeprecated), Bool(a.IsSensitive), Bool(a.IsWriteOnly), Bool(a.IsDepKey)),
		def, Str(a.Description.Value), consS(a.Constraint), modsS(a.SemanticTokenModifiers), Int(len(a.CompletionHooks)), ad, og)
}

// default values used as dependency keys: only primitives are generated
func staticDefaultS(v cty.Value) S {
	return staticS(v)
}

func langAddrS(a lang.Address) S { return addrS(a) }

func targetableS(t *schema.Targetable) S {
	nested := List{}
	for _, n := range t.NestedTargetables {
		nested = append(nested, targetableS(n))
	}
	return T("targetable", addrS(t.Address), Str(string(t.ScopeId)), tyS(t.AsType), Bool(t.IsSensitive), Str(t.FriendlyName), Str(t.Description.Value), nested)
}

func bodySchemaS(b *schema.BodySchema) S {
	if b == nil {
		return Nil
	}
	ats := List{}
	for _, n := range sortedKeys(b.Attributes) {
		ats = append(ats, L(Str(n), attrSchemaS(b.Attributes[n])))
	}
	bls := List{}
	for _, n := range sortedKeys(b.Blocks) {
		bls = append(bls, L(Str(n), blockSchemaS(b.Blocks[n])))
	}
	ext := S(Nil)
	if b.Extensions != nil {
		ext = L(Bool(b.Extensions.Count), Bool(b.Extensions.ForEach), Bool(b.Extensions.DynamicBlocks), Bool(b.Extensions.SelfRefs))
	}
	docs := S(Nil)
	if b.DocsLink != nil {
		docs = L(Str(b.DocsLink.URL), Str(b.DocsLink.Tooltip))
	}
	tg := List{}
	for _, t := range b.TargetableAs {
		tg = append(tg, targetableS(t))
	}
	im := List{}
	for _, i := range b.ImpliedOrigins {
		im = append(im, T("implied", addrS(i.OriginAddress), addrS(i.TargetAddress), Str(i.Path.Path), Str(string(i.Constraints.ScopeId)), tyS(i.Constraints.Type)))
	}
	tgs := S(Nil)
	if b.Targets != nil {
		tgs = T("targets", Str(b.Targets.Path.Path), rangeS(b.Targets.Range))
	}
	return T("body", ats, attrSchemaS(b.AnyAttribute), bls, ext, docs, Str(b.Description.Value), Str(b.Detail), Str(b.HoverURL), tg, im, tgs)
}

func blockSchemaS(b *schema.BlockSchema) S {
	if b == nil {
		return Nil
	}
	lbs := List{}
	for _, l := range b.Labels {
		lbs = append(lbs, L(Str(l.Name), Bool(l.IsDepKey), Bool(l.Completable), modsS(l.SemanticTokenModifiers), Str(l.Description.Value)))
	}
	dep := List{}
	keys := make([]string, 0, len(b.DependentBody))
	for k := range b.DependentBody {
		keys = append(keys, string(k))
	}
	sort.Strings(keys)
	for _, k := range keys {
		dep = append(dep, L(Str(k), bodySchemaS(b.DependentBody[schema.SchemaKey(k)])))
	}
	ad := S(Nil)
	if b.Address != nil {
		a := b.Address
		ato := S(Nil)
		if a.AsTypeOf != nil {
			ato = Str(a.AsTypeOf.AttributeExpr)
		}
		ad = T("baddr", schemaAddrS(a.Steps), Str(a.FriendlyName), Str(string(a.ScopeId)),
			L(Bool(a.AsReference), Bool(a.BodyAsData), Bool(a.InferBody), Bool(a.BodySelfRef), Bool(a.DependentBodyAsData), Bool(a.InferDependentBody), Bool(a.SupportUnknownNestedRefs), Bool(a.DependentBodySelfRef)), ato)
	}
	return T("block", lbs, Int(int(b.Type)), bodySchemaS(b.Body), dep, Int64(int64(b.MinItems)), Int64(int64(b.MaxItems)), Bool(b.IsDeprecated), Str(b.Description.Value), modsS(b.SemanticTokenModifiers), ad)
}

// ---------------------------------------------------------------- syntax trees

func rangeS(r hcl.Range) S {
	return T("rng", Str(r.Filename), Int(r.Start.Line), Int(r.Start.Column), Int(r.Start.Byte), Int(r.End.Line), Int(r.End.Column), Int(r.End.Byte))
}

func posS(p hcl.Pos) S { return L(Int(p.Line), Int(p.Column), Int(p.Byte)) }

func exprS(e hcl.Expression) S {
	switch x := e.(type) {
	case *hclsyntax.ScopeTraversalExpr:
		addr, err := lang.TraversalToAddress(x.AsTraversal())
		if err != nil {
			return T("trav", rangeS(x.Range()), Nil)
		}
		return T("trav", rangeS(x.Range()), L(addrS(addr)))
	case *hclsyntax.LiteralValueExpr:
		return T("lit", rangeS(x.Range()), Str(x.Val.Type().FriendlyName()))
	case *hclsyntax.TemplateExpr:
		// second flag: every part is a string literal (what symbolExprKind calls a multi-line string literal)
		allStr := len(x.Parts) >= 1
		for _, part := range x.Parts {
			lit, ok := part.(*hclsyntax.LiteralValueExpr)
			if !ok || lit.Val.Type() != cty.String {
				allStr = false
			}
		}
		return T("tmpl", rangeS(x.Range()), Bool(x.IsStringLiteral()), Bool(allStr))
	case *hclsyntax.TupleConsExpr:
		l := List{}
		for _, it := range x.Exprs {
			l = append(l, exprS(it))
		}
		return T("tuple", rangeS(x.Range()), l)
	case *hclsyntax.ObjectConsExpr:
		l := List{}
		for _, it := range x.Items {
			key := S(Nil)
			kv, _ := it.KeyExpr.Value(nil)
			if !kv.IsNull() && kv.IsWhollyKnown() && kv.Type() == cty.String {
				key = Str(kv.AsString())
			}
			l = append(l, L(rangeS(it.KeyExpr.Range()), key, exprS(it.ValueExpr)))
		}
		return T("object", rangeS(x.Range()), l)
	}
	return T("other", rangeS(e.Range()), Str(fmt.Sprintf("%T", e)))
}

func evalS(e hcl.Expression) S {
	v, diags := e.Value(nil)
	if len(diags) > 0 && v.IsNull() {
		return T("skip")
	}
	if !v.IsWhollyKnown() {
		return T("unmarshalable")
	}
	if v.IsNull() || v.Type() == cty.String || v.Type() == cty.Bool {
		return T("static", staticS(v))
	}
	if v.Type() == cty.Number {
		if bf := v.AsBigFloat(); bf.IsInt() {
			if i, acc := bf.Int64(); acc == 0 {
				_ = i
				return T("static", staticS(v))
			}
		}
	}
	b, err := ctyjson.SimpleJSONValue{Value: v}.MarshalJSON()
	if err != nil {
		return T("unmarshalable")
	}
	return T("json", Str(string(b)))
}

func attrS(a *hclsyntax.Attribute) S {
	return L(Str(a.Name), exprS(a.Expr), rangeS(a.SrcRange), rangeS(a.NameRange), rangeS(a.EqualsRange), evalS(a.Expr))
}

func blockS(b *hclsyntax.Block) S {
	ls, lrs := List{}, List{}
	for _, l := range b.Labels {
		ls = append(ls, Str(l))
	}
	for _, r := range b.LabelRanges {
		lrs = append(lrs, rangeS(r))
	}
	return L(Str(b.Type), ls, lrs, rangeS(b.TypeRange), rangeS(b.OpenBraceRange), rangeS(b.CloseBraceRange), rangeS(b.Range()), rangeS(b.DefRange()), bodyS(b.Body))
}

func bodyS(b *hclsyntax.Body) S {
	ats := List{}
	names := make([]string, 0, len(b.Attributes))
	for n := range b.Attributes {
		names = append(names, n)
	}
	sort.Strings(names)
	for _, n := range names {
		ats = append(ats, attrS(b.Attributes[n]))
	}
	bls := List{}
	for _, k := range b.Blocks {
		bls = append(bls, blockS(k))
	}
	return T("body", ats, bls, rangeS(b.SrcRange), rangeS(b.EndRange))
}
