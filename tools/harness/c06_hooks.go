package main

// Attribute values with completion hooks (attrValueCompletionAtPos / candidatesFromHooks).
//
// A fixed schema of hooked attributes (string-typed through AnyExpression, LiteralType and OneOf, a number-typed
// one, one whose hook is not registered, one without hooks) over a set of value spellings (missing, empty,
// quoted, unterminated, heredoc, reference being typed, blanks in front of the value), asked at every cursor
// offset from the equals sign to the end of the value with several candidate limits.  The hook results and
// the value's own candidates (the same query with the hooks taken off the schema and no limit) are the
// inputs of the model (kind hookcands, Model/HookCands.v); compared: the text the hook was handed, the
// completeness flag, and the labels and edit ranges of the list in order.  Directly: the context handed to
// the hook names the requested file, position, path and limit.

import (
	"context"
	"fmt"
	"strings"

	"github.com/hashicorp/hcl-lang/decoder"
	"github.com/hashicorp/hcl-lang/lang"
	"github.com/hashicorp/hcl-lang/schema"
	"github.com/hashicorp/hcl/v2"
	"github.com/hashicorp/hcl/v2/hclsyntax"
	"github.com/zclconf/go-cty/cty"
)

func hookFocusSchema(hooks bool) *schema.BodySchema {
	h := func(names ...string) lang.CompletionHooks {
		if !hooks {
			return nil
		}
		var out lang.CompletionHooks
		for _, n := range names {
			out = append(out, lang.CompletionHook{Name: n})
		}
		return out
	}
	base := tfSchema()
	return &schema.BodySchema{
		Blocks: map[string]*schema.BlockSchema{"variable": base.Blocks["variable"]},
		Attributes: map[string]*schema.AttributeSchema{
			"hs": {IsOptional: true, Constraint: schema.AnyExpression{OfType: cty.String}, CompletionHooks: h("echo", "many1")},
			"hl": {IsOptional: true, Constraint: schema.LiteralType{Type: cty.String}, CompletionHooks: h("many30", "echo")},
			"ho": {IsOptional: true, Constraint: schema.OneOf{schema.LiteralValue{Value: cty.StringVal("alpha")}, schema.LiteralValue{Value: cty.StringVal("beta")}},
				CompletionHooks: h("echo", "hook1", "many1")},
			"hn": {IsOptional: true, Constraint: schema.AnyExpression{OfType: cty.Number}, CompletionHooks: h("echo")},
			"hx": {IsOptional: true, Constraint: schema.AnyExpression{OfType: cty.String}, CompletionHooks: h("not-registered", "echo", "also-missing", "many1")},
			"nh": {IsOptional: true, Constraint: schema.AnyExpression{OfType: cty.String}},
		},
	}
}

func hookCandsCases(run *Run) {
	ctx := context.Background()
	vars := "variable \"v0\" {\n  type = string\n}\nvariable \"v1\" {\n  type = string\n}\nvariable \"w\" {\n  type = string\n}\n"
	values := []string{"", " ", " \"ab\"", "   \"ab\"", " \"ab", " \"", " var.", " var.v", "  var.v0", " <<EOT\nfoo\nEOT", " alp", " \"al\"", " f1(\"x\")", " \"é世\""}
	hookNames := map[string][]string{"hs": {"echo", "many1"}, "hl": {"many30", "echo"}, "ho": {"echo", "hook1", "many1"}, "hn": {"echo"},
		"hx": {"not-registered", "echo", "also-missing", "many1"}, "nh": nil}
	stringTyped := map[string]bool{"hs": true, "hl": true, "ho": true, "hn": false, "hx": true, "nh": true}
	fixedResults := func(name string) List {
		l := List{}
		switch name {
		case "hook1":
			l = append(l, L(Str("hooked"), Str(`"hooked"`)))
		case "many1", "many30":
			n := 1
			if name == "many30" {
				n = 30
			}
			for i := 0; i < n; i++ {
				l = append(l, L(Str(fmt.Sprintf("hooked-%03d", i)), Str(fmt.Sprintf("\"h%03d\"", i))))
			}
		}
		return l
	}
	for _, attr := range []string{"hs", "hl", "ho", "hn", "hx", "nh"} {
		for _, val := range values {
			for _, tail := range []string{"\n", "\nnh = \"next\"\n"} {
				src := "nh = \"first\"\n" + attr + " =" + val + tail
				lineStart := len("nh = \"first\"\n")
				eqEnd := lineStart + len(attr) + 2
				valEnd := eqEnd + len(val)
				tbl := lcTable([]byte(src))
				for _, max := range []uint{100, 31, 3, 1, 0} {
					w := newWorld()
					pd := w.AddPath("root", hookFocusSchema(true), map[string]string{"main.tf": src, "vars.tf": vars}, genFunctions(nil))
					w.Collect()
					d, _ := w.Dec.Path(pd.Path)
					decoder.VerifSetMaxCandidates(d, max)
					// the same file under the same schema without hooks, unlimited: the value's own candidates
					w0 := newWorld()
					pd0 := w0.AddPath("root", hookFocusSchema(false), map[string]string{"main.tf": src, "vars.tf": vars}, genFunctions(nil))
					w0.Collect()
					d0, _ := w0.Dec.Path(pd0.Path)
					decoder.VerifSetMaxCandidates(d0, 100000)
					f := pd.Ctx.Files["main.tf"]
					if f == nil {
						continue
					}
					body, ok := f.Body.(*hclsyntax.Body)
					if !ok {
						continue
					}
					a := body.Attributes[attr]
					if a == nil {
						continue
					}
					er := a.Expr.Range()
					empty := false
					if l, ok := a.Expr.(*hclsyntax.LiteralValueExpr); ok && l.Val == cty.DynamicVal {
						empty = true
					}
					multi := false
					if t, ok := a.Expr.(*hclsyntax.TemplateExpr); ok && t.Range().Start.Line != t.Range().End.Line {
						multi = true
					}
					for off := eqEnd; off <= valEnd; off++ {
						pos, ok := tbl[off]
						if !ok {
							continue
						}
						// only where the library attributes the cursor to this attribute's value
						inside := er.ContainsPos(pos) || (er.End.Byte == pos.Byte && er.Start.Byte <= pos.Byte) || a.EqualsRange.End.Byte == pos.Byte
						if !inside {
							continue
						}
						w.HookCalls = nil
						res := safeCall("CompletionAtPos", func() (interface{}, error) { return d.CompletionAtPos(ctx, "main.tf", pos) })
						res0 := safeCall("CompletionAtPos", func() (interface{}, error) { return d0.CompletionAtPos(ctx, "main.tf", pos) })
						run.Res.Evaluations++
						if res.Panic != "" || res.Err != nil || res0.Panic != "" || res0.Err != nil {
							continue
						}
						cands := res.Val.(lang.Candidates)
						loc := map[string]interface{}{"seed": run.Res.Seed, "kind": "hook-focus", "src": src, "offset": off, "attribute": attr, "limit": max}
						obs := List{}
						for _, c := range cands.List {
							obs = append(obs, L(Str(c.Label), rangeS(c.TextEdit.Range)))
						}
						exprc := List{}
						for _, c := range res0.Val.(lang.Candidates).List {
							exprc = append(exprc, L(Str(c.Label), rangeS(c.TextEdit.Range)))
						}
						prefix := ""
						results := List{}
						echoed := false
						for _, hn := range hookNames[attr] {
							switch hn {
							case "echo":
								if len(w.HookCalls) > 0 {
									echoed = true
									hc := w.HookCalls[0]
									prefix = hc.Prefix
									results = append(results, List{L(Str("echo:"+hc.Prefix), Str(fmt.Sprintf("%q", hc.Prefix+"-done")))})
									if !hc.PosOk || hc.Pos != pos || hc.Filename != "main.tf" || hc.Max != max || !samePath(hc.Path, pd.Path) {
										run.Violate(Violation{Key: "C06/hook-context-wrong", Rule: "a completion hook is told the requested path, file, position and limit",
											Func: "candidatesFromHooks", Detail: fmt.Sprintf("hook saw pos=%v file=%q max=%d path=%v", hc.Pos, hc.Filename, hc.Max, hc.Path), Replay: loc})
									}
								} else {
									results = append(results, List{})
								}
							case "not-registered", "also-missing":
								// not in the decoder context: skipped
							default:
								results = append(results, fixedResults(hn))
							}
						}
						args := []S{Int(int(max)), Str(src), rangeS(er), Bool(empty || multi), posS(pos), Bool(len(hookNames[attr]) > 0), Bool(stringTyped[attr]), results, exprc, Bool(echoed)}
						// (when the hook was not reached - not string-typed, no hooks, limit 0 - there is no text to compare)
						var observed S = L(Atom("noprefix"), Bool(cands.IsComplete), obs)
						if echoed {
							observed = L(Str(prefix), Bool(cands.IsComplete), obs)
						}
						run.Case("hookcands", args, observed)
						run.Count("hook_focus_queries")
						if len(obs) > 0 {
							run.Distinct(fmt.Sprintf("hookfocus|%s|%d|%d", src, off, max))
						}
						// directly: the clauses of the property on hook candidates
						for i, c := range cands.List {
							r := c.TextEdit.Range
							if r.Filename != "main.tf" || r.Start.Byte > pos.Byte || r.End.Byte < r.Start.Byte {
								run.Violate(Violation{Key: "C06/edit-starts-after-cursor/hook-focus", Rule: "the edit range starts at or before the cursor", Func: "attrValueCompletionAtPos",
									Detail: fmt.Sprintf("candidate %d %q: range %v, cursor %d", i, c.Label, r, pos.Byte), Replay: loc})
								break
							}
							if r.End.Byte < pos.Byte && strings.TrimLeft(src[r.End.Byte:pos.Byte], " \t") != "" {
								run.Violate(Violation{Key: "C06/edit-ends-before-cursor/hook-focus", Rule: "the edit range reaches the cursor (at most blanks between its end and the cursor)", Func: "attrValueCompletionAtPos",
									Detail: fmt.Sprintf("candidate %d %q: range %v, cursor %d", i, c.Label, r, pos.Byte), Replay: loc})
								break
							}
						}
						if uint(len(cands.List)) > max {
							run.Violate(Violation{Key: "C06/over-limit/hook-focus", Rule: "a candidate list never exceeds the limit", Func: "attrValueCompletionAtPos",
								Detail: fmt.Sprintf("%d candidates with limit %d", len(cands.List), max), Replay: loc})
						}
						if cands.IsComplete && len(hookNames[attr]) > 0 {
							run.Violate(Violation{Key: "C06/complete-flag-although-hooks-are-attached", Rule: "a list is marked complete only when no matching candidate was left out and no hook may add more",
								Func: "attrValueCompletionAtPos", Detail: fmt.Sprintf("attribute %q, %d candidates marked complete", attr, len(cands.List)), Replay: loc})
						}
					}
				}
			}
		}
	}
	_ = hcl.Pos{}
}
