package main

import (
	"context"
	"math/rand"
	"sort"

	"github.com/hashicorp/hcl-lang/lang"
	"github.com/hashicorp/hcl/v2"
	"github.com/hashicorp/hcl/v2/hclsyntax"
)

func init() { props["C15"] = runC15 }

func diagS(d *hcl.Diagnostic) S {
	sev := "error"
	if d.Severity == hcl.DiagWarning {
		sev = "warning"
	}
	rng := hcl.Range{}
	if d.Subject != nil {
		rng = *d.Subject
	}
	return L(Atom(sev), Str(d.Summary), Str(d.Detail), rangeS(rng))
}

func diagsCanonical(ds hcl.Diagnostics) S {
	var strs []string
	for _, d := range ds {
		strs = append(strs, Show(diagS(d)))
	}
	sort.Strings(strs)
	out := List{Atom("diags")}
	for _, s := range strs {
		out = append(out, Str(s))
	}
	return out
}

func runC15(run *Run, replay string) {
	run.Res.Rule = "generated schema x configuration (valid, with injected violations: unknown/duplicate/missing items, surplus and missing labels, block counts beyond limits, unresolvable dependent bodies) x typing-history states; ValidateFile with the eight stock validators; the model (walker + validators) must produce the same multiset of (severity, summary, detail, subject); distinct non-trivial = distinct file text with at least one diagnostic"
	bases := 60
	hist := 4
	if run.Thorough {
		bases, hist = 800, 20
	}
	ctx := context.Background()
	for bi := 0; bi < bases; bi++ {
		r := rand.New(rand.NewSource(subSeed(run.Res.Seed, bi)))
		for _, sc := range genScenarios(r, ScenarioOpts{Histories: hist, Inject: bi%2 == 1, Gen: GenOpts{Degenerate: bi%7 == 6, DynFocus: bi%5 == 4}}) {
			f := sc.Main.Ctx.Files[sc.File]
			body, ok := f.Body.(*hclsyntax.Body)
			if !ok {
				continue
			}
			d, _ := sc.W.Dec.Path(sc.Main.Path)
			res := safeCall("ValidateFile", func() (interface{}, error) { return d.ValidateFile(ctx, sc.File) })
			run.Res.Evaluations++
			run.Count("scenario_" + sc.Kind)
			if res.Panic != "" || res.Err != nil {
				run.Count("panic_or_error")
				continue
			}
			diags := res.Val.(hcl.Diagnostics)
			for _, dg := range diags {
				run.Count("diag_" + summaryClass(dg.Summary))
			}
			if len(diags) > 0 {
				run.Distinct(string(sc.Src))
			}
			run.Case("validate", []S{sc.schemaS(), bodyS(body)}, diagsCanonical(diags))
			// Validate() must agree with ValidateFile() per file
			res2 := safeCall("Validate", func() (interface{}, error) { return d.Validate(ctx) })
			if res2.Panic == "" && res2.Err == nil {
				m := res2.Val.(lang.DiagnosticsMap)
				if Show(diagsCanonical(m[sc.File])) != Show(diagsCanonical(diags)) {
					run.Violate(Violation{Key: "C15/validate-vs-validatefile", Rule: "Validate and ValidateFile report the same diagnostics for a file",
						Func: "PathDecoder.Validate", Detail: "different diagnostics", Replay: map[string]interface{}{"seed": run.Res.Seed, "base": bi, "src": string(sc.Src)}})
				}
			}
			if len(run.Res.Samples) < 3 && len(diags) > 0 {
				run.Sample(map[string]interface{}{"src": string(sc.Src), "diagnostics": Show(diagsCanonical(diags))})
			}
		}
	}
}

func summaryClass(s string) string {
	for _, p := range []string{"Unexpected attribute", "Unexpected block", "Required attribute", "Too many labels", "Not enough labels", "Too many blocks", "Too few blocks"} {
		if len(s) >= len(p) && s[:len(p)] == p {
			return p
		}
	}
	return "deprecated"
}
