package main

import (
	"context"
	"fmt"
	"math/rand"
	"sort"

	"github.com/hashicorp/hcl-lang/lang"
	"github.com/hashicorp/hcl-lang/schema"
	"github.com/hashicorp/hcl/v2"
	"github.com/hashicorp/hcl/v2/hclsyntax"
	"github.com/zclconf/go-cty/cty"
)

func init() { props["C15"] = runC15 }

func diagS(d *hcl.Diagnostic) S {
	sev := "error"
	if d.Severity == hcl.DiagWarning {
		sev = "warning"
	}
	rng := hcl.Range{}
	if d.Subject != nil {
		rng = *d.Subject
	}
	return L(Atom(sev), Str(d.Summary), Str(d.Detail), rangeS(rng))
}

func diagsCanonical(ds hcl.Diagnostics) S {
	var strs []string
	for _, d := range ds {
		strs = append(strs, Show(diagS(d)))
	}
	sort.Strings(strs)
	out := List{Atom("diags")}
	for _, s := range strs {
		out = append(out, Str(s))
	}
	return out
}

func runC15(run *Run, replay string) {
	run.Res.Rule = "generated schema x configuration (valid, with injected violations: unknown/duplicate/missing items, surplus and missing labels, block counts beyond limits, unresolvable dependent bodies) x typing-history states; ValidateFile with the eight stock validators; the model (walker + validators) must produce the same multiset of (severity, summary, detail, subject); distinct non-trivial = distinct file text with at least one diagnostic"
	bases := 60
	hist := 4
	if run.Thorough {
		bases, hist = 800, 20
	}
	ctx := context.Background()
	for bi := 0; bi < bases; bi++ {
		r := rand.New(rand.NewSource(subSeed(run.Res.Seed, bi)))
		scs15 := genScenarios(r, ScenarioOpts{Histories: hist, Inject: bi%2 == 1, Gen: GenOpts{Degenerate: bi%7 == 6, DynFocus: bi%5 == 4}})
		if bi == 0 {
			scs15 = append(scs15, validationFocusScenarios()...)
		}
		for _, sc := range scs15 {
			f := sc.Main.Ctx.Files[sc.File]
			body, ok := f.Body.(*hclsyntax.Body)
			if !ok {
				continue
			}
			d, _ := sc.W.Dec.Path(sc.Main.Path)
			res := safeCall("ValidateFile", func() (interface{}, error) { return d.ValidateFile(ctx, sc.File) })
			run.Res.Evaluations++
			run.Count("scenario_" + sc.Kind)
			if res.Panic != "" || res.Err != nil {
				run.Count("panic_or_error")
				continue
			}
			diags := res.Val.(hcl.Diagnostics)
			for _, dg := range diags {
				run.Count("diag_" + summaryClass(dg.Summary))
			}
			if len(diags) > 0 {
				run.Distinct(string(sc.Src))
			}
			run.Case("validate", []S{sc.schemaS(), bodyS(body)}, diagsCanonical(diags))
			// Validate() must agree with ValidateFile() per file
			res2 := safeCall("Validate", func() (interface{}, error) { return d.Validate(ctx) })
			if res2.Panic == "" && res2.Err == nil {
				m := res2.Val.(lang.DiagnosticsMap)
				if Show(diagsCanonical(m[sc.File])) != Show(diagsCanonical(diags)) {
					run.Violate(Violation{Key: "C15/validate-vs-validatefile", Rule: "Validate and ValidateFile report the same diagnostics for a file",
						Func: "PathDecoder.Validate", Detail: "different diagnostics", Replay: map[string]interface{}{"seed": run.Res.Seed, "base": bi, "src": string(sc.Src)}})
				}
			}
			if len(run.Res.Samples) < 3 && len(diags) > 0 {
				run.Sample(map[string]interface{}{"src": string(sc.Src), "diagnostics": Show(diagsCanonical(diags))})
			}
		}
	}
}

func summaryClass(s string) string {
	for _, p := range []string{"Unexpected attribute", "Unexpected block", "Required attribute", "Too many labels", "Not enough labels", "Too many blocks", "Too few blocks"} {
		if len(s) >= len(p) && s[:len(p)] == p {
			return p
		}
	}
	return "deprecated"
}

// validationFocus: deterministic configurations around the clauses a random draw rarely combines - block
// counts between the limits with static and generated (dynamic) blocks of one type mixed, and required
// attributes of the part of the schema that IS known when the dependent body is not found (label without a
// registered body; two-step lookup whose second step is not registered).
func validationFocusSchema() *schema.BodySchema {
	str := func(req bool) *schema.AttributeSchema {
		return &schema.AttributeSchema{IsRequired: req, IsOptional: !req, Constraint: schema.LiteralType{Type: cty.String}}
	}
	k1 := schema.DependencyKeys{Labels: []schema.LabelDependent{{Index: 0, Value: "aws"}}}
	k2 := schema.DependencyKeys{Labels: []schema.LabelDependent{{Index: 0, Value: "aws"}},
		Attributes: []schema.AttributeDependent{{Name: "mode", Expr: schema.ExpressionValue{Static: cty.StringVal("fast")}}}}
	first := func() *schema.BodySchema {
		return &schema.BodySchema{
			Attributes: map[string]*schema.AttributeSchema{"zone": str(true), "mode": {IsOptional: true, IsDepKey: true, Constraint: schema.LiteralType{Type: cty.String}}},
			Blocks: map[string]*schema.BlockSchema{
				"disk": {MinItems: 2, MaxItems: 3, Body: &schema.BodySchema{Attributes: map[string]*schema.AttributeSchema{"size": str(true)}}},
			},
		}
	}
	second := first()
	second.Attributes["speed"] = str(true)
	res := &schema.BlockSchema{
		Labels: []*schema.LabelSchema{{Name: "type", IsDepKey: true}},
		Body: &schema.BodySchema{
			Extensions: &schema.BodyExtensions{DynamicBlocks: true},
			Attributes: map[string]*schema.AttributeSchema{"id": str(true), "note": str(false)},
			Blocks: map[string]*schema.BlockSchema{
				"rule": {MinItems: 2, MaxItems: 3, Body: &schema.BodySchema{Attributes: map[string]*schema.AttributeSchema{"port": str(true)}}},
			},
		},
		DependentBody: map[schema.SchemaKey]*schema.BodySchema{schema.NewSchemaKey(k1): first(), schema.NewSchemaKey(k2): second},
	}
	depKeyIndex[res] = []schema.DependencyKeys{k1, k2}
	return &schema.BodySchema{Blocks: map[string]*schema.BlockSchema{"res": res}}
}

func validationFocusTexts() []string {
	var out []string
	blocks := func(t, attr string, static, dyn int) string {
		s := ""
		for i := 0; i < static; i++ {
			if i == 1 {
				s += fmt.Sprintf("  %s {\n  }\n", t) // the required attribute is missing in the second one
			} else {
				s += fmt.Sprintf("  %s {\n    %s = \"v\"\n  }\n", t, attr)
			}
		}
		for i := 0; i < dyn; i++ {
			s += fmt.Sprintf("  dynamic %q {\n    for_each = [\"a\"]\n    content {\n      %s = \"w\"\n    }\n  }\n", t, attr)
		}
		return s
	}
	for static := 0; static <= 4; static++ {
		for dyn := 0; dyn <= 1; dyn++ {
			// body found: the dependent body's block type (disk) may be generated; rule is static
			// (a blank line at the end of the body: a place where something can still be added)
			out = append(out, fmt.Sprintf("res \"aws\" {\n  id = \"i\"\n  zone = \"z\"\n%s%s  \n}\n", blocks("disk", "size", static, dyn), blocks("rule", "port", 2, 0)))
			// no body registered for the label: every static block type (rule) may be generated
			out = append(out, fmt.Sprintf("res \"other\" {\n  id = \"i\"\n%s  \n}\n", blocks("rule", "port", static, dyn)))
		}
	}
	out = append(out,
		// required attributes of the known part, body not found / found in one step / second step not registered / found in two steps
		"res \"other\" {\n  extra = 1\n  unknownblock {\n  }\n  rule {\n    port = \"p\"\n  }\n  rule {\n  }\n}\n",
		"res \"aws\" {\n  rule {\n    port = \"p\"\n  }\n  rule {\n    port = \"q\"\n  }\n  disk {\n    size = \"s\"\n  }\n  disk {\n    size = \"t\"\n  }\n}\n",
		"res \"aws\" {\n  id = \"i\"\n  mode = \"slow\"\n  extra = 1\n  rule {\n    port = \"p\"\n  }\n  rule {\n    port = \"q\"\n  }\n  disk {\n  }\n  disk {\n    size = \"t\"\n  }\n}\n",
		"res \"aws\" {\n  id = \"i\"\n  zone = \"z\"\n  mode = \"fast\"\n  rule {\n    port = \"p\"\n  }\n  rule {\n    port = \"q\"\n  }\n  disk {\n    size = \"s\"\n  }\n  disk {\n    size = \"t\"\n  }\n}\n",
		"res {\n}\nres \"aws\" \"surplus\" {\n  id = \"i\"\n}\n",
	)
	return out
}

func validationFocusScenarios() []*Scenario {
	var out []*Scenario
	for _, src := range validationFocusTexts() {
		sch := validationFocusSchema()
		blockSnap := map[*schema.BlockSchema]S{}
		snapshotBlocks(sch, blockSnap, 0)
		w := newWorld()
		pd := w.AddPath("root", sch, map[string]string{"main.tf": src}, nil)
		out = append(out, &Scenario{W: w, Main: pd, File: "main.tf", Src: []byte(src), Kind: "validation-focus", SchS: bodySchemaS(sch), BlockS: blockSnap})
	}
	return out
}
