package main

// Focus scenario for LiteralValue constraints of every shape: the schema fixes set / list / map / tuple / object
// and primitive values, the configuration writes them with matching, wrong-typed, missing, surplus and null
// elements.  Deterministic coverage for the code that compares written values with schema values.

import (
	"fmt"
	"math/rand"
	"strings"

	"github.com/hashicorp/hcl-lang/lang"
	"github.com/hashicorp/hcl-lang/schema"
	"github.com/zclconf/go-cty/cty"
)

func literalValueFocusSchema() *schema.BodySchema {
	lv := func(v cty.Value) *schema.AttributeSchema {
		return &schema.AttributeSchema{IsOptional: true, Constraint: schema.LiteralValue{Value: v, Description: lang.Markdown("fixed value")}}
	}
	oneof := func(vs ...cty.Value) *schema.AttributeSchema {
		oo := schema.OneOf{}
		for _, v := range vs {
			oo = append(oo, schema.LiteralValue{Value: v})
		}
		return &schema.AttributeSchema{IsOptional: true, Constraint: oo}
	}
	attrs := map[string]*schema.AttributeSchema{
		"lv_set":    lv(cty.SetVal([]cty.Value{cty.StringVal("a"), cty.StringVal("b")})),
		"lv_nset":   lv(cty.SetVal([]cty.Value{cty.NumberIntVal(1), cty.NumberIntVal(2)})),
		"lv_list":   lv(cty.ListVal([]cty.Value{cty.NumberIntVal(1), cty.NumberIntVal(2)})),
		"lv_slist":  lv(cty.ListVal([]cty.Value{cty.StringVal("x"), cty.StringVal("y")})),
		"lv_map":    lv(cty.MapVal(map[string]cty.Value{"k": cty.StringVal("v"), "q k": cty.StringVal("w")})),
		"lv_tuple":  lv(cty.TupleVal([]cty.Value{cty.StringVal("a"), cty.NumberIntVal(1), cty.True})),
		"lv_obj":    lv(cty.ObjectVal(map[string]cty.Value{"a": cty.StringVal("x"), "n": cty.NumberIntVal(1)})),
		"lv_str":    lv(cty.StringVal("fixed")),
		// sets whose elements are objects / tuples (types that Go's == cannot compare)
		"lv_oset": lv(cty.SetVal([]cty.Value{cty.ObjectVal(map[string]cty.Value{"name": cty.StringVal("web")})})),
		"lv_tset": lv(cty.SetVal([]cty.Value{cty.TupleVal([]cty.Value{cty.StringVal("tcp"), cty.NumberIntVal(80)})})),
		"lv_num":    lv(cty.NumberIntVal(42)),
		"lv_bool":   lv(cty.True),
		"lv_nested": lv(cty.ListVal([]cty.Value{cty.SetVal([]cty.Value{cty.StringVal("in")})})),
		"lv_oneof":  oneof(cty.StringVal("one"), cty.NumberIntVal(2), cty.SetVal([]cty.Value{cty.StringVal("s")})),
		"lv_elems": {IsOptional: true, Constraint: schema.List{Elem: schema.OneOf{
			schema.LiteralValue{Value: cty.StringVal("on")}, schema.LiteralValue{Value: cty.StringVal("off")}, schema.LiteralValue{Value: cty.NumberIntVal(0)}}}},
	}
	// type declarations, also written compactly (nothing between the last type and the closing bracket)
	attrs["td"] = &schema.AttributeSchema{IsOptional: true, Constraint: schema.TypeDeclaration{}}
	// attribute names that differ in letter case only (legal in HCL and cty): wherever names are listed they are in byte order
	attrs["tdc"] = &schema.AttributeSchema{IsOptional: true, Constraint: schema.TypeDeclaration{}}
	// tuples with elements of different types, under a tuple type and under the dynamic type
	attrs["lt_tuple"] = &schema.AttributeSchema{IsOptional: true, Constraint: schema.LiteralType{Type: cty.Tuple([]cty.Type{cty.String, cty.Number, cty.Bool})}}
	attrs["lt_tuple2"] = &schema.AttributeSchema{IsOptional: true, Constraint: schema.LiteralType{Type: cty.Tuple([]cty.Type{cty.Number, cty.String})}}
	attrs["lt_dyn"] = &schema.AttributeSchema{IsOptional: true, Constraint: schema.LiteralType{Type: cty.DynamicPseudoType}}
	attrs["any_dyn"] = &schema.AttributeSchema{IsOptional: true, Constraint: schema.AnyExpression{OfType: cty.DynamicPseudoType}}
	// collection types whose element type is still to be written
	attrs["tdl"] = &schema.AttributeSchema{IsOptional: true, Constraint: schema.TypeDeclaration{}}
	attrs["tds"] = &schema.AttributeSchema{IsOptional: true, Constraint: schema.List{Elem: schema.TypeDeclaration{}}}
	// values that are exactly one interpolation of a literal
	attrs["tw_num"] = &schema.AttributeSchema{IsOptional: true, Constraint: schema.AnyExpression{OfType: cty.String}}
	attrs["tw_bool"] = &schema.AttributeSchema{IsOptional: true, Constraint: schema.AnyExpression{OfType: cty.DynamicPseudoType}}
	attrs["tw_str"] = &schema.AttributeSchema{IsOptional: true, Constraint: schema.AnyExpression{OfType: cty.String}}
	attrs["lt_case"] = &schema.AttributeSchema{IsOptional: true, Constraint: schema.LiteralType{Type: cty.Object(map[string]cty.Type{
		"id": cty.String, "Id": cty.Number, "ID": cty.Bool, "title": cty.String, "Zone": cty.String})}}
	return &schema.BodySchema{Attributes: attrs, Blocks: map[string]*schema.BlockSchema{
		"inner": {Body: &schema.BodySchema{Attributes: attrs}}}}
}

var literalWrites = map[string][]string{
	"lv_set":    {`["a", "b"]`, `["b"]`, `["a", 1]`, `[1, "a"]`, `[true, null, "b"]`, `[["a"]]`, `[]`, `["a", "b", "c"]`, `"a"`, `[var.x, "a"]`, `{ a = 1 }`},
	"lv_nset":   {`[1, 2]`, `["1", 2]`, `[2, true]`, `[null]`, `[1, 2, 3]`, `[{}, 1]`},
	"lv_list":   {`[1, 2]`, `[1]`, `[1, "2"]`, `["x", 2]`, `[1, 2, 3]`, `[null, 2]`, `[[1], 2]`, `1`},
	"lv_slist":  {`["x", "y"]`, `["x", 1]`, `[true, "y"]`, `["y", "x"]`},
	"lv_map":    {`{ k = "v" }`, `{ k = "v", "q k" = "w" }`, `{ k = 1 }`, `{ other = "v" }`, `{ k = ["v"] }`, `{ (var.k) = "v" }`, `{ k = null }`, `[]`},
	"lv_tuple":  {`["a", 1, true]`, `["a", 1]`, `[1, "a", true]`, `["a", 1, true, "more"]`, `[null, 1, true]`},
	"lv_obj":    {`{ a = "x", n = 1 }`, `{ a = "x" }`, `{ a = 1, n = "x" }`, `{ n = 1, a = "x", z = 0 }`, `{ a = null }`},
	"lv_oset":   {`[{ name = "web" }]`, `[{ name = "other" }]`, `[{ name = "web" }, { name = "web" }]`, `[{ name = 1 }]`, `["web"]`, `[{}]`},
	"lv_tset":   {`[["tcp", 80]]`, `[["udp", 1]]`, `[["tcp"]]`, `[[80, "tcp"]]`, `["tcp"]`},
	"lv_str":    {`"fixed"`, `"other"`, `1`, `true`, `"fix${"ed"}"`, "<<EOT\nfixed\nEOT", `null`},
	"lv_num":    {`42`, `41`, `"42"`, `true`, `42.0`, `null`},
	"lv_bool":   {`true`, `false`, `"true"`, `1`, `null`},
	"lv_nested": {`[["in"]]`, `[["in", 1]]`, `[[1]]`, `["in"]`, `[[]]`},
	"lv_oneof":  {`"one"`, `2`, `["s"]`, `[1]`, `"two"`, `[["s"]]`},
	"lv_elems":  {`["on", "off"]`, `["on", 0]`, `[1, "on"]`, `["maybe"]`, `[null]`},
	"td": {`object({foo=string})`, `object({a=string,b=number})`, `list(object({id=number}))`, `tuple([string,bool])`, `map(list(string))`,
		`object({ a = optional(string), b = any })`, `set(tuple([object({x=bool})]))`, `string`, `object({})`, `list`, `object({"q k"=string})`},
}

func literalValueFocusScenario(r *rand.Rand) *Scenario {
	var sb strings.Builder
	names := sortedKeys(literalWrites)
	write := func(ind string) {
		for _, n := range names {
			if r.Intn(3) == 0 {
				continue
			}
			fmt.Fprintf(&sb, "%s%s = %s\n", ind, n, pick(r, literalWrites[n]))
		}
	}
	write("")
	// (written without a random draw)
	sb.WriteString("tdc = object({ name = string, Name = number, NAME = bool, other = string, Zeta = bool })\n")
	sb.WriteString("lt_case = { id = \"a\", Id = 1, ID = true, title = \"t\", Zone = \"z\" }\n")
	sb.WriteString("tdl = list()\ntds = [set(), map( )]\n")
	sb.WriteString("lt_tuple = [\"one\", 42234, true]\nlt_tuple2 = [42234, \"one\"]\nlt_dyn = [\"one\", 42234]\nany_dyn = [true, \"x\", 7]\n")
	sb.WriteString("tw_num = \"${3}\"\ntw_bool = \"${true}\"\ntw_str = \"${\"foo\"}\"\n")
	sb.WriteString("inner {\n")
	write("  ")
	sb.WriteString("  lt_case = \n")
	sb.WriteString("}\n")
	src := sb.String()
	w := newWorld()
	pd := w.AddPath("root", literalValueFocusSchema(), map[string]string{"main.tf": src}, genFunctions(r))
	return &Scenario{W: w, Main: pd, File: "main.tf", Src: []byte(src), Kind: "literal-value-focus"}
}
