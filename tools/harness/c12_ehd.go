package main

// C12, content of value hovers: Constraint.EmptyHoverData (the description of the value a constraint expects, shown
// when a list / set / tuple / map / object value or a literal is hovered) against the model (Model/HoverData.v).

import (
	"fmt"
	"math/rand"

	"github.com/hashicorp/hcl-lang/lang"
	"github.com/hashicorp/hcl-lang/schema"
	"github.com/zclconf/go-cty/cty"
)

func ehdCases(run *Run) {
	r := rand.New(rand.NewSource(subSeed(run.Res.Seed, 121212)))
	nc := 500
	if run.Thorough {
		nc = 10000
	}
	o := &GenOpts{}
	fixedVals := literalValueFamily()
	lts, ltn, ltb := schema.LiteralType{Type: cty.String}, schema.LiteralType{Type: cty.Number}, schema.LiteralType{Type: cty.Bool}
	// objects whose attributes carry every combination of required / optional / sensitive, at the top and nested
	var flagged []schema.Constraint
	for k := 0; k < 16; k++ {
		oa := schema.ObjectAttributes{}
		for j, nme := range []string{"alpha", "beta", "gamma"} {
			bits := (k + 5*j) % 8
			a := &schema.AttributeSchema{Constraint: []schema.Constraint{lts, ltn, ltb, schema.List{Elem: lts}}[(k+j)%4], Description: lang.Markdown("d")}
			a.IsOptional, a.IsRequired = bits&1 == 1, bits&1 == 0
			a.IsSensitive = bits&2 == 2
			a.IsDeprecated = bits&4 == 4
			oa[nme] = a
		}
		var c schema.Constraint = schema.Object{Attributes: oa}
		switch k % 4 {
		case 1:
			c = schema.List{Elem: c}
		case 2:
			c = schema.Object{Attributes: schema.ObjectAttributes{"outer": {IsOptional: true, IsSensitive: true, Constraint: c}, "plain": {IsRequired: true, Constraint: lts}}}
		case 3:
			c = schema.Tuple{Elems: []schema.Constraint{lts, c, schema.Map{Elem: c}}}
		}
		flagged = append(flagged, c)
	}
	fixed := len(flagged) + 2*len(fixedVals)
	for i := -fixed; i < nc; i++ {
		o.Degenerate = i%9 == 8
		var c schema.Constraint
		switch {
		case i < -2*len(fixedVals):
			c = flagged[-i-1-2*len(fixedVals)]
		case i < 0:
			// fixed values of every shape, alone and inside other constraints
			k := -i - 1
			v := fixedVals[k%len(fixedVals)]
			c = schema.LiteralValue{Value: v}
			if k >= len(fixedVals) {
				w := fixedVals[(k+3)%len(fixedVals)]
				switch k % 5 {
				case 0:
					c = schema.List{Elem: schema.LiteralValue{Value: v}}
				case 1:
					c = schema.Tuple{Elems: []schema.Constraint{schema.LiteralValue{Value: v}, lts, schema.LiteralValue{Value: w}}}
				case 2:
					c = schema.Object{Attributes: schema.ObjectAttributes{"a": {IsRequired: true, Constraint: schema.LiteralValue{Value: v}}, "b": {IsOptional: true, IsSensitive: true, Constraint: schema.LiteralValue{Value: w}}}}
				case 3:
					c = schema.Map{Elem: schema.LiteralValue{Value: v}}
				default:
					c = schema.Set{Elem: schema.LiteralValue{Value: v}}
				}
			}
		default:
			c = genConstraint(r, 3, o)
		}
		for _, lvl := range []int{0, 1, 2} {
			hc, ok := c.(schema.ConstraintWithHoverData)
			var hd *schema.HoverData
			res := safeCall("EmptyHoverData", func() (interface{}, error) {
				if ok {
					hd = hc.EmptyHoverData(lvl)
				}
				return nil, nil
			})
			run.Res.Evaluations++
			if res.Panic != "" {
				run.Violate(Violation{Key: "C01/panic/" + res.PanicFunc, Rule: "never panics", Func: res.PanicFunc, Detail: res.Panic, Replay: map[string]interface{}{"constraint": Show(consS(c)), "level": lvl}})
				continue
			}
			obs := T("nil")
			if hd != nil {
				obs = T("hd", Str(hd.Content.Value))
				run.Count("empty_hover_data_with_content")
				run.Distinct(fmt.Sprintf("ehd|%s|%d", Show(consS(c)), lvl))
			} else {
				run.Count("empty_hover_data_nil")
			}
			run.Case("ehd", []S{consS(c), Int(lvl)}, obs)
		}
	}
}
