package main

import (
	"context"
	"fmt"
	"math/rand"
	"sort"
	"strings"

	"github.com/hashicorp/hcl-lang/lang"
	"github.com/hashicorp/hcl-lang/schema"
	"github.com/hashicorp/hcl/v2"
	"github.com/hashicorp/hcl/v2/hclsyntax"
	"github.com/zclconf/go-cty/cty"
)

func init() { props["C16"] = runC16 }

var namePool = []string{"a", "ab", "abc", "b", "count", "for_each", "type", "x<y", "q\"t", "é", "b&c", "a\\b", "name", "0", "", "世界", "tab\tx", "nl\nx", "z>"}

func genAddr(r *rand.Rand) lang.Address {
	n := r.Intn(4)
	var a lang.Address
	for i := 0; i < n; i++ {
		if i == 0 {
			a = append(a, lang.RootStep{Name: pick(r, []string{"var", "local", "data", "a", "self"})})
			continue
		}
		switch r.Intn(3) {
		case 0:
			a = append(a, lang.AttrStep{Name: pick(r, namePool)})
		case 1:
			a = append(a, lang.IndexStep{Key: cty.NumberIntVal(int64(r.Intn(20) - 3))})
		case 2:
			a = append(a, lang.IndexStep{Key: cty.StringVal(pick(r, namePool))})
		}
	}
	return a
}

func addrS(a lang.Address) S {
	out := List{}
	for _, s := range a {
		switch st := s.(type) {
		case lang.RootStep:
			out = append(out, T("root", Str(st.Name)))
		case lang.AttrStep:
			out = append(out, T("attr", Str(st.Name)))
		case lang.IndexStep:
			switch {
			case st.Key.Type() == cty.Number && st.Key.IsKnown() && !st.Key.IsNull():
				i, _ := st.Key.AsBigFloat().Int64()
				out = append(out, T("idxn", Int64(i)))
			case st.Key.Type() == cty.String && st.Key.IsKnown() && !st.Key.IsNull():
				out = append(out, T("idxs", Str(st.Key.AsString())))
			default:
				out = append(out, T("idxbad"))
			}
		}
	}
	return out
}

func genStatic(r *rand.Rand) cty.Value {
	switch r.Intn(7) {
	case 0, 1:
		return cty.StringVal(pick(r, namePool))
	case 2:
		return cty.NumberIntVal(int64(r.Intn(2000) - 1000))
	case 3:
		return cty.BoolVal(r.Intn(2) == 0)
	case 4:
		return cty.NullVal(cty.String)
	default:
		return cty.NilVal
	}
}

func staticS(v cty.Value) S {
	switch {
	case v == cty.NilVal || v.Type() == cty.NilType:
		return T("none")
	case v.IsNull():
		return T("null")
	case v.Type() == cty.String:
		return T("str", Str(v.AsString()))
	case v.Type() == cty.Number:
		i, _ := v.AsBigFloat().Int64()
		return T("num", Int64(i))
	case v.Type() == cty.Bool:
		if v.True() {
			return T("true")
		}
		return T("false")
	}
	panic("unsupported static")
}

func keysS(k schema.DependencyKeys) []S {
	ls := List{}
	for _, l := range k.Labels {
		ls = append(ls, L(Int(l.Index), Str(l.Value)))
	}
	as := List{}
	for _, a := range k.Attributes {
		as = append(as, L(Str(a.Name), staticS(a.Expr.Static), addrS(a.Expr.Address)))
	}
	return []S{ls, as}
}

func copyKeys(k schema.DependencyKeys) schema.DependencyKeys {
	c := schema.DependencyKeys{}
	if k.Labels != nil {
		c.Labels = append([]schema.LabelDependent{}, k.Labels...)
	}
	if k.Attributes != nil {
		c.Attributes = append([]schema.AttributeDependent{}, k.Attributes...)
	}
	return c
}

// canonSet is an independent canonical description of the *set* of pairs.
func canonSet(k schema.DependencyKeys) string {
	var parts []string
	for _, l := range k.Labels {
		parts = append(parts, fmt.Sprintf("L%d=%q", l.Index, l.Value))
	}
	for _, a := range k.Attributes {
		parts = append(parts, fmt.Sprintf("A%q=%s|%q", a.Name, Show(staticS(a.Expr.Static)), a.Expr.Address.String()))
	}
	sort.Strings(parts)
	// a set: drop exact duplicates
	out := parts[:0]
	for i, p := range parts {
		if i == 0 || p != parts[i-1] {
			out = append(out, p)
		}
	}
	return strings.Join(out, ";")
}

func genKeys(r *rand.Rand, dupStream bool) schema.DependencyKeys {
	k := schema.DependencyKeys{}
	nl := r.Intn(5)
	idx := r.Perm(6)
	for i := 0; i < nl; i++ {
		ix := idx[i]
		if dupStream && i > 0 && r.Intn(2) == 0 {
			ix = k.Labels[r.Intn(len(k.Labels))].Index
		}
		k.Labels = append(k.Labels, schema.LabelDependent{Index: ix, Value: pick(r, namePool)})
	}
	na := r.Intn(5)
	names := r.Perm(len(namePool))
	for i := 0; i < na; i++ {
		name := namePool[names[i]]
		if dupStream && i > 0 && r.Intn(2) == 0 {
			name = k.Attributes[r.Intn(len(k.Attributes))].Name
		}
		ev := schema.ExpressionValue{}
		if r.Intn(3) == 0 {
			ev.Address = genAddr(r)
		} else {
			ev.Static = genStatic(r)
		}
		if r.Intn(10) == 0 {
			ev.Address = genAddr(r)
		}
		k.Attributes = append(k.Attributes, schema.AttributeDependent{Name: name, Expr: ev})
	}
	return k
}

func permuteKeys(r *rand.Rand, k schema.DependencyKeys) schema.DependencyKeys {
	c := copyKeys(k)
	r.Shuffle(len(c.Labels), func(i, j int) { c.Labels[i], c.Labels[j] = c.Labels[j], c.Labels[i] })
	r.Shuffle(len(c.Attributes), func(i, j int) { c.Attributes[i], c.Attributes[j] = c.Attributes[j], c.Attributes[i] })
	return c
}

func hasDup(k schema.DependencyKeys) bool {
	si := map[int]bool{}
	for _, l := range k.Labels {
		if si[l.Index] {
			return true
		}
		si[l.Index] = true
	}
	sn := map[string]bool{}
	for _, a := range k.Attributes {
		if sn[a.Name] {
			return true
		}
		sn[a.Name] = true
	}
	return false
}

func allPerms(n int) [][]int {
	if n == 0 {
		return [][]int{{}}
	}
	var out [][]int
	for _, p := range allPerms(n - 1) {
		for i := 0; i <= len(p); i++ {
			q := append(append(append([]int{}, p[:i]...), n-1), p[i:]...)
			out = append(out, q)
		}
	}
	return out
}

func runC16(run *Run, replay string) {
	run.Res.Rule = "dependency-key multisets (0-4 labels, 0-4 attributes; literal/default/traversal values; a separate stream with repeated indices/names); every permutation of each (all n!*m! when <= 48, else 24 random); distinct = distinct canonical key set with >= 2 pairs"
	n := 150
	if run.Thorough {
		n = 3000
	}
	keyOwner := map[string]string{}
	var sets []schema.DependencyKeys
	for i := 0; i < n; i++ {
		sets = append(sets, genKeys(run.R, i%10 == 9))
	}
	for _, k := range sets {
		canon := canonSet(k)
		base := string(schema.NewSchemaKey(copyKeys(k)))
		dup := hasDup(k)
		if dup {
			run.Count("sets_with_repeated_index_or_name")
		} else {
			run.Count("sets_with_distinct_keys")
		}
		run.Count(fmt.Sprintf("labels=%d", len(k.Labels)))
		run.Count(fmt.Sprintf("attrs=%d", len(k.Attributes)))
		if len(k.Labels)+len(k.Attributes) >= 2 {
			run.Distinct(canon)
		}
		// injectivity across the run
		if prev, ok := keyOwner[base]; ok && prev != canon {
			run.Violate(Violation{Key: "C16/key-collision", Rule: "different sets never share a key", Func: "schema.NewSchemaKey",
				Detail: fmt.Sprintf("sets %q and %q both map to %s", prev, canon, base),
				Replay: map[string]interface{}{"kind": "collision", "a": prev, "b": canon, "key": base}})
		}
		keyOwner[base] = canon

		var perms []schema.DependencyKeys
		pl, pa := allPerms(len(k.Labels)), allPerms(len(k.Attributes))
		if len(pl)*len(pa) <= 48 {
			for _, p := range pl {
				for _, q := range pa {
					c := schema.DependencyKeys{}
					for _, i := range p {
						c.Labels = append(c.Labels, k.Labels[i])
					}
					for _, i := range q {
						c.Attributes = append(c.Attributes, k.Attributes[i])
					}
					perms = append(perms, c)
				}
			}
		} else {
			for j := 0; j < 24; j++ {
				perms = append(perms, permuteKeys(run.R, k))
			}
		}
		for _, p := range perms {
			run.Res.Evaluations++
			got := string(schema.NewSchemaKey(copyKeys(p)))
			run.Case("schemakey", keysS(p), T("key", Str(got)))
			if got != base {
				key := "C16/order-dependent-key/distinct-keys"
				if dup {
					key = "C16/order-dependent-key/repeated-index-or-name"
				}
				run.Violate(Violation{Key: key, Rule: "a schema key depends only on the set of key/value pairs, not on their order",
					Func: "schema.NewSchemaKey", Detail: fmt.Sprintf("%s vs %s", base, got),
					Replay: map[string]interface{}{"kind": "perm", "a": Show(L(keysS(k)...)), "b": Show(L(keysS(p)...))}})
			}
		}
		run.Sample(map[string]interface{}{"keys": Show(L(keysS(k)...)), "schema_key": base, "permutations_checked": len(perms)})
	}
	// dependent-body selection and merge on generated schemas/configurations (T1 against Model/Merge.v)
	bases := 25
	if run.Thorough {
		bases = 300
	}
	for bi := 0; bi < bases; bi++ {
		r := rand.New(rand.NewSource(subSeed(run.Res.Seed, bi)))
		scs16 := genScenarios(r, ScenarioOpts{Histories: 2, Inject: bi%3 == 1, Gen: GenOpts{Degenerate: bi%5 == 4, DynFocus: bi%6 == 5}})
		if bi == 0 {
			// bodies found in one step, in two steps, only in the first of two steps, and not at all
			scs16 = append(scs16, validationFocusScenarios()...)
		}
		for _, sc := range scs16 {
			n := mergeCases(run, sc, 12)
			n += linksOracle(run, sc)
			linksCase(run, sc)
			// validation sees the same body in force (the part of the schema that is known stays binding when the lookup fails)
			if f := sc.Main.Ctx.Files[sc.File]; f != nil {
				if body, ok := f.Body.(*hclsyntax.Body); ok {
					if d, err := sc.W.Dec.Path(sc.Main.Path); err == nil {
						res := safeCall("ValidateFile", func() (interface{}, error) { return d.ValidateFile(context.Background(), sc.File) })
						if res.Panic == "" && res.Err == nil {
							run.Case("validate", []S{sc.schemaS(), bodyS(body)}, diagsCanonical(res.Val.(hcl.Diagnostics)))
							run.Count("validate_cases")
							n++
						}
					}
				}
			}
			run.Res.Evaluations += n
			if n > 0 {
				run.Distinct("merge|" + string(sc.Src))
			}
		}
	}
}

// linksOracle: a documentation link sits on a label or attribute value that took part in selecting the body:
// the range of every link of a file is the range of a dependency-key label of a top-level block, or of the
// value of a dependency-key attribute of its static body.
func linksOracle(run *Run, sc *Scenario) int {
	n := 0
	for _, p := range sc.W.Paths {
		if p.Schema == nil {
			continue
		}
		d, err := sc.W.Dec.Path(p.Path)
		if err != nil {
			continue
		}
		for _, fn := range sortedFileNames(p.Src) {
			f := p.Ctx.Files[fn]
			if f == nil {
				continue
			}
			body, ok := f.Body.(*hclsyntax.Body)
			if !ok {
				continue
			}
			res := safeCall("LinksInFile", func() (interface{}, error) { return d.LinksInFile(fn) })
			if res.Panic != "" || res.Err != nil {
				continue
			}
			links, _ := res.Val.([]lang.Link)
			n++
			allowed := map[hcl.Range]bool{}
			for _, b := range body.Blocks {
				bs := p.Schema.Blocks[b.Type]
				if bs == nil {
					continue
				}
				for i, ls := range bs.Labels {
					if ls.IsDepKey && i < len(b.LabelRanges) {
						allowed[b.LabelRanges[i]] = true
					}
				}
				// key attributes are declared by the static body or (two-step lookups) by a label-selected body
				bodies := []*schema.BodySchema{bs.Body}
				for _, db := range bs.DependentBody {
					bodies = append(bodies, db)
				}
				for _, bd := range bodies {
					if bd == nil {
						continue
					}
					for name, as := range bd.Attributes {
						if as.IsDepKey {
							if a, ok := b.Body.Attributes[name]; ok {
								allowed[a.Expr.Range()] = true
							}
						}
					}
				}
			}
			if len(links) > 0 {
				run.Count("files_with_links")
			}
			for _, l := range links {
				if !allowed[l.Range] {
					run.Violate(Violation{Key: "C16/link-not-on-a-selecting-label-or-attribute", Rule: "documentation links are attached to exactly the labels/attributes that selected a body having a link",
						Func: "LinksInFile", Detail: fmt.Sprintf("link %s at %v is not on a dependency-key label or attribute value", l.URI, l.Range),
						Replay: map[string]interface{}{"src": string(p.Src[fn]), "file": fn, "schema": Show(bodySchemaS(p.Schema))}})
				}
			}
		}
	}
	return n
}

// depKeyCases: for every block schema of a generated schema that registers dependent bodies, the key under which
// each body is registered - NewSchemaKey of the dependency keys in the order the schema author listed them - is
// compared with the model (kind schemakey) and, directly, with the key of the same pairs listed in canonical
// order (labels by index, attributes by name): the body a block selects must not depend on the listing order.
var depKeyProbesDone = map[*Run]bool{}

func depKeyCases(run *Run, sch *schema.BodySchema) {
	seen := map[*schema.BlockSchema]bool{}
	if !depKeyProbesDone[run] {
		// once per run: every listing order of three-label, three-attribute and mixed keys (the shapes of
		// multi-label provider / resource schemas), against the model and against the canonical listing
		depKeyProbesDone[run] = true
		sv := func(s string) schema.ExpressionValue { return schema.ExpressionValue{Static: cty.StringVal(s)} }
		base := []schema.DependencyKeys{
			{Labels: []schema.LabelDependent{{Index: 0, Value: "aws"}, {Index: 1, Value: "instance"}, {Index: 2, Value: "web"}}},
			{Attributes: []schema.AttributeDependent{{Name: "engine", Expr: sv("pg")}, {Name: "region", Expr: sv("eu")}, {Name: "tier", Expr: sv("gold")}}},
			{Labels: []schema.LabelDependent{{Index: 0, Value: "a"}, {Index: 2, Value: "c"}},
				Attributes: []schema.AttributeDependent{{Name: "backend", Expr: sv("s3")}, {Name: "alias", Expr: schema.ExpressionValue{Address: lang.Address{lang.RootStep{Name: "var"}, lang.AttrStep{Name: "x"}}}}}},
		}
		for _, k := range base {
			want := string(schema.NewSchemaKey(copyKeys(k)))
			for _, pl := range allPerms(len(k.Labels)) {
				for _, pa := range allPerms(len(k.Attributes)) {
					c := schema.DependencyKeys{}
					for _, i := range pl {
						c.Labels = append(c.Labels, k.Labels[i])
					}
					for _, i := range pa {
						c.Attributes = append(c.Attributes, k.Attributes[i])
					}
					got := string(schema.NewSchemaKey(copyKeys(c)))
					run.Case("schemakey", keysS(c), T("key", Str(got)))
					run.Count("dependent_body_key_probes")
					if got != want {
						run.Violate(Violation{Key: run.Res.Property + "/dependent-body-key-depends-on-listing-order", Rule: "the dependent body a block selects does not depend on the order in which the schema lists the dependency keys",
							Func: "schema.NewSchemaKey", Detail: fmt.Sprintf("%s vs %s (canonical listing)", got, want),
							Replay: map[string]interface{}{"kind": "schema-key-probe", "as_listed": got, "canonical": want}})
					}
				}
			}
		}
	}
	var walk func(bs *schema.BodySchema, d int)
	walk = func(bs *schema.BodySchema, d int) {
		if bs == nil || d > 4 {
			return
		}
		for _, bt := range sortedKeys(bs.Blocks) {
			b := bs.Blocks[bt]
			if b == nil || seen[b] {
				continue
			}
			seen[b] = true
			for _, dk := range depKeyIndex[b] {
				got := string(schema.NewSchemaKey(copyKeys(dk)))
				run.Case("schemakey", keysS(dk), T("key", Str(got)))
				run.Count("dependent_body_keys")
				canon := copyKeys(dk)
				sort.SliceStable(canon.Labels, func(i, j int) bool { return canon.Labels[i].Index < canon.Labels[j].Index })
				sort.SliceStable(canon.Attributes, func(i, j int) bool { return canon.Attributes[i].Name < canon.Attributes[j].Name })
				if hasDup(dk) {
					continue
				}
				if want := string(schema.NewSchemaKey(canon)); got != want {
					run.Violate(Violation{Key: run.Res.Property + "/dependent-body-key-depends-on-listing-order", Rule: "the dependent body a block selects does not depend on the order in which the schema lists the dependency keys",
						Func: "schema.NewSchemaKey", Detail: fmt.Sprintf("block type %q: %s (as listed) vs %s (canonical order)", bt, got, want),
						Replay: map[string]interface{}{"kind": "schema-key", "block": bt, "as_listed": got, "canonical": want}})
				}
			}
			walk(b.Body, d+1)
			var dks []string
			for k := range b.DependentBody {
				dks = append(dks, string(k))
			}
			sort.Strings(dks)
			for _, k := range dks {
				walk(b.DependentBody[schema.SchemaKey(k)], d+1)
			}
		}
	}
	walk(sch, 0)
}
