package main

import (
	"crypto/sha256"
	"encoding/hex"
	"encoding/json"
	"fmt"
	"math/rand"
	"os"
	"path/filepath"
	"sort"
	"time"
)

type Violation struct {
	Key    string      `json:"key"`    // stable signature used to match known findings
	Rule   string      `json:"rule"`   // which clause of the property failed
	Func   string      `json:"func"`   // Go function that fails / returns the offending value
	Detail string      `json:"detail"` // human readable
	Replay interface{} `json:"replay"` // minimal input reproducing it
}

type Result struct {
	Property           string            `json:"property"`
	Tier               string            `json:"tier"`
	Seed               int64             `json:"seed"`
	Evaluations        int               `json:"evaluations"`
	DistinctNontrivial int               `json:"distinct_nontrivial"`
	Rule               string            `json:"rule"`
	Samples            []interface{}     `json:"samples"`
	Distribution       map[string]int    `json:"distribution"`
	Hypotheses         map[string]int    `json:"hypotheses_checked"`
	HypothesisFailures []string          `json:"hypothesis_failures"`
	Violations         []Violation       `json:"violations"`
	ModelCases         int               `json:"model_cases"`
	Notes              []string          `json:"notes"`
	WallS              float64           `json:"wall_s"`
	Extra              map[string]interface{} `json:"extra,omitempty"`
}

type Run struct {
	Res      *Result
	R        *rand.Rand
	OutDir   string
	Thorough bool
	cases    *os.File
	nextID   int
	distinct map[string]bool
	start    time.Time
	vioSeen  map[string]int
}

func NewRun(prop, tier string, seed int64, outDir string) *Run {
	os.MkdirAll(outDir, 0o755)
	f, err := os.Create(filepath.Join(outDir, "cases.sexp"))
	if err != nil {
		panic(err)
	}
	return &Run{
		Res: &Result{Property: prop, Tier: tier, Seed: seed, Distribution: map[string]int{},
			Hypotheses: map[string]int{}, Samples: []interface{}{}, Violations: []Violation{}, HypothesisFailures: []string{}, Notes: []string{}},
		R: rand.New(rand.NewSource(seed)), OutDir: outDir, Thorough: tier == "thorough",
		cases: f, distinct: map[string]bool{}, start: time.Now(), vioSeen: map[string]int{},
	}
}

// Case writes one correspondence case: (case id (kind args...) observed)
func (r *Run) Case(kind string, args []S, observed S) {
	r.nextID++
	c := L(Atom("case"), Int(r.nextID), append(List{Atom(kind)}, args...), observed)
	fmt.Fprintln(r.cases, Show(c))
	r.Res.ModelCases++
}

func (r *Run) Count(k string) { r.Res.Distribution[k]++ }

// Distinct records a canonical description of a non-trivial case.
func (r *Run) Distinct(canon string) {
	h := sha256.Sum256([]byte(canon))
	r.distinct[hex.EncodeToString(h[:8])] = true
}

func (r *Run) Sample(x interface{}) {
	if len(r.Res.Samples) < 5 {
		r.Res.Samples = append(r.Res.Samples, x)
	}
}

// Violate records a violation; at most 3 replays are kept per key.
func (r *Run) Violate(v Violation) {
	r.vioSeen[v.Key]++
	if r.vioSeen[v.Key] <= 3 {
		r.Res.Violations = append(r.Res.Violations, v)
	}
}

func (r *Run) Finish() {
	r.cases.Close()
	r.Res.DistinctNontrivial = len(r.distinct)
	r.Res.WallS = time.Since(r.start).Seconds()
	if r.Res.Extra == nil {
		r.Res.Extra = map[string]interface{}{}
	}
	counts := map[string]int{}
	for k, v := range r.vioSeen {
		counts[k] = v
	}
	r.Res.Extra["violation_counts"] = counts
	b, _ := json.MarshalIndent(r.Res, "", " ")
	os.WriteFile(filepath.Join(r.OutDir, "result.json"), b, 0o644)
}

func sortedKeys[V any](m map[string]V) []string {
	ks := make([]string, 0, len(m))
	for k := range m {
		ks = append(ks, k)
	}
	sort.Strings(ks)
	return ks
}

func pick[T any](r *rand.Rand, xs []T) T { return xs[r.Intn(len(xs))] }
