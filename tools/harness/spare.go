package main

// Spare capacity: schemas and function tables of real language servers are built with append, so their slices
// commonly have capacity beyond their length.  A library function that appends to such a slice writes into the
// caller's backing array.  padSpare gives every slice reachable from a value (through pointers, maps, structs,
// slices and the interface values holding constraints / address steps) three zeroed spare elements;
// spareViolations reports every spare element that is no longer the zero value.

import (
	"fmt"
	"reflect"

	"github.com/zclconf/go-cty/cty"
	"github.com/zclconf/go-cty/cty/function"
)

var tCtyTypeSpare = reflect.TypeOf(cty.Type{})
var tCtyValueSpare = reflect.TypeOf(cty.Value{})

const spareExtra = 3

func opaqueForSpare(t reflect.Type) bool { return t == tCtyTypeSpare || t == tCtyValueSpare }

// padSpare rewrites v (which must be addressable or a pointer/map) in place.
func padSpare(v reflect.Value, seen map[uintptr]bool, depth int) {
	if depth > 40 || !v.IsValid() {
		return
	}
	t := v.Type()
	if opaqueForSpare(t) {
		return
	}
	switch v.Kind() {
	case reflect.Ptr:
		if v.IsNil() || seen[v.Pointer()] {
			return
		}
		seen[v.Pointer()] = true
		padSpare(v.Elem(), seen, depth+1)
	case reflect.Struct:
		for i := 0; i < v.NumField(); i++ {
			f := v.Field(i)
			if f.CanSet() {
				padSpare(f, seen, depth+1)
			}
		}
	case reflect.Slice:
		if v.IsNil() {
			return
		}
		for i := 0; i < v.Len(); i++ {
			padSpare(v.Index(i), seen, depth+1)
		}
		if v.CanSet() && v.Cap() == v.Len() && v.Len() > 0 {
			ns := reflect.MakeSlice(t, v.Len(), v.Len()+spareExtra)
			reflect.Copy(ns, v)
			v.Set(ns)
		}
	case reflect.Map:
		if v.IsNil() {
			return
		}
		for _, k := range v.MapKeys() {
			e := v.MapIndex(k)
			switch e.Kind() {
			case reflect.Ptr:
				padSpare(e, seen, depth+1)
			case reflect.Struct, reflect.Slice, reflect.Interface:
				ne := reflect.New(e.Type()).Elem()
				ne.Set(e)
				padSpare(ne, seen, depth+1)
				v.SetMapIndex(k, ne)
			}
		}
	case reflect.Interface:
		if v.IsNil() || !v.CanSet() {
			return
		}
		e := v.Elem()
		switch e.Kind() {
		case reflect.Ptr:
			padSpare(e, seen, depth+1)
		case reflect.Struct, reflect.Slice:
			ne := reflect.New(e.Type()).Elem()
			ne.Set(e)
			padSpare(ne, seen, depth+1)
			v.Set(ne)
		}
	}
}

// spareViolations lists the paths of slices whose spare elements (between length and capacity) are not zero.
func spareViolations(v reflect.Value, path string, seen map[uintptr]bool, depth int, out *[]string) {
	if depth > 40 || !v.IsValid() {
		return
	}
	t := v.Type()
	if opaqueForSpare(t) {
		return
	}
	switch v.Kind() {
	case reflect.Ptr:
		if v.IsNil() || seen[v.Pointer()] {
			return
		}
		seen[v.Pointer()] = true
		spareViolations(v.Elem(), path, seen, depth+1, out)
	case reflect.Struct:
		for i := 0; i < v.NumField(); i++ {
			if t.Field(i).PkgPath == "" {
				spareViolations(v.Field(i), path+"."+t.Field(i).Name, seen, depth+1, out)
			}
		}
	case reflect.Slice:
		if v.IsNil() {
			return
		}
		for i := 0; i < v.Len(); i++ {
			spareViolations(v.Index(i), fmt.Sprintf("%s[%d]", path, i), seen, depth+1, out)
		}
		if v.Cap() > v.Len() {
			full := v.Slice(0, v.Cap())
			for i := v.Len(); i < v.Cap(); i++ {
				if !full.Index(i).IsZero() {
					*out = append(*out, fmt.Sprintf("%s: spare element %d (length %d, capacity %d) now holds %v", path, i, v.Len(), v.Cap(), full.Index(i).Interface()))
					break
				}
			}
		}
	case reflect.Map:
		if v.IsNil() {
			return
		}
		for _, k := range v.MapKeys() {
			spareViolations(v.MapIndex(k), fmt.Sprintf("%s[%v]", path, k.Interface()), seen, depth+1, out)
		}
	case reflect.Interface:
		if !v.IsNil() {
			spareViolations(v.Elem(), path, seen, depth+1, out)
		}
	}
}

func padSpareSchemaAndFunctions(w *World) {
	seen := map[uintptr]bool{}
	for _, p := range w.Paths {
		if p.Ctx.Schema != nil {
			padSpare(reflect.ValueOf(p.Ctx.Schema), seen, 0)
		}
		for name, fs := range p.Ctx.Functions {
			if len(fs.Params) > 0 && cap(fs.Params) == len(fs.Params) {
				np := append(make([]function.Parameter, 0, len(fs.Params)+spareExtra), fs.Params...)
				fs.Params = np
				p.Ctx.Functions[name] = fs
			}
		}
	}
}

func spareViolationsOf(w *World) []string {
	var out []string
	seen := map[uintptr]bool{}
	for _, p := range w.Paths {
		if p.Ctx.Schema != nil {
			spareViolations(reflect.ValueOf(p.Ctx.Schema), "schema", seen, 0, &out)
		}
		for _, name := range sortedKeys(p.Ctx.Functions) {
			fs := p.Ctx.Functions[name]
			if cap(fs.Params) > len(fs.Params) {
				full := fs.Params[:cap(fs.Params)]
				for i := len(fs.Params); i < len(full); i++ {
					if full[i].Name != "" || full[i].Type != cty.NilType {
						// shared parameter lists (one list, several functions) legitimately hold the next function's parameters
						if !sharedParamList[name] {
							out = append(out, fmt.Sprintf("function %s: spare parameter %d now holds %q", name, i, full[i].Name))
						}
						break
					}
				}
			}
		}
	}
	return out
}

// functions of genFunctions / genSigFunctions whose parameter lists are cut from one shared list on purpose
var sharedParamList = map[string]bool{"fv": true, "fv2": true, "g1": true, "g2": true, "g3": true, "g4": true, "g5": true}
