package main

// Correspondence cases for Model/ValueTokens.v: the complete result of SemanticTokensInFile (body-level
// tokens and the tokens inside attribute values) against the model.

import (
	"context"
	"strings"
	"unicode"

	"github.com/hashicorp/hcl-lang/decoder"
	"github.com/hashicorp/hcl-lang/lang"
	"github.com/hashicorp/hcl-lang/reference"
	"github.com/hashicorp/hcl/v2"
	"github.com/hashicorp/hcl/v2/hclsyntax"
	"github.com/zclconf/go-cty/cty"
)

// hcl-referenceStep -> reference-step
func tokenTypeName(t lang.SemanticTokenType) string {
	s := strings.TrimPrefix(string(t), "hcl-")
	var sb strings.Builder
	for _, r := range s {
		if unicode.IsUpper(r) {
			sb.WriteByte('-')
			sb.WriteRune(unicode.ToLower(r))
		} else {
			sb.WriteRune(r)
		}
	}
	return sb.String()
}

// does the traversal resolve, as Reference.SemanticTokens decides it
func traversalResolves(pc *decoder.PathContext, e *hclsyntax.ScopeTraversalExpr) bool {
	origins, ok := pc.ReferenceOrigins.AtPos(e.Range().Filename, e.Range().Start)
	if !ok {
		return false
	}
	for _, o := range origins {
		mo, ok := o.(reference.MatchableOrigin)
		if !ok {
			continue
		}
		if _, ok := pc.ReferenceTargets.Match(mo); ok {
			return true
		}
	}
	return false
}

func sexprS(pc *decoder.PathContext, e hclsyntax.Expression) S {
	vt := S(Nil)
	func() {
		defer func() { _ = recover() }()
		if val, diags := e.Value(nil); !diags.HasErrors() {
			vt = tyS(val.Type())
		}
	}()
	many := func(es []hclsyntax.Expression) List {
		l := List{}
		for _, x := range es {
			l = append(l, sexprS(pc, x))
		}
		return l
	}
	opt := func(x hclsyntax.Expression) S {
		if x == nil {
			return Nil
		}
		return sexprS(pc, x)
	}
	node := S(T("other"))
	switch x := e.(type) {
	case *hclsyntax.ScopeTraversalExpr:
		steps := List{}
		for _, t := range x.Traversal {
			switch ts := t.(type) {
			case hcl.TraverseRoot:
				steps = append(steps, T("root", rangeS(ts.SrcRange)))
			case hcl.TraverseAttr:
				steps = append(steps, T("attr", rangeS(ts.SrcRange)))
			case hcl.TraverseIndex:
				switch {
				case !ts.Key.IsKnown():
					// nothing between the brackets: the parser's placeholder key
					steps = append(steps, T("idxu", rangeS(ts.SrcRange)))
				case ts.Key.Type() == cty.String:
					steps = append(steps, T("idxs", rangeS(ts.SrcRange)))
				case ts.Key.Type() == cty.Number:
					steps = append(steps, T("idxn", rangeS(ts.SrcRange)))
				default:
					steps = append(steps, T("idxo", rangeS(ts.SrcRange)))
				}
			default:
				steps = append(steps, T("idxo", rangeS(t.SourceRange())))
			}
		}
		node = T("trav", Str(x.Traversal.RootName()), steps, Bool(traversalResolves(pc, x)))
	case *hclsyntax.LiteralValueExpr:
		node = T("lit", tyS(x.Val.Type()))
	case *hclsyntax.TemplateExpr:
		node = T("template", Bool(x.IsStringLiteral()), many(x.Parts))
	case *hclsyntax.TemplateWrapExpr:
		node = T("wrap", sexprS(pc, x.Wrapped))
	case *hclsyntax.TupleConsExpr:
		node = T("tuple", many(x.Exprs))
	case *hclsyntax.ObjectConsExpr:
		items := List{}
		for _, it := range x.Items {
			k := S(T("other"))
			if name, ok := rawKey(it.KeyExpr); ok {
				k = T("raw", Str(name))
			} else if ke, ok := it.KeyExpr.(*hclsyntax.ObjectConsKeyExpr); ok {
				if pe, ok := ke.Wrapped.(*hclsyntax.ParenthesesExpr); ok {
					k = T("parens", sexprS(pc, pe))
				}
			}
			items = append(items, L(rangeS(it.KeyExpr.Range()), k, sexprS(pc, it.ValueExpr)))
		}
		node = T("object", items)
	case *hclsyntax.BinaryOpExpr:
		if ps := x.Op.Impl.Params(); len(ps) == 2 {
			node = T("binary", tyS(x.Op.Type), tyS(ps[0].Type), tyS(ps[1].Type), sexprS(pc, x.LHS), sexprS(pc, x.RHS))
		}
	case *hclsyntax.UnaryOpExpr:
		if ps := x.Op.Impl.Params(); len(ps) == 1 {
			node = T("unary", tyS(x.Op.Type), tyS(ps[0].Type), sexprS(pc, x.Val))
		}
	case *hclsyntax.ParenthesesExpr:
		node = T("parens", sexprS(pc, x.Expression))
	case *hclsyntax.ConditionalExpr:
		node = T("cond", sexprS(pc, x.Condition), sexprS(pc, x.TrueResult), sexprS(pc, x.FalseResult))
	case *hclsyntax.ForExpr:
		node = T("for", sexprS(pc, x.CollExpr), opt(x.KeyExpr), sexprS(pc, x.ValExpr), opt(x.CondExpr))
	case *hclsyntax.IndexExpr:
		node = T("index", sexprS(pc, x.Key))
	case *hclsyntax.FunctionCallExpr:
		node = T("call", Str(x.Name), rangeS(x.NameRange), many(x.Args))
	}
	return L(rangeS(e.Range()), vt, node)
}

func allSexprs(pc *decoder.PathContext, b *hclsyntax.Body, out, vals *List) {
	for _, n := range sortedKeys(b.Attributes) {
		a := b.Attributes[n]
		*out = append(*out, L(rangeS(a.SrcRange), sexprS(pc, a.Expr)))
		// the static value of every sub-expression that evaluates without error
		seen := map[hcl.Range]bool{}
		_ = hclsyntax.VisitAll(a.Expr, func(nd hclsyntax.Node) hcl.Diagnostics {
			e, ok := nd.(hclsyntax.Expression)
			if !ok || seen[e.Range()] {
				return nil
			}
			func() {
				defer func() { _ = recover() }()
				if val, diags := e.Value(nil); !diags.HasErrors() {
					seen[e.Range()] = true
					*vals = append(*vals, L(rangeS(e.Range()), valS(val)))
				}
			}()
			return nil
		})
	}
	for _, k := range b.Blocks {
		allSexprs(pc, k.Body, out, vals)
	}
}

// allTokensCase: the path context must hold the collected targets and origins (sc.W.Collect() ran)
func allTokensCase(run *Run, sc *Scenario) bool {
	p := sc.Main
	if p.Schema == nil {
		return false
	}
	f := p.Ctx.Files[sc.File]
	if f == nil {
		return false
	}
	body, ok := f.Body.(*hclsyntax.Body)
	if !ok {
		return false
	}
	d, err := sc.W.Dec.Path(p.Path)
	if err != nil {
		return false
	}
	res := safeCall("SemanticTokensInFile", func() (interface{}, error) { return d.SemanticTokensInFile(context.Background(), sc.File) })
	if res.Panic != "" || res.Err != nil {
		return false
	}
	obs := List{}
	for _, t := range res.Val.([]lang.SemanticToken) {
		obs = append(obs, L(Atom(tokenTypeName(t.Type)), modsS(t.Modifiers), rangeS(t.Range)))
	}
	exprs, vals := List{}, List{}
	allSexprs(p.Ctx, body, &exprs, &vals)
	run.Case("alltokens", []S{sc.schemaS(), bodyS(body), exprs, fsigsS(p.Ctx.Functions), vals}, canonStrings(obs))
	run.Count("alltokens")
	if len(obs) > 0 {
		run.Count("alltokens_nonempty")
	}
	return true
}
