package main

// Correspondence cases for Model/TargetsBody.v: CollectReferenceTargets of a whole (one-file) path against the
// body-level model; schemas with blocks addressable "as type of" / "as data" come back as delegated.

import (
	"bytes"

	"github.com/hashicorp/hcl-lang/reference"
	"github.com/hashicorp/hcl-lang/schema"
	"github.com/hashicorp/hcl/v2/ext/typeexpr"
	"github.com/hashicorp/hcl/v2/hclsyntax"
	"github.com/zclconf/go-cty/cty"
)

func nonASCII(s string) bool {
	for i := 0; i < len(s); i++ {
		if s[i] >= 0x80 {
			return true
		}
	}
	return false
}

func typeHasNonASCIIAttr(t cty.Type) bool {
	switch {
	case t == cty.NilType:
		return false
	case t.IsObjectType():
		for n, at := range t.AttributeTypes() {
			if nonASCII(n) || typeHasNonASCIIAttr(at) {
				return true
			}
		}
	case t.IsTupleType():
		for _, et := range t.TupleElementTypes() {
			if typeHasNonASCIIAttr(et) {
				return true
			}
		}
	case t.IsListType() || t.IsSetType() || t.IsMapType():
		return typeHasNonASCIIAttr(t.ElementType())
	}
	return false
}

// object attribute names outside ASCII: hclsyntax.ValidIdentifier is modelled for ASCII names only
func consHasNonASCIIAttr(c schema.Constraint) bool {
	switch x := c.(type) {
	case schema.AnyExpression:
		return typeHasNonASCIIAttr(x.OfType)
	case schema.LiteralType:
		return typeHasNonASCIIAttr(x.Type)
	case schema.List:
		return x.Elem != nil && consHasNonASCIIAttr(x.Elem)
	case schema.Set:
		return x.Elem != nil && consHasNonASCIIAttr(x.Elem)
	case schema.Map:
		return x.Elem != nil && consHasNonASCIIAttr(x.Elem)
	case schema.Tuple:
		for _, e := range x.Elems {
			if consHasNonASCIIAttr(e) {
				return true
			}
		}
	case schema.OneOf:
		for _, e := range x {
			if consHasNonASCIIAttr(e) {
				return true
			}
		}
	case schema.Object:
		for n, a := range x.Attributes {
			if nonASCII(n) || (a != nil && consHasNonASCIIAttr(a.Constraint)) {
				return true
			}
		}
	}
	return false
}

func bodySchemaHasNonASCIIAttr(b *schema.BodySchema, depth int) bool {
	if b == nil || depth > 8 {
		return false
	}
	for _, a := range b.Attributes {
		if a != nil && consHasNonASCIIAttr(a.Constraint) {
			return true
		}
	}
	if b.AnyAttribute != nil && consHasNonASCIIAttr(b.AnyAttribute.Constraint) {
		return true
	}
	for _, k := range b.Blocks {
		if k == nil {
			continue
		}
		if bodySchemaHasNonASCIIAttr(k.Body, depth+1) {
			return true
		}
		for _, d := range k.DependentBody {
			if bodySchemaHasNonASCIIAttr(d, depth+1) {
				return true
			}
		}
	}
	return false
}

func allAttrExprs(b *hclsyntax.Body, src []byte, out, gaps, typedecls *List) {
	for _, n := range sortedKeys(b.Attributes) {
		a := b.Attributes[n]
		*out = append(*out, L(rangeS(a.SrcRange), texprS(a.Expr)))
		func() {
			defer func() { _ = recover() }()
			if t, diags := typeexpr.TypeConstraint(a.Expr); !diags.HasErrors() {
				*typedecls = append(*typedecls, L(rangeS(a.SrcRange), tyS(t)))
			}
		}()
	}
	// stretches between two blocks of a body that hold nothing but white space
	for i, k := range b.Blocks {
		for _, k2 := range b.Blocks[i+1:] {
			from, to := k.Range().End.Byte, k2.Range().Start.Byte
			if from <= to && to <= len(src) && len(bytes.TrimSpace(src[from:to])) == 0 {
				*gaps = append(*gaps, L(Int(from), Int(to)))
			}
		}
	}
	for _, k := range b.Blocks {
		allAttrExprs(k.Body, src, out, gaps, typedecls)
	}
}

// names of the schema that cty would normalise (Unicode NFC) when they become attribute names of an object type
func nfcNames(b *schema.BodySchema, depth int, out map[string]string) {
	if b == nil || depth > 8 {
		return
	}
	add := func(n string) {
		if m := cty.StringVal(n).AsString(); m != n {
			out[n] = m
		}
	}
	for n := range b.Attributes {
		add(n)
	}
	for n, k := range b.Blocks {
		add(n)
		if k != nil {
			nfcNames(k.Body, depth+1, out)
			for _, d := range k.DependentBody {
				nfcNames(d, depth+1, out)
			}
		}
	}
}

func bodyTargetsCase(run *Run, sc *Scenario) bool {
	p := sc.Main
	if len(p.Src) != 1 || p.Schema == nil {
		return false
	}
	f := p.Ctx.Files[sc.File]
	if f == nil {
		return false
	}
	body, ok := f.Body.(*hclsyntax.Body)
	if !ok {
		return false
	}
	if bodySchemaHasNonASCIIAttr(p.Schema, 0) {
		run.Count("bodytargets_skipped_non_ascii_object_attribute")
		return false
	}
	exprs, gaps, typedecls := List{}, List{}, List{}
	allAttrExprs(body, p.Src[sc.File], &exprs, &gaps, &typedecls)
	avals := List{}
	walkBlocks(body, p.Schema, 0, func(b *hclsyntax.Block, bsch *schema.BlockSchema, merged *schema.BodySchema, res int, depth int) {
		if bsch.Address == nil {
			return
		}
		avs := List{}
		for _, st := range bsch.Address.Steps {
			av, ok := st.(schema.AttrValueStep)
			if !ok {
				continue
			}
			attr, present := b.Body.Attributes[av.Name]
			if !present {
				avs = append(avs, L(Str(av.Name), T("absent")))
				continue
			}
			v, _ := attr.Expr.Value(nil)
			if !v.IsWhollyKnown() || v.Type() != cty.String || v.IsNull() {
				avs = append(avs, L(Str(av.Name), T("notstring")))
			} else {
				avs = append(avs, L(Str(av.Name), T("str", Str(v.AsString()))))
			}
		}
		avals = append(avals, L(rangeS(b.Range()), avs))
	})
	nfc := map[string]string{}
	nfcNames(p.Schema, 0, nfc)
	// ... and the labels written in the file (keys of map blocks)
	var labels func(b *hclsyntax.Body)
	labels = func(b *hclsyntax.Body) {
		for _, k := range b.Blocks {
			for _, l := range k.Labels {
				if m := cty.StringVal(l).AsString(); m != l {
					nfc[l] = m
				}
			}
			labels(k.Body)
		}
	}
	labels(body)
	nfcS := List{}
	for _, n := range sortedKeys(nfc) {
		nfcS = append(nfcS, L(Str(n), Str(nfc[n])))
	}
	d, err := sc.W.Dec.Path(p.Path)
	if err != nil {
		return false
	}
	res := safeCall("CollectReferenceTargets", func() (interface{}, error) { return d.CollectReferenceTargets() })
	if res.Panic != "" || res.Err != nil {
		return false
	}
	obs, _ := res.Val.(reference.Targets)
	run.Case("bodytargets", []S{bodySchemaS(p.Schema), bodyS(body), exprs, avals, gaps, typedecls, nfcS}, targetsS(obs))
	run.Count("bodytargets")
	if len(obs) > 0 {
		run.Count("bodytargets_nonempty")
	}
	return true
}
