package main

// Correspondence cases for Model/Links.v: LinksInFile against the model; the decoration of the URLs of the
// schema (parse + re-encode with the decoder's default options) is computed here with net/url.

import (
	"net/url"

	"github.com/hashicorp/hcl-lang/lang"
	"github.com/hashicorp/hcl-lang/schema"
	"github.com/hashicorp/hcl/v2/hclsyntax"
)

func docsURLs(b *schema.BodySchema, depth int, out map[string]bool) {
	if b == nil || depth > 8 {
		return
	}
	if b.DocsLink != nil {
		out[b.DocsLink.URL] = true
	}
	for _, k := range b.Blocks {
		if k == nil {
			continue
		}
		docsURLs(k.Body, depth+1, out)
		for _, d := range k.DependentBody {
			docsURLs(d, depth+1, out)
		}
	}
}

func linksCase(run *Run, sc *Scenario) bool {
	p := sc.Main
	if p.Schema == nil {
		return false
	}
	f := p.Ctx.Files[sc.File]
	if f == nil {
		return false
	}
	body, ok := f.Body.(*hclsyntax.Body)
	if !ok {
		return false
	}
	d, err := sc.W.Dec.Path(p.Path)
	if err != nil {
		return false
	}
	res := safeCall("LinksInFile", func() (interface{}, error) { return d.LinksInFile(sc.File) })
	if res.Panic != "" || res.Err != nil {
		return false
	}
	obs := List{}
	for _, l := range res.Val.([]lang.Link) {
		obs = append(obs, L(Str(l.URI), Str(l.Tooltip), rangeS(l.Range)))
	}
	urls := map[string]bool{}
	docsURLs(p.Schema, 0, urls)
	tbl := List{}
	for _, u := range sortedKeys(urls) {
		pu, err := url.Parse(u)
		if err != nil {
			tbl = append(tbl, L(Str(u), Nil))
			continue
		}
		q := pu.Query()
		pu.RawQuery = q.Encode()
		tbl = append(tbl, L(Str(u), Str(pu.String())))
	}
	run.Case("links", []S{sc.schemaS(), bodyS(body), tbl}, obs)
	run.Count("links_cases")
	if len(obs) > 0 {
		run.Count("links_cases_nonempty")
	}
	return true
}
