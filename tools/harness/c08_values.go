package main

// Correspondence cases for Model/ValueCands.v: completion inside attribute values.
//
// For every queried position of a file the observed candidate list of CompletionAtPos is handed to the model
// (kind valuecands) together with the file's bytes, lexer tokens, syntax tree, schema, expression trees, the
// opening brackets of tuple / object constructors, the parser's "empty expression" placeholders and the static
// values of literals.  The model decides which positions lie inside an attribute value and what must be offered
// there; reference and function candidates are compared by place and edit range only.
//
// Inputs: (1) a focus family - one small file per (attribute of a fixed schema covering every constraint kind,
// typing state of its value), every cursor offset, required-field prefilling on and off; (2) the missing-value
// and literal-value focus files; (3) generated schemas and configurations with their typing histories.

import (
	"context"
	"fmt"
	"math/rand"

	"github.com/hashicorp/hcl-lang/decoder"
	"github.com/hashicorp/hcl-lang/lang"
	"github.com/hashicorp/hcl-lang/schema"
	"github.com/hashicorp/hcl/v2"
	"github.com/hashicorp/hcl/v2/hclsyntax"
	"github.com/hashicorp/hcl-lang/reference"
	"github.com/zclconf/go-cty/cty"
	"github.com/zclconf/go-cty/cty/convert"
	"github.com/zclconf/go-cty/cty/function"
)

func valueFocusSchema() *schema.BodySchema {
	kw := schema.Keyword{Keyword: "inherit", Name: "keyword"}
	kw2 := schema.Keyword{Keyword: "ignore"}
	ltb := schema.LiteralType{Type: cty.Bool}
	lts := schema.LiteralType{Type: cty.String}
	objAttrs := func() schema.ObjectAttributes {
		return schema.ObjectAttributes{
			"first":  {IsRequired: true, Constraint: lts},
			"second": {IsOptional: true, Constraint: kw},
			"third":  {IsOptional: true, Constraint: ltb},
			"fourth": {IsRequired: true, Constraint: schema.List{Elem: kw}},
		}
	}
	attrs := map[string]*schema.AttributeSchema{
		"kw":       {IsOptional: true, Constraint: kw},
		"l_kw":     {IsOptional: true, Constraint: schema.List{Elem: kw}},
		"s_lt":     {IsOptional: true, Constraint: schema.Set{Elem: ltb}},
		"l_none":   {IsOptional: true, Constraint: schema.List{}},
		"t_mix":    {IsOptional: true, Constraint: schema.Tuple{Elems: []schema.Constraint{lts, kw, ltb}}},
		"m_num":    {IsOptional: true, Constraint: schema.Map{Elem: schema.LiteralType{Type: cty.Number}}},
		"m_ikw":    {IsOptional: true, Constraint: schema.Map{Elem: kw, AllowInterpolatedKeys: true}},
		"o_plain":  {IsOptional: true, Constraint: schema.Object{Attributes: objAttrs()}},
		"o_interp": {IsOptional: true, Constraint: schema.Object{Attributes: objAttrs(), AllowInterpolatedKeys: true}},
		"o_nested": {IsOptional: true, Constraint: schema.Object{Attributes: schema.ObjectAttributes{
			"inner": {IsRequired: true, Constraint: schema.Object{Attributes: schema.ObjectAttributes{"leaf": {IsRequired: true, Constraint: ltb}}}},
			"list":  {IsOptional: true, Constraint: schema.List{Elem: schema.OneOf{kw, kw2}}},
		}}},
		"a_str":   {IsOptional: true, Constraint: schema.AnyExpression{OfType: cty.String}},
		"a_bool":  {IsOptional: true, Constraint: schema.AnyExpression{OfType: cty.Bool}},
		"a_num":   {IsOptional: true, Constraint: schema.AnyExpression{OfType: cty.Number}},
		"a_dyn":   {IsOptional: true, Constraint: schema.AnyExpression{OfType: cty.DynamicPseudoType}},
		"a_list":  {IsOptional: true, Constraint: schema.AnyExpression{OfType: cty.List(cty.Bool)}},
		"a_set":   {IsOptional: true, Constraint: schema.AnyExpression{OfType: cty.Set(cty.String)}},
		"a_map":   {IsOptional: true, Constraint: schema.AnyExpression{OfType: cty.Map(cty.Bool)}},
		"a_obj":   {IsOptional: true, Constraint: schema.AnyExpression{OfType: cty.Object(map[string]cty.Type{"x": cty.Bool, "y": cty.String})}},
		"a_tuple": {IsOptional: true, Constraint: schema.AnyExpression{OfType: cty.Tuple([]cty.Type{cty.Bool, cty.String})}},
		"a_skip":  {IsOptional: true, Constraint: schema.AnyExpression{OfType: cty.List(cty.Bool), SkipLiteralComplexTypes: true}},
		"lt_bool": {IsOptional: true, Constraint: ltb},
		"lt_obj":  {IsOptional: true, Constraint: schema.LiteralType{Type: cty.ObjectWithOptionalAttrs(map[string]cty.Type{"a": cty.String, "b": cty.Bool}, []string{"b"})}},
		"lt_list": {IsOptional: true, Constraint: schema.LiteralType{Type: cty.List(cty.Bool)}},
		"lt_map":  {IsOptional: true, Constraint: schema.LiteralType{Type: cty.Map(cty.List(cty.Bool))}},
		"lt_tup":  {IsOptional: true, Constraint: schema.LiteralType{Type: cty.Tuple([]cty.Type{cty.String, cty.Bool, cty.Number})}},
		"lt_skip": {IsOptional: true, Constraint: schema.LiteralType{Type: cty.List(cty.Bool), SkipComplexTypes: true}},
		"lv_str":  {IsOptional: true, Constraint: schema.LiteralValue{Value: cty.StringVal("fixed")}},
		"lv_true": {IsOptional: true, Constraint: schema.LiteralValue{Value: cty.True}},
		"lv_list": {IsOptional: true, Constraint: schema.LiteralValue{Value: cty.ListVal([]cty.Value{cty.StringVal("a"), cty.StringVal("b")})}},
		"oo": {IsOptional: true, Constraint: schema.OneOf{kw, schema.LiteralValue{Value: cty.StringVal("x")}, schema.List{Elem: kw2}, ltb,
			schema.LiteralValue{Value: cty.False}}},
		"oo_ref": {IsOptional: true, Constraint: schema.OneOf{schema.Reference{OfScopeId: "variable"}, kw, schema.AnyExpression{OfType: cty.Bool}}},
		"ref":    {IsOptional: true, Constraint: schema.Reference{OfScopeId: "variable"}},
		"td":     {IsOptional: true, Constraint: schema.TypeDeclaration{}},
		// the flags that only concern collection literals, on primitive types
		"lt_bskip": {IsOptional: true, Constraint: schema.LiteralType{Type: cty.Bool, SkipComplexTypes: true}},
		"a_bskip":  {IsOptional: true, Constraint: schema.AnyExpression{OfType: cty.Bool, SkipLiteralComplexTypes: true}},
		"oo_bskip": {IsOptional: true, Constraint: schema.OneOf{schema.LiteralType{Type: cty.Bool, SkipComplexTypes: true}, kw}},
		// string-typed attributes with a registered completion hook (at the top level and, through [inner], in a body
		// the library derives by copying and merging)
		"hk":  {IsOptional: true, Constraint: schema.LiteralType{Type: cty.String}, CompletionHooks: lang.CompletionHooks{{Name: "hook1"}}},
		"hka": {IsOptional: true, Constraint: schema.AnyExpression{OfType: cty.String}, CompletionHooks: lang.CompletionHooks{{Name: "hook1"}}},
	}
	base := tfSchema()
	return &schema.BodySchema{Attributes: attrs, Blocks: map[string]*schema.BlockSchema{
		"variable": base.Blocks["variable"],
		"inner":    {Body: &schema.BodySchema{Attributes: attrs, Extensions: &schema.BodyExtensions{Count: true, ForEach: true}}},
	}}
}

// typing states per family of attributes
var valueFocusTexts = map[string][]string{
	"typedecl": {"", " st", " string", " list()", " list( )", " list(str)", " set(string)", " map(", " map(number)", " tuple([])", " tuple([ ])", " tuple([string, ])",
		" tuple([string, number])", " tuple([str])", " object({})", " object({ })", " object({ a = })", " object({ a = string, b = })", " object({\n  a = string\n  \n})",
		" object({ a = list(string), b = tuple([bool, ]) })", " optional(string)", " object({ a = optional(str) })", " list(list())", " any", " tupl", " list ()", " map ( )", " tuple ([])", " object ({})", " set (string)"},
	"scalar": {"", " ", " inh", " inherit", " inherit.x", " tr", " true", " fals", " t.x", " \"fi\"", " \"fixed\"", " \"fixed", " 42", " null", " var.", " var.v", " x", " [", " {", " fä", " trüe", " inhérit", " inherit[0]", " ignore.y", " true.x"},
	"list": {" []", " [ ]", " [inh]", " [ inherit, ]", " [inherit,  inh]", " [inherit, , inherit]", " [\n  inherit,\n  \n]", " [x.]", " [var.]", " [tr, fa]", " [true, f", " [",
		" [ inherit", " [true,false, ]", " [ign", " [\"a\", \"b\"]", " [\"a\", ]", " [ true, fö ]", " [inherit.x, inh.y]"},
	"tuple": {" []", " [ ]", " [\"a\", ]", " [\"a\", inh]", " [\"a\", inherit, ]", " [\"a\", inherit, t]", " [\"a\", inherit, true, ]", " [ , inherit]", " [\"a\" ",
		" [\"a\",\n  \n]", " [tr, \"x\"]", " [tr, ]", " [\"a\", t, 1]", " [\"a\", tr, ]"},
	"map": {" {}", " { }", " {\n}", " {\n  \n}", " { k = }", " { k = 1, }", " { k = 1\n  \n}", " { \"k\" = 4, j = }", " { (var.v) = 1 }", " { (va) = inh }", " { ( }", " { k = inh }",
		" { k }", " { k = 1 j }", " { k = inherit, l = ign }", " { k = [tr] }", " { k = tr }", " { k = tr, (", " {\n  k = inherit\n  l = \n}", " { (true ? null : \"k\") = 1 }", " { (null) = 1, k = 2 }"},
	"object": {" {}", " { }", " {\n  \n}", " { fi }", " { first = }", " { first = \"x\", }", " { first = \"x\"\n  se\n}", " { \"first\" = \"x\", \"se\" }", " { first = \"x\", second = inh }",
		" { third = t }", " { first = \"x\" sec }", " { (var.v) = 1 }", " { (va) = 1, th }", " { ( }", " { unknown = 1, first = \"a\" }", " {\n  first = \"x\"\n  first = \"y\"\n  \n}",
		" { fir = 1 }", " { \"é\" = 1, fi }", " {\n  first = \"x\", \n  s\n}", " { fourth = [inh] }", " { fourth = [ ], th }", " { inner = { le } }", " { inner = { leaf = t } }",
		" { list = [inh, ign, i] }", " { x = t }", " { x = true, y }", " { a = \"s\", b = f }", " { a = \"s\"\n  \n}", " {\n  second = inherit\n  \n  third = true\n}",
		" { first = \"x\", \"sec", " { \"first\" = }", " { first = \"x\"  ,  }", " { plain = 1, (true ? null : \"fallback\") = 2, \"quoted\" = 3 }"},
	"expr": {" tr", " true", " !tr", " !tru.", " tr && fa", " tr &&", " (tr)", " (tr", " \"${tr}\"", " \"a${tr}b\"", " \"${tr", " tr ? fa : tr", " x ? tr", " x ? tr : ", " [for k, v in tr : fa if tr]",
		" {for k, v in tr : k => fa}", " var.v", " var.", " tags[]", " tags[tr]", " tags[\"x\"]", " f1(tr)", " f1(tr, )", " f1(tr,", " f1(", " f1( )", " fv2(\"a\", tr, fa)", " f0(tr)", " unknownfn(tr)", " f1(var.)", " f2(tr", " f1(f2(tr), t)", " f", " f1", " fb(tr)", " fb(tr, [tr, ])", " fb(true, [], fa", " fb(true, [], false, t)", " fb(, tr)", " fb(tr,\n  [f],\n  t\n)", " fo({ x = t })", " fo({ })", " fb(tr).", " fb(var.v.)", " null", " 42", " \"lit\"", " <<EOT\n${tr}\nEOT", " -1", " 1 + tr", " tr == fa", " x[tr].y", " x.*.y", " tags[null]", " tags[true]", " var.v[1][\"k\"][null]", " tr ? tags[null] : fa"},
}

var valueFocusFamilies = map[string][]string{
	"td": {"typedecl"}, "lt_bskip": {"scalar"}, "a_bskip": {"scalar"}, "oo_bskip": {"scalar"}, "hk": {"scalar"}, "hka": {"scalar", "expr"},
	"kw": {"scalar"}, "l_kw": {"list", "scalar"}, "s_lt": {"list", "scalar"}, "l_none": {"list"}, "t_mix": {"tuple", "scalar"}, "m_num": {"map", "scalar"}, "m_ikw": {"map"},
	"o_plain": {"object", "scalar"}, "o_interp": {"object"}, "o_nested": {"object"},
	"a_str": {"expr", "scalar"}, "a_bool": {"expr", "scalar"}, "a_num": {"expr"}, "a_dyn": {"expr", "list", "object"}, "a_list": {"list", "expr"}, "a_set": {"list"},
	"a_map": {"map", "expr"}, "a_obj": {"object", "expr"}, "a_tuple": {"tuple", "list"}, "a_skip": {"list", "expr"},
	"lt_bool": {"scalar", "expr"}, "lt_obj": {"object", "scalar"}, "lt_list": {"list", "scalar"}, "lt_map": {"map"}, "lt_tup": {"tuple"}, "lt_skip": {"list", "scalar"},
	"lv_str": {"scalar"}, "lv_true": {"scalar"}, "lv_list": {"list", "scalar"}, "oo": {"scalar", "list"}, "oo_ref": {"scalar", "expr"}, "ref": {"scalar"},
}

type valueFocusSpec struct {
	kind, src string
	from      int
}

// valueFocusSpecs: (attribute, typing state) -> file text; the value starts behind offset [from]
func valueFocusSpecs() []valueFocusSpec {
	var out []valueFocusSpec
	n := 0
	for _, attr := range sortedKeys(valueFocusFamilies) {
		for _, fam := range valueFocusFamilies[attr] {
			for _, text := range valueFocusTexts[fam] {
				n++
				var src string
				head := "variable \"v\" {\n  type = string\n}\n"
				switch n % 3 {
				case 0:
					src = head + attr + " =" + text + "\n"
				case 1:
					src = head + attr + " =" + text + "\nkw = inherit\n"
				default:
					src = head + "inner {\n  " + attr + " =" + text + "\n  count = 1\n}\n"
				}
				out = append(out, valueFocusSpec{kind: "value-focus/" + attr + "/" + fam, src: src, from: len(head)})
			}
		}
	}
	// values left open at the very end of the file (no newline behind them): the parser's recovery differs there
	for _, attr := range []string{"a_dyn", "a_str", "hka", "l_kw", "o_plain", "td"} {
		for _, text := range []string{" var[\"", " var[", " var.v[\"x", " f1(", " f1(tr,", " \"abc", " {", " { first =", " [", " [inherit,", " x[\"\"]", " list(", " object({ a ="} {
			head := "variable \"v\" {\n  type = string\n}\nvariable \"var\" {\n  type = string\n}\n"
			out = append(out, valueFocusSpec{kind: "value-focus-eof/" + attr, src: head + attr + " =" + text, from: len(head)})
		}
	}
	return out
}

var valueFocusSchemaShared = valueFocusSchema()

// the function table of the family: the generic one plus functions with boolean and collection parameters
func valueFocusFunctions() map[string]schema.FunctionSignature {
	fs := genFunctions(nil)
	vb := function.Parameter{Name: "more", Type: cty.Bool}
	fs["fb"] = schema.FunctionSignature{ReturnType: cty.Bool, Params: []function.Parameter{{Name: "flag", Type: cty.Bool}, {Name: "flags", Type: cty.List(cty.Bool)}}, VarParam: &vb}
	fs["fo"] = schema.FunctionSignature{ReturnType: cty.String, Params: []function.Parameter{{Name: "o", Type: cty.Object(map[string]cty.Type{"x": cty.Bool})}}}
	return fs
}

func (sp valueFocusSpec) scenario() *Scenario {
	w := newWorld()
	pd := w.AddPath("root", valueFocusSchemaShared, map[string]string{"main.tf": sp.src}, valueFocusFunctions())
	s := &Scenario{W: w, Main: pd, File: "main.tf", Src: []byte(sp.src), Kind: sp.kind}
	for off := sp.from; off <= len(sp.src); off++ {
		s.Offsets = append(s.Offsets, off)
	}
	return s
}

func valueFocusScenarios() []*Scenario {
	var out []*Scenario
	for _, sp := range valueFocusSpecs() {
		out = append(out, sp.scenario())
	}
	return out
}

// valueFocusShare: the scenarios of the family whose index is i modulo n (a run with n bases sees each once)
func valueFocusShare(i, n int) []*Scenario {
	var out []*Scenario
	if n < 1 {
		n = 1
	}
	for k, sp := range valueFocusSpecs() {
		if k%n == i%n {
			out = append(out, sp.scenario())
		}
	}
	return out
}

// callParens: call expression -> its opening and closing parenthesis
func callParens(b *hclsyntax.Body, out *List) {
	for _, n := range sortedKeys(b.Attributes) {
		seen := map[hcl.Range]bool{}
		_ = hclsyntax.VisitAll(b.Attributes[n].Expr, func(nd hclsyntax.Node) hcl.Diagnostics {
			if x, ok := nd.(*hclsyntax.FunctionCallExpr); ok && !seen[x.Range()] {
				seen[x.Range()] = true
				*out = append(*out, L(rangeS(x.Range()), rangeS(x.OpenParenRange), rangeS(x.CloseParenRange)))
			}
			return nil
		})
	}
	for _, k := range b.Blocks {
		callParens(k.Body, out)
	}
}

func emptyExprRanges(b *hclsyntax.Body, out *List) {
	for _, n := range sortedKeys(b.Attributes) {
		_ = hclsyntax.VisitAll(b.Attributes[n].Expr, func(nd hclsyntax.Node) hcl.Diagnostics {
			if l, ok := nd.(*hclsyntax.LiteralValueExpr); ok && l.Val == cty.DynamicVal {
				*out = append(*out, rangeS(l.Range()))
			}
			return nil
		})
	}
	for _, k := range b.Blocks {
		emptyExprRanges(k.Body, out)
	}
}

// wfcCheck: what the theorem on edit ranges (Proofs/ValueCandsProofs.v, wfc) assumes of the parser's tree: a
// traversal's range covers its root name and starts where its root step starts, a boolean literal's range covers
// its text, an object item's key ends no later than its value.  Returns the number of nodes checked and the failures.
var malformedParserRanges int

func wfcCheck(b *hclsyntax.Body, fails *[]string) int {
	n := 0
	for _, name := range sortedKeys(b.Attributes) {
		_ = hclsyntax.VisitAll(b.Attributes[name].Expr, func(nd hclsyntax.Node) hcl.Diagnostics {
			switch x := nd.(type) {
			case *hclsyntax.ScopeTraversalExpr:
				n++
				r := x.Range()
				if len(x.Traversal) == 0 || r.End.Byte-r.Start.Byte < len(x.Traversal.RootName()) || x.Traversal[0].SourceRange().Start.Byte != r.Start.Byte {
					*fails = append(*fails, fmt.Sprintf("traversal %v (root %q)", r, x.Traversal.RootName()))
				}
			case *hclsyntax.LiteralValueExpr:
				if x.Val.Type() == cty.Bool && x.Val.IsKnown() && !x.Val.IsNull() {
					n++
					text := "false"
					if x.Val.True() {
						text = "true"
					}
					if r := x.Range(); r.End.Byte-r.Start.Byte < len(text) {
						*fails = append(*fails, fmt.Sprintf("boolean literal %v", r))
					}
				}
			case *hclsyntax.FunctionCallExpr:
				n++
				if r := x.Range(); r.End.Byte < r.Start.Byte {
					// an unterminated call at the end of the file: the parser's own range is malformed (open finding of C02,
					// parser-supplied-range-malformed); outside the theorem's hypothesis, counted
					malformedParserRanges++
				} else if x.NameRange.Start.Byte < r.Start.Byte || x.NameRange.End.Byte > r.End.Byte || x.NameRange.End.Byte < x.NameRange.Start.Byte ||
					x.CloseParenRange.End.Byte > x.CloseParenRange.Start.Byte+1 {
					*fails = append(*fails, fmt.Sprintf("call %v with its name at %v", r, x.NameRange))
				}
			case *hclsyntax.ObjectConsExpr:
				for _, it := range x.Items {
					n++
					if it.KeyExpr.Range().End.Byte > it.ValueExpr.Range().End.Byte {
						*fails = append(*fails, fmt.Sprintf("object item key %v ends behind its value %v", it.KeyExpr.Range(), it.ValueExpr.Range()))
					}
				}
			}
			return nil
		})
	}
	for _, k := range b.Blocks {
		n += wfcCheck(k.Body, fails)
	}
	return n
}

func valueCandS(c lang.Candidate) S {
	return L(Int(int(c.Kind)), Str(c.Label), Str(c.TextEdit.NewText), Str(c.TextEdit.Snippet), Bool(c.TriggerSuggest), Int(c.TextEdit.Range.Start.Byte), Int(c.TextEdit.Range.End.Byte))
}

// valueCandsScenario: one case per (scenario, prefill) over the given offsets
func valueCandsScenario(run *Run, sc *Scenario, offsets []int, max uint, prefills ...bool) {
	if len(prefills) == 0 {
		prefills = []bool{false, true}
	}
	ctx := context.Background()
	f := sc.Main.Ctx.Files[sc.File]
	if f == nil {
		return
	}
	body, ok := f.Body.(*hclsyntax.Body)
	if !ok {
		return
	}
	tbl := lcTable(sc.Src)
	exprs, vals := List{}, List{}
	allSexprs(sc.Main.Ctx, body, &exprs, &vals)
	parens, opens, typeok := List{}, List{}, List{}
	hoverTables(body, &parens, &opens, &typeok)
	empties := List{}
	emptyExprRanges(body, &empties)
	cparens := List{}
	callParens(body, &cparens)
	// the collected declarations of the path and go-cty's convertibility for (type of a declaration, type a
	// value may be expected to have): the model enumerates the reference candidates from them
	tgtS := S(targetsS(sc.Main.Ctx.ReferenceTargets))
	convS := S(convTableFor(sc.Main.Ctx.ReferenceTargets, sc.Main.Schema, sc.Main.Ctx.Functions))
	// the return types of the functions: the model enumerates the function candidates from them
	fr := List{}
	for _, n := range sortedKeys(sc.Main.Ctx.Functions) {
		fr = append(fr, L(Str(n), tyS(sc.Main.Ctx.Functions[n].ReturnType)))
	}
	fretS := S(fr)
	if len(allTargets(sc.Main.Ctx.ReferenceTargets)) > 400 {
		tgtS, convS, fretS = Atom("noref"), Atom("noref"), Atom("noref")
	}
	var wfFails []string
	malformedParserRanges = 0
	run.Res.Hypotheses["value_completion_tree_nodes_checked"] += wfcCheck(body, &wfFails)
	run.Res.Distribution["value_completion_calls_with_parser_malformed_range"] += malformedParserRanges
	for _, wf := range wfFails {
		run.Res.HypothesisFailures = append(run.Res.HypothesisFailures, "parser tree outside the hypothesis of C06_value_candidates_reach_cursor: "+wf+" in "+fmt.Sprintf("%q", sc.Src))
	}
	toks := tokensS(sc.Src)
	dec := decodedKeysS(sc.Main.Schema)
	schS := sc.schemaS()
	bodyS_ := bodyS(body)
	seen := map[int]bool{}
	for _, prefill := range prefills {
		pairs := List{}
		for k := range seen {
			delete(seen, k)
		}
		for _, off := range offsets {
			pos, ok := tbl[off]
			if !ok || seen[off] {
				continue
			}
			seen[off] = true
			d, _ := sc.W.Dec.Path(sc.Main.Path)
			d.PrefillRequiredFields = prefill
			decoder.VerifSetMaxCandidates(d, max)
			res := safeCall("CompletionAtPos", func() (interface{}, error) { return d.CompletionAtPos(ctx, sc.File, pos) })
			run.Res.Evaluations++
			if res.Panic != "" {
				continue
			}
			if res.Err != nil {
				pairs = append(pairs, L(posS(pos), T("err")))
				continue
			}
			cands := res.Val.(lang.Candidates)
			l := List{}
			inValue := false
			for _, c := range cands.List {
				l = append(l, valueCandS(c))
				if c.Kind != lang.AttributeCandidateKind && c.Kind != lang.BlockCandidateKind && c.Kind != lang.LabelCandidateKind {
					inValue = true
				}
			}
			if inValue {
				run.Distinct(fmt.Sprintf("vc|%s|%d|%v", sc.Src, off, prefill))
				run.Count("valuecands_positions_with_value_candidates")
			}
			pairs = append(pairs, L(posS(pos), T("cands", Bool(cands.IsComplete), l)))
		}
		if len(pairs) == 0 {
			continue
		}
		run.Case("valuecands", []S{Bool(prefill), Int(int(max)), Str(string(sc.Src)), toks, dec, bodyS_, schS, exprs, opens, empties, vals, fsigsS(sc.Main.Ctx.Functions), parens, cparens, convS, tgtS, fretS, pairs}, T("allok"))
		run.Count("valuecands_files")
		run.Res.Distribution["valuecands_positions"] += len(pairs)
	}
}

func valueCandsCases(run *Run) {
	for k, sc := range valueFocusScenarios() {
		sc.W.Collect()
		// (required-field prefilling alternates over the family in the quick tier)
		if run.Thorough {
			valueCandsScenario(run, sc, sc.Offsets, 100)
		} else {
			valueCandsScenario(run, sc, sc.Offsets, 100, k%2 == 1)
		}
	}
	for v := 0; v < 4; v++ {
		sc := missingValueKindsScenario(v)
		sc.W.Collect()
		valueCandsScenario(run, sc, sc.Offsets, 100)
	}
	bases, hist, posN := 18, 3, 60
	if run.Thorough {
		bases, hist, posN = 240, 10, 300
	}
	for bi := 0; bi < bases; bi++ {
		r := rand.New(rand.NewSource(subSeed(run.Res.Seed, 880000+bi)))
		var scs []*Scenario
		switch bi % 3 {
		case 0:
			s, cfg := tfScenario(r)
			scs = append(scs, s)
			for _, h := range histories(r, cfg.Src, hist) {
				w := newWorld()
				pd := w.AddPath("root", tfSchema(), map[string]string{"main.tf": h}, genFunctions(r))
				scs = append(scs, &Scenario{W: w, Main: pd, File: "main.tf", Src: []byte(h), Kind: "tf-history"})
			}
		case 1:
			scs = genScenarios(r, ScenarioOpts{Histories: hist, Gen: GenOpts{}})
		default:
			lf := literalValueFocusScenario(rand.New(rand.NewSource(subSeed(run.Res.Seed, 777000+bi))))
			for off := 0; off <= len(lf.Src); off++ {
				lf.Offsets = append(lf.Offsets, off)
			}
			scs = append(scs, lf)
			scs = append(scs, genScenarios(r, ScenarioOpts{Histories: hist, Inject: true, Gen: GenOpts{MaxDepth: 3}})...)
		}
		for _, sc := range scs {
			sc.W.Collect()
			offs := append(cursorOffsets(r, sc.Src, false, posN), sc.Offsets...)
			max := uint(100)
			valueCandsScenario(run, sc, offs, max)
		}
	}
}

// valueFocusFirstLine: the cleanly parsed typing states again, with the attribute as the FIRST item of the file
// (line 1, byte offset = column - 1): translation of positions (C18) is then visible in arithmetic that mixes
// the two.  Type declarations always, the other families every [every]-th.
func valueFocusFirstLine(every int) []*Scenario {
	var out []*Scenario
	k := 0
	for _, attr := range sortedKeys(valueFocusFamilies) {
		for _, fam := range valueFocusFamilies[attr] {
			for _, text := range valueFocusTexts[fam] {
				k++
				if fam != "typedecl" && every > 1 && k%every != 0 {
					continue
				}
				src := attr + " =" + text + "\nkw = inherit\n"
				if _, d := hclsyntax.ParseConfig([]byte(src), "main.tf", hcl.InitialPos); d.HasErrors() {
					continue
				}
				w := newWorld()
				pd := w.AddPath("root", valueFocusSchemaShared, map[string]string{"main.tf": src}, genFunctions(nil))
				s := &Scenario{W: w, Main: pd, File: "main.tf", Src: []byte(src), Kind: "value-focus-first-line/" + attr + "/" + fam}
				for off := len(attr) + 2; off <= len(attr)+2+len(text); off++ {
					s.Offsets = append(s.Offsets, off)
				}
				out = append(out, s)
			}
		}
	}
	// a declaration as the FIRST item of the file (it starts where the root body starts) and references to it written
	// in top-level attributes: what is offered there does not depend on where in the file the declaration begins
	for _, attr := range []string{"ref", "oo_ref", "a_str", "a_dyn", "hka"} {
		for _, text := range []string{" var.v", " var.", " v"} {
			head := "variable \"v\" {\n  type = string\n}\n"
			src := head + attr + " =" + text + "\nkw = inherit\n"
			w := newWorld()
			pd := w.AddPath("root", valueFocusSchemaShared, map[string]string{"main.tf": src}, genFunctions(nil))
			s := &Scenario{W: w, Main: pd, File: "main.tf", Src: []byte(src), Kind: "value-focus-first-item-declares/" + attr}
			for off := len(head) + len(attr) + 2; off <= len(head)+len(attr)+2+len(text); off++ {
				s.Offsets = append(s.Offsets, off)
			}
			out = append(out, s)
		}
	}
	return out
}

// convTableFor: convert.Convert(cty.UnknownVal(a), b) for every type a of a collected declaration and every type b a
// value may be expected to have: the types of the schema's constraints with their element / attribute types, the
// parameter types of the functions, the operand types of the operators
func convTableFor(ts reference.Targets, sch *schema.BodySchema, funcs map[string]schema.FunctionSignature) S {
	from := map[string]cty.Type{}
	for _, t := range allTargets(ts) {
		if t.Type != cty.NilType {
			from[t.Type.GoString()] = t.Type
		}
	}
	for _, f := range funcs {
		if f.ReturnType != cty.NilType {
			from[f.ReturnType.GoString()] = f.ReturnType
		}
	}
	to := map[string]cty.Type{}
	var addType func(t cty.Type, d int)
	addType = func(t cty.Type, d int) {
		if t == cty.NilType || d > 6 {
			return
		}
		to[t.GoString()] = t
		switch {
		case t.IsListType() || t.IsSetType() || t.IsMapType():
			addType(t.ElementType(), d+1)
		case t.IsTupleType():
			for _, e := range t.TupleElementTypes() {
				addType(e, d+1)
			}
		case t.IsObjectType():
			for _, e := range t.AttributeTypes() {
				addType(e, d+1)
			}
		}
	}
	for _, t := range []cty.Type{cty.Bool, cty.Number, cty.String, cty.DynamicPseudoType, cty.Map(cty.DynamicPseudoType), cty.List(cty.DynamicPseudoType), cty.Set(cty.String), cty.EmptyObject} {
		addType(t, 0)
	}
	var addCons func(c schema.Constraint, d int)
	addCons = func(c schema.Constraint, d int) {
		if c == nil || d > 6 {
			return
		}
		switch x := c.(type) {
		case schema.AnyExpression:
			addType(x.OfType, 0)
		case schema.LiteralType:
			addType(x.Type, 0)
		case schema.Reference:
			addType(x.OfType, 0)
		case schema.List:
			addCons(x.Elem, d+1)
		case schema.Set:
			addCons(x.Elem, d+1)
		case schema.Map:
			addCons(x.Elem, d+1)
		case schema.Tuple:
			for _, e := range x.Elems {
				addCons(e, d+1)
			}
		case schema.Object:
			for _, a := range x.Attributes {
				addCons(a.Constraint, d+1)
			}
		case schema.OneOf:
			for _, e := range x {
				addCons(e, d+1)
			}
		}
	}
	var addBody func(b *schema.BodySchema, d int)
	addBody = func(b *schema.BodySchema, d int) {
		if b == nil || d > 5 {
			return
		}
		for _, a := range b.Attributes {
			addCons(a.Constraint, 0)
		}
		if b.AnyAttribute != nil {
			addCons(b.AnyAttribute.Constraint, 0)
		}
		for _, k := range b.Blocks {
			addBody(k.Body, d+1)
			for _, dep := range k.DependentBody {
				addBody(dep, d+1)
			}
		}
	}
	addBody(sch, 0)
	for _, f := range funcs {
		for _, p := range f.Params {
			addType(p.Type, 0)
		}
		if f.VarParam != nil {
			addType(f.VarParam.Type, 0)
		}
	}
	l := List{}
	for _, fk := range sortedKeys(from) {
		for _, tk := range sortedKeys(to) {
			a, b := from[fk], to[tk]
			ok := false
			func() {
				defer func() { _ = recover() }()
				_, err := convert.Convert(cty.UnknownVal(a), b)
				ok = err == nil
			}()
			l = append(l, L(tyS(a), tyS(b), Bool(ok)))
		}
	}
	return l
}
