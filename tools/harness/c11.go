package main

// C11 (and the matching parts of C03/C08): generated target forests and origins, independent of
// collection; the exported matching functions are compared with Model/Ref.v, and the two decoder
// lookups are checked to be inverse views on multi-path worlds.

import (
	"context"
	"fmt"
	"math/rand"
	"sort"
	"strings"

	"github.com/hashicorp/hcl-lang/decoder"
	"github.com/hashicorp/hcl-lang/lang"
	"github.com/hashicorp/hcl-lang/reference"
	"github.com/hashicorp/hcl-lang/schema"
	"github.com/hashicorp/hcl/v2"
	"github.com/hashicorp/hcl/v2/hclsyntax"
	"github.com/zclconf/go-cty/cty"
	"github.com/zclconf/go-cty/cty/convert"
)

func init() { props["C11"] = runC11 }

var refTypePool = []cty.Type{
	cty.NilType, cty.DynamicPseudoType, cty.String, cty.Number, cty.Bool,
	cty.List(cty.String), cty.Map(cty.Number), cty.EmptyTuple, cty.Tuple([]cty.Type{cty.String}),
	cty.Object(map[string]cty.Type{"a": cty.String}), cty.EmptyObject, cty.Set(cty.String),
}

const lineW = 41

func mkPos(line, col int) hcl.Pos {
	return hcl.Pos{Line: line, Column: col, Byte: (line-1)*lineW + col - 1}
}
func mkRange(file string, l1, c1, l2, c2 int) hcl.Range {
	return hcl.Range{Filename: file, Start: mkPos(l1, c1), End: mkPos(l2, c2)}
}

type forestGen struct {
	r     *rand.Rand
	wf    bool // collection-like forests: a ranged child lies inside its (ranged) parent, the definition inside the range
	files []string
	addrs []lang.Address // addresses handed out (to make origins that match)
}

func (g *forestGen) step() lang.AddressStep {
	switch g.r.Intn(4) {
	case 0:
		return lang.IndexStep{Key: cty.NumberIntVal(int64(g.r.Intn(3)))}
	case 1:
		return lang.IndexStep{Key: cty.StringVal(pick(g.r, []string{"k", "a b", "x"}))}
	default:
		return lang.AttrStep{Name: pick(g.r, []string{"a", "b", "ab", "id", "name"})}
	}
}

func (g *forestGen) rootAddr() lang.Address {
	a := lang.Address{lang.RootStep{Name: pick(g.r, []string{"var", "local", "data", "res", "blk"})}}
	for i, n := 0, g.r.Intn(3); i < n; i++ {
		a = append(a, g.step())
	}
	return a
}

func rngPtr(r hcl.Range) *hcl.Range { return &r }

// target with ranges inside [l1,l2] of file
func (g *forestGen) target(file string, addr, local lang.Address, l1, l2 int, depth int) reference.Target {
	return g.targetIn(file, addr, local, l1, l2, 40, depth)
}

func (g *forestGen) targetIn(file string, addr, local lang.Address, l1, l2 int, maxEndCol int, depth int) reference.Target {
	r := g.r
	t := reference.Target{Addr: addr, LocalAddr: local, ScopeId: pick(r, scopeIds), Type: pick(r, refTypePool),
		Name: pick(r, []string{"", "friendly"})}
	endCol := 2 + r.Intn(30)
	if g.wf && endCol > maxEndCol {
		endCol = maxEndCol
	}
	if r.Intn(8) > 0 || g.wf {
		t.RangePtr = rngPtr(mkRange(file, l1, 1, l2, endCol))
		if r.Intn(5) > 0 {
			dc := 5 + r.Intn(10)
			if g.wf && l1 == l2 && dc > endCol {
				dc = endCol
			}
			t.DefRangePtr = rngPtr(mkRange(file, l1, 1, l1, dc))
		}
	}
	if len(local) > 0 && r.Intn(3) > 0 {
		t.TargetableFromRangePtr = rngPtr(mkRange(file, l1, 1, l2+r.Intn(2), 20))
	}
	if len(addr) > 0 {
		g.addrs = append(g.addrs, addr)
	}
	if len(local) > 0 {
		g.addrs = append(g.addrs, local)
	}
	if depth > 0 && l2 > l1 {
		n := r.Intn(4)
		cursor := l1
		for i := 0; i < n; i++ {
			st := g.step()
			var ca, cl lang.Address
			if len(addr) > 0 {
				ca = append(addr.Copy(), st)
			}
			if len(local) > 0 {
				cl = append(local.Copy(), st)
			}
			a := l1 + r.Intn(l2-l1+1)
			b := a + r.Intn(l2-a+1)
			if g.wf {
				// siblings of a collected forest are distinct items: disjoint line ranges
				if cursor > l2 {
					break
				}
				a = cursor + r.Intn(l2-cursor+1)
				b = a + r.Intn(l2-a+1)
				cursor = b + 1
				if a == l1 && t.DefRangePtr != nil {
					// the parent's header occupies its first line
					if a == l2 {
						break
					}
					a++
					if b < a {
						b = a
					}
					cursor = b + 1
				}
			}
			mc := 40
			if b == l2 {
				mc = endCol
			}
			t.NestedTargets = append(t.NestedTargets, g.targetIn(file, ca, cl, a, b, mc, depth-1))
		}
	}
	if depth > 0 && t.RangePtr != nil && len(addr) > 0 && r.Intn(4) == 0 {
		// nested declarations that stand for the same block (schema.Targetable.NestedTargetables): they
		// share the parent's range and header, so a position on the header designates the parent and the
		// nested ones are reached through it
		for i, n := 0, 1+r.Intn(2); i < n; i++ {
			ca := append(addr.Copy(), lang.AttrStep{Name: pick(r, []string{"out", "id", "arn"})})
			c := reference.Target{Addr: ca, ScopeId: t.ScopeId, Type: pick(r, refTypePool), RangePtr: t.RangePtr, DefRangePtr: t.DefRangePtr}
			g.addrs = append(g.addrs, ca)
			if r.Intn(3) == 0 {
				cc := reference.Target{Addr: append(ca.Copy(), lang.AttrStep{Name: "deep"}), ScopeId: t.ScopeId, Type: pick(r, refTypePool), RangePtr: t.RangePtr, DefRangePtr: t.DefRangePtr}
				g.addrs = append(g.addrs, cc.Addr)
				c.NestedTargets = reference.Targets{cc}
			}
			t.NestedTargets = append(t.NestedTargets, c)
		}
	}
	return t
}

func (g *forestGen) forest(n int) reference.Targets {
	var ts reference.Targets
	line := 1
	for i := 0; i < n; i++ {
		file := pick(g.r, g.files)
		var addr, local lang.Address
		switch g.r.Intn(6) {
		case 0:
			local = lang.Address{lang.RootStep{Name: pick(g.r, []string{"self", "count", "each"})}, lang.AttrStep{Name: pick(g.r, []string{"index", "key", "a"})}}
		case 1:
			addr = g.rootAddr()
			local = lang.Address{lang.RootStep{Name: "self"}, lang.AttrStep{Name: "a"}}
		default:
			addr = g.rootAddr()
		}
		h := g.r.Intn(6)
		if !g.wf && g.r.Intn(4) == 0 && line > 3 {
			line -= 2 // overlapping top-level targets
		}
		nt := g.target(file, addr, local, line, line+h, 2)
		if len(nt.NestedTargets) > 0 && g.r.Intn(3) == 0 {
			// an item that is addressable on its own AND nested in an enclosing declaration
			// (e.g. an attribute with its own address inside a body-as-data block)
			c := nt.NestedTargets[g.r.Intn(len(nt.NestedTargets))]
			own := reference.Target{Addr: g.rootAddr(), ScopeId: c.ScopeId, Type: c.Type, RangePtr: c.RangePtr, DefRangePtr: c.DefRangePtr}
			g.addrs = append(g.addrs, own.Addr)
			if g.r.Intn(2) == 0 {
				ts = append(ts, own, nt)
			} else {
				ts = append(ts, nt, own)
			}
		} else {
			ts = append(ts, nt)
		}
		line += h + g.r.Intn(2)
	}
	return ts
}

func (g *forestGen) cons() reference.OriginConstraints {
	var cs reference.OriginConstraints
	for i, n := 0, g.r.Intn(3); i < n; i++ {
		cs = append(cs, reference.OriginConstraint{OfScopeId: pick(g.r, scopeIds), OfType: pick(g.r, refTypePool)})
	}
	return cs
}

func (g *forestGen) origins(n int, paths []lang.Path, maxLine int) reference.Origins {
	var os reference.Origins
	for i := 0; i < n; i++ {
		var addr lang.Address
		if len(g.addrs) > 0 && g.r.Intn(5) > 0 {
			addr = pick(g.r, g.addrs).Copy()
			if g.r.Intn(4) == 0 {
				addr = append(addr, g.step())
			}
		} else {
			addr = g.rootAddr()
		}
		l := 1 + g.r.Intn(maxLine+2)
		c := 1 + g.r.Intn(20)
		rng := mkRange(pick(g.r, g.files), l, c, l, c+1+g.r.Intn(10))
		switch g.r.Intn(8) {
		case 0, 2:
			os = append(os, reference.PathOrigin{Range: rng, TargetAddr: addr, TargetPath: pick(g.r, paths), Constraints: g.cons()})
		case 1:
			os = append(os, reference.DirectOrigin{Range: rng, TargetPath: pick(g.r, paths), TargetRange: mkRange(callerSupplied, 1, 1, 1, 2)})
		default:
			os = append(os, reference.LocalOrigin{Addr: addr, Range: rng, Constraints: g.cons()})
		}
	}
	return os
}

// ---- serialisation ----
func orangeS(r *hcl.Range) S {
	if r == nil {
		return Nil
	}
	return rangeS(*r)
}

func targetS(t reference.Target) S {
	nested := List{}
	for _, n := range t.NestedTargets {
		nested = append(nested, targetS(n))
	}
	return T("target", addrS(t.Addr), addrS(t.LocalAddr), orangeS(t.TargetableFromRangePtr), Str(string(t.ScopeId)),
		orangeS(t.RangePtr), orangeS(t.DefRangePtr), tyS(t.Type), Str(t.Name), nested)
}

func targetsS(ts reference.Targets) S {
	l := List{}
	for _, t := range ts {
		l = append(l, targetS(t))
	}
	return l
}

func consListS(cs reference.OriginConstraints) S {
	l := List{}
	for _, c := range cs {
		l = append(l, L(Str(string(c.OfScopeId)), tyS(c.OfType)))
	}
	return l
}

func pathS(p lang.Path) S { return L(Str(p.Path), Str(p.LanguageID)) }

func originS(o reference.Origin) S {
	switch x := o.(type) {
	case reference.LocalOrigin:
		return T("local", addrS(x.Addr), rangeS(x.Range), consListS(x.Constraints))
	case reference.PathOrigin:
		return T("path", rangeS(x.Range), addrS(x.TargetAddr), pathS(x.TargetPath), consListS(x.Constraints))
	case reference.DirectOrigin:
		return T("direct", rangeS(x.Range), pathS(x.TargetPath), rangeS(x.TargetRange))
	}
	panic("originS")
}

func originsS(os reference.Origins) S {
	l := List{}
	for _, o := range os {
		l = append(l, originS(o))
	}
	return l
}

// convTable: the outcome of convert.Convert(cty.UnknownVal(a), b) for the types of the pool
var convCache S

func convTable() S {
	if convCache != nil {
		return convCache
	}
	l := List{}
	for _, a := range refTypePool {
		for _, b := range refTypePool {
			if a == cty.NilType || b == cty.NilType {
				continue
			}
			_, err := convert.Convert(cty.UnknownVal(a), b)
			l = append(l, L(tyS(a), tyS(b), Bool(err == nil)))
		}
	}
	convCache = l
	return l
}

func allTargets(ts reference.Targets) []reference.Target {
	var out []reference.Target
	for _, t := range ts {
		out = append(out, t)
		out = append(out, allTargets(t.NestedTargets)...)
	}
	return out
}

func runC11(run *Run, replay string) {
	run.Res.Rule = "generated target forests (absolute/local/both addresses, type-aware and type-less, dynamic, nested to depth 3, overlapping top-level ranges, visible-from ranges) and origins (local/path/direct, 0-2 constraints, addresses derived from the targets or foreign) over 1-3 paths; exported matching functions compared with the model; on the decoder: for every origin position go-to-definition, then find-references at every reported definition must report that origin; distinct non-trivial = distinct (world, origin) with at least one resolved declaration"
	n := 120
	if run.Thorough {
		n = 3000
	}
	ctx := context.Background()
	crossFileFocusCases(run)
	for wi := 0; wi < n; wi++ {
		r := rand.New(rand.NewSource(subSeed(run.Res.Seed, wi)))
		np := 1 + r.Intn(3)
		var paths []lang.Path
		for i := 0; i < np; i++ {
			paths = append(paths, lang.Path{Path: fmt.Sprintf("p%d", i), LanguageID: "hcl"})
		}
		if wi%4 == 3 && np >= 2 {
			// two paths for one directory, told apart by the language only (a module and its test files)
			paths[1] = lang.Path{Path: paths[0].Path, LanguageID: "hcl-test"}
		}
		w := newWorld()
		type pw struct {
			pd *PathData
			ts reference.Targets
			os reference.Origins
		}
		var pws []pw
		// all forests first, so that the origins of every path can address declarations (also nested
		// ones) of every other path: path origins then resolve across paths
		var gens []*forestGen
		var forests []reference.Targets
		var all []lang.Address
		for range paths {
			g := &forestGen{r: r, wf: wi%3 != 2, files: []string{"main.tf", "b.tf"}}
			forests = append(forests, g.forest(1+r.Intn(5)))
			gens = append(gens, g)
			all = append(all, g.addrs...)
		}
		for i, p := range paths {
			g := gens[i]
			ts := forests[i]
			if wi%2 == 0 {
				g.addrs = all
			}
			maxLine := 12
			os := g.origins(2+r.Intn(6), paths, maxLine)
			pd := w.AddPath(p.Path, schema.NewBodySchema(), map[string]string{}, nil)
			pd.Path = p
			pd.Ctx.ReferenceTargets = ts
			pd.Ctx.ReferenceOrigins = os
			pd.Fail = i > 0 && r.Intn(3) == 0
			pws = append(pws, pw{pd, ts, os})
		}
		// ---- T1: exported functions against the model
		for _, x := range pws {
			flat := allTargets(x.ts)
			for _, o := range x.os {
				mo, ok := o.(reference.MatchableOrigin)
				if !ok {
					continue
				}
				got, _ := x.ts.Match(mo)
				run.Case("tsmatch", []S{convTable(), targetsS(x.ts), originS(o)}, targetsS(got))
				run.Res.Evaluations++
				if len(flat) > 0 {
					t := pick(r, flat)
					run.Case("tmatch", []S{convTable(), targetS(t), originS(o)}, Bool(t.Matches(mo)))
					run.Res.Evaluations++
				}
			}
			if len(flat) > 0 {
				t := pick(r, flat)
				lp, tp := pick(r, paths), pick(r, paths)
				got := x.os.Match(lp, t, tp)
				run.Case("omatch", []S{convTable(), originsS(x.os), pathS(lp), targetS(t), pathS(tp)}, originsS(got))
				a, b := pick(r, flat), pick(r, flat)
				run.Case("less", []S{targetS(a), targetS(b)}, Bool(reference.Targets{a, b}.Less(0, 1)))
				run.Res.Evaluations += 2
			}
			for k := 0; k < 4; k++ {
				p := mkPos(1+r.Intn(14), 1+r.Intn(30))
				file := pick(r, []string{"main.tf", "b.tf"})
				got, _ := x.ts.InnermostAtPos(file, p)
				run.Case("innermost", []S{targetsS(x.ts), Str(file), posS(p)}, targetsS(got))
				go2, _ := x.os.AtPos(file, p)
				run.Case("atpos", []S{originsS(x.os), Str(file), posS(p)}, originsS(go2))
				run.Res.Evaluations += 2
			}
			// completion walk
			for k := 0; k < 3; k++ {
				self := r.Intn(2) == 0
				ref := schema.Reference{OfScopeId: pick(r, scopeIds), OfType: pick(r, refTypePool)}
				prefix := pick(r, []string{"", "v", "var", "var.", "self", "self.", "lo", "res.a", "count."})
				l := 1 + r.Intn(12)
				outer := mkRange("main.tf", l, 1, l+r.Intn(5), 2)
				ol := 1 + r.Intn(14)
				org := mkRange("main.tf", ol, 5, ol, 5+r.Intn(8))
				c := ctx
				if self {
					c = schema.WithActiveSelfRefs(c)
				}
				labels := List{}
				x.ts.MatchWalk(c, ref, prefix, outer, org, func(t reference.Target) error {
					labels = append(labels, Str(t.Address(c, org.Start).String()))
					return nil
				})
				run.Case("matchwalk", []S{convTable(), Bool(self), Str(string(ref.OfScopeId)), tyS(ref.OfType), Str(prefix), rangeS(outer), rangeS(org), targetsS(x.ts)}, labels)
				run.Res.Evaluations++
				run.Count(fmt.Sprintf("matchwalk_candidates_%d", min(len(labels), 3)))
			}
		}
		// ---- T1 on the decoder-level lookups (every world)
		worldS := List{}
		for _, x := range pws {
			worldS = append(worldS, L(pathS(x.pd.Path), Bool(!x.pd.Fail), targetsS(x.ts), originsS(x.os)))
		}
		for _, x := range pws {
			for k := 0; k < 3+len(x.os); k++ {
				var pos hcl.Pos
				file := "main.tf"
				if k < len(x.os) {
					pos, file = x.os[k].OriginRange().Start, x.os[k].OriginRange().Filename
				} else {
					pos = mkPos(1+r.Intn(14), 1+r.Intn(30))
					file = pick(r, []string{"main.tf", "b.tf"})
				}
				res := safeCall("ReferenceTargetsForOriginAtPos", func() (interface{}, error) {
					return w.Dec.ReferenceTargetsForOriginAtPos(x.pd.Path, file, pos)
				})
				if res.Panic == "" {
					obs := S(T("error"))
					if res.Err == nil {
						l := List{}
						for _, rt := range res.Val.(decoder.ReferenceTargets) {
							l = append(l, L(rangeS(rt.OriginRange), Str(rt.Path.Path), rangeS(rt.Range), orangeS(rt.DefRangePtr)))
						}
						obs = l
					}
					run.Case("gotodef", []S{convTable(), worldS, pathS(x.pd.Path), Str(file), posS(pos)}, obs)
					run.Res.Evaluations++
				}
				back := w.Dec.ReferenceOriginsTargetingPos(x.pd.Path, file, pos)
				l := List{}
				for _, b := range back {
					l = append(l, L(Str(b.Path.Path), rangeS(b.Range)))
				}
				run.Case("findrefs", []S{convTable(), worldS, pathS(x.pd.Path), Str(file), posS(pos)}, l)
				run.Res.Evaluations++
			}
		}
		// ---- T3: the two lookups are inverse views (on collection-like forests only)
		for _, x := range pws {
			if wi%3 == 2 {
				run.Count("worlds_arbitrary_forest_T1_only")
				break
			}
			if x.pd.Fail {
				continue
			}
			for _, o := range x.os {
				if _, ok := o.(reference.DirectOrigin); ok {
					continue
				}
				pos := o.OriginRange().Start
				file := o.OriginRange().Filename
				res := safeCall("ReferenceTargetsForOriginAtPos", func() (interface{}, error) {
					return w.Dec.ReferenceTargetsForOriginAtPos(x.pd.Path, file, pos)
				})
				run.Res.Evaluations++
				if res.Panic != "" || res.Err != nil {
					continue
				}
				rts := res.Val.(decoder.ReferenceTargets)
				if po, ok := o.(reference.PathOrigin); ok {
					for _, rt := range rts {
						if rt.OriginRange == o.OriginRange() && !samePath(rt.Path, po.TargetPath) && rt.Range.Filename != callerSupplied {
							// another origin at the same range may legitimately resolve locally: only flag
							// when no other origin of this path shares the range
							shared := false
							for _, o2 := range x.os {
								if _, isPath := o2.(reference.PathOrigin); !isPath && o2.OriginRange() == o.OriginRange() {
									shared = true
								}
							}
							if !shared {
								run.Violate(Violation{Key: "C11/path-origin-resolved-in-wrong-path", Rule: "origins that point into another path resolve against that path's declarations",
									Func:   "Decoder.ReferenceTargetsForOriginAtPos",
									Detail: fmt.Sprintf("path origin %s of path %s (target path %s) resolved to a declaration of path %s", Show(originS(o)), x.pd.Path.Path, po.TargetPath.Path, rt.Path.Path),
									Replay: map[string]interface{}{"kind": "world", "seed": run.Res.Seed, "world": wi, "origin": Show(originS(o))}})
							}
						}
					}
				}
				resolved := 0
				for _, rt := range rts {
					if rt.OriginRange != o.OriginRange() || rt.Range.Filename == callerSupplied || rt.DefRangePtr == nil {
						continue
					}
					resolved++
					y := rt.DefRangePtr.Start
					back := w.Dec.ReferenceOriginsTargetingPos(rt.Path, rt.DefRangePtr.Filename, y)
					found := false
					for _, b := range back {
						if samePath(b.Path, x.pd.Path) && b.Range == o.OriginRange() {
							found = true
						}
					}
					run.Count("definitions_checked")
					if !found {
						run.Violate(Violation{Key: "C11/find-references-misses-origin", Rule: "whenever go-to-definition from an origin reports a declaration, find-references at that declaration's definition reports that origin",
							Func:   "Decoder.ReferenceOriginsTargetingPos",
							Detail: fmt.Sprintf("origin %s in path %s resolves to %s:%v (def %v) but find-references there returns %d origins without it", Show(originS(o)), x.pd.Path.Path, rt.Path.Path, rt.Range, *rt.DefRangePtr, len(back)),
							Replay: map[string]interface{}{"kind": "world", "seed": run.Res.Seed, "world": wi, "origin": Show(originS(o)), "origin_path": x.pd.Path.Path,
								"targets_of_target_path": Show(targetsS(targetsOfPath(w, rt.Path))), "definition": fmt.Sprint(*rt.DefRangePtr)}})
					}
				}
				if resolved > 0 {
					run.Distinct(fmt.Sprintf("%d|%s", wi, Show(originS(o))))
				}
			}
		}
		if wi < 2 {
			run.Sample(map[string]interface{}{"paths": np, "targets_path0": Show(targetsS(pws[0].ts)), "origins_path0": Show(originsS(pws[0].os))})
		}
	}
	collectedWorldOracle(run, n/2)
}

// collectedWorldOracle: on collected declarations of the ground-truth language, go-to-definition
// lands on the declaration the address denotes (the text at the reported range names the last step)
// and find-references at that definition reports the origin back
func collectedWorldOracle(run *Run, n int) {
	for i := 0; i < n; i++ {
		r := rand.New(rand.NewSource(subSeed(run.Res.Seed, 1111000+i)))
		sc, _ := tfScenario(r)
		sc.W.Collect()
		loc := map[string]interface{}{"seed": run.Res.Seed, "collected_world": i, "src": string(sc.Src)}
		for _, o := range sc.Main.Ctx.ReferenceOrigins {
			lo, ok := o.(reference.LocalOrigin)
			if !ok || len(lo.Addr) == 0 {
				continue
			}
			last, isAttr := lo.Addr[len(lo.Addr)-1].(lang.AttrStep)
			res := safeCall("ReferenceTargetsForOriginAtPos", func() (interface{}, error) {
				return sc.W.Dec.ReferenceTargetsForOriginAtPos(sc.Main.Path, lo.Range.Filename, lo.Range.Start)
			})
			run.Res.Evaluations++
			if res.Panic != "" || res.Err != nil {
				continue
			}
			// block-local names: every reported declaration lies in the top-level block the reference is written in
			if root, isRoot := lo.Addr[0].(lang.RootStep); isRoot && (root.Name == "self" || root.Name == "count" || root.Name == "each") {
				if body, ok := sc.Main.Ctx.Files[sc.File].Body.(*hclsyntax.Body); ok && lo.Range.Filename == sc.File {
					for _, blk := range body.Blocks {
						if !blk.Range().ContainsPos(lo.Range.Start) {
							continue
						}
						for _, rt := range res.Val.(decoder.ReferenceTargets) {
							run.Count("block_local_definitions_checked")
							if rt.OriginRange == lo.Range && (rt.Range.Filename != sc.File || rt.Range.Start.Byte < blk.Range().Start.Byte || rt.Range.End.Byte > blk.Range().End.Byte) {
								run.Violate(Violation{Key: "C11/block-local-name-resolves-outside-its-block", Rule: "block-local names (count.index, each.*, self.*) resolve only to the enclosing block's declaration and never across blocks",
									Func: "Decoder.ReferenceTargetsForOriginAtPos", Detail: fmt.Sprintf("%s written at %v resolves to %v", lo.Addr.String(), lo.Range, rt.Range),
									Replay: map[string]interface{}{"kind": "collected", "seed": run.Res.Seed, "collected_world": i, "src": string(sc.Src), "origin": lo.Addr.String()}})
							}
						}
					}
				}
			}
			for _, rt := range res.Val.(decoder.ReferenceTargets) {
				if rt.OriginRange != lo.Range || rt.Range.Filename != sc.File || rt.Range.Start.Byte >= rt.Range.End.Byte || rt.Range.End.Byte > len(sc.Src) {
					continue
				}
				run.Count("collected_definitions_checked")
				if isAttr && len(lo.Addr) >= 3 {
					text := string(sc.Src[rt.Range.Start.Byte:rt.Range.End.Byte])
					firstLine := strings.SplitN(text, "\n", 2)[0]
					if !strings.Contains(firstLine, last.Name) {
						run.Violate(Violation{Key: "C11/definition-is-not-what-the-address-denotes", Rule: "a reference resolves to exactly the declarations its address denotes",
							Func: "Decoder.ReferenceTargetsForOriginAtPos", Detail: fmt.Sprintf("%s resolves to %v, which begins %q", lo.Addr.String(), rt.Range, firstLine),
							Replay: map[string]interface{}{"kind": "collected", "seed": run.Res.Seed, "collected_world": i, "src": string(sc.Src), "origin": lo.Addr.String()}})
					}
				}
				if ix, isIdx := lo.Addr[len(lo.Addr)-1].(lang.IndexStep); isIdx && ix.Key.Type() == cty.Number {
					// tuple elements are written "x0", "x1", ...: element i is what ...[i] denotes
					text := string(sc.Src[rt.Range.Start.Byte:rt.Range.End.Byte])
					if n, _ := ix.Key.AsBigFloat().Int64(); len(text) == 4 && strings.HasPrefix(text, "\"x") && text != fmt.Sprintf("\"x%d\"", n) {
						run.Violate(Violation{Key: "C11/definition-is-not-what-the-address-denotes", Rule: "a reference resolves to exactly the declarations its address denotes",
							Func: "Decoder.ReferenceTargetsForOriginAtPos", Detail: fmt.Sprintf("%s resolves to %v, which is %s", lo.Addr.String(), rt.Range, text),
							Replay: map[string]interface{}{"kind": "collected", "seed": run.Res.Seed, "collected_world": i, "src": string(sc.Src), "origin": lo.Addr.String()}})
					}
				}
				if rt.DefRangePtr != nil {
					back := sc.W.Dec.ReferenceOriginsTargetingPos(rt.Path, rt.DefRangePtr.Filename, rt.DefRangePtr.Start)
					found := false
					for _, b := range back {
						if b.Range == lo.Range {
							found = true
						}
					}
					if !found {
						run.Violate(Violation{Key: "C11/find-references-misses-origin", Rule: "whenever go-to-definition from an origin reports a declaration, find-references at that declaration's definition reports that origin",
							Func: "Decoder.ReferenceOriginsTargetingPos", Detail: fmt.Sprintf("%s at %v -> %v", lo.Addr.String(), lo.Range, *rt.DefRangePtr), Replay: loc})
					}
				}
			}
		}
	}
}

func targetsOfPath(w *World, p lang.Path) reference.Targets {
	for _, pd := range w.Paths {
		if samePath(pd.Path, p) {
			return pd.Ctx.ReferenceTargets
		}
	}
	return nil
}

var _ = sort.Strings

// samePath: directory and language (not the library's own Path.Equals, which is under test)
func samePath(a, b lang.Path) bool { return a.Path == b.Path && a.LanguageID == b.LanguageID }
