package main

// C12 inside object values: the hover of an object item describes that item, never another attribute.

import (
	"context"
	"fmt"
	"math/rand"
	"strings"

	"github.com/hashicorp/hcl-lang/lang"
	"github.com/hashicorp/hcl-lang/schema"
	"github.com/hashicorp/hcl/v2/hclsyntax"
	"github.com/zclconf/go-cty/cty"
)

func objectHoverOracle(run *Run, n int) {
	ctx := context.Background()
	names := []string{"alpha", "beta", "gamma", "delta"}
	for i := 0; i < n; i++ {
		r := rand.New(rand.NewSource(subSeed(run.Res.Seed, 1212000+i)))
		oa := schema.ObjectAttributes{}
		for _, nme := range names {
			if r.Intn(4) == 0 {
				continue
			}
			oa[nme] = &schema.AttributeSchema{IsOptional: true, Description: lang.Markdown("about-" + nme),
				Constraint: pick(r, []schema.Constraint{schema.LiteralType{Type: cty.String}, schema.AnyExpression{OfType: cty.String}, schema.LiteralType{Type: cty.Number},
					schema.AnyExpression{OfType: cty.List(cty.String)}, schema.Reference{OfScopeId: "variable"}})}
		}
		var cons schema.Constraint = schema.Object{Attributes: oa, AllowInterpolatedKeys: r.Intn(2) == 0}
		switch r.Intn(4) {
		case 0:
			cons = schema.List{Elem: cons}
		case 1:
			cons = schema.OneOf{schema.LiteralType{Type: cty.String}, cons}
		}
		sch := &schema.BodySchema{Attributes: map[string]*schema.AttributeSchema{"obj": {IsOptional: true, Constraint: cons}}}
		var items []string
		for k, m := 0, 1+r.Intn(5); k < m; k++ {
			key := pick(r, append(names, "unknown_key", `"alpha"`, `"${var.k}"`, "foo.bar", "42", "(var.k)", `"be${"ta"}"`))
			val := pick(r, []string{`"v"`, "7", "[1]", `["a", "b"]`, "var.x", `{ alpha = 1 }`, "true"})
			items = append(items, key+" = "+val)
		}
		sep := pick(r, []string{", ", "\n  "})
		objText := "{ " + strings.Join(items, sep) + " }"
		if sep != ", " {
			objText = "{\n  " + strings.Join(items, sep) + "\n}"
		}
		if _, isList := cons.(schema.List); isList {
			objText = "[" + objText + "]"
		}
		src := "obj = " + objText + "\n"
		w := newWorld()
		pd := w.AddPath("root", sch, map[string]string{"main.tf": src}, nil)
		w.Collect()
		f := pd.Ctx.Files["main.tf"]
		body, ok := f.Body.(*hclsyntax.Body)
		if !ok || body.Attributes["obj"] == nil {
			continue
		}
		// the object literal
		var obj *hclsyntax.ObjectConsExpr
		switch e := body.Attributes["obj"].Expr.(type) {
		case *hclsyntax.ObjectConsExpr:
			obj = e
		case *hclsyntax.TupleConsExpr:
			if len(e.Exprs) == 1 {
				obj, _ = e.Exprs[0].(*hclsyntax.ObjectConsExpr)
			}
		}
		if obj == nil {
			continue
		}
		d, _ := w.Dec.Path(pd.Path)
		tbl := lcTable([]byte(src))
		loc := map[string]interface{}{"seed": run.Res.Seed, "object_hover": i, "src": src, "constraint": Show(consS(cons))}
		for _, it := range obj.Items {
			raw, isRaw := rawKey(it.KeyExpr)
			for off := it.KeyExpr.Range().Start.Byte; off <= it.ValueExpr.Range().End.Byte; off++ {
				pos, ok := tbl[off]
				if !ok {
					continue
				}
				res := safeCall("HoverAtPos", func() (interface{}, error) { return d.HoverAtPos(ctx, "main.tf", pos) })
				run.Res.Evaluations++
				run.Count("object_item_hover_positions")
				if res.Panic != "" || res.Err != nil {
					continue
				}
				hv, _ := res.Val.(*lang.HoverData)
				if hv == nil {
					continue
				}
				q := Query{Name: "HoverAtPos", Pos: &pos, File: "main.tf"}
				for _, nme := range names {
					if strings.Contains(hv.Content.Value, "about-"+nme) && !(isRaw && raw == nme) {
						run.Violate(Violation{Key: "C12/object-item-hover-describes-another-attribute", Rule: "inside a value the hover describes the innermost sub-expression the schema can interpret",
							Func: "Object.HoverAtPos", Detail: fmt.Sprintf("cursor in the item with key %s, hover shows the description of %q: %q", string(it.KeyExpr.Range().SliceBytes([]byte(src))), nme, hv.Content.Value), Replay: locWith(loc, q)})
					}
				}
				if strings.HasPrefix(hv.Content.Value, "**** ") {
					run.Violate(Violation{Key: "C12/object-item-hover-without-name", Rule: "the content names the element", Func: "Object.HoverAtPos",
						Detail: hv.Content.Value, Replay: locWith(loc, q)})
				}
			}
		}
	}
}

// objectCompletionRanges (C02): attribute-name completion inside object values whose names contain
// multi-byte characters and multi-code-point grapheme clusters, at every position of a name being
// typed; every edit range must be a real place of the file (line/column = scanner position of the bytes)
func objectCompletionRanges(run *Run, n int) {
	ctx := context.Background()
	names := []string{"fóo", "abód", "größe", "k👨‍👩‍👧x", "plain", "ó"}
	for i := 0; i < n; i++ {
		r := rand.New(rand.NewSource(subSeed(run.Res.Seed, 2121000+i)))
		oa := schema.ObjectAttributes{}
		for _, nme := range names {
			oa[nme] = &schema.AttributeSchema{IsOptional: true, Constraint: schema.LiteralType{Type: cty.String}}
		}
		sch := &schema.BodySchema{Attributes: map[string]*schema.AttributeSchema{"obj": {IsOptional: true, Constraint: schema.Object{Attributes: oa}}}}
		typed := pick(r, names)
		first := pick(r, []string{"", "plain = \"é ó\"\n  ", "größe = \"x\"\n  "})
		src := "obj = {\n  " + first + typed + "\n}\n"
		w := newWorld()
		pd := w.AddPath("root", sch, map[string]string{"main.tf": src}, nil)
		d, _ := w.Dec.Path(pd.Path)
		tbl := lcTable([]byte(src))
		start := strings.LastIndex(src, typed)
		loc := map[string]interface{}{"seed": run.Res.Seed, "object_completion": i, "src": src}
		for off := start; off <= start+len(typed); off++ {
			pos, ok := tbl[off]
			if !ok {
				continue
			}
			res := safeCall("CompletionAtPos", func() (interface{}, error) { return d.CompletionAtPos(ctx, "main.tf", pos) })
			run.Res.Evaluations++
			if res.Panic != "" || res.Err != nil {
				continue
			}
			q := Query{Name: "CompletionAtPos", Pos: &pos, File: "main.tf"}
			for _, rr := range rangesOf(res.Val, pd.Path.Path) {
				run.Res.Hypotheses["object_completion_ranges_checked"]++
				if why := badRange(w, rr); why != "" {
					run.Violate(Violation{Key: "C02/" + strings.SplitN(why, ":", 2)[0] + "/CompletionAtPos/object-attribute-" + strings.ReplaceAll(rr.What, " ", "-"),
						Rule: "every emitted range is a real, self-consistent place in the right file", Func: "CompletionAtPos",
						Detail: fmt.Sprintf("%s %s (%s)", rr.What, rngString(rr), why), Replay: locWith(loc, q)})
				}
			}
		}
	}
}
