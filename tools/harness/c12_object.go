package main

// C12 inside object values: the hover of an object item describes that item, never another attribute.

import (
	"context"
	"fmt"
	"math/rand"
	"strings"

	"github.com/hashicorp/hcl-lang/lang"
	"github.com/hashicorp/hcl-lang/schema"
	"github.com/hashicorp/hcl/v2"
	"github.com/hashicorp/hcl/v2/hclsyntax"
	"github.com/zclconf/go-cty/cty"
)

func objectHoverOracle(run *Run, n int) {
	ctx := context.Background()
	names := []string{"alpha", "beta", "gamma", "delta"}
	for i := 0; i < n; i++ {
		r := rand.New(rand.NewSource(subSeed(run.Res.Seed, 1212000+i)))
		oa := schema.ObjectAttributes{}
		for _, nme := range names {
			if r.Intn(4) == 0 {
				continue
			}
			oa[nme] = &schema.AttributeSchema{IsOptional: true, Description: lang.Markdown("about-" + nme),
				Constraint: pick(r, []schema.Constraint{schema.LiteralType{Type: cty.String}, schema.AnyExpression{OfType: cty.String}, schema.LiteralType{Type: cty.Number},
					schema.AnyExpression{OfType: cty.List(cty.String)}, schema.Reference{OfScopeId: "variable"}})}
		}
		// flags of the attributes (no random draw): required or optional, sensitive or not, in every combination
		for k, nme := range names {
			if a := oa[nme]; a != nil {
				a.IsSensitive = (i+k)%2 == 0
				if (i/2+k)%3 == 0 {
					a.IsOptional, a.IsRequired = false, true
				}
			}
		}
		var cons schema.Constraint = schema.Object{Attributes: oa, AllowInterpolatedKeys: r.Intn(2) == 0}
		switch r.Intn(4) {
		case 0:
			cons = schema.List{Elem: cons}
		case 1:
			cons = schema.OneOf{schema.LiteralType{Type: cty.String}, cons}
		}
		sch := &schema.BodySchema{Attributes: map[string]*schema.AttributeSchema{"obj": {IsOptional: true, Constraint: cons}}}
		var items []string
		for k, m := 0, 1+r.Intn(5); k < m; k++ {
			key := pick(r, append(names, "unknown_key", `"alpha"`, `"${var.k}"`, "foo.bar", "42", "(var.k)", `"be${"ta"}"`))
			val := pick(r, []string{`"v"`, "7", "[1]", `["a", "b"]`, "var.x", `{ alpha = 1 }`, "true"})
			items = append(items, key+" = "+val)
		}
		sep := pick(r, []string{", ", "\n  "})
		objText := "{ " + strings.Join(items, sep) + " }"
		if sep != ", " {
			objText = "{\n  " + strings.Join(items, sep) + "\n}"
		}
		if _, isList := cons.(schema.List); isList {
			objText = "[" + objText + "]"
		}
		src := "obj = " + objText + "\n"
		w := newWorld()
		pd := w.AddPath("root", sch, map[string]string{"main.tf": src}, nil)
		w.Collect()
		f := pd.Ctx.Files["main.tf"]
		body, ok := f.Body.(*hclsyntax.Body)
		if !ok || body.Attributes["obj"] == nil {
			continue
		}
		// the object literal
		var obj *hclsyntax.ObjectConsExpr
		switch e := body.Attributes["obj"].Expr.(type) {
		case *hclsyntax.ObjectConsExpr:
			obj = e
		case *hclsyntax.TupleConsExpr:
			if len(e.Exprs) == 1 {
				obj, _ = e.Exprs[0].(*hclsyntax.ObjectConsExpr)
			}
		}
		if obj == nil {
			continue
		}
		d, _ := w.Dec.Path(pd.Path)
		tbl := lcTable([]byte(src))
		loc := map[string]interface{}{"seed": run.Res.Seed, "object_hover": i, "src": src, "constraint": Show(consS(cons))}
		// the object value itself (cursor on its opening brace): the listing names every declared attribute with
		// exactly the flags the schema gives it
		for _, at := range []int{obj.OpenRange.Start.Byte, obj.SrcRange.End.Byte - 1, obj.OpenRange.End.Byte} {
			pos, ok := tbl[at]
			if !ok {
				continue
			}
			res := safeCall("HoverAtPos", func() (interface{}, error) { return d.HoverAtPos(ctx, "main.tf", pos) })
			run.Res.Evaluations++
			if hv, _ := res.Val.(*lang.HoverData); res.Panic == "" && res.Err == nil && hv != nil && strings.HasPrefix(hv.Content.Value, "```\n{\n") {
				run.Count("object_value_hover_listings")
				q := Query{Name: "HoverAtPos", Pos: &pos, File: "main.tf"}
				lines := strings.Split(hv.Content.Value, "\n")
				for nme, a := range oa {
					var flags []string
					if a.IsOptional {
						flags = append(flags, "optional")
					}
					if a.IsSensitive {
						flags = append(flags, "sensitive")
					}
					want := ""
					if len(flags) > 0 {
						want = " # " + strings.Join(flags, ", ")
					}
					found := false
					for _, ln := range lines {
						if !strings.HasPrefix(ln, "  "+nme+" = ") {
							continue
						}
						found = true
						got := ""
						if k := strings.Index(ln, " # "); k >= 0 {
							got = ln[k:]
						}
						if got != want {
							run.Violate(Violation{Key: "C12/object-value-hover-attribute-flags", Rule: "inside a value the hover describes the innermost sub-expression the schema can interpret",
								Func: "Object.HoverAtPos", Detail: fmt.Sprintf("attribute %q (optional=%v sensitive=%v) is listed as %q", nme, a.IsOptional, a.IsSensitive, ln), Replay: locWith(loc, q)})
						}
					}
					if !found {
						run.Violate(Violation{Key: "C12/object-value-hover-attribute-missing", Rule: "inside a value the hover describes the innermost sub-expression the schema can interpret",
							Func: "Object.HoverAtPos", Detail: fmt.Sprintf("attribute %q is not listed in %q", nme, hv.Content.Value), Replay: locWith(loc, q)})
					}
				}
			}
		}
		for _, it := range obj.Items {
			raw, isRaw := rawKey(it.KeyExpr)
			for off := it.KeyExpr.Range().Start.Byte; off <= it.ValueExpr.Range().End.Byte; off++ {
				pos, ok := tbl[off]
				if !ok {
					continue
				}
				res := safeCall("HoverAtPos", func() (interface{}, error) { return d.HoverAtPos(ctx, "main.tf", pos) })
				run.Res.Evaluations++
				run.Count("object_item_hover_positions")
				if res.Panic != "" || res.Err != nil {
					continue
				}
				hv, _ := res.Val.(*lang.HoverData)
				if hv == nil {
					continue
				}
				q := Query{Name: "HoverAtPos", Pos: &pos, File: "main.tf"}
				for _, nme := range names {
					if strings.Contains(hv.Content.Value, "about-"+nme) && !(isRaw && raw == nme) {
						run.Violate(Violation{Key: "C12/object-item-hover-describes-another-attribute", Rule: "inside a value the hover describes the innermost sub-expression the schema can interpret",
							Func: "Object.HoverAtPos", Detail: fmt.Sprintf("cursor in the item with key %s, hover shows the description of %q: %q", string(it.KeyExpr.Range().SliceBytes([]byte(src))), nme, hv.Content.Value), Replay: locWith(loc, q)})
					}
				}
				if strings.HasPrefix(hv.Content.Value, "**** ") {
					run.Violate(Violation{Key: "C12/object-item-hover-without-name", Rule: "the content names the element", Func: "Object.HoverAtPos",
						Detail: hv.Content.Value, Replay: locWith(loc, q)})
				}
			}
		}
	}
}

// objectCompletionRanges (C02): attribute-name completion inside object values whose names contain
// multi-byte characters and multi-code-point grapheme clusters, at every position of a name being
// typed; every edit range must be a real place of the file (line/column = scanner position of the bytes)
func objectCompletionRanges(run *Run, n int) {
	ctx := context.Background()
	names := []string{"fóo", "abód", "größe", "k👨‍👩‍👧x", "plain", "ó"}
	for i := 0; i < n; i++ {
		r := rand.New(rand.NewSource(subSeed(run.Res.Seed, 2121000+i)))
		oa := schema.ObjectAttributes{}
		for _, nme := range names {
			oa[nme] = &schema.AttributeSchema{IsOptional: true, Constraint: schema.LiteralType{Type: cty.String}}
		}
		sch := &schema.BodySchema{Attributes: map[string]*schema.AttributeSchema{"obj": {IsOptional: true, Constraint: schema.Object{Attributes: oa}}}}
		typed := pick(r, names)
		first := pick(r, []string{"", "plain = \"é ó\"\n  ", "größe = \"x\"\n  "})
		src := "obj = {\n  " + first + typed + "\n}\n"
		w := newWorld()
		pd := w.AddPath("root", sch, map[string]string{"main.tf": src}, nil)
		d, _ := w.Dec.Path(pd.Path)
		tbl := lcTable([]byte(src))
		start := strings.LastIndex(src, typed)
		loc := map[string]interface{}{"seed": run.Res.Seed, "object_completion": i, "src": src}
		for off := start; off <= start+len(typed); off++ {
			pos, ok := tbl[off]
			if !ok {
				continue
			}
			res := safeCall("CompletionAtPos", func() (interface{}, error) { return d.CompletionAtPos(ctx, "main.tf", pos) })
			run.Res.Evaluations++
			if res.Panic != "" || res.Err != nil {
				continue
			}
			q := Query{Name: "CompletionAtPos", Pos: &pos, File: "main.tf"}
			for _, rr := range rangesOf(res.Val, pd.Path.Path) {
				run.Res.Hypotheses["object_completion_ranges_checked"]++
				if why := badRange(w, rr); why != "" {
					run.Violate(Violation{Key: "C02/" + strings.SplitN(why, ":", 2)[0] + "/CompletionAtPos/object-attribute-" + strings.ReplaceAll(rr.What, " ", "-"),
						Rule: "every emitted range is a real, self-consistent place in the right file", Func: "CompletionAtPos",
						Detail: fmt.Sprintf("%s %s (%s)", rr.What, rngString(rr), why), Replay: locWith(loc, q)})
				}
			}
		}
	}
}

// literalValueHoverOracle (C12): under literal-value constraints (alone, as one-of alternatives, as map
// elements) the hover of a written literal carries the description of exactly the alternative whose value
// it is, and there is no such hover for a literal that is none of the declared values
func literalValueHoverOracle(run *Run, n int) {
	ctx := context.Background()
	lv := func(v cty.Value, name string) schema.LiteralValue {
		return schema.LiteralValue{Value: v, Description: lang.Markdown("about-" + name)}
	}
	type variant struct {
		cons    schema.Constraint
		written []string // literal texts to write; the description expected is "about-<text>" when declared
		known   map[string]bool
	}
	boolAlts := schema.OneOf{lv(cty.True, "true"), lv(cty.False, "false")}
	numAlts := schema.OneOf{lv(cty.NumberIntVal(1), "1"), lv(cty.NumberIntVal(2), "2")}
	strAlts := schema.OneOf{lv(cty.StringVal("a"), `"a"`), lv(cty.StringVal("b"), `"b"`)}
	variants := []variant{
		{boolAlts, []string{"true", "false"}, map[string]bool{"true": true, "false": true}},
		{numAlts, []string{"1", "2", "3"}, map[string]bool{"1": true, "2": true}},
		{strAlts, []string{`"a"`, `"b"`, `"c"`}, map[string]bool{`"a"`: true, `"b"`: true}},
		{lv(cty.NumberIntVal(42), "42"), []string{"42", "43"}, map[string]bool{"42": true}},
		{lv(cty.True, "true"), []string{"true", "false"}, map[string]bool{"true": true}},
		{schema.OneOf{lv(cty.False, "false"), lv(cty.NumberIntVal(2), "2"), lv(cty.StringVal("b"), `"b"`)}, []string{"false", "true", "2", "1", `"b"`, `"a"`}, map[string]bool{"false": true, "2": true, `"b"`: true}},
	}
	for i := 0; i < n; i++ {
		r := rand.New(rand.NewSource(subSeed(run.Res.Seed, 1213000+i)))
		v := variants[i%len(variants)]
		text := pick(r, v.written)
		cons, src := v.cons, "lv = "+text+"\n"
		if r.Intn(3) == 0 {
			cons, src = schema.Map{Elem: v.cons}, "lv = { k = "+text+" }\n"
		} else if r.Intn(3) == 0 {
			cons, src = schema.List{Elem: v.cons}, "lv = ["+text+"]\n"
		}
		sch := &schema.BodySchema{Attributes: map[string]*schema.AttributeSchema{"lv": {IsOptional: true, Constraint: cons}}}
		w := newWorld()
		pd := w.AddPath("root", sch, map[string]string{"main.tf": src}, nil)
		d, _ := w.Dec.Path(pd.Path)
		tbl := lcTable([]byte(src))
		start := strings.Index(src, text)
		loc := map[string]interface{}{"seed": run.Res.Seed, "literal_value_hover": i, "src": src, "constraint": Show(consS(cons))}
		for off := start; off <= start+len(text); off++ {
			pos, ok := tbl[off]
			if !ok {
				continue
			}
			res := safeCall("HoverAtPos", func() (interface{}, error) { return d.HoverAtPos(ctx, "main.tf", pos) })
			run.Res.Evaluations++
			run.Count("literal_value_hover_positions")
			if res.Panic != "" || res.Err != nil {
				continue
			}
			hv, _ := res.Val.(*lang.HoverData)
			if hv == nil {
				continue
			}
			q := Query{Name: "HoverAtPos", Pos: &pos, File: "main.tf"}
			for name := range map[string]bool{"true": true, "false": true, "1": true, "2": true, "42": true, `"a"`: true, `"b"`: true} {
				if strings.Contains(hv.Content.Value, "about-"+name) && (name != text || !v.known[text]) {
					run.Violate(Violation{Key: "C12/literal-value-hover-describes-another-value", Rule: "inside a value the hover describes the innermost sub-expression the schema can interpret",
						Func: "LiteralValue.HoverAtPos", Detail: fmt.Sprintf("written %s, hover shows the description of %s: %q", text, name, hv.Content.Value), Replay: locWith(loc, q)})
				}
			}
		}
	}
}

// forConditionTokensOracle (C13): literals written in the condition of a for expression are marked,
// whatever the element type of the collection the expression builds
func forConditionTokensOracle(run *Run, n int) {
	ctx := context.Background()
	types := []cty.Type{cty.List(cty.Number), cty.Set(cty.Number), cty.Map(cty.Number), cty.List(cty.String), cty.List(cty.List(cty.String)), cty.DynamicPseudoType, cty.Map(cty.Bool)}
	conds := []string{"true", "v > 42", "!false", "v == 1 && true", "(v != 7)", "false || v < 3"}
	for i := 0; i < n; i++ {
		r := rand.New(rand.NewSource(subSeed(run.Res.Seed, 1313000+i)))
		t := pick(r, types)
		cond := pick(r, conds)
		src := "attr = [for v in [1, 2] : v if " + cond + "]\n"
		if t.IsMapType() {
			src = "attr = {for k, v in { a = 1 } : k => v if " + cond + "}\n"
		}
		sch := &schema.BodySchema{Attributes: map[string]*schema.AttributeSchema{"attr": {IsOptional: true, Constraint: schema.AnyExpression{OfType: t}}}}
		w := newWorld()
		pd := w.AddPath("root", sch, map[string]string{"main.tf": src}, nil)
		w.Collect()
		d, _ := w.Dec.Path(pd.Path)
		res := safeCall("SemanticTokensInFile", func() (interface{}, error) { return d.SemanticTokensInFile(ctx, "main.tf") })
		run.Res.Evaluations++
		if res.Panic != "" || res.Err != nil {
			continue
		}
		starts := map[int]lang.SemanticTokenType{}
		for _, tk := range res.Val.([]lang.SemanticToken) {
			starts[tk.Range.Start.Byte] = tk.Type
		}
		body := pd.Ctx.Files["main.tf"].Body.(*hclsyntax.Body)
		fe, ok := body.Attributes["attr"].Expr.(*hclsyntax.ForExpr)
		if !ok || fe.CondExpr == nil {
			continue
		}
		loc := map[string]interface{}{"seed": run.Res.Seed, "for_condition": i, "src": src, "type": t.FriendlyName()}
		_ = hclsyntax.VisitAll(fe.CondExpr, func(nd hclsyntax.Node) hcl.Diagnostics {
			if lit, ok := nd.(*hclsyntax.LiteralValueExpr); ok && (lit.Val.Type() == cty.Bool || lit.Val.Type() == cty.Number) {
				run.Count("for_condition_literals")
				if _, marked := starts[lit.Range().Start.Byte]; !marked {
					run.Violate(Violation{Key: "C13/literal-in-for-condition-without-token", Rule: "inside values the literals are marked", Func: "Any.semanticTokensForForExpr",
						Detail: fmt.Sprintf("%s in the condition %q of a for expression under %s has no token", string(lit.Range().SliceBytes([]byte(src))), cond, t.FriendlyName()),
						Replay: locWith(loc, Query{Name: "SemanticTokensInFile", File: "main.tf"})})
				}
			}
			return nil
		})
	}
}

// conditionalBranchTokensOracle: a branch of a conditional is a value of the attribute's type: the tokens
// inside a collection written as a branch (c ? <value> : <other>) are the tokens of the same value written
// directly, moved by the length of what stands in front of it.
func conditionalBranchTokensOracle(run *Run, n int) {
	ctx := context.Background()
	type shape struct {
		t     cty.Type
		value string
		other string
	}
	shapes := []shape{
		{cty.List(cty.String), `[local.src, "x"]`, `[]`},
		{cty.List(cty.String), `["a", local.src, local.other]`, `["z"]`},
		{cty.Map(cty.String), `{ k = "v" }`, `{}`},
		{cty.Map(cty.String), `{ k = local.src, "q k" = "v" }`, `{ z = "1" }`},
		{cty.Set(cty.Number), `[1, 2, local.n]`, `[]`},
		{cty.Object(map[string]cty.Type{"a": cty.String, "b": cty.Number}), `{ a = local.src, b = 2 }`, `{ a = "", b = 0 }`},
		{cty.Tuple([]cty.Type{cty.String, cty.Bool}), `[local.src, true]`, `["", false]`},
		{cty.String, `"pre-${local.src}"`, `"z"`},
		{cty.Number, `local.n`, `7`},
	}
	decls := "locals {\n  src = \"s\"\n  other = \"o\"\n  n = 1\n}\n"
	localsBlock := &schema.BlockSchema{Body: &schema.BodySchema{AnyAttribute: &schema.AttributeSchema{
		Address:    &schema.AttributeAddrSchema{Steps: schema.Address{schema.StaticStep{Name: "local"}, schema.AttrNameStep{}}, ScopeId: "local", AsExprType: true, AsReference: true},
		Constraint: schema.AnyExpression{OfType: cty.DynamicPseudoType}}}}
	tokensOf := func(t cty.Type, line string) (map[int]string, bool) {
		sch := &schema.BodySchema{Blocks: map[string]*schema.BlockSchema{"locals": localsBlock},
			Attributes: map[string]*schema.AttributeSchema{"attr": {IsOptional: true, Constraint: schema.AnyExpression{OfType: t}}}}
		w := newWorld()
		pd := w.AddPath("root", sch, map[string]string{"main.tf": line, "decls.tf": decls}, nil)
		w.Collect()
		d, _ := w.Dec.Path(pd.Path)
		res := safeCall("SemanticTokensInFile", func() (interface{}, error) { return d.SemanticTokensInFile(ctx, "main.tf") })
		run.Res.Evaluations++
		if res.Panic != "" || res.Err != nil {
			return nil, false
		}
		out := map[int]string{}
		for _, tk := range res.Val.([]lang.SemanticToken) {
			out[tk.Range.Start.Byte] = fmt.Sprintf("%s%v/%d", tk.Type, tk.Modifiers, tk.Range.End.Byte-tk.Range.Start.Byte)
		}
		return out, true
	}
	for i := 0; i < n; i++ {
		r := rand.New(rand.NewSource(subSeed(run.Res.Seed, 1414000+i)))
		sh := pick(r, shapes)
		cond := pick(r, []string{"true", "false", "1 > 2", "local.n == 1"})
		direct := "attr = " + sh.value + "\n"
		var line string
		var at int
		if r.Intn(2) == 0 {
			line = "attr = " + cond + " ? " + sh.value + " : " + sh.other + "\n"
			at = len("attr = " + cond + " ? ")
		} else {
			line = "attr = " + cond + " ? " + sh.other + " : " + sh.value + "\n"
			at = len("attr = " + cond + " ? " + sh.other + " : ")
		}
		dt, ok1 := tokensOf(sh.t, direct)
		ct, ok2 := tokensOf(sh.t, line)
		if !ok1 || !ok2 {
			continue
		}
		d0 := len("attr = ")
		var diffs []string
		for off := 0; off < len(sh.value); off++ {
			a, b := dt[d0+off], ct[at+off]
			if a != b {
				diffs = append(diffs, fmt.Sprintf("at %q: written directly %q, as a branch %q", sh.value[off:], a, b))
			}
		}
		if len(dt) > 1 {
			run.Distinct(line)
			run.Count("conditional_branches_with_tokens")
		}
		if len(diffs) > 0 {
			run.Violate(Violation{Key: "C13/conditional-branch-tokens-differ-from-direct-value", Rule: "a branch of a conditional is marked like the same value written directly",
				Func: "Any.semanticTokensForConditionalExpr", Detail: fmt.Sprintf("%s under %s: %s", strings.TrimSpace(line), sh.t.FriendlyName(), strings.Join(diffs, "; ")),
				Replay: map[string]interface{}{"src": line, "decls.tf": decls, "type": sh.t.FriendlyName()}})
		}
	}
}
