package main

import (
	"flag"
	"fmt"
	"github.com/hashicorp/hcl-lang/schema"
	"os"
)

var props = map[string]func(r *Run, replay string){}

func main() {
	if len(os.Args) < 2 {
		fmt.Fprintln(os.Stderr, "usage: harness <property> [-seed N] [-tier quick|thorough] [-out dir] [-replay file]")
		os.Exit(2)
	}
	prop := os.Args[1]
	if prop == "gen-tables" {
		// translators: regenerate coq/Gen/*.v from /repo's current working tree
		fs := flag.NewFlagSet("gen-tables", flag.ExitOnError)
		out := fs.String("out", ".", "output directory (coq/Gen)")
		fs.Parse(os.Args[2:])
		os.MkdirAll(*out, 0o755)
		if err := genTables(*out); err != nil {
			fmt.Fprintln(os.Stderr, "gen-tables:", err)
			os.Exit(1)
		}
		return
	}
	fs := flag.NewFlagSet("harness", flag.ExitOnError)
	seed := fs.Int64("seed", 1, "seed")
	tier := fs.String("tier", "quick", "tier")
	out := fs.String("out", ".", "output directory")
	replay := fs.String("replay", "", "replay file")
	fs.Parse(os.Args[2:])
	f, ok := props[prop]
	if !ok {
		fmt.Fprintln(os.Stderr, "unknown property", prop)
		os.Exit(2)
	}
	r := NewRun(prop, *tier, *seed, *out)
	hooked := 0
	schemaHook = func(sch *schema.BodySchema) {
		if hooked++; hooked <= 150 {
			depKeyCases(r, sch)
		}
	}
	f(r, *replay)
	r.Finish()
}

func genTables(out string) error {
	if err := genFieldsTable(out); err != nil {
		return err
	}
	return genConstsTable(out)
}
