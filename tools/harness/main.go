package main

import (
	"flag"
	"fmt"
	"os"
)

var props = map[string]func(r *Run, replay string){}

func main() {
	if len(os.Args) < 2 {
		fmt.Fprintln(os.Stderr, "usage: harness <property> [-seed N] [-tier quick|thorough] [-out dir] [-replay file]")
		os.Exit(2)
	}
	prop := os.Args[1]
	fs := flag.NewFlagSet("harness", flag.ExitOnError)
	seed := fs.Int64("seed", 1, "seed")
	tier := fs.String("tier", "quick", "tier")
	out := fs.String("out", ".", "output directory")
	replay := fs.String("replay", "", "replay file")
	fs.Parse(os.Args[2:])
	f, ok := props[prop]
	if !ok {
		fmt.Fprintln(os.Stderr, "unknown property", prop)
		os.Exit(2)
	}
	r := NewRun(prop, *tier, *seed, *out)
	f(r, *replay)
	r.Finish()
}
