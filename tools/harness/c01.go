package main

import (
	"context"
	"fmt"
	"sort"
	"strings"

	"github.com/hashicorp/hcl/v2"
	"github.com/hashicorp/hcl/v2/hclsyntax"
)

func init() { props["C01"] = runC01; props["C02"] = runC02 }

func omniFor(run *Run) Omni {
	o := Omni{Bases: 100, PosSample: 30, OnlyBase: -1, Opts: ScenarioOpts{Histories: 6, Gen: GenOpts{MaxDepth: 2}}}
	if run.Thorough {
		// (all offsets of all states of all bases would take half a day: every 10th base's first state gets all offsets)
		o.Bases, o.PosSample, o.AllPosEvery, o.Opts.Histories = 200, 150, 10, 18
	}
	return o
}

func runC01(run *Run, replay string) {
	run.Res.Rule = "generated schema (all constraint kinds, block types, address forms, extensions; every 5th degenerate-but-valid) x schema-directed configuration (every 3rd with injected violations) x typing history (prefixes, single-token deletions/duplications/replacements) x cursor offsets (token boundaries +-1 and a sample; in thorough a five times larger sample and all offsets for every 10th base) x every public query under recover() and a 20 s deadline; distinct non-trivial = distinct (file text, query, offset) whose call returned a non-empty result"
	o := omniFor(run)
	o.OnScenario = modelCasesHook(run)
	omnibus(run, o, func(s *Scenario, p *PathData, q Query, res QResult, loc map[string]interface{}) {
		run.Res.Evaluations++
		run.Count("query_" + q.Name)
		if res.Panic != "" {
			run.Count("panics")
			run.Violate(Violation{Key: "C01/panic/" + res.PanicFunc, Rule: "a query never panics", Func: res.PanicFunc,
				Detail: fmt.Sprintf("%s panicked: %s", q.Name, res.Panic), Replay: locWith(loc, q)})
			return
		}
		if res.Timeout {
			run.Violate(Violation{Key: "C01/nontermination/" + q.Name, Rule: "a query always terminates", Func: q.Name,
				Detail: "no result after 20 s", Replay: locWith(loc, q)})
			return
		}
		if res.Err != nil {
			run.Count("returned_error")
		} else if nonTrivial(res.Val) {
			off := -1
			if q.Pos != nil {
				off = q.Pos.Byte
			}
			run.Distinct(fmt.Sprintf("%s|%s|%d", s.Src, q.Name, off))
		}
		if run.Res.Evaluations%20011 == 1 {
			run.Sample(locWith(loc, q))
		}
	})
}

func runC02(run *Run, replay string) {
	run.Res.Rule = "same scenarios as C01; every range-typed field of every returned value is checked against the file content with HCL's own scanner: file of the reported path, 0<=start<=end<=len, line/column = scanner position of the byte offset; plus generated multi-path worlds (1-3 paths with their own files, unreadable paths, path/direct origins): the two decoder lookups must pair every range with the path that owns its file; distinct non-trivial = distinct (file text, query, offset) returning at least one range"
	o := omniFor(run)
	o.OnScenario = modelCasesHook(run)
	nranges := 0
	omnibus(run, o, func(s *Scenario, p *PathData, q Query, res QResult, loc map[string]interface{}) {
		run.Res.Evaluations++
		if res.Panic != "" || res.Timeout {
			return
		}
		rs := rangesOf(res.Val, p.Path.Path)
		if len(rs) > 0 {
			off := -1
			if q.Pos != nil {
				off = q.Pos.Byte
			}
			run.Distinct(fmt.Sprintf("%s|%s|%d", s.Src, q.Name, off))
		}
		for _, rr := range rs {
			nranges++
			run.Count("ranges_" + strings.ReplaceAll(rr.What, " ", "_"))
			if why := badRange(s.W, rr); why != "" {
				qn := strings.SplitN(q.Name, "(", 2)[0]
				key := fmt.Sprintf("C02/%s/%s/%s", strings.SplitN(why, ":", 2)[0], qn, strings.ReplaceAll(rr.What, " ", "-"))
				if !strings.HasPrefix(why, "wrong-file") && (parserRangesCached(s, rr.Path)[rr.Rng] || derivedFromMalformedParserRange(parserRangesCached(s, rr.Path), rr.Rng)) {
					// copied verbatim from the HCL parser's (recovered) syntax tree
					key = "C02/parser-supplied-range-malformed"
				} else if strings.HasSuffix(rr.Rng.Filename, ".json") && jsonLineHasEscape(p, rr.Rng) {
					// hashicorp/hcl parses the unescaped content of a JSON string as a template: positions
					// behind an escape sequence are shifted (documented in hcl/json); hcl-lang passes them on
					key = "C02/json-string-escape-shifts-parser-positions"
				}
				run.Violate(Violation{Key: key,
					Rule: "every emitted range is a real, self-consistent place in the right file", Func: qn,
					Detail: fmt.Sprintf("%s: %s %s (%s)", q.Name, rr.What, rngString(rr), why), Replay: locWith(loc, q)})
			}
		}
		if run.Res.Evaluations%20011 == 1 && len(rs) > 0 {
			m := locWith(loc, q)
			m["ranges"] = fmt.Sprint(len(rs))
			run.Sample(m)
		}
	})
	run.Res.Hypotheses["ranges_checked"] = nranges
	nw := 150
	if run.Thorough {
		nw = 3000
	}
	c02Worlds(run, nw)
	objectCompletionRanges(run, nw)
}

// jsonLineHasEscape: the line the range starts on contains a backslash before the range's end
func jsonLineHasEscape(p *PathData, r hcl.Range) bool {
	src, ok := p.Src[r.Filename]
	if !ok || r.Start.Byte < 0 || r.Start.Byte > len(src) {
		return false
	}
	ls := r.Start.Byte
	for ls > 0 && src[ls-1] != '\n' {
		ls--
	}
	le := r.Start.Byte
	for le < len(src) && src[le] != '\n' {
		le++
	}
	line := string(src[ls:le])
	if strings.Contains(line, "\\") {
		return true
	}
	// text that is not in Unicode normal form C (a base letter followed by a combining mark): cty normalises
	// string values, so the decoded content is shorter than the source bytes, like with escapes
	for _, r := range line {
		if r >= 0x0300 && r <= 0x036F {
			return true
		}
	}
	return false
}

func rngString(rr RRange) string {
	r := rr.Rng
	return fmt.Sprintf("%s:%d,%d@%d-%d,%d@%d", r.Filename, r.Start.Line, r.Start.Column, r.Start.Byte, r.End.Line, r.End.Column, r.End.Byte)
}

var lcCache = map[string]map[int][2]int{}

func badRange(w *World, rr RRange) string {
	var pd *PathData
	for _, p := range w.Paths {
		if p.Path.Path == rr.Path {
			pd = p
		}
	}
	if pd == nil {
		return "wrong-file: unknown path " + rr.Path
	}
	src, ok := pd.Src[rr.Rng.Filename]
	if !ok {
		var names []string
		for n := range pd.Src {
			names = append(names, n)
		}
		sort.Strings(names)
		return fmt.Sprintf("wrong-file: %q is not a file of path %q (%v)", rr.Rng.Filename, rr.Path, names)
	}
	r := rr.Rng
	if r.Start.Byte < 0 || r.End.Byte > len(src) || r.Start.Byte > len(src) || r.End.Byte < 0 {
		return "out-of-file: byte offsets outside 0..len"
	}
	if r.Start.Byte > r.End.Byte {
		return "start-after-end: start byte after end byte"
	}
	tbl := lcTableCached(src)
	for _, p := range []struct {
		n string
		b, l, c int
	}{{"start", r.Start.Byte, r.Start.Line, r.Start.Column}, {"end", r.End.Byte, r.End.Line, r.End.Column}} {
		want, ok := tbl[p.b]
		if !ok {
			return fmt.Sprintf("line-col-mismatch: %s byte %d is inside a character", p.n, p.b)
		}
		if want.Line != p.l || want.Column != p.c {
			return fmt.Sprintf("line-col-mismatch: %s byte %d is at %d,%d in the file, range says %d,%d", p.n, p.b, want.Line, want.Column, p.l, p.c)
		}
	}
	return ""
}

var prCache = map[*Scenario]map[string]map[hcl.Range]bool{}

func parserRangesCached(s *Scenario, path string) map[hcl.Range]bool {
	m, ok := prCache[s]
	if !ok {
		prCache = map[*Scenario]map[string]map[hcl.Range]bool{} // keep only the current scenario
		m = map[string]map[hcl.Range]bool{}
		prCache[s] = m
	}
	if r, ok := m[path]; ok {
		return r
	}
	for _, p := range s.W.Paths {
		if p.Path.Path == path {
			m[path] = parserRanges(p)
			return m[path]
		}
	}
	return map[hcl.Range]bool{}
}

// modelCasesHook: the modelled queries of each scenario as correspondence cases (the model must
// predict the same result - in particular no panic - and the same ranges).
func modelCasesHook(run *Run) func(s *Scenario, loc map[string]interface{}, coll []CollectRes) {
	n := 0
	return func(s *Scenario, loc map[string]interface{}, coll []CollectRes) {
		limit := 150
		if run.Thorough {
			limit = 3000
		}
		if n >= limit {
			return
		}
		f := s.Main.Ctx.Files[s.File]
		body, ok := f.Body.(*hclsyntax.Body)
		if !ok {
			return
		}
		d, _ := s.W.Dec.Path(s.Main.Path)
		res := safeCall("ValidateFile", func() (interface{}, error) { return d.ValidateFile(context.Background(), s.File) })
		if res.Panic == "" && res.Err == nil {
			n++
			run.Case("validate", []S{s.schemaS(), bodyS(body)}, diagsCanonical(res.Val.(hcl.Diagnostics)))
		}
		n += mergeCases(run, s, 4)
	}
}

var lcTblCache = map[string]map[int]hcl.Pos{}

func lcTableCached(src []byte) map[int]hcl.Pos {
	k := string(src)
	if t, ok := lcTblCache[k]; ok {
		return t
	}
	if len(lcTblCache) > 64 {
		lcTblCache = map[string]map[int]hcl.Pos{}
	}
	t := lcTable(src)
	lcTblCache[k] = t
	return t
}

// derivedFromMalformedParserRange: the range ends at the zero position (0,0@0) that the parser hands out as the end of
// an expression left open at the end of the file, and starts at or after that expression's start (an edit range
// computed from the expression's range by moving its start to the cursor keeps the parser's end)
func derivedFromMalformedParserRange(parser map[hcl.Range]bool, r hcl.Range) bool {
	zero := hcl.Pos{}
	if r.End != zero {
		return false
	}
	for pr := range parser {
		if pr.Filename == r.Filename && pr.End == zero && pr.Start.Byte > 0 {
			return true
		}
	}
	return false
}
