package main

// Correspondence cases for Model/Origins.v: the reference origins of one expression under one
// constraint (value-level descent), compared with the implementation through the hook
// decoder.VerifExprReferenceOrigins.

import (
	"math/rand"
	"sort"

	"github.com/hashicorp/hcl-lang/decoder"
	"github.com/hashicorp/hcl-lang/lang"
	"github.com/hashicorp/hcl-lang/reference"
	"github.com/hashicorp/hcl-lang/schema"
	"github.com/hashicorp/hcl/v2"
	"github.com/hashicorp/hcl/v2/hclsyntax"
	"github.com/zclconf/go-cty/cty"
)

func travS(t hcl.Traversal) S {
	self := !t.IsRelative() && t.RootName() == "self"
	ad := S(Nil)
	if a, err := lang.TraversalToAddress(t); err == nil {
		ad = addrS(a)
	}
	return L(rangeS(t.SourceRange()), Bool(self), ad)
}

func varsS(e hcl.Expression) S {
	l := List{}
	for _, t := range e.Variables() {
		l = append(l, travS(t))
	}
	return l
}

// rawObjectKey of decoder/expression.go (native syntax)
func rawKey(k hclsyntax.Expression) (string, bool) {
	ke, ok := k.(*hclsyntax.ObjectConsKeyExpr)
	if !ok {
		return "", false
	}
	switch e := ke.Wrapped.(type) {
	case *hclsyntax.ScopeTraversalExpr:
		if len(e.Traversal) != 1 {
			return "", false
		}
		return e.Traversal.RootName(), true
	case *hclsyntax.TemplateExpr:
		if !e.IsStringLiteral() {
			return "", false
		}
		lv, ok := e.Parts[0].(*hclsyntax.LiteralValueExpr)
		if !ok || lv.Val.Type() != cty.String {
			return "", false
		}
		return lv.Val.AsString(), true
	}
	return "", false
}

func oexprS(e hclsyntax.Expression) S {
	many := func(es []hclsyntax.Expression) S {
		l := List{}
		for _, x := range es {
			l = append(l, oexprS(x))
		}
		return l
	}
	opt := func(x hclsyntax.Expression) S {
		if x == nil {
			return Nil
		}
		return oexprS(x)
	}
	switch x := e.(type) {
	case *hclsyntax.ScopeTraversalExpr:
		return T("trav", travS(x.Traversal))
	case *hclsyntax.TupleConsExpr:
		return T("tuple", varsS(x), many(x.Exprs))
	case *hclsyntax.ObjectConsExpr:
		items := List{}
		for _, it := range x.Items {
			var k S
			if name, ok := rawKey(it.KeyExpr); ok {
				k = T("raw", Str(name), rangeS(it.KeyExpr.Range()))
			} else if ke, ok := it.KeyExpr.(*hclsyntax.ObjectConsKeyExpr); ok {
				if p, ok := ke.Wrapped.(*hclsyntax.ParenthesesExpr); ok {
					k = T("parens", oexprS(p.Expression), rangeS(it.KeyExpr.Range()))
				}
			}
			if k == nil {
				k = T("other", rangeS(it.KeyExpr.Range()))
			}
			items = append(items, L(k, oexprS(it.ValueExpr)))
		}
		return T("object", varsS(x), items)
	case *hclsyntax.TemplateExpr:
		return T("template", Bool(x.IsStringLiteral()), many(x.Parts))
	case *hclsyntax.TemplateWrapExpr:
		return T("wrap", oexprS(x.Wrapped))
	case *hclsyntax.BinaryOpExpr:
		ps := x.Op.Impl.Params()
		if len(ps) == 2 {
			return T("binary", tyS(x.Op.Type), tyS(ps[0].Type), tyS(ps[1].Type), oexprS(x.LHS), oexprS(x.RHS))
		}
	case *hclsyntax.UnaryOpExpr:
		ps := x.Op.Impl.Params()
		if len(ps) == 1 {
			return T("unary", tyS(x.Op.Type), tyS(ps[0].Type), oexprS(x.Val))
		}
	case *hclsyntax.ParenthesesExpr:
		return T("parens", oexprS(x.Expression))
	case *hclsyntax.ConditionalExpr:
		return T("cond", oexprS(x.Condition), oexprS(x.TrueResult), oexprS(x.FalseResult))
	case *hclsyntax.ForExpr:
		return T("for", varsS(x), oexprS(x.CollExpr), opt(x.KeyExpr), oexprS(x.ValExpr), opt(x.CondExpr))
	case *hclsyntax.FunctionCallExpr:
		return T("call", Str(x.Name), many(x.Args))
	}
	return T("other", varsS(e))
}

func fsigsS(fs map[string]schema.FunctionSignature) S {
	l := List{}
	names := make([]string, 0, len(fs))
	for n := range fs {
		names = append(names, n)
	}
	sort.Strings(names)
	for _, n := range names {
		f := fs[n]
		ps := List{}
		for _, p := range f.Params {
			ps = append(ps, tyS(p.Type))
		}
		vp := S(Nil)
		if f.VarParam != nil {
			vp = tyS(f.VarParam.Type)
		}
		l = append(l, L(Str(n), ps, vp))
	}
	return l
}

var originAnyTypes = []cty.Type{
	cty.String, cty.Number, cty.Bool, cty.DynamicPseudoType,
	cty.List(cty.String), cty.List(cty.DynamicPseudoType), cty.Set(cty.Number), cty.Map(cty.String), cty.Map(cty.Bool),
	cty.Tuple([]cty.Type{cty.String, cty.Number}), cty.EmptyTuple,
	cty.Object(map[string]cty.Type{"k": cty.String, "attr": cty.Number}), cty.EmptyObject,
	cty.List(cty.List(cty.String)), cty.Map(cty.List(cty.Number)),
}

// exprOriginCases: generated (constraint, expression) pairs
func exprOriginCases(run *Run, r *rand.Rand, n int) {
	funcs := genFunctions(r)
	fS := fsigsS(funcs)
	pc := &decoder.PathContext{Functions: funcs, Files: map[string]*hcl.File{}, ReferenceTargets: reference.Targets{}, ReferenceOrigins: reference.Origins{}}
	g := &exprGen{r: r}
	o := &GenOpts{}
	// objects whose keys are written as expressions (parenthesised, interpolated) before, between and behind
	// known attributes - with and without a declared path origin - and unknown ones
	objCons := schema.Object{Attributes: schema.ObjectAttributes{
		"k":    {IsOptional: true, Constraint: schema.AnyExpression{OfType: cty.String}},
		"attr": {IsOptional: true, Constraint: schema.Reference{OfScopeId: "variable"}, OriginForTarget: &schema.PathTarget{Address: schema.Address{schema.StaticStep{Name: "var"}, schema.AttrNameStep{}}, Path: lang.Path{Path: "other", LanguageID: "hcl"}, Constraints: schema.Constraints{ScopeId: "variable", Type: cty.DynamicPseudoType}}},
	}}
	for _, text := range []string{
		`{ k = local.a, (var.key) = local.other }`,
		`{ attr = var.x, "${var.k}" = var.y }`,
		`{ (var.key) = local.z, k = var.s }`,
		`{ k = var.a, (var.b) = var.c, attr = var.d, "${local.e}" = local.f, other = var.g }`,
		`{ attr = var.x, ("lit") = var.y, k = "s" }`,
		`{ unknown = var.u, (var.key) = var.v }`,
		`{ k = var.a, attr = var.b, (var.c) = "x" }`,
	} {
		expr, diags := hclsyntax.ParseExpression([]byte(text), "main.tf", hcl.InitialPos)
		if expr == nil || diags.HasErrors() {
			continue
		}
		for _, cons := range []schema.Constraint{objCons, schema.Map{Elem: schema.AnyExpression{OfType: cty.String}, AllowInterpolatedKeys: true}, schema.AnyExpression{OfType: cty.Map(cty.String)}} {
			for _, self := range []bool{false, true} {
				res := safeCall("ExprReferenceOrigins", func() (interface{}, error) {
					return decoder.VerifExprReferenceOrigins(pc, expr, cons, self), nil
				})
				if res.Panic != "" {
					continue
				}
				obs, _ := res.Val.(reference.Origins)
				run.Case("exprorigins", []S{Bool(self), fS, consS(cons), oexprS(expr)}, originsS(obs))
				run.Count("exprorigins_expression_keys")
			}
		}
	}
	// tuples whose positions admit references only in part (a literal, keyword or type name in front of,
	// between and behind positions holding references)
	refV := schema.Reference{OfScopeId: "variable"}
	for _, tc := range []struct {
		cons schema.Constraint
		text string
	}{
		{schema.Tuple{Elems: []schema.Constraint{schema.LiteralType{Type: cty.String}, refV}}, `["lit", var.second]`},
		{schema.Tuple{Elems: []schema.Constraint{refV, schema.LiteralType{Type: cty.String}}}, `[var.first, "lit"]`},
		{schema.Tuple{Elems: []schema.Constraint{schema.Keyword{Keyword: "inherit"}, schema.AnyExpression{OfType: cty.String}}}, `[inherit, "${var.a}-x"]`},
		{schema.Tuple{Elems: []schema.Constraint{refV, schema.TypeDeclaration{}, schema.OneOf{refV, schema.LiteralType{Type: cty.Number}}}}, `[var.a, string, var.b]`},
		{schema.Tuple{Elems: []schema.Constraint{schema.LiteralValue{Value: cty.StringVal("x")}, refV, schema.LiteralType{Type: cty.Bool}, refV}}, `["x", var.a, true, var.b]`},
		{schema.Map{Elem: schema.Tuple{Elems: []schema.Constraint{schema.LiteralType{Type: cty.Number}, refV}}}, `{ k = [1, var.a], l = [2, var.b] }`},
		{schema.List{Elem: schema.Tuple{Elems: []schema.Constraint{schema.Keyword{Keyword: "inherit"}, refV}}}, `[[inherit, var.a], [inherit, var.b]]`},
	} {
		expr, diags := hclsyntax.ParseExpression([]byte(tc.text), "main.tf", hcl.InitialPos)
		if expr == nil || diags.HasErrors() {
			continue
		}
		for _, self := range []bool{false, true} {
			res := safeCall("ExprReferenceOrigins", func() (interface{}, error) {
				return decoder.VerifExprReferenceOrigins(pc, expr, tc.cons, self), nil
			})
			if res.Panic != "" {
				continue
			}
			obs, _ := res.Val.(reference.Origins)
			run.Case("exprorigins", []S{Bool(self), fS, consS(tc.cons), oexprS(expr)}, originsS(obs))
			run.Count("exprorigins_mixed_tuples")
		}
	}
	for i := 0; i < n; i++ {
		var cons schema.Constraint
		switch r.Intn(3) {
		case 0:
			cons = schema.AnyExpression{OfType: pick(r, originAnyTypes)}
		case 1:
			cons = genConstraint(r, 2, o)
		default:
			cons = pick(r, []schema.Constraint{
				schema.Reference{OfScopeId: "variable"}, schema.Reference{OfType: cty.String},
				schema.OneOf{schema.Reference{OfScopeId: "variable"}, schema.Reference{OfScopeId: "local"}, schema.AnyExpression{OfType: cty.String}},
				schema.List{Elem: schema.OneOf{schema.Reference{OfScopeId: "variable"}, schema.AnyExpression{OfType: cty.Number}}},
				schema.Map{Elem: schema.AnyExpression{OfType: cty.String}, AllowInterpolatedKeys: true},
				schema.Object{Attributes: schema.ObjectAttributes{
					"k":    {IsOptional: true, Constraint: schema.AnyExpression{OfType: cty.String}},
					"attr": {IsOptional: true, Constraint: schema.Reference{OfScopeId: "variable"}, OriginForTarget: &schema.PathTarget{Address: schema.Address{schema.StaticStep{Name: "var"}, schema.AttrNameStep{}}, Path: lang.Path{Path: "other", LanguageID: "hcl"}, Constraints: schema.Constraints{ScopeId: "variable", Type: cty.DynamicPseudoType}}},
				}},
				schema.Tuple{Elems: []schema.Constraint{schema.AnyExpression{OfType: cty.String}, schema.Reference{OfScopeId: "variable"}}},
				schema.Set{Elem: schema.AnyExpression{OfType: cty.DynamicPseudoType}},
			})
		}
		var text string
		if r.Intn(3) == 0 {
			text = g.forCons(cons, 3)
		} else {
			text = g.any(1 + r.Intn(3))
		}
		expr, diags := hclsyntax.ParseExpression([]byte(text), "main.tf", hcl.InitialPos)
		if expr == nil || (diags.HasErrors() && r.Intn(4) > 0) {
			run.Count("exprorigins_unparsed")
			continue
		}
		self := r.Intn(2) == 0
		var obs reference.Origins
		res := safeCall("ExprReferenceOrigins", func() (interface{}, error) {
			return decoder.VerifExprReferenceOrigins(pc, expr, cons, self), nil
		})
		if res.Panic != "" {
			run.Violate(Violation{Key: "C01/panic/" + res.PanicFunc, Rule: "no panic", Func: res.PanicFunc, Detail: res.Panic,
				Replay: map[string]interface{}{"expr": text, "constraint": Show(consS(cons))}})
			continue
		}
		obs, _ = res.Val.(reference.Origins)
		run.Case("exprorigins", []S{Bool(self), fS, consS(cons), oexprS(expr)}, originsS(obs))
		run.Count("exprorigins")
		if len(obs) > 0 {
			run.Count("exprorigins_nonempty")
		}
	}
}
