package main

// C13 (semantic tokens) and C14 (symbols).

import (
	"context"
	"fmt"
	"github.com/hashicorp/hcl-lang/reference"
	"math/rand"
	"sort"

	"github.com/hashicorp/hcl-lang/decoder"
	"github.com/hashicorp/hcl-lang/lang"
	"github.com/hashicorp/hcl/v2"
	"github.com/hashicorp/hcl/v2/hclsyntax"
)

func init() { props["C13"] = runC13; props["C14"] = runC14 }

func canonStrings(l List) S {
	var strs []string
	for _, x := range l {
		strs = append(strs, Show(x))
	}
	sort.Strings(strs)
	out := List{}
	for _, s := range strs {
		out = append(out, Str(s))
	}
	return out
}

func runC13(run *Run, replay string) {
	run.Res.Rule = "generated schema (modifiers on attributes, blocks and labels, nesting to depth 3, dependent bodies, extensions) x configuration (valid, injected unknown items and surplus labels, typing-history states); SemanticTokensInFile: the body-level model must produce the same attribute-name / block-type / block-label tokens (type, modifiers in order, range); direct oracle on all tokens of all files, broken ones included: sorted by start, pairwise non-overlapping, non-empty, advertised types; distinct non-trivial = distinct file text with at least one token"
	bases, hist := 70, 4
	if run.Thorough {
		bases, hist = 800, 20
	}
	supported := map[lang.SemanticTokenType]bool{}
	for _, t := range lang.SupportedSemanticTokenTypes {
		supported[t] = true
	}
	ctx := context.Background()
	forConditionTokensOracle(run, bases*3)
	conditionalBranchTokensOracle(run, bases*3)
	for bi := 0; bi < bases; bi++ {
		r := rand.New(rand.NewSource(subSeed(run.Res.Seed, bi)))
		opts := ScenarioOpts{Histories: hist, Inject: bi%3 == 1, Gen: GenOpts{Degenerate: bi%7 == 6, DynFocus: bi%8 == 3}}
		if bi%2 == 1 {
			opts.Gen.MaxDepth = 3
		}
		scs := genScenarios(r, opts)
		if bi%2 == 0 {
			// the Terraform-like language: references that resolve to collected declarations
			ts, _ := tfScenario(r)
			scs = append(scs, ts)
		}
		if bi%3 == 0 {
			// fixed-value constraints against matching and non-matching written values (own random stream)
			scs = append(scs, literalValueFocusScenario(rand.New(rand.NewSource(subSeed(run.Res.Seed, 777000+bi)))))
		}
		scs = append(scs, valueFocusShare(bi, bases)...)
		for si, sc := range scs {
			sc.W.Collect()
			f := sc.Main.Ctx.Files[sc.File]
			body, ok := f.Body.(*hclsyntax.Body)
			if !ok {
				continue
			}
			d, _ := sc.W.Dec.Path(sc.Main.Path)
			res := safeCall("SemanticTokensInFile", func() (interface{}, error) { return d.SemanticTokensInFile(ctx, sc.File) })
			run.Res.Evaluations++
			if res.Panic != "" || res.Err != nil {
				continue
			}
			toks := res.Val.([]lang.SemanticToken)
			loc := map[string]interface{}{"seed": run.Res.Seed, "base": bi, "scenario": si, "kind": sc.Kind, "src": string(sc.Src)}
			q := Query{Name: "SemanticTokensInFile", File: sc.File}
			if len(toks) > 0 {
				run.Distinct(string(sc.Src))
			}
			bodyLevel := List{}
			garbage := parserRangesMalformed(sc)
			blRanges := map[hcl.Range]bool{}
			bodyLevelRanges(body, blRanges)
			for i, t := range toks {
				run.Count("token_" + string(t.Type))
				kind := ""
				switch t.Type {
				case lang.TokenAttrName:
					kind = "attr"
				case lang.TokenBlockType:
					kind = "block"
				case lang.TokenBlockLabel:
					kind = "label"
				}
				if kind != "" && blRanges[t.Range] {
					// (attribute names inside object type declarations are value-level tokens of the same type)
					bodyLevel = append(bodyLevel, L(Atom(kind), modsS(t.Modifiers), rangeS(t.Range)))
				}
				if !supported[t.Type] {
					run.Violate(Violation{Key: "C13/unsupported-type", Rule: "tokens are of the advertised token types", Func: "SemanticTokensInFile", Detail: string(t.Type), Replay: locWith(loc, q)})
				}
				if garbage {
					continue // ordering/disjointness of ranges the parser itself supplies malformed is not hcl-lang's
				}
				if t.Range.Start.Byte >= t.Range.End.Byte {
					run.Violate(Violation{Key: "C13/empty-token/" + string(t.Type), Rule: "tokens are non-empty", Func: "SemanticTokensInFile", Detail: fmt.Sprintf("%s %v", t.Type, t.Range), Replay: locWith(loc, q)})
				}
				if i > 0 {
					p := toks[i-1]
					if p.Range.Start.Byte > t.Range.Start.Byte {
						run.Violate(Violation{Key: "C13/not-sorted", Rule: "tokens are sorted by position", Func: "SemanticTokensInFile", Detail: fmt.Sprintf("%v before %v", p.Range, t.Range), Replay: locWith(loc, q)})
					} else if p.Range.End.Byte > t.Range.Start.Byte {
						run.Violate(Violation{Key: "C13/overlap/" + string(p.Type) + "+" + string(t.Type), Rule: "tokens are pairwise non-overlapping", Func: "SemanticTokensInFile",
							Detail: fmt.Sprintf("%s %v overlaps %s %v", p.Type, p.Range, t.Type, t.Range), Replay: locWith(loc, q)})
					}
				}
			}
			if sc.Kind == "tf" {
				// every written reference that resolves to a collected declaration has its steps marked
				starts := map[int]bool{}
				for _, t := range toks {
					if t.Type == lang.TokenReferenceStep {
						starts[t.Range.Start.Byte] = true
					}
				}
				for _, o := range sc.Main.Ctx.ReferenceOrigins {
					lo, ok := o.(reference.LocalOrigin)
					if !ok {
						continue
					}
					if _, ok := sc.Main.Ctx.ReferenceTargets.Match(lo); !ok {
						continue
					}
					run.Count("resolving_references")
					if !starts[lo.Range.Start.Byte] {
						key := "C13/resolving-reference-without-step-tokens"
						if anc := ancestorKinds(body, lo.Range); anc != "" {
							// origin collection falls back to Variables() for expression kinds the token walk does not enter
							key += "/under-" + anc
						}
						run.Violate(Violation{Key: key, Rule: "the steps of references that resolve to a collected target are marked", Func: "SemanticTokensInFile",
							Detail: fmt.Sprintf("%s at %v resolves but has no reference-step token", lo.Addr.String(), lo.Range), Replay: locWith(loc, q)})
					}
				}
			}
			run.Case("tokens", []S{sc.schemaS(), bodyS(body), Str(string(sc.Src))}, canonStrings(bodyLevel))
			// the complete result against the model of body-level and value-level tokens
			allTokensCase(run, sc)
			if len(run.Res.Samples) < 3 && len(toks) > 3 {
				run.Sample(map[string]interface{}{"src": string(sc.Src), "tokens": Show(resultS(toks))})
			}
		}
	}
}

// parserRangesMalformed: does the syntax tree of the scenario's main file contain a range with
// start after end (recovered trees)?
func parserRangesMalformed(sc *Scenario) bool {
	for r := range parserRanges(sc.Main) {
		if r.Start.Byte > r.End.Byte {
			return true
		}
	}
	return false
}

func runC14(run *Run, replay string) {
	run.Res.Rule = "generated configuration with and without schema, typing-history states; SymbolsInFile must equal the model's outline (name, kind, range, nesting, order) built from the same syntax tree; Decoder.Symbols(query) over worlds of 1-4 paths with every subset of unreadable paths must equal the filtered union of the per-file outlines of the readable paths; direct oracle: every child's range inside its parent's (files that parse cleanly); JSON files with schema (pretty and single-line renderings of structured configurations): outline equals the written items in source order, children inside parents; distinct non-trivial = distinct file text with at least one symbol"
	bases, hist := 70, 4
	if run.Thorough {
		bases, hist = 800, 20
	}
	ctx := context.Background()
	c14JSON(run, bases*2)
	for bi := 0; bi < bases; bi++ {
		r := rand.New(rand.NewSource(subSeed(run.Res.Seed, bi)))
		opts := ScenarioOpts{Histories: hist, Inject: bi%3 == 1, SecondPath: true, Gen: GenOpts{DynFocus: bi%8 == 3}}
		scs := genScenarios(r, opts)
		for si, sc := range scs {
			f := sc.Main.Ctx.Files[sc.File]
			body, ok := f.Body.(*hclsyntax.Body)
			if !ok {
				continue
			}
			noSchema := si%3 == 2
			schS := sc.schemaS()
			if noSchema {
				sc.Main.Ctx.Schema = nil
				schS = Nil
			}
			d, _ := sc.W.Dec.Path(sc.Main.Path)
			res := safeCall("SymbolsInFile", func() (interface{}, error) { return d.SymbolsInFile(sc.File) })
			run.Res.Evaluations++
			if res.Panic != "" || res.Err != nil {
				continue
			}
			syms := res.Val.([]decoder.Symbol)
			l := List{}
			for _, s := range syms {
				l = append(l, symbolS(s))
			}
			run.Case("symbols", []S{schS, bodyS(body), Str(string(sc.Src))}, l)
			if len(syms) > 0 {
				run.Distinct(string(sc.Src))
			}
			loc := map[string]interface{}{"seed": run.Res.Seed, "base": bi, "scenario": si, "kind": sc.Kind, "src": string(sc.Src)}
			q := Query{Name: "SymbolsInFile", File: sc.File}
			_, pd := hclsyntax.ParseConfig(sc.Src, sc.File, hcl.InitialPos)
			if !pd.HasErrors() {
				var walk func(parent decoder.Symbol, ss []decoder.Symbol)
				walk = func(parent decoder.Symbol, ss []decoder.Symbol) {
					for i, s := range ss {
						if parent != nil {
							pr, cr := parent.Range(), s.Range()
							if cr.Start.Byte < pr.Start.Byte || cr.End.Byte > pr.End.Byte {
								run.Violate(Violation{Key: "C14/child-outside-parent", Rule: "every child's range lies inside its parent's", Func: "SymbolsInFile",
									Detail: fmt.Sprintf("%q %v not inside %q %v", s.Name(), cr, parent.Name(), pr), Replay: locWith(loc, q)})
							}
						}
						if i > 0 && ss[i-1].Range().Start.Byte > s.Range().Start.Byte {
							run.Violate(Violation{Key: "C14/not-source-order", Rule: "symbols are in source order", Func: "SymbolsInFile", Detail: s.Name(), Replay: locWith(loc, q)})
						}
						walk(s, s.NestedSymbols())
					}
				}
				walk(nil, syms)
			}
			// workspace symbols with unreadable paths
			if si == 0 {
				n := len(sc.W.Paths)
				for mask := 0; mask < 1<<n; mask++ {
					for i, p := range sc.W.Paths {
						p.Fail = mask&(1<<i) != 0
					}
					for _, query := range []string{"", "a", "res", "zzz", "\""} {
						got, _ := sc.W.Dec.Symbols(ctx, query)
						want := List{}
						for _, p := range sc.W.Paths {
							if p.Fail {
								continue
							}
							pdc, _ := sc.W.Dec.Path(p.Path)
							for _, fn := range sortedFileNames(p.Src) {
								fs, err := pdc.SymbolsInFile(fn)
								if err != nil {
									continue
								}
								for _, s := range fs {
									if query == "" || containsStr(s.Name(), query) {
										want = append(want, L(Str(p.Path.Path), symbolS(s)))
									}
								}
							}
						}
						gl := List{}
						for _, s := range got {
							gl = append(gl, L(Str(s.Path().Path), symbolS(s)))
						}
						run.Res.Evaluations++
						if Show(gl) != Show(want) {
							run.Violate(Violation{Key: "C14/workspace-symbols", Rule: "a workspace query returns exactly the matching top-level symbols of all files of all readable paths", Func: "Decoder.Symbols",
								Detail: firstDiff(Show(want), Show(gl)), Replay: map[string]interface{}{"seed": run.Res.Seed, "base": bi, "query": query, "unreadable_mask": mask, "src": string(sc.Src)}})
						}
					}
				}
				for _, p := range sc.W.Paths {
					p.Fail = false
				}
			}
			if len(run.Res.Samples) < 3 && len(syms) > 1 {
				run.Sample(map[string]interface{}{"src": string(sc.Src), "symbols": Show(l)})
			}
		}
	}
}

func containsStr(s, q string) bool {
	for i := 0; i+len(q) <= len(s); i++ {
		if s[i:i+len(q)] == q {
			return true
		}
	}
	return false
}

// bodyLevelRanges: name ranges of attributes, type and label ranges of blocks of a body tree
// (not descending into expressions)
func bodyLevelRanges(b *hclsyntax.Body, out map[hcl.Range]bool) {
	for _, a := range b.Attributes {
		out[a.NameRange] = true
	}
	for _, k := range b.Blocks {
		out[k.TypeRange] = true
		for _, l := range k.LabelRanges {
			out[l] = true
		}
		if k.Body != nil {
			bodyLevelRanges(k.Body, out)
		}
	}
}

// ancestorKinds: the expression kinds around a traversal that only the Variables() fallback of origin
// collection looks into ("" if none)
func ancestorKinds(body *hclsyntax.Body, rng hcl.Range) string {
	var stack []hclsyntax.Node
	found := ""
	_ = hclsyntax.Walk(body, walkFuncs{
		enter: func(n hclsyntax.Node) {
			stack = append(stack, n)
			if t, ok := n.(*hclsyntax.ScopeTraversalExpr); ok && t.Range() == rng {
				for _, a := range stack {
					switch a.(type) {
					case *hclsyntax.ForExpr:
						found = "for-expression"
					case *hclsyntax.IndexExpr:
						if found == "" {
							found = "index-expression"
						}
					case *hclsyntax.SplatExpr:
						if found == "" {
							found = "splat-expression"
						}
					case *hclsyntax.RelativeTraversalExpr:
						if found == "" {
							found = "relative-traversal"
						}
					}
				}
			}
		},
		exit: func(n hclsyntax.Node) { stack = stack[:len(stack)-1] },
	})
	return found
}

type walkFuncs struct {
	enter func(hclsyntax.Node)
	exit  func(hclsyntax.Node)
}

func (w walkFuncs) Enter(n hclsyntax.Node) hcl.Diagnostics { w.enter(n); return nil }
func (w walkFuncs) Exit(n hclsyntax.Node) hcl.Diagnostics  { w.exit(n); return nil }
