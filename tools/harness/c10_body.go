package main

// Correspondence cases for Model/OriginsBody.v: CollectReferenceOrigins over all files of a path.

import (
	"sort"

	"github.com/hashicorp/hcl-lang/reference"
	"github.com/hashicorp/hcl/v2"
	"github.com/hashicorp/hcl/v2/hclsyntax"
)

// attrExprsS: (attribute range, value expression) for every attribute at any depth
func attrExprsS(b *hclsyntax.Body, out *List) {
	names := make([]string, 0, len(b.Attributes))
	for n := range b.Attributes {
		names = append(names, n)
	}
	sort.Strings(names)
	for _, n := range names {
		a := b.Attributes[n]
		*out = append(*out, L(rangeS(a.SrcRange), oexprS(a.Expr)))
	}
	for _, k := range b.Blocks {
		attrExprsS(k.Body, out)
	}
}

// collectOriginsCase: one case per path whose files all parse cleanly
func collectOriginsCase(run *Run, sc *Scenario, observed reference.Origins) bool {
	p := sc.Main
	bodies := List{}
	exprs := List{}
	for _, f := range sortedFileNames(p.Src) {
		file := p.Ctx.Files[f]
		if file == nil {
			return false
		}
		body, ok := file.Body.(*hclsyntax.Body)
		if !ok {
			return false
		}
		if _, diags := hclsyntax.ParseConfig(p.Src[f], f, hcl.InitialPos); diags.HasErrors() {
			return false // recovered trees have coinciding ranges: the order among ties is not determined
		}
		bodies = append(bodies, bodyS(body))
		attrExprsS(body, &exprs)
	}
	sch := S(Nil)
	if p.Schema != nil {
		sch = bodySchemaS(p.Schema)
	}
	run.Case("collectorigins", []S{fsigsS(p.Ctx.Functions), sch, bodies, exprs}, originsS(observed))
	return true
}
