package main

// Cross-file focus cases: the three lookups that compare positions of declarations / references with a
// cursor or a body range - the completion walk's "declared inside the body being edited" test,
// Origins.AtPos and Targets.InnermostAtPos - on worlds in which a declaration or reference of ANOTHER file
// has exactly the positions that would matter in the requested file (same start, same end, a smaller byte
// offset in a file sorting first).  Compared with the model (kinds matchwalk, atpos, innermost); run by every
// property whose queries go through these lookups.

import (
	"context"

	"github.com/hashicorp/hcl-lang/lang"
	"github.com/hashicorp/hcl-lang/reference"
	"github.com/hashicorp/hcl-lang/schema"
	"github.com/hashicorp/hcl/v2"
	"github.com/zclconf/go-cty/cty"
)

func crossFileFocusCases(run *Run) {
	ctx := context.Background()
	addr := func(steps ...string) lang.Address {
		a := lang.Address{lang.RootStep{Name: steps[0]}}
		for _, s := range steps[1:] {
			a = append(a, lang.AttrStep{Name: s})
		}
		return a
	}
	tgt := func(a lang.Address, rng hcl.Range) reference.Target {
		def := rng
		def.End = hcl.Pos{Line: rng.Start.Line, Column: rng.Start.Column + 3, Byte: rng.Start.Byte + 3}
		return reference.Target{Addr: a, ScopeId: "variable", Type: cty.String, RangePtr: rng.Ptr(), DefRangePtr: def.Ptr()}
	}
	for _, otherFile := range []string{"a_first.tf", "b.tf", "z_last.tf"} {
		// ---- the completion walk: outer = the body being edited in main.tf (lines 5-9)
		outer := mkRange("main.tf", 5, 1, 9, 2)
		ts := reference.Targets{
			tgt(addr("var", "before"), mkRange("main.tf", 2, 1, 3, 2)),
			tgt(addr("var", "inside"), mkRange("main.tf", 6, 3, 6, 20)),     // declared in the body being edited: not offered
			tgt(addr("var", "same_end"), mkRange(otherFile, 7, 1, 9, 2)),    // another file, ends where the body ends
			tgt(addr("var", "same_start"), mkRange(otherFile, 5, 1, 5, 30)), // another file, starts where the body starts
			tgt(addr("var", "same_place"), mkRange(otherFile, 6, 3, 6, 20)), // another file, same place as "inside"
			tgt(addr("var", "whole_body"), mkRange(otherFile, 5, 1, 9, 2)),  // another file, the very range of the body
			tgt(addr("var", "elsewhere"), mkRange(otherFile, 12, 1, 13, 2)),
		}
		for _, prefix := range []string{"", "var.", "var.same", "var.w"} {
			for _, self := range []bool{false, true} {
				org := mkRange("main.tf", 7, 9, 7, 9+len(prefix))
				ref := schema.Reference{OfType: cty.String}
				c := ctx
				if self {
					c = schema.WithActiveSelfRefs(c)
				}
				labels := List{}
				ts.MatchWalk(c, ref, prefix, outer, org, func(t reference.Target) error {
					labels = append(labels, Str(t.Address(c, org.Start).String()))
					return nil
				})
				run.Case("matchwalk", []S{convTable(), Bool(self), Str(string(ref.OfScopeId)), tyS(ref.OfType), Str(prefix), rangeS(outer), rangeS(org), targetsS(ts)}, labels)
				run.Count("cross_file_focus_cases")
			}
		}
		// ---- Origins.AtPos: references of the other file at smaller / equal / larger offsets
		constraints := reference.OriginConstraints{{OfType: cty.String}}
		os := reference.Origins{
			reference.LocalOrigin{Addr: addr("var", "x"), Range: mkRange(otherFile, 9, 5, 9, 10), Constraints: constraints},
			reference.LocalOrigin{Addr: addr("var", "y"), Range: mkRange("main.tf", 3, 5, 3, 10), Constraints: constraints},
			reference.LocalOrigin{Addr: addr("var", "z"), Range: mkRange(otherFile, 3, 5, 3, 10), Constraints: constraints},
			reference.LocalOrigin{Addr: addr("var", "w"), Range: mkRange("main.tf", 9, 5, 9, 10), Constraints: constraints},
			reference.LocalOrigin{Addr: addr("var", "v"), Range: mkRange(otherFile, 1, 1, 1, 6), Constraints: constraints},
		}
		// (in the order collection leaves them: by file, then position)
		sorted := append(reference.Origins{}, os...)
		for i := 1; i < len(sorted); i++ {
			for j := i; j > 0; j-- {
				a, b := sorted[j-1].OriginRange(), sorted[j].OriginRange()
				if a.Filename > b.Filename || (a.Filename == b.Filename && a.Start.Byte > b.Start.Byte) {
					sorted[j-1], sorted[j] = sorted[j], sorted[j-1]
				}
			}
		}
		for _, list := range []reference.Origins{os, sorted} {
			for _, file := range []string{"main.tf", otherFile} {
				for _, p := range []hcl.Pos{mkPos(3, 6), mkPos(9, 7), mkPos(1, 2), mkPos(5, 5)} {
					got, _ := list.AtPos(file, p)
					run.Case("atpos", []S{originsS(list), Str(file), posS(p)}, originsS(got))
					run.Count("cross_file_focus_cases")
				}
			}
		}
		// ---- Targets.InnermostAtPos
		for _, file := range []string{"main.tf", otherFile} {
			for _, p := range []hcl.Pos{mkPos(6, 5), mkPos(7, 2), mkPos(9, 1), mkPos(12, 3), mkPos(2, 2)} {
				got, _ := ts.InnermostAtPos(file, p)
				run.Case("innermost", []S{targetsS(ts), Str(file), posS(p)}, targetsS(got))
				run.Count("cross_file_focus_cases")
			}
		}
	}
}
