package main

// Focus scenario: a value that is still missing (or only begun) behind the equals sign, with blanks, a tab or a
// comment between the equals sign and the end of the line, for an attribute of every constraint kind; every
// cursor offset is queried.  The parser places the placeholder of a missing value on the next token, so the
// positions between the equals sign and that token are where range arithmetic goes wrong.

import (
	"fmt"
	"strings"

	"github.com/hashicorp/hcl-lang/lang"
	"github.com/hashicorp/hcl-lang/schema"
	"github.com/zclconf/go-cty/cty"
)

func missingValueKindsSchema() *schema.BodySchema {
	kw := schema.Keyword{Keyword: "inherit", Name: "keyword"}
	attrs := map[string]*schema.AttributeSchema{
		"k_any":     {IsOptional: true, Constraint: schema.AnyExpression{OfType: cty.String}},
		"k_anylist": {IsOptional: true, Constraint: schema.AnyExpression{OfType: cty.List(cty.String)}},
		"k_lt":      {IsOptional: true, Constraint: schema.LiteralType{Type: cty.Bool}},
		"k_ltobj":   {IsOptional: true, Constraint: schema.LiteralType{Type: cty.Object(map[string]cty.Type{"a": cty.String})}},
		"k_lv":      {IsOptional: true, Constraint: schema.LiteralValue{Value: cty.StringVal("fixed")}},
		"k_kw":      {IsOptional: true, Constraint: kw},
		"k_ref":     {IsOptional: true, Constraint: schema.Reference{OfScopeId: "variable"}},
		"k_td":      {IsOptional: true, Constraint: schema.TypeDeclaration{}},
		"k_list":    {IsOptional: true, Constraint: schema.List{Elem: schema.LiteralType{Type: cty.String}}},
		"k_set":     {IsOptional: true, Constraint: schema.Set{Elem: kw}},
		"k_tuple":   {IsOptional: true, Constraint: schema.Tuple{Elems: []schema.Constraint{schema.LiteralType{Type: cty.String}, kw}}},
		"k_map":     {IsOptional: true, Constraint: schema.Map{Elem: schema.LiteralType{Type: cty.Number}}},
		"k_obj": {IsOptional: true, Constraint: schema.Object{Attributes: schema.ObjectAttributes{
			"first": {IsRequired: true, Constraint: schema.LiteralType{Type: cty.String}}}}},
		"k_oneof": {IsOptional: true, Constraint: schema.OneOf{kw, schema.LiteralValue{Value: cty.StringVal("x")}, schema.List{Elem: kw}}},
		"k_hook": {IsOptional: true, Constraint: schema.LiteralType{Type: cty.String}, CompletionHooks: lang.CompletionHooks{{Name: "hook1"}}},
	}
	base := tfSchema()
	return &schema.BodySchema{Attributes: attrs, Blocks: map[string]*schema.BlockSchema{
		"variable": base.Blocks["variable"],
		"inner":    {Body: &schema.BodySchema{Attributes: attrs}},
	}}
}

// missingValueKindsScenario: variant 0..3 choose what stands between the equals sign and the end of the line
func missingValueKindsScenario(variant int) *Scenario {
	tails := []string{"   ", " \t", " # note", "  // é"}
	tail := tails[variant%len(tails)]
	var sb strings.Builder
	sb.WriteString("variable \"v\" {\n  type = string\n}\n")
	names := sortedKeys(missingValueKindsSchema().Attributes)
	for i, n := range names {
		if i%2 == variant%2 {
			fmt.Fprintf(&sb, "%s =%s\n", n, tail)
		}
	}
	sb.WriteString("inner {\n")
	for i, n := range names {
		if i%2 != variant%2 {
			fmt.Fprintf(&sb, "  %s =%s\n", n, tail)
		}
	}
	sb.WriteString("}\n")
	// the last attribute of the file without a final newline
	fmt.Fprintf(&sb, "k_kw =%s", strings.TrimRight(tail, "é"))
	src := sb.String()
	w := newWorld()
	pd := w.AddPath("root", missingValueKindsSchema(), map[string]string{"main.tf": src}, genFunctions(nil))
	s := &Scenario{W: w, Main: pd, File: "main.tf", Src: []byte(src), Kind: "missing-value-kinds"}
	for off := 0; off <= len(src); off++ {
		s.Offsets = append(s.Offsets, off)
	}
	return s
}
