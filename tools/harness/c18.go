package main

// C18: results move with the text - inserting blank/comment lines before a top-level item or after
// the last one only shifts positions.

import (
	"fmt"
	"math/rand"
	"regexp"
	"sort"
	"strings"

	"github.com/hashicorp/hcl-lang/lang"
	"github.com/hashicorp/hcl-lang/reference"
	"github.com/hashicorp/hcl/v2"
	"github.com/hashicorp/hcl/v2/hclsyntax"
)

func init() { props["C18"] = runC18 }

var nsValueLine = regexp.MustCompile(`(?m)^  (any|project|region) = .*$`)

// shiftS moves every range of file `file` in a rendered result: positions with byte >= at move by (dl lines, db bytes)
func shiftS(s S, file string, at, dl, db, srcLen int) S {
	switch x := s.(type) {
	case List:
		if len(x) == 8 {
			if a, ok := x[0].(Atom); ok && a == "rng" {
				if f, ok := x[1].(Str); ok && string(f) == file {
					out := make(List, 8)
					copy(out, x)
					var sb0, eb0 int
					fmt.Sscan(string(x[4].(Atom)), &sb0)
					fmt.Sscan(string(x[7].(Atom)), &eb0)
					for _, base := range []int{2, 5} {
						if base == 2 && at == 0 && sb0 == 0 && eb0 == srcLen {
							continue // the root body's range: the inserted lines belong to it, its start stays at 0
						}
						var l, c, b int
						fmt.Sscan(string(x[base].(Atom)), &l)
						fmt.Sscan(string(x[base+1].(Atom)), &c)
						fmt.Sscan(string(x[base+2].(Atom)), &b)
						if b >= at && !(l == 0 && c == 0 && b == 0) {
							out[base], out[base+2] = Int(l+dl), Int(b+db)
						}
					}
					return out
				}
				return x
			}
		}
		out := make(List, len(x))
		for i, e := range x {
			out[i] = shiftS(e, file, at, dl, db, srcLen)
		}
		return out
	}
	return s
}

func outcomeNoErrText(r QResult) S {
	if r.Panic != "" {
		return T("panic", Str(r.PanicFunc))
	}
	e := S(Nil)
	if r.Err != nil {
		e = T("err", Str(fmt.Sprintf("%T", r.Err)))
	}
	if ds, ok := r.Val.(hcl.Diagnostics); ok {
		return T("out", diagsStructured(ds), e)
	}
	if dm, ok := r.Val.(lang.DiagnosticsMap); ok {
		l := List{}
		for _, n := range sortedKeys(dm) {
			l = append(l, L(Str(n), diagsStructured(dm[n])))
		}
		return T("out", l, e)
	}
	return T("out", resultS(r.Val), e)
}

// diagnostics as structured terms (so that their ranges can be shifted), ordered by
// (summary, detail, subject start) - an order that a translation preserves
func diagsStructured(ds hcl.Diagnostics) S {
	type item struct {
		k string
		b int
		s S
	}
	var items []item
	for _, d := range ds {
		b := 0
		if d.Subject != nil {
			b = d.Subject.Start.Byte
		}
		items = append(items, item{d.Summary + "|" + d.Detail, b, diagS(d)})
	}
	sort.Slice(items, func(i, j int) bool {
		if items[i].k != items[j].k {
			return items[i].k < items[j].k
		}
		return items[i].b < items[j].b
	})
	l := List{}
	for _, it := range items {
		l = append(l, it.s)
	}
	return l
}

func runC18(run *Run, replay string) {
	run.Res.Rule = "cleanly parsed generated configurations (generic schemas and the Terraform-like language with resolving references, two files) and typing states of them (the first characters of a new top-level name on a line of its own: at the start of the file, between items, at the end); every insertion point before a top-level item and after the last one x inserted text (1-3 lines: blank, '#', '//' and multi-byte comments); targets/origins are re-collected; every public query is run on the original and - at the correspondingly moved cursor - on the translated file and the results are compared after shifting the original's positions; distinct non-trivial = distinct (file text, insertion point, inserted text, query, offset) with a non-empty result"
	bases, posN := 40, 14
	if run.Thorough {
		bases, posN = 400, 60
	}
	crossFileFocusCases(run)
	jsonShiftOracle(run, bases/2)
	inserts := []string{"\n", "# comment\n", "// c\n", "# コメント é\n", "\n\n# two\n", "// é\n\n",
		strings.Repeat("# a longer block of comment lines\n", 9), strings.Repeat("\n", 40) + "// é\n"}
	every := 6
	if run.Thorough {
		every = 1
	}
	firstLine := valueFocusFirstLine(every)
	for bi := 0; bi < bases+len(firstLine); bi++ {
		r := rand.New(rand.NewSource(subSeed(run.Res.Seed, bi)))
		var sc *Scenario
		if bi >= bases {
			// a value under every constraint kind on the first line of the file, every offset of the value
			sc = firstLine[bi-bases]
		} else if bi%2 == 0 {
			sc, _ = tfScenario(r)
			if bi%4 == 0 {
				// a second file with the same text: declarations whose positions coincide with those of
				// the edited file (only the file name tells them apart)
				w := newWorld()
				other := string(sc.Src)
				if bi%4 == 0 && bi%8 != 0 || bi%16 == 8 {
					// ... or with other declarations, whose byte ranges overlap those of the edited file at random
					other = genTf(r).Src
				}
				// the other file sorts behind the edited one, or in front of it
				otherName := "other.tf"
				if (bi/4)%3 == 1 {
					otherName = "a_first.tf"
				}
				pd := w.AddPath("root", tfSchema(), map[string]string{"main.tf": string(sc.Src), otherName: other}, sc.Main.Ctx.Functions)
				sc = &Scenario{W: w, Main: pd, File: "main.tf", Src: sc.Src, Kind: "tf"}
			}
		} else {
			sc = genScenarios(r, ScenarioOpts{Gen: GenOpts{MaxDepth: 2}})[0]
		}
		if _, d := hclsyntax.ParseConfig(sc.Src, sc.File, hcl.InitialPos); d.HasErrors() || !strings.HasSuffix(string(sc.Src), "\n") {
			continue
		}
		var typedAt []int
		if bi >= bases {
			typedAt = sc.Offsets
		}
		if bi < bases && bi%3 == 1 {
			// a typing state: the beginning of a new top-level name on a line of its own - at the very
			// start of the file, between two items or at the end (the rest of the file parses cleanly)
			body0 := sc.Main.Ctx.Files[sc.File].Body.(*hclsyntax.Body)
			var names []string
			for n := range sc.Main.Schema.Blocks {
				names = append(names, n)
			}
			for n := range sc.Main.Schema.Attributes {
				names = append(names, n)
			}
			sort.Strings(names)
			names = append(names, "zz", "res", "va")
			name := pick(r, names)
			if len(name) > 3 {
				name = name[:1+r.Intn(3)]
			}
			cuts := []int{0, len(sc.Src)}
			for _, b := range body0.Blocks {
				cuts = append(cuts, b.Range().Start.Byte)
			}
			cut := cuts[r.Intn(len(cuts))]
			switch (bi / 3) % 3 {
			case 0:
				cut = 0 // the name being typed is the file's first token
			case 1:
				cut = len(sc.Src)
			}
			if cut == 0 || sc.Src[cut-1] == '\n' {
				nsrc0 := string(sc.Src[:cut]) + name + "\n" + string(sc.Src[cut:])
				files := map[string]string{}
				for n, b := range sc.Main.Src {
					files[n] = string(b)
				}
				files[sc.File] = nsrc0
				w0 := newWorld()
				pd0 := w0.AddPath(sc.Main.Path.Path, sc.Main.Schema, files, sc.Main.Ctx.Functions)
				if pd0.Ctx.Files[sc.File] != nil {
					if _, ok := pd0.Ctx.Files[sc.File].Body.(*hclsyntax.Body); ok {
						sc = &Scenario{W: w0, Main: pd0, File: sc.File, Src: []byte(nsrc0), Kind: sc.Kind + "-typing"}
						for k := 0; k <= len(name); k++ {
							typedAt = append(typedAt, cut+k)
						}
					}
				}
			}
		}
		nsTyping := false
		var nsPoints []int
		if bi < bases && bi%6 == 2 && len(typedAt) == 0 {
			// a namespaced function name being typed as an attribute value inside a block (the parser reports a
			// syntax error for that value only; the rest of the file parses cleanly)
			src0 := string(sc.Src)
			sc0Body := sc.Main.Ctx.Files[sc.File].Body
			if loc := nsValueLine.FindStringSubmatchIndex(src0); loc != nil && !strings.Contains(src0[loc[0]:loc[1]], "<<") {
				valStart := loc[3] + 3
				typed := []string{"provider::a::", "provider::a", "provider::"}[(bi/6)%3]
				nsrc0 := src0[:valStart] + typed + src0[loc[1]:]
				files := map[string]string{}
				for n, b := range sc.Main.Src {
					files[n] = string(b)
				}
				files[sc.File] = nsrc0
				w0 := newWorld()
				pd0 := w0.AddPath(sc.Main.Path.Path, sc.Main.Schema, files, sc.Main.Ctx.Functions)
				if pd0.Ctx.Files[sc.File] != nil {
					if _, ok := pd0.Ctx.Files[sc.File].Body.(*hclsyntax.Body); ok {
						sc = &Scenario{W: w0, Main: pd0, File: sc.File, Src: []byte(nsrc0), Kind: sc.Kind + "-typing-function-name"}
						typedAt = append(typedAt, valStart+len(typed), valStart+len("provider::"))
						nsTyping = true
						// insertion points: before the top-level items up to the block holding the value being typed (behind
						// it the parser's recovery decides what the items are)
						if b0, ok := sc0Body.(*hclsyntax.Body); ok {
							for _, b := range b0.Blocks {
								if b.Range().Start.Byte <= valStart {
									nsPoints = append(nsPoints, b.Range().Start.Byte)
								}
							}
						}
						run.Count("typing_states_function_name")
					}
				}
			}
		}
		body := sc.Main.Ctx.Files[sc.File].Body.(*hclsyntax.Body)
		var points []int
		for _, a := range body.Attributes {
			points = append(points, a.SrcRange.Start.Byte)
		}
		for _, b := range body.Blocks {
			points = append(points, b.Range().Start.Byte)
		}
		points = append(points, len(sc.Src))
		if nsTyping {
			points = nsPoints
		}
		r.Shuffle(len(points), func(i, j int) { points[i], points[j] = points[j], points[i] })
		if len(points) > 3 && !run.Thorough {
			points = points[:3]
		}
		sc.W.Collect()
		offs := append(cursorOffsets(r, sc.Src, false, posN), typedAt...)
		// the places where references are written: go-to-definition, hover and completion are asked there
		nrefs := 0
		for _, o := range sc.Main.Ctx.ReferenceOrigins {
			if o.OriginRange().Filename == sc.File && nrefs < 16 {
				offs = append(offs, o.OriginRange().Start.Byte)
				nrefs++
			}
		}
		if bi >= bases {
			points = []int{0, len(sc.Src)}
			offs = typedAt
		} else if len(typedAt) > 0 && !nsTyping {
			// also insert right before the line being typed
			points = append([]int{typedAt[0]}, points...)
			run.Count("typing_states")
		}
		tbl := lcTable(sc.Src)
		for _, at := range points {
			ins := pick(r, inserts)
			if bi >= bases {
				ins = inserts[3+bi%5]
			}
			dl, db := strings.Count(ins, "\n"), len(ins)
			nsrc := string(sc.Src[:at]) + ins + string(sc.Src[at:])
			w2 := newWorld()
			files := map[string]string{}
			for n, b := range sc.Main.Src {
				files[n] = string(b)
			}
			files[sc.File] = nsrc
			pd2 := w2.AddPath(sc.Main.Path.Path, sc.Main.Schema, files, sc.Main.Ctx.Functions)
			for _, p := range sc.W.Paths[1:] {
				f2 := map[string]string{}
				for n, b := range p.Src {
					f2[n] = string(b)
				}
				w2.AddPath(p.Path.Path, p.Schema, f2, p.Ctx.Functions)
			}
			w2.Collect()
			s2 := &Scenario{W: w2, Main: pd2, File: sc.File, Src: []byte(nsrc), Kind: sc.Kind}
			tbl2 := lcTable([]byte(nsrc))
			loc := map[string]interface{}{"seed": run.Res.Seed, "base": bi, "src": string(sc.Src), "insert_at": at, "inserted": ins}
			compare := func(q1, q2 Query) {
				r1, r2 := safeCall(q1.Name, q1.Run), safeCall(q2.Name, q2.Run)
				run.Res.Evaluations++
				want := Show(shiftS(outcomeNoErrText(r1), sc.File, at, dl, db, len(sc.Src)))
				got := Show(outcomeNoErrText(r2))
				if len(want) > 30 {
					off := -1
					if q1.Pos != nil {
						off = q1.Pos.Byte
					}
					run.Distinct(fmt.Sprintf("%s|%d|%q|%s|%d", sc.Src, at, ins, q1.Name, off))
				}
				if want != got {
					key := "C18/result-changed/" + strings.SplitN(q1.Name, "(", 2)[0]
					qn := strings.SplitN(q1.Name, "(", 2)[0]
					if q1.Pos != nil && q2.Pos != nil && ((qn == "HoverAtPos" && strings.Contains(want+got, "\"self")) || qn == "CompletionAtPos") &&
						(crossFileSelfAt(sc.Main, sc.File, *q1.Pos) || crossFileSelfAt(s2.Main, s2.File, *q2.Pos)) {
						// Target.Address(ctx, pos) decides between "self" and the absolute address by the byte range the
						// declaration is addressable from, without looking at the file: a declaration of ANOTHER file
						// whose byte range happens to contain the cursor is labelled self.* (and, in completion, then
						// offered as self.* or - when that label does not start with the typed text - not offered)
						key += "/self-address-chosen-by-byte-range-of-another-file"
					}
					run.Violate(Violation{Key: key, Rule: "inserting blank or comment lines changes nothing except that positions at or after the insertion point move",
						Func: q1.Name, Detail: firstDiff(want, got), Replay: locWith(loc, q1)})
				}
			}
			pq1, pq2 := sc.pathQueries(sc.Main), s2.pathQueries(s2.Main)
			for i := range pq1 {
				compare(pq1[i], pq2[i])
			}
			fq1, fq2 := sc.fileQueries(sc.Main, sc.File), s2.fileQueries(s2.Main, s2.File)
			for i := range fq1 {
				compare(fq1[i], fq2[i])
			}
			for _, off := range offs {
				p1, ok := tbl[off]
				if !ok {
					continue
				}
				off2 := off
				if off >= at {
					off2 = off + db
				}
				p2, ok := tbl2[off2]
				if !ok {
					continue
				}
				q1s, q2s := sc.posQueries(sc.Main, sc.File, p1), s2.posQueries(s2.Main, s2.File, p2)
				for i := range q1s {
					compare(q1s[i], q2s[i])
				}
			}
		}
		if len(run.Res.Samples) < 2 {
			run.Sample(map[string]interface{}{"src": string(sc.Src), "insertion_points": points})
		}
	}
}

// crossFileSelfAt: is there a declaration of another file, addressable as self.*, whose
// addressable-from byte range contains the position?
func crossFileSelfAt(pd *PathData, file string, pos hcl.Pos) bool {
	found := false
	var walk func(ts reference.Targets)
	walk = func(ts reference.Targets) {
		for _, t := range ts {
			if len(t.LocalAddr) > 0 && t.LocalAddr[0].String() == "self" && t.TargetableFromRangePtr != nil &&
				t.TargetableFromRangePtr.Filename != file && t.TargetableFromRangePtr.ContainsPos(pos) {
				found = true
			}
			walk(t.NestedTargets)
		}
	}
	walk(pd.Ctx.ReferenceTargets)
	return found
}

// jsonShiftOracle: the JSON rendering of a configuration (single-line and pretty), with blank lines inserted in
// front of the document (JSON has no comments): every path and file query on the translated file gives the
// translated result of the original.
func jsonShiftOracle(run *Run, n int) {
	for i := 0; i < n; i++ {
		r := rand.New(rand.NewSource(subSeed(run.Res.Seed, 1818000+i)))
		db := genDual(r)
		js := db.json(i%2 == 1)
		for _, ins := range []string{"\n", "\n\n\n", "  \n\t\n"} {
			mk := func(src string) *Scenario {
				w := newWorld()
				pd := w.AddPath("root", tfSchema(), map[string]string{"main.tf.json": src}, nil)
				w.Collect()
				return &Scenario{W: w, Main: pd, File: "main.tf.json", Src: []byte(src), Kind: "json"}
			}
			s1, s2 := mk(js), mk(ins+js)
			if s1.Main.Ctx.Files["main.tf.json"] == nil || s2.Main.Ctx.Files["main.tf.json"] == nil {
				continue
			}
			dl, dbytes := strings.Count(ins, "\n"), len(ins)
			q1 := append(s1.pathQueries(s1.Main), s1.fileQueries(s1.Main, s1.File)...)
			q2 := append(s2.pathQueries(s2.Main), s2.fileQueries(s2.Main, s2.File)...)
			for k := range q1 {
				r1, r2 := safeCall(q1[k].Name, q1[k].Run), safeCall(q2[k].Name, q2[k].Run)
				run.Res.Evaluations++
				want := Show(shiftS(outcomeNoErrText(r1), "main.tf.json", 0, dl, dbytes, -1))
				got := Show(outcomeNoErrText(r2))
				if len(want) > 30 {
					run.Distinct(fmt.Sprintf("json|%s|%q|%s", js, ins, q1[k].Name))
				}
				run.Count("json_shift_comparisons")
				if want != got {
					run.Violate(Violation{Key: "C18/result-changed/json/" + strings.SplitN(q1[k].Name, "(", 2)[0], Rule: "inserting blank or comment lines changes nothing except that positions at or after the insertion point move",
						Func: q1[k].Name, Detail: firstDiff(want, got), Replay: map[string]interface{}{"seed": run.Res.Seed, "kind": "json-shift", "config": i, "src": js, "inserted": ins, "query": q1[k].Name}})
				}
			}
		}
	}
}
