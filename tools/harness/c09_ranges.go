package main

import (
	"fmt"
	"sort"
	"strings"

	"github.com/zclconf/go-cty/cty"

	"github.com/hashicorp/hcl-lang/reference"
	"github.com/hashicorp/hcl-lang/schema"
	"github.com/hashicorp/hcl/v2/hclsyntax"
)

// elemRangeOracle: in the ground-truth language the element targets of nested list / map blocks
// (res.T.N.item[i], res.T.N.entry["k"]) and of object blocks (res.T.N.opts) must have exactly the
// extent and header of the block they stand for
func elemRangeOracle(run *Run, sc *Scenario, ts reference.Targets, loc map[string]interface{}) {
	f := sc.Main.Ctx.Files[sc.File]
	if f == nil {
		return
	}
	body, ok := f.Body.(*hclsyntax.Body)
	if !ok {
		return
	}
	q := Query{Name: "CollectReferenceTargets"}
	for _, blk := range body.Blocks {
		if blk.Type != "res" || len(blk.Labels) != 2 {
			continue
		}
		addr := "res." + blk.Labels[0] + "." + blk.Labels[1]
		for _, t := range ts {
			if t.Addr.String() != addr {
				continue
			}
			for _, n := range t.NestedTargets {
				var typ string
				switch n.Addr.String() {
				case addr + ".item":
					typ = "item"
				case addr + ".entry":
					typ = "entry"
				case addr + ".opts":
					typ = "opts"
				default:
					continue
				}
				var blocks []*hclsyntax.Block
				for _, nb := range blk.Body.Blocks {
					if nb.Type == typ {
						blocks = append(blocks, nb)
					}
				}
				check := func(e reference.Target, nb *hclsyntax.Block) {
					run.Res.Hypotheses["element_ranges_checked"]++
					if e.RangePtr == nil {
						return
					}
					if *e.RangePtr != nb.Range() {
						key := "C09/element-range-not-the-block/" + typ
						// the recorded defect: the first element's range is widened up to the end of a later sibling
						if len(blocks) > 1 && nb == blocks[0] && e.RangePtr.Start == nb.Range().Start {
							for _, later := range blocks[1:] {
								if e.RangePtr.End == later.Range().End {
									key += "/first-element-widened-over-following-blocks"
								}
							}
						}
						run.Violate(Violation{Key: key, Rule: "a target's range is the declaration's own extent", Func: "CollectReferenceTargets",
							Detail: fmt.Sprintf("%s has range %v, the block is %v", e.Addr.String(), *e.RangePtr, nb.Range()), Replay: locWith(loc, q)})
					}
					if e.DefRangePtr != nil && *e.DefRangePtr != nb.DefRange() {
						run.Violate(Violation{Key: "C09/element-def-range-not-the-header/" + typ, Rule: "a target's definition range is the declaration's header", Func: "CollectReferenceTargets",
							Detail: fmt.Sprintf("%s has definition range %v, the header is %v", e.Addr.String(), *e.DefRangePtr, nb.DefRange()), Replay: locWith(loc, q)})
					}
				}
				switch typ {
				case "opts":
					if len(blocks) > 0 {
						check(n, blocks[0])
					}
				case "item":
					for _, e := range n.NestedTargets {
						for i, nb := range blocks {
							if e.Addr.String() == fmt.Sprintf("%s.item[%d]", addr, i) {
								check(e, nb)
							}
						}
					}
				case "entry":
					for _, e := range n.NestedTargets {
						for _, nb := range blocks {
							if len(nb.Labels) == 1 && e.Addr.String() == fmt.Sprintf("%s.entry[%q]", addr, nb.Labels[0]) {
								check(e, nb)
								break
							}
						}
					}
				}
			}
		}
	}
}

// targetableOracle: every Targetable the static body of a written block declares yields a target with
// that address and scope on the block's own extent - whatever dependent body is also in force
func targetableOracle(run *Run, sc *Scenario, ts reference.Targets, loc map[string]interface{}) {
	f := sc.Main.Ctx.Files[sc.File]
	if f == nil {
		return
	}
	body, ok := f.Body.(*hclsyntax.Body)
	if !ok {
		return
	}
	q := Query{Name: "CollectReferenceTargets"}
	walkBlocks(body, sc.Main.Schema, 0, func(b *hclsyntax.Block, bsch *schema.BlockSchema, merged *schema.BodySchema, res int, depth int) {
		if bsch.Body == nil {
			return
		}
		for _, tb := range bsch.Body.TargetableAs {
			if tb == nil {
				continue
			}
			run.Res.Hypotheses["static_targetables_checked"]++
			if len(bsch.DependentBody) > 0 {
				run.Res.Hypotheses["static_targetables_with_dependent_bodies"]++
			}
			found := false
			for _, t := range ts {
				if t.Addr.String() == tb.Address.String() && t.ScopeId == tb.ScopeId && t.RangePtr != nil && *t.RangePtr == b.Range() {
					found = true
					break
				}
			}
			if !found {
				run.Violate(Violation{Key: "C09/static-targetable-without-target", Rule: "for every block the schema marks addressable (targetable-as) a target is collected on the block's extent",
					Func: "CollectReferenceTargets", Detail: fmt.Sprintf("block %s %v: no target %s (scope %s) on %v", b.Type, b.Labels, tb.Address.String(), tb.ScopeId, b.Range()), Replay: locWith(loc, q)})
			}
		}
	})
}

// valueOutline: the addresses a known value denotes below addr (object attributes, list indices, map keys)
func valueOutline(addr string, v cty.Value, out *[]string) {
	if v.IsNull() || !v.IsKnown() {
		return
	}
	t := v.Type()
	switch {
	case t.IsObjectType():
		for name := range t.AttributeTypes() {
			a := addr + "." + name
			*out = append(*out, a)
			valueOutline(a, v.GetAttr(name), out)
		}
	case t.IsListType() || t.IsTupleType():
		i := 0
		for it := v.ElementIterator(); it.Next(); i++ {
			_, ev := it.Element()
			a := fmt.Sprintf("%s[%d]", addr, i)
			*out = append(*out, a)
			valueOutline(a, ev, out)
		}
	case t.IsMapType():
		for it := v.ElementIterator(); it.Next(); {
			k, ev := it.Element()
			a := fmt.Sprintf("%s[%q]", addr, k.AsString())
			*out = append(*out, a)
			valueOutline(a, ev, out)
		}
	}
}

// cfgTargetableOracle: the declarations nested in the target of a "cfg" block are exactly the
// elements of the value it stands for, each extending its parent by the element's real key
func cfgTargetableOracle(run *Run, ts reference.Targets, loc map[string]interface{}) {
	var want []string
	valueOutline("cfgdata.net.out", cfgValue, &want)
	sort.Strings(want)
	q := Query{Name: "CollectReferenceTargets"}
	for _, t := range ts {
		if t.Addr.String() != "cfgdata.net.out" {
			continue
		}
		var got []string
		var walk func(ts reference.Targets)
		walk = func(ts reference.Targets) {
			for _, n := range ts {
				got = append(got, n.Addr.String())
				walk(n.NestedTargets)
			}
		}
		walk(t.NestedTargets)
		sort.Strings(got)
		run.Res.Hypotheses["value_targetables_checked"]++
		if strings.Join(got, " ") != strings.Join(want, " ") {
			run.Violate(Violation{Key: "C09/nested-targets-not-the-elements-of-the-value", Rule: "nested targets extend their parent's address by exactly one step that denotes the element's real position or key",
				Func: "CollectReferenceTargets", Detail: firstDiff(strings.Join(want, " "), strings.Join(got, " ")), Replay: locWith(loc, q)})
		}
	}
}
