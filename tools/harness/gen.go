package main

// Generators: schemas (every constraint kind, block type, address form, extension),
// schema-directed configurations (mostly valid + injected violations), expression shapes,
// and the typing-history / mutation stream.  Every random choice derives from one *rand.Rand.

import (
	"fmt"
	"math/rand"
	"sort"
	"strings"

	"github.com/hashicorp/hcl-lang/lang"
	"github.com/hashicorp/hcl-lang/schema"
	"github.com/hashicorp/hcl/v2"
	"github.com/hashicorp/hcl/v2/hclsyntax"
	"github.com/zclconf/go-cty/cty"
	"github.com/zclconf/go-cty/cty/function"
)

var attrNames = []string{"a", "ab", "abc", "b", "count", "for_each", "name", "type", "id", "attr", "x1", "each", "self", "source", "lbl", "abo\u0301d"}
var blockNames = []string{"res", "data", "blk", "nested", "content", "lifecycle", "b1", "ab", "dynamic", "provider"}
var labelVals = []string{"aws", "gcp", "x", "ab", "a-b", "é", "e\u0301x"}
var scopeIds = []lang.ScopeId{"", "variable", "resource", "local"}
var refRoots = []string{"var", "local", "data", "res", "blk", "self", "count", "each", "a"}

// depKeyIndex remembers, per generated block schema, the dependency keys its dependent bodies are
// registered under, so that the configuration generator can write blocks that select them.
var depKeyIndex = map[*schema.BlockSchema][]schema.DependencyKeys{}

type GenOpts struct {
	MaxDepth     int
	Degenerate   bool // keep Validate()-accepted but unusual shapes (nil bodies, empty one-of, nil elems)
	ManyAttrs    int  // >0: force that many attributes in the root body (limit tests)
	NoExtensions bool
	DynFocus     bool // the dynamic-blocks extension over dependent bodies whose nested blocks carry extensions of their own
}

// dynFocusSchema: a block type with the dynamic-blocks extension and label-dependent bodies whose
// nested block types have bodies with (or without) extensions of their own, two levels deep
func dynFocusSchema(r *rand.Rand) *schema.BodySchema {
	ext := func() *schema.BodyExtensions {
		return pick(r, []*schema.BodyExtensions{nil, {Count: true}, {SelfRefs: true}, {DynamicBlocks: true}, {ForEach: true}, {}})
	}
	inner := func() *schema.BlockSchema {
		if r.Intn(5) == 0 {
			return &schema.BlockSchema{MaxItems: uint64(r.Intn(2))} // a block type without a body schema
		}
		return &schema.BlockSchema{MinItems: uint64(r.Intn(2)), Body: &schema.BodySchema{
			Extensions: ext(),
			Attributes: map[string]*schema.AttributeSchema{"p": {IsOptional: true, Constraint: schema.LiteralType{Type: cty.String}}},
			Blocks: map[string]*schema.BlockSchema{"leaf": {MinItems: uint64(r.Intn(2)), Body: &schema.BodySchema{Extensions: ext(),
				Attributes: map[string]*schema.AttributeSchema{"q": {IsOptional: true, Constraint: schema.LiteralType{Type: cty.Number}}}}}},
		}}
	}
	res := &schema.BlockSchema{
		Labels: []*schema.LabelSchema{{Name: "type", IsDepKey: true}, {Name: "name"}},
		Body: &schema.BodySchema{
			Extensions: &schema.BodyExtensions{DynamicBlocks: true, Count: r.Intn(2) == 0},
			Attributes: map[string]*schema.AttributeSchema{"id": {IsOptional: true, Constraint: schema.LiteralType{Type: cty.String}},
				"static_wo": {IsRequired: true, IsWriteOnly: true, Constraint: schema.LiteralType{Type: cty.String}}},
			Blocks: map[string]*schema.BlockSchema{"static": inner()},
		},
		DependentBody: map[schema.SchemaKey]*schema.BodySchema{},
		MinItems:      3, // several blocks per file: resolved and unresolved dependent bodies side by side
	}
	res.Body.Blocks["static"].MinItems = 1
	for _, v := range []string{"aws", "gcp"} {
		dk := schema.DependencyKeys{Labels: []schema.LabelDependent{{Index: 0, Value: v}}}
		db := &schema.BodySchema{
			Attributes: map[string]*schema.AttributeSchema{"size": {IsOptional: true, Constraint: schema.LiteralType{Type: cty.Number}}},
			Blocks:     map[string]*schema.BlockSchema{"rule": inner()},
		}
		if r.Intn(2) == 0 {
			db.Blocks["opt"] = inner()
		}
		res.DependentBody[schema.NewSchemaKey(copyKeys(dk))] = db
		depKeyIndex[res] = append(depKeyIndex[res], dk)
	}
	// a block type whose dependent bodies are selected by three attribute values at once
	svc := &schema.BlockSchema{
		Body: &schema.BodySchema{Attributes: map[string]*schema.AttributeSchema{
			"engine": {IsOptional: true, IsDepKey: true, Constraint: schema.LiteralType{Type: cty.String}},
			"region": {IsOptional: true, IsDepKey: true, Constraint: schema.LiteralType{Type: cty.String}},
			"tier":   {IsOptional: true, IsDepKey: true, Constraint: schema.LiteralType{Type: cty.String}},
			"title":  {IsOptional: true, Constraint: schema.LiteralType{Type: cty.String}},
		}},
		DependentBody: map[schema.SchemaKey]*schema.BodySchema{},
	}
	for _, vals := range [][3]string{{"pg", "eu", "v1"}, {"my", "us", "v2"}} {
		dk := schema.DependencyKeys{Attributes: []schema.AttributeDependent{
			{Name: "tier", Expr: schema.ExpressionValue{Static: cty.StringVal(vals[2])}},
			{Name: "engine", Expr: schema.ExpressionValue{Static: cty.StringVal(vals[0])}},
			{Name: "region", Expr: schema.ExpressionValue{Static: cty.StringVal(vals[1])}},
		}}
		svc.DependentBody[schema.NewSchemaKey(copyKeys(dk))] = &schema.BodySchema{
			Attributes: map[string]*schema.AttributeSchema{
				"replicas": {IsOptional: true, Constraint: schema.LiteralType{Type: cty.Number}},
				"storage":  {IsRequired: true, Constraint: schema.LiteralType{Type: cty.String}},
			},
			Blocks: map[string]*schema.BlockSchema{"rule": inner()},
		}
		depKeyIndex[svc] = append(depKeyIndex[svc], dk)
	}
	// a block type whose static body has an empty (non-nil) attribute map, as schema.NewBodySchema() builds it:
	// everything comes from the label-selected dependent body
	plug := &schema.BlockSchema{
		Labels:        []*schema.LabelSchema{{Name: "kind", IsDepKey: true}},
		Body:          schema.NewBodySchema(),
		DependentBody: map[schema.SchemaKey]*schema.BodySchema{},
		MinItems:      2,
	}
	for _, v := range []string{"aws", "gcp"} {
		dk := schema.DependencyKeys{Labels: []schema.LabelDependent{{Index: 0, Value: v}}}
		db := &schema.BodySchema{Attributes: map[string]*schema.AttributeSchema{
			v + "_only": {IsOptional: true, Constraint: schema.LiteralType{Type: cty.String}},
			"common":    {IsOptional: true, Constraint: schema.LiteralType{Type: cty.Number}},
		}}
		if v == "aws" {
			// declarations the block stands for, listed in no particular order
			db.TargetableAs = schema.Targetables{{Address: lang.Address{lang.RootStep{Name: "plug"}, lang.AttrStep{Name: "aws"}}, ScopeId: "resource", AsType: cty.DynamicPseudoType,
				NestedTargetables: schema.Targetables{
					{Address: lang.Address{lang.RootStep{Name: "plug"}, lang.AttrStep{Name: "aws"}, lang.AttrStep{Name: "zone"}}, ScopeId: "resource", AsType: cty.String},
					{Address: lang.Address{lang.RootStep{Name: "plug"}, lang.AttrStep{Name: "aws"}, lang.AttrStep{Name: "name"}}, ScopeId: "resource", AsType: cty.String},
					{Address: lang.Address{lang.RootStep{Name: "plug"}, lang.AttrStep{Name: "aws"}, lang.AttrStep{Name: "id"}}, ScopeId: "resource", AsType: cty.String},
				}}}
		}
		plug.DependentBody[schema.NewSchemaKey(copyKeys(dk))] = db
		depKeyIndex[plug] = append(depKeyIndex[plug], dk)
	}
	// one block schema object used in two places: inside a dependent body under the dynamic-blocks
	// extension, and under a plain block
	shared := inner()
	for k := range res.DependentBody {
		res.DependentBody[k].Blocks["conn"] = shared
	}
	if shared.Body != nil {
		shared.MinItems = 1
	}
	plain := &schema.BlockSchema{MinItems: 1, Body: &schema.BodySchema{
		Attributes: map[string]*schema.AttributeSchema{"note": {IsOptional: true, Constraint: schema.LiteralType{Type: cty.String}}},
		Blocks:     map[string]*schema.BlockSchema{"conn": shared},
	}}
	// token modifiers accumulated over two block levels (spare capacity in the accumulated slice), several
	// attributes with modifiers of their own in the inner body
	mods := &schema.BlockSchema{MinItems: 1, SemanticTokenModifiers: lang.SemanticTokenModifiers{"m-outer-1", "m-outer-2"},
		Body: &schema.BodySchema{
			Attributes: map[string]*schema.AttributeSchema{"mo": {IsOptional: true, Constraint: schema.LiteralType{Type: cty.String}, SemanticTokenModifiers: lang.SemanticTokenModifiers{"m-mo"}}},
			Blocks: map[string]*schema.BlockSchema{"minner": {MinItems: 1, SemanticTokenModifiers: lang.SemanticTokenModifiers{"m-inner"},
				Body: &schema.BodySchema{Attributes: map[string]*schema.AttributeSchema{
					"ma": {IsRequired: true, Constraint: schema.LiteralType{Type: cty.String}, SemanticTokenModifiers: lang.SemanticTokenModifiers{"m-a"}},
					"mb": {IsRequired: true, Constraint: schema.LiteralType{Type: cty.Number}, SemanticTokenModifiers: lang.SemanticTokenModifiers{"m-b"}},
					"mc": {IsRequired: true, Constraint: schema.LiteralType{Type: cty.Bool}, SemanticTokenModifiers: lang.SemanticTokenModifiers{"m-c1", "m-c2"}},
				}}}},
		}}
	// write-only attributes of resource blocks, documentation links of bodies selected by several attributes
	for _, db := range res.DependentBody {
		db.Attributes["secret_wo"] = &schema.AttributeSchema{IsRequired: true, IsWriteOnly: true, Constraint: schema.LiteralType{Type: cty.String}}
		db.Attributes["token_wo"] = &schema.AttributeSchema{IsRequired: true, IsWriteOnly: true, Constraint: schema.LiteralType{Type: cty.String}}
		db.Attributes["key_wo"] = &schema.AttributeSchema{IsRequired: true, IsWriteOnly: true, Constraint: schema.LiteralType{Type: cty.String}}
		db.DocsLink = &schema.DocsLink{URL: "https://example.com/docs/res?b=2&a=1", Tooltip: "res docs"}
	}
	for _, db := range svc.DependentBody {
		db.DocsLink = &schema.DocsLink{URL: "https://example.com/docs/svc", Tooltip: "svc docs"}
	}
	// the label that selects the body is not the first one
	late := &schema.BlockSchema{MinItems: 1,
		Labels:        []*schema.LabelSchema{{Name: "name"}, {Name: "kind", IsDepKey: true, Completable: true}, {Name: "alias"}},
		Body:          &schema.BodySchema{Attributes: map[string]*schema.AttributeSchema{"note": {IsOptional: true, Constraint: schema.LiteralType{Type: cty.String}}}},
		DependentBody: map[schema.SchemaKey]*schema.BodySchema{}}
	for _, v := range []string{"aws", "gcp"} {
		dk := schema.DependencyKeys{Labels: []schema.LabelDependent{{Index: 1, Value: v}}}
		late.DependentBody[schema.NewSchemaKey(copyKeys(dk))] = &schema.BodySchema{
			Attributes: map[string]*schema.AttributeSchema{v + "_size": {IsOptional: true, Constraint: schema.LiteralType{Type: cty.Number}}},
			DocsLink:   &schema.DocsLink{URL: "https://example.com/docs/late/" + v, Tooltip: v + " docs"}}
		depKeyIndex[late] = append(depKeyIndex[late], dk)
	}
	// declarations the root body itself stands for (the root schema is used as supplied, never copied), nested
	// ones listed in no particular order
	rootAddr := func(steps ...string) lang.Address {
		a := lang.Address{lang.RootStep{Name: "focus"}}
		for _, s := range steps {
			a = append(a, lang.AttrStep{Name: s})
		}
		return a
	}
	rootTargetable := &schema.Targetable{Address: rootAddr(), ScopeId: "resource", AsType: cty.DynamicPseudoType,
		NestedTargetables: schema.Targetables{
			{Address: rootAddr("zone"), ScopeId: "resource", AsType: cty.String},
			{Address: rootAddr("alpha"), ScopeId: "resource", AsType: cty.String,
				NestedTargetables: schema.Targetables{
					{Address: rootAddr("alpha", "y"), ScopeId: "resource", AsType: cty.Number},
					{Address: rootAddr("alpha", "b"), ScopeId: "resource", AsType: cty.Number},
				}},
			{Address: rootAddr("mid"), ScopeId: "resource", AsType: cty.Bool},
		}}
	return &schema.BodySchema{TargetableAs: schema.Targetables{rootTargetable},
		Blocks: map[string]*schema.BlockSchema{"resource": res, "svc": svc, "plug": plug, "plain": plain, "mods": mods, "late": late}}
}

func genType(r *rand.Rand, d int) cty.Type {
	n := 9
	if d <= 0 {
		n = 4
	}
	switch r.Intn(n) {
	case 0:
		return cty.Bool
	case 1:
		return cty.Number
	case 2:
		return cty.String
	case 3:
		return cty.DynamicPseudoType
	case 4:
		return cty.List(genType(r, d-1))
	case 5:
		return cty.Set(genType(r, d-1))
	case 6:
		return cty.Map(genType(r, d-1))
	case 7:
		k := r.Intn(3)
		ts := make([]cty.Type, k)
		for i := range ts {
			ts[i] = genType(r, d-1)
		}
		return cty.Tuple(ts)
	default:
		k := r.Intn(3)
		m := map[string]cty.Type{}
		var opt []string
		for i := 0; i < k; i++ {
			nm := pick(r, attrNames)
			m[nm] = genType(r, d-1)
			if r.Intn(3) == 0 {
				opt = append(opt, nm)
			}
		}
		if len(opt) > 0 {
			return cty.ObjectWithOptionalAttrs(m, opt)
		}
		return cty.Object(m)
	}
}

func genValue(r *rand.Rand, d int) cty.Value {
	switch r.Intn(6) {
	case 0:
		return cty.BoolVal(r.Intn(2) == 0)
	case 1:
		return cty.NumberIntVal(int64(r.Intn(100)))
	case 2, 3:
		return cty.StringVal(pick(r, []string{"foo", "bar", "v1", "v2", "a b", "é", "q\"x"}))
	case 4:
		if d > 0 {
			switch r.Intn(4) {
			case 0:
				return cty.SetVal([]cty.Value{cty.StringVal("one"), cty.StringVal("two")})
			case 1:
				return cty.MapVal(map[string]cty.Value{"k1": cty.NumberIntVal(1), "k2": cty.NumberIntVal(2)})
			case 2:
				return cty.TupleVal([]cty.Value{cty.StringVal("t"), cty.NumberIntVal(3)})
			}
			return cty.ListVal([]cty.Value{cty.StringVal("l1"), cty.StringVal("l2")})
		}
		return cty.NumberFloatVal(1.5)
	default:
		if d > 0 {
			return cty.ObjectVal(map[string]cty.Value{"k": cty.StringVal("v"), "n": cty.NumberIntVal(1)})
		}
		return cty.StringVal("v1")
	}
}

func genConstraint(r *rand.Rand, d int, o *GenOpts) schema.Constraint {
	n := 12
	if d <= 0 {
		n = 6
	}
	switch r.Intn(n) {
	case 0:
		return schema.AnyExpression{OfType: genType(r, 2), SkipLiteralComplexTypes: r.Intn(5) == 0}
	case 1:
		return schema.LiteralType{Type: genType(r, 2), SkipComplexTypes: r.Intn(5) == 0}
	case 2:
		return schema.LiteralValue{Value: genValue(r, 1), IsDeprecated: r.Intn(6) == 0, Description: lang.Markdown("lv")}
	case 3:
		return schema.Keyword{Keyword: pick(r, []string{"kw", "keyword", "abc", "k$w"}), Name: pick(r, []string{"", "kwname"}), Description: lang.PlainText("a keyword")}
	case 4:
		switch r.Intn(3) {
		case 0:
			return schema.Reference{OfScopeId: pick(r, scopeIds[1:])}
		case 1:
			return schema.Reference{OfType: genType(r, 1), OfScopeId: pick(r, scopeIds)}
		default:
			return schema.Reference{Address: &schema.ReferenceAddrSchema{ScopeId: pick(r, scopeIds[1:])}, Name: "refname"}
		}
	case 5:
		return schema.TypeDeclaration{}
	case 6:
		return schema.List{Elem: genElem(r, d, o), MinItems: uint64(r.Intn(2)), MaxItems: uint64(r.Intn(3)), Description: lang.Markdown("list")}
	case 7:
		return schema.Set{Elem: genElem(r, d, o), MinItems: uint64(r.Intn(2)), Description: lang.Markdown("set")}
	case 8:
		k := r.Intn(3)
		if o.Degenerate && r.Intn(3) == 0 {
			k = 0
		}
		es := make([]schema.Constraint, k)
		for i := range es {
			es[i] = genConstraint(r, d-1, o)
		}
		return schema.Tuple{Elems: es}
	case 9:
		return schema.Map{Elem: genElem(r, d, o), Name: pick(r, []string{"", "mapname"}), AllowInterpolatedKeys: r.Intn(2) == 0, MinItems: uint64(r.Intn(2))}
	case 10:
		k := r.Intn(4)
		oa := schema.ObjectAttributes{}
		for i := 0; i < k; i++ {
			oa[pick(r, attrNames)] = genAttrSchema(r, d-1, o, false)
		}
		if o.Degenerate && r.Intn(4) == 0 {
			oa = nil
		}
		return schema.Object{Attributes: oa, Name: pick(r, []string{"", "objname"}), AllowInterpolatedKeys: r.Intn(2) == 0}
	default:
		k := 1 + r.Intn(3)
		if o.Degenerate && r.Intn(3) == 0 {
			k = 0
		}
		oo := schema.OneOf{}
		for i := 0; i < k; i++ {
			oo = append(oo, genConstraint(r, d-1, o))
		}
		return oo
	}
}

func genElem(r *rand.Rand, d int, o *GenOpts) schema.Constraint {
	if o.Degenerate && r.Intn(4) == 0 {
		return nil
	}
	return genConstraint(r, d-1, o)
}

func genMods(r *rand.Rand) lang.SemanticTokenModifiers {
	n := []int{0, 0, 0, 1, 1, 2, 2, 3}[r.Intn(8)]
	var m lang.SemanticTokenModifiers
	for i := 0; i < n; i++ {
		m = append(m, lang.SemanticTokenModifier(pick(r, []string{"m-a", "m-b", "m-c", "m-d", "hcl-dependent"})+fmt.Sprint(i)))
	}
	return m
}

func genAttrSchema(r *rand.Rand, d int, o *GenOpts, allowAddr bool) *schema.AttributeSchema {
	as := &schema.AttributeSchema{
		Constraint:             genConstraint(r, d, o),
		Description:            lang.Markdown(pick(r, []string{"", "desc **a**", "attr description"})),
		IsDeprecated:           r.Intn(7) == 0,
		IsSensitive:            r.Intn(7) == 0,
		IsWriteOnly:            r.Intn(9) == 0,
		SemanticTokenModifiers: genMods(r),
	}
	switch r.Intn(6) {
	case 0, 1:
		as.IsRequired = true
	case 2, 3:
		as.IsOptional = true
	case 4:
		as.IsOptional, as.IsComputed = true, true
	default:
		as.IsComputed = true
	}
	if allowAddr && r.Intn(3) == 0 {
		steps := schema.Address{schema.StaticStep{Name: pick(r, refRoots)}, schema.AttrNameStep{}}
		if r.Intn(4) == 0 {
			steps = schema.Address{schema.AttrNameStep{}}
		}
		a := &schema.AttributeAddrSchema{Steps: steps, ScopeId: pick(r, scopeIds), FriendlyName: pick(r, []string{"", "friendly"})}
		switch r.Intn(3) {
		case 0:
			a.AsExprType = true
		case 1:
			a.AsReference = true
		default:
			a.AsExprType, a.AsReference = true, true
		}
		as.Address = a
	}
	if r.Intn(8) == 0 {
		as.CompletionHooks = lang.CompletionHooks{{Name: "hook1"}}
	}
	if r.Intn(10) == 0 {
		as.OriginForTarget = &schema.PathTarget{
			Address:     schema.Address{schema.StaticStep{Name: "var"}, schema.AttrNameStep{}},
			Path:        lang.Path{Path: "other", LanguageID: "hcl"},
			Constraints: schema.Constraints{ScopeId: "variable", Type: cty.DynamicPseudoType},
		}
	}
	return as
}

func genBlockAddr(r *rand.Rand, nLabels int, depAttr string) *schema.BlockAddrSchema {
	steps := schema.Address{schema.StaticStep{Name: pick(r, []string{"res", "blk", "data", "var"})}}
	for i := 0; i < nLabels; i++ {
		steps = append(steps, schema.LabelStep{Index: uint(i)})
	}
	if depAttr != "" && r.Intn(2) == 0 {
		steps = append(steps, schema.AttrValueStep{Name: depAttr, IsOptional: r.Intn(2) == 0})
	}
	if r.Intn(10) == 0 { // label index beyond the schema's labels
		steps = append(steps, schema.LabelStep{Index: uint(nLabels)})
	}
	a := &schema.BlockAddrSchema{Steps: steps, ScopeId: pick(r, scopeIds), FriendlyName: pick(r, []string{"", "blockfriendly"})}
	switch r.Intn(5) {
	case 0:
		a.AsReference = true
	case 1:
		a.BodyAsData = true
		a.InferBody = r.Intn(2) == 0
		a.BodySelfRef = a.InferBody && r.Intn(2) == 0
	case 2:
		a.DependentBodyAsData = true
		a.InferDependentBody = r.Intn(2) == 0
		a.DependentBodySelfRef = a.InferDependentBody && r.Intn(2) == 0
		a.BodyAsData = r.Intn(2) == 0
		a.InferBody = a.BodyAsData && r.Intn(2) == 0
	case 3:
		a.AsTypeOf = &schema.BlockAsTypeOf{AttributeExpr: pick(r, []string{"type", "a"})}
	default:
		a.AsReference = true
		a.BodyAsData, a.InferBody = true, true
	}
	a.SupportUnknownNestedRefs = r.Intn(6) == 0
	return a
}

func genBodySchema(r *rand.Rand, depth int, o *GenOpts, top bool) *schema.BodySchema {
	bs := &schema.BodySchema{
		Description: lang.Markdown(pick(r, []string{"", "body desc"})),
		Detail:      pick(r, []string{"", "detail"}),
	}
	if !o.NoExtensions && r.Intn(3) == 0 {
		bs.Extensions = &schema.BodyExtensions{Count: r.Intn(2) == 0, ForEach: r.Intn(2) == 0, DynamicBlocks: r.Intn(2) == 0, SelfRefs: r.Intn(2) == 0}
	}
	if r.Intn(6) == 0 && !top {
		bs.AnyAttribute = genAttrSchema(r, 1, o, true)
	} else {
		n := r.Intn(5)
		if top && o.ManyAttrs > 0 {
			n = o.ManyAttrs
		}
		if n > 0 || r.Intn(2) == 0 {
			bs.Attributes = map[string]*schema.AttributeSchema{}
		}
		for i := 0; i < n; i++ {
			name := pick(r, attrNames)
			if top && o.ManyAttrs > 0 {
				name = fmt.Sprintf("%s%d", pick(r, []string{"a", "ab", "b"}), i)
			}
			bs.Attributes[name] = genAttrSchema(r, 2, o, true)
		}
	}
	if depth > 0 {
		n := r.Intn(4)
		if top {
			n = 1 + r.Intn(3)
		}
		if n > 0 || r.Intn(2) == 0 {
			bs.Blocks = map[string]*schema.BlockSchema{}
		}
		for i := 0; i < n; i++ {
			bs.Blocks[pick(r, blockNames)] = genBlockSchema(r, depth-1, o)
		}
	}
	if r.Intn(8) == 0 {
		bs.DocsLink = &schema.DocsLink{URL: "https://example.com/docs", Tooltip: "docs"}
	}
	if r.Intn(8) == 0 {
		bs.TargetableAs = schema.Targetables{{Address: lang.Address{lang.RootStep{Name: "tgt"}, lang.AttrStep{Name: "x"}}, ScopeId: "local", AsType: cty.String}}
	}
	if r.Intn(12) == 0 {
		bs.Targets = &schema.Target{Path: lang.Path{Path: "other", LanguageID: "hcl"}, Range: hcl.Range{Filename: callerSupplied, Start: hcl.InitialPos, End: hcl.InitialPos}}
	}
	if r.Intn(12) == 0 {
		bs.ImpliedOrigins = schema.ImpliedOrigins{{OriginAddress: lang.Address{lang.RootStep{Name: "var"}, lang.AttrStep{Name: "a"}},
			TargetAddress: lang.Address{lang.RootStep{Name: "var"}, lang.AttrStep{Name: "a"}}, Path: lang.Path{Path: "other", LanguageID: "hcl"},
			Constraints: schema.Constraints{ScopeId: "variable", Type: cty.DynamicPseudoType}}}
	}
	return bs
}

func genBlockSchema(r *rand.Rand, depth int, o *GenOpts) *schema.BlockSchema {
	b := &schema.BlockSchema{
		Description:            lang.Markdown(pick(r, []string{"", "block desc"})),
		IsDeprecated:           r.Intn(8) == 0,
		SemanticTokenModifiers: genMods(r),
		Type:                   schema.BlockType(r.Intn(5)),
	}
	if r.Intn(2) == 0 {
		b.Type = schema.BlockTypeNil
	}
	if r.Intn(3) == 0 {
		b.MinItems = uint64(r.Intn(3))
	}
	if r.Intn(3) == 0 {
		b.MaxItems = uint64(1 + r.Intn(2))
	}
	nl := r.Intn(3)
	depLabel := false
	for i := 0; i < nl; i++ {
		l := &schema.LabelSchema{Name: pick(r, []string{"type", "name", "lbl"}), Description: lang.PlainText("label"), SemanticTokenModifiers: genMods(r)}
		if r.Intn(2) == 0 {
			l.IsDepKey = true
			depLabel = true
			l.Completable = r.Intn(3) > 0
		}
		b.Labels = append(b.Labels, l)
	}
	if !(o.Degenerate && r.Intn(3) == 0) {
		b.Body = genBodySchema(r, depth, o, false)
	}
	depAttr := ""
	if b.Body != nil && b.Body.Attributes != nil && r.Intn(3) == 0 {
		// a dependency-key attribute
		depAttr = pick(r, []string{"type", "source", "a"})
		as := &schema.AttributeSchema{Constraint: schema.LiteralType{Type: cty.String}, IsOptional: true, IsDepKey: true,
			SemanticTokenModifiers: lang.SemanticTokenModifiers{lang.TokenModifierDependent}}
		if r.Intn(3) == 0 {
			as.DefaultValue = schema.DefaultValue{Value: cty.StringVal("v1")}
		}
		if r.Intn(4) == 0 {
			as.Constraint = schema.OneOf{schema.Reference{OfScopeId: "variable"}, schema.LiteralType{Type: cty.String}}
		}
		b.Body.Attributes[depAttr] = as
	}
	if depLabel || depAttr != "" {
		b.DependentBody = map[schema.SchemaKey]*schema.BodySchema{}
		k := 1 + r.Intn(3)
		for i := 0; i < k; i++ {
			dk := schema.DependencyKeys{}
			for li, l := range b.Labels {
				if l.IsDepKey {
					dk.Labels = append(dk.Labels, schema.LabelDependent{Index: li, Value: pick(r, labelVals)})
				}
			}
			if depAttr != "" && r.Intn(4) > 0 {
				ev := schema.ExpressionValue{Static: cty.StringVal(pick(r, []string{"v1", "v2"}))}
				if r.Intn(5) == 0 {
					ev = schema.ExpressionValue{Address: lang.Address{lang.RootStep{Name: "var"}, lang.AttrStep{Name: "a"}}}
				}
				dk.Attributes = append(dk.Attributes, schema.AttributeDependent{Name: depAttr, Expr: ev})
			}
			db := genBodySchema(r, depth, o, false)
			if r.Intn(2) == 0 {
				// second level of dependency keys: the nested lookup uses the labels plus the
				// dependency-key attributes of the first-level dependent body only
				if db.Attributes == nil {
					db.Attributes = map[string]*schema.AttributeSchema{}
					db.AnyAttribute = nil
				}
				db.Attributes["mode"] = &schema.AttributeSchema{Constraint: schema.LiteralType{Type: cty.String}, IsOptional: true, IsDepKey: true}
				if r.Intn(3) == 0 {
					db.Attributes["mode"].DefaultValue = schema.DefaultValue{Value: cty.StringVal("m1")}
				}
				dk2 := schema.DependencyKeys{Labels: append([]schema.LabelDependent{}, dk.Labels...)}
				dk2.Attributes = append(dk2.Attributes, schema.AttributeDependent{Name: "mode", Expr: schema.ExpressionValue{Static: cty.StringVal("m1")}})
				b.DependentBody[schema.NewSchemaKey(copyKeys(dk2))] = genBodySchema(r, depth, o, false)
				depKeyIndex[b] = append(depKeyIndex[b], dk2)
			}
			depKeyIndex[b] = append(depKeyIndex[b], dk)
			b.DependentBody[schema.NewSchemaKey(copyKeys(dk))] = db
		}
	}
	if r.Intn(2) == 0 {
		b.Address = genBlockAddr(r, nl, depAttr)
	}
	return b
}

func genFunctions(r *rand.Rand) map[string]schema.FunctionSignature {
	p := func(n string, t cty.Type) function.Parameter { return function.Parameter{Name: n, Type: t} }
	vp := p("rest", cty.String)
	// parameter lists cut from one shared list with spare capacity, as a generated function table has:
	// fv's list ends where fv2's second parameter lives
	pool := append(make([]function.Parameter, 0, 8), p("sep", cty.String), p("second", cty.Number))
	return map[string]schema.FunctionSignature{
		"fv2":            {ReturnType: cty.String, Params: pool[:2]},
		"f0":             {ReturnType: cty.String, Description: "no params"},
		"f1":             {ReturnType: cty.String, Params: []function.Parameter{p("s", cty.String)}},
		"f2":             {ReturnType: cty.Number, Params: []function.Parameter{p("x", cty.Number), p("y", cty.Number)}},
		"fv":             {ReturnType: cty.List(cty.String), Params: pool[:1], VarParam: &vp},
		"fonlyv":         {ReturnType: cty.Bool, VarParam: &vp},
		"fdyn":           {ReturnType: cty.DynamicPseudoType, Params: []function.Parameter{p("v", cty.DynamicPseudoType)}},
		"provider::a::b": {ReturnType: cty.String, Params: []function.Parameter{p("s", cty.String)}},
	}
}

// ---------------------------------------------------------------- expressions

type exprGen struct {
	r *rand.Rand
}

func (g *exprGen) ref() string {
	r := g.r
	s := pick(r, refRoots)
	for i, n := 0, r.Intn(3); i < n; i++ {
		switch r.Intn(4) {
		case 0:
			s += fmt.Sprintf("[%d]", r.Intn(3))
		case 1:
			s += fmt.Sprintf("[%q]", pick(r, labelVals))
		default:
			s += "." + pick(r, append(attrNames, labelVals[:4]...))
		}
	}
	return s
}

func (g *exprGen) literal(t cty.Type, d int) string {
	r := g.r
	if (t == cty.Bool || t == cty.Number || t == cty.String) && r.Intn(8) == 0 {
		// a typed null / an expression the evaluator reduces to a null of that type
		return "true ? null : " + g.literal(t, d-1)
	}
	switch {
	case t == cty.Bool:
		return pick(r, []string{"true", "false"})
	case t == cty.Number:
		return pick(r, []string{"0", "42", "1.5", "-3"})
	case t == cty.String:
		return pick(r, []string{`"foo"`, `"v1"`, `"v2"`, `"é世"`, `""`, "<<EOT\nheredoc\nEOT", `"a b"`, "\"o\u0301 👨‍👩‍👧\""})
	case t == cty.DynamicPseudoType:
		return pick(r, []string{`"dyn"`, "7", "true", "[1, 2]", "{ k = 1 }"})
	case t.IsListType() || t.IsSetType():
		n := r.Intn(3)
		var es []string
		for i := 0; i < n; i++ {
			es = append(es, g.literal(t.ElementType(), d-1))
		}
		return "[" + strings.Join(es, ", ") + "]"
	case t.IsTupleType():
		var es []string
		for _, et := range t.TupleElementTypes() {
			es = append(es, g.literal(et, d-1))
		}
		return "[" + strings.Join(es, ", ") + "]"
	case t.IsMapType():
		n := r.Intn(3)
		var es []string
		for i := 0; i < n; i++ {
			es = append(es, fmt.Sprintf("%s = %s", pick(r, []string{"k1", "k2", `"q k"`}), g.literal(t.ElementType(), d-1)))
		}
		return g.obj(es)
	case t.IsObjectType():
		var es []string
		for _, n := range sortedKeys(t.AttributeTypes()) {
			if r.Intn(4) == 0 {
				continue
			}
			es = append(es, fmt.Sprintf("%s = %s", n, g.literal(t.AttributeType(n), d-1)))
		}
		return g.obj(es)
	}
	return "null"
}

func (g *exprGen) obj(items []string) string {
	if len(items) == 0 {
		return "{}"
	}
	if g.r.Intn(2) == 0 {
		return "{ " + strings.Join(items, ", ") + " }"
	}
	return "{\n    " + strings.Join(items, "\n    ") + "\n  }"
}

// any: an arbitrary expression shape around references
func (g *exprGen) any(d int) string {
	r := g.r
	if d <= 0 {
		switch r.Intn(4) {
		case 0:
			return g.ref()
		case 1:
			return pick(r, []string{"1", `"s"`, "true", "null"})
		default:
			return g.ref()
		}
	}
	switch r.Intn(14) {
	case 0:
		return g.any(d-1) + pick(r, []string{" + ", " - ", " * ", " == ", " && ", " || ", " < "}) + g.any(d-1)
	case 1:
		return pick(r, []string{"!", "-"}) + g.any(d-1)
	case 2:
		return g.any(d-1) + " ? " + g.any(d-1) + " : " + g.any(d-1)
	case 3:
		return `"pre-${` + g.any(d-1) + `}-post"`
	case 4:
		return `"${` + g.ref() + `}"`
	case 5:
		return "[for k, v in " + g.any(d-1) + " : " + g.any(d-1) + pick(r, []string{"", " if " + g.any(d-1)}) + "]"
	case 6:
		return "{for k, v in " + g.any(d-1) + " : k => " + g.any(d-1) + "}"
	case 7:
		return g.ref() + "[" + g.any(d-1) + "]"
	case 8:
		return g.ref() + "[*]." + pick(r, attrNames)
	case 9:
		fn := pick(r, []string{"f0", "f1", "f2", "fv", "fonlyv", "fdyn", "unknownfn", "provider::a::b"})
		n := r.Intn(4)
		var as []string
		for i := 0; i < n; i++ {
			as = append(as, g.any(d-1))
		}
		return fn + "(" + strings.Join(as, ", ") + ")"
	case 10:
		return "(" + g.any(d-1) + ")"
	case 11:
		return "[" + g.any(d-1) + ", " + g.any(d-1) + "]"
	case 12:
		return "{ " + pick(r, []string{"k", `"k"`, "(var.k)", `"${var.k}"`}) + " = " + g.any(d-1) + " }"
	default:
		return g.ref()
	}
}

func typeDeclText(r *rand.Rand, d int) string {
	if d <= 0 {
		return pick(r, []string{"string", "number", "bool", "any"})
	}
	switch r.Intn(8) {
	case 0:
		return "list(" + typeDeclText(r, d-1) + ")"
	case 1:
		return "set(" + typeDeclText(r, d-1) + ")"
	case 2:
		return "map(" + typeDeclText(r, d-1) + ")"
	case 3:
		return "tuple([" + typeDeclText(r, d-1) + ", " + typeDeclText(r, d-1) + "])"
	case 4:
		return "object({ a = " + typeDeclText(r, d-1) + ", b = optional(" + typeDeclText(r, d-1) + ") })"
	case 5:
		return "object({\n    a = " + typeDeclText(r, d-1) + "\n  })"
	default:
		return pick(r, []string{"string", "number", "bool", "any", "list", "map"})
	}
}

// forCons: text that mostly conforms to the constraint
func (g *exprGen) forCons(c schema.Constraint, d int) string {
	r := g.r
	if c == nil || r.Intn(7) == 0 {
		return g.any(2)
	}
	switch cc := c.(type) {
	case schema.AnyExpression:
		if r.Intn(2) == 0 {
			return g.any(2)
		}
		return g.literal(cc.OfType, 2)
	case schema.LiteralType:
		return g.literal(cc.Type, 2)
	case schema.LiteralValue:
		if cc.Value.IsKnown() && !cc.Value.IsNull() {
			switch {
			case cc.Value.Type() == cty.String:
				return fmt.Sprintf("%q", cc.Value.AsString())
			case cc.Value.Type() == cty.Bool:
				return fmt.Sprintf("%v", cc.Value.True())
			case cc.Value.Type() == cty.Number:
				return cc.Value.AsBigFloat().Text('f', -1)
			}
		}
		if cc.Value.IsKnown() && !cc.Value.IsNull() && (cc.Value.Type().IsSetType() || cc.Value.Type().IsListType() || cc.Value.Type().IsTupleType()) && r.Intn(2) == 0 {
			// the declared elements, some of them replaced by literals of another type or missing
			var es []string
			for it := cc.Value.ElementIterator(); it.Next(); {
				_, v := it.Element()
				switch r.Intn(4) {
				case 0:
					es = append(es, pick(r, []string{"2", "true", "null", `"zzz"`, "[]"}))
				case 1:
				default:
					es = append(es, g.literal(v.Type(), 1))
				}
			}
			return "[" + strings.Join(es, ", ") + "]"
		}
		return g.literal(cc.Value.Type(), 2)
	case schema.Keyword:
		if r.Intn(4) == 0 {
			return "other"
		}
		return cc.Keyword
	case schema.Reference:
		return g.ref()
	case schema.TypeDeclaration:
		return typeDeclText(r, 2)
	case schema.List:
		n := r.Intn(3)
		var es []string
		for i := 0; i < n; i++ {
			es = append(es, g.forCons(cc.Elem, d-1))
		}
		return "[" + strings.Join(es, ", ") + "]"
	case schema.Set:
		n := r.Intn(3)
		var es []string
		for i := 0; i < n; i++ {
			es = append(es, g.forCons(cc.Elem, d-1))
		}
		return "[" + strings.Join(es, ", ") + "]"
	case schema.Tuple:
		var es []string
		for _, e := range cc.Elems {
			es = append(es, g.forCons(e, d-1))
		}
		if r.Intn(4) == 0 {
			es = append(es, g.any(1))
		}
		return "[" + strings.Join(es, ", ") + "]"
	case schema.Map:
		n := r.Intn(3)
		var es []string
		for i := 0; i < n; i++ {
			es = append(es, fmt.Sprintf("%s = %s", pick(r, []string{"k1", "k2", `"q k"`, `"${var.k}"`, "(var.k)"}), g.forCons(cc.Elem, d-1)))
		}
		return g.obj(es)
	case schema.Object:
		var es []string
		for _, n := range sortedKeys(cc.Attributes) {
			if r.Intn(3) == 0 {
				continue
			}
			key := n
			if r.Intn(5) == 0 {
				key = fmt.Sprintf("%q", n)
			}
			es = append(es, fmt.Sprintf("%s = %s", key, g.forCons(cc.Attributes[n].Constraint, d-1)))
		}
		if r.Intn(5) == 0 {
			es = append(es, "unknownkey = 1")
		}
		return g.obj(es)
	case schema.OneOf:
		if len(cc) == 0 {
			return g.any(1)
		}
		return g.forCons(cc[r.Intn(len(cc))], d-1)
	}
	return g.any(1)
}

// ---------------------------------------------------------------- configurations

type Decl struct {
	Kind   string // attr | block
	Name   string
	Labels []string
	Depth  int
	Known  bool // known to the effective schema according to the generator
}

type cfgGen struct {
	r      *rand.Rand
	eg     *exprGen
	sb     strings.Builder
	Decls  []Decl
	inj    bool              // inject violations
	forced map[string]string // dependency-key attribute values chosen for the block being written
	dyn    bool              // an enclosing body enables dynamic blocks
}

func (g *cfgGen) indent(d int) string { return strings.Repeat("  ", d) }

func (g *cfgGen) depBodyFor(bs *schema.BlockSchema, labels []string, attrVals map[string]string) *schema.BodySchema {
	if len(bs.DependentBody) == 0 {
		return nil
	}
	dk := schema.DependencyKeys{}
	for i, l := range bs.Labels {
		if l.IsDepKey && i < len(labels) {
			dk.Labels = append(dk.Labels, schema.LabelDependent{Index: i, Value: labels[i]})
		}
	}
	if bs.Body != nil {
		for _, n := range sortedKeys(bs.Body.Attributes) {
			if bs.Body.Attributes[n].IsDepKey {
				if v, ok := attrVals[n]; ok {
					dk.Attributes = append(dk.Attributes, schema.AttributeDependent{Name: n, Expr: schema.ExpressionValue{Static: cty.StringVal(v)}})
				}
			}
		}
	}
	return bs.DependentBody[schema.NewSchemaKey(dk)]
}

func (g *cfgGen) body(bs *schema.BodySchema, d int, depth int) {
	dynOuter := g.dyn
	defer func() { g.dyn = dynOuter }()
	if bs != nil && bs.Extensions != nil && bs.Extensions.DynamicBlocks {
		g.dyn = true // the dynamic-blocks extension reaches every nested body
	}
	r := g.r
	if bs == nil {
		if r.Intn(2) == 0 {
			fmt.Fprintf(&g.sb, "%sfree = %s\n", g.indent(d), g.eg.any(1))
		}
		return
	}
	written := map[string]bool{}
	if bs.Extensions != nil {
		if bs.Extensions.Count && r.Intn(2) == 0 {
			fmt.Fprintf(&g.sb, "%scount = %s\n", g.indent(d), pick(r, []string{"2", "var.n", "length(var.l)"}))
			written["count"] = true
		}
		if bs.Extensions.ForEach && r.Intn(2) == 0 {
			fmt.Fprintf(&g.sb, "%sfor_each = %s\n", g.indent(d), pick(r, []string{"var.m", `{ a = 1 }`, `toset(["a"])`}))
			written["for_each"] = true
		}
	}
	for _, n := range sortedKeys(bs.Attributes) {
		as := bs.Attributes[n]
		if written[n] {
			continue
		}
		if as.IsRequired && !(g.inj && r.Intn(4) == 0) || r.Intn(2) == 0 {
			g.attr(n, as, d)
			written[n] = true
		}
	}
	if bs.AnyAttribute != nil {
		for i, k := 0, r.Intn(3); i < k; i++ {
			n := pick(r, attrNames)
			if !written[n] {
				g.attr(n, bs.AnyAttribute, d)
				written[n] = true
			}
		}
	}
	if g.inj && r.Intn(3) == 0 {
		n := pick(r, []string{"zzz", "unknown_attr", "count", "for_each"})
		if !written[n] {
			fmt.Fprintf(&g.sb, "%s%s = %s\n", g.indent(d), n, g.eg.any(1))
			g.Decls = append(g.Decls, Decl{Kind: "attr", Name: n, Depth: d})
			written[n] = true
		}
	}
	if r.Intn(6) == 0 {
		fmt.Fprintf(&g.sb, "%s%s\n", g.indent(d), pick(r, []string{"# comment é", "// c", "/* block */", ""}))
	}
	if depth <= 0 {
		return
	}
	for _, bt := range sortedKeys(bs.Blocks) {
		bsch := bs.Blocks[bt]
		k := r.Intn(3)
		if bsch.MinItems > 0 && !(g.inj && r.Intn(3) == 0) && k < int(bsch.MinItems) {
			k = int(bsch.MinItems)
		}
		if bsch.MaxItems > 0 && k > int(bsch.MaxItems) && !(g.inj && r.Intn(3) == 0) {
			k = int(bsch.MaxItems)
		}
		for i := 0; i < k; i++ {
			g.block(bt, bsch, d, depth-1)
		}
	}
	if g.dyn && len(bs.Blocks) > 0 && r.Intn(2) == 0 {
		bt := pick(r, sortedKeys(bs.Blocks))
		fmt.Fprintf(&g.sb, "%sdynamic %q {\n%s  for_each = var.l\n%s  content {\n", g.indent(d), bt, g.indent(d), g.indent(d))
		if bs.Blocks[bt].Body != nil {
			g.body(bs.Blocks[bt].Body, d+2, r.Intn(2))
		}
		fmt.Fprintf(&g.sb, "%s  }\n%s}\n", g.indent(d), g.indent(d))
	}
	if g.inj && r.Intn(4) == 0 {
		fmt.Fprintf(&g.sb, "%sunknownblock %s{\n%s  q = 1\n%s}\n", g.indent(d), pick(r, []string{"", `"l" `}), g.indent(d), g.indent(d))
	}
}

func (g *cfgGen) attr(n string, as *schema.AttributeSchema, d int) string {
	txt := g.eg.forCons(as.Constraint, 2)
	if as.IsDepKey {
		txt = pick(g.r, []string{`"v1"`, `"v2"`, `"m1"`, `"m1"`, "var.a", `"other"`})
		if n != "mode" {
			txt = pick(g.r, []string{`"v1"`, `"v2"`, `"v1"`, "var.a", `"other"`})
		}
		if f, ok := g.forced[n]; ok && g.r.Intn(5) > 0 {
			txt = f
		}
		if g.r.Intn(5) == 0 {
			// values the evaluator reduces to something that is not a plain known string: typed null, null,
			// an interpolation that evaluates, non-strings, and values it cannot compute (function call, variable)
			txt = pick(g.r, []string{`true ? null : "v1"`, "null", `"v${1}"`, "[]", "7", `upper("v1")`, `"${var.x}/v1"`, `lower("V1")`, `"v1${path.module}"`})
		}
	}
	fmt.Fprintf(&g.sb, "%s%s = %s\n", g.indent(d), n, txt)
	g.Decls = append(g.Decls, Decl{Kind: "attr", Name: n, Depth: d, Known: true})
	return txt
}

func (g *cfgGen) block(bt string, bs *schema.BlockSchema, d int, depth int) {
	r := g.r
	nl := len(bs.Labels)
	if g.inj {
		switch r.Intn(6) {
		case 0:
			nl += r.Intn(4) - 1 // one label less, the right number, one or two surplus labels
			if nl < 0 {
				nl = 0
			}
		case 1:
			nl = 0 // a header without any label (a block being typed)
		}
	}
	var labels []string
	hdr := bt
	var chosen *schema.DependencyKeys
	if ks := depKeyIndex[bs]; len(ks) > 0 && r.Intn(4) > 0 {
		k := ks[r.Intn(len(ks))]
		chosen = &k
	}
	for i := 0; i < nl; i++ {
		v := pick(r, labelVals)
		if chosen != nil {
			for _, l := range chosen.Labels {
				if l.Index == i {
					v = l.Value
				}
			}
		}
		labels = append(labels, v)
		if r.Intn(6) == 0 && isIdent(v) {
			hdr += " " + v
		} else {
			hdr += fmt.Sprintf(" %q", v)
		}
	}
	fmt.Fprintf(&g.sb, "%s%s {\n", g.indent(d), hdr)
	g.Decls = append(g.Decls, Decl{Kind: "block", Name: bt, Labels: labels, Depth: d, Known: true})
	// choose dep-key attribute values first, to find the dependent body
	attrVals := map[string]string{}
	eff := bs.Body
	if bs.Body != nil {
		for _, n := range sortedKeys(bs.Body.Attributes) {
			if bs.Body.Attributes[n].IsDepKey && r.Intn(3) > 0 {
				attrVals[n] = pick(r, []string{"v1", "v2"})
			}
		}
	}
	g.forced = map[string]string{}
	if chosen != nil {
		for _, a := range chosen.Attributes {
			if a.Expr.Static.Type() == cty.String && !a.Expr.Static.IsNull() {
				attrVals[a.Name] = a.Expr.Static.AsString()
				g.forced[a.Name] = fmt.Sprintf("%q", a.Expr.Static.AsString())
			} else if len(a.Expr.Address) > 0 {
				delete(attrVals, a.Name)
				g.forced[a.Name] = a.Expr.Address.String()
			}
		}
	}
	dep := g.depBodyFor(bs, labels, attrVals)
	if dep != nil {
		eff = mergeForGen(bs.Body, dep)
	}
	start := g.sb.Len()
	g.body(eff, d+1, depth)
	_ = start
	for _, n := range sortedKeys(attrVals) {
		// make sure the dep-key attribute is actually written with the chosen value
		txt := g.sb.String()
		marker := fmt.Sprintf("%s%s = ", g.indent(d+1), n)
		if !strings.Contains(txt[start:], marker) {
			fmt.Fprintf(&g.sb, "%s%s = %q\n", g.indent(d+1), n, attrVals[n])
		}
	}
	fmt.Fprintf(&g.sb, "%s}\n", g.indent(d))
}

func isIdent(s string) bool {
	return hclsyntax.ValidIdentifier(s)
}

// mergeForGen: generator-side union of static and dependent body (only to produce mostly valid input)
func mergeForGen(st, dep *schema.BodySchema) *schema.BodySchema {
	m := &schema.BodySchema{Attributes: map[string]*schema.AttributeSchema{}, Blocks: map[string]*schema.BlockSchema{}}
	if st != nil {
		for k, v := range st.Attributes {
			m.Attributes[k] = v
		}
		for k, v := range st.Blocks {
			m.Blocks[k] = v
		}
		m.AnyAttribute = st.AnyAttribute
		m.Extensions = st.Extensions
	}
	for k, v := range dep.Attributes {
		m.Attributes[k] = v
	}
	for k, v := range dep.Blocks {
		m.Blocks[k] = v
	}
	if dep.Extensions != nil {
		m.Extensions = dep.Extensions
	}
	if len(m.Attributes) > 0 {
		m.AnyAttribute = nil
	}
	return m
}

func genConfig(r *rand.Rand, bs *schema.BodySchema, inject bool) (string, []Decl) {
	g := &cfgGen{r: r, eg: &exprGen{r: r}, inj: inject}
	g.body(bs, 0, 4)
	s := g.sb.String()
	if r.Intn(10) == 0 {
		s = "/* leading block comment */\n" + s
	}
	if r.Intn(12) == 0 {
		s = strings.ReplaceAll(s, "\n", "\r\n")
	}
	return s, g.Decls
}

// ---------------------------------------------------------------- histories / mutations

// histories returns buffer states a file goes through while being typed or edited:
// prefixes at token boundaries (and inside tokens), single-token deletions / duplications /
// replacements, unterminated quotes and brackets.
func histories(r *rand.Rand, src string, max int) []string {
	toks, _ := hclsyntax.LexConfig([]byte(src), "h.tf", hcl.InitialPos)
	var out []string
	seen := map[string]bool{src: true}
	add := func(s string) {
		if !seen[s] {
			seen[s] = true
			out = append(out, s)
		}
	}
	var bounds []int
	for _, t := range toks {
		bounds = append(bounds, t.Range.Start.Byte, t.Range.End.Byte)
		if t.Range.End.Byte-t.Range.Start.Byte > 1 {
			bounds = append(bounds, t.Range.Start.Byte+1)
		}
	}
	sort.Ints(bounds)
	for _, b := range bounds {
		if b >= 0 && b <= len(src) {
			add(src[:b])
		}
	}
	repl := []string{".", "=", "{", "}", "[", "]", "(", ")", ",", "\"", "${", "x", " ", "\n", "?", ":", "::", "é", "= =", "<<EOT\n"}
	for _, t := range toks {
		s, e := t.Range.Start.Byte, t.Range.End.Byte
		if s >= e || e > len(src) {
			continue
		}
		add(src[:s] + src[e:])
		add(src[:e] + src[s:e] + src[e:])
		add(src[:s] + pick(r, repl) + src[e:])
		add(src[:e] + pick(r, repl) + src[e:])
	}
	r.Shuffle(len(out), func(i, j int) { out[i], out[j] = out[j], out[i] })
	if max > 0 && len(out) > max {
		out = out[:max]
	}
	return out
}

// cursor positions: token boundaries +-1 plus a random sample (quick) or all offsets (thorough)
// callOffsets: deterministic cursor positions inside the argument lists of calls to the variadic functions
// of genFunctions (right behind the opening parenthesis and behind the first comma), at most three calls
func callOffsets(src []byte) []int {
	var out []int
	text := string(src)
	n := 0
	for _, name := range []string{"fv(", "fonlyv("} {
		from := 0
		for n < 3 {
			i := strings.Index(text[from:], name)
			if i < 0 {
				break
			}
			at := from + i + len(name)
			from = at
			if at-len(name) > 0 {
				if c := text[at-len(name)-1]; c == '_' || (c >= 'a' && c <= 'z') || (c >= '0' && c <= '9') || c == ':' {
					continue
				}
			}
			out = append(out, at)
			n++
			for j := at; j < len(text) && text[j] != '\n'; j++ {
				if text[j] == ',' {
					out = append(out, j+1)
					break
				}
			}
		}
	}
	return out
}

func cursorOffsets(r *rand.Rand, src []byte, all bool, sample int) []int {
	n := len(src)
	if all {
		out := make([]int, n+1)
		for i := range out {
			out[i] = i
		}
		return out
	}
	set := map[int]bool{0: true, n: true}
	toks, _ := hclsyntax.LexConfig(src, "h.tf", hcl.InitialPos)
	var cand []int
	for _, t := range toks {
		for _, b := range []int{t.Range.Start.Byte - 1, t.Range.Start.Byte, t.Range.Start.Byte + 1, t.Range.End.Byte - 1, t.Range.End.Byte, t.Range.End.Byte + 1} {
			if b >= 0 && b <= n {
				cand = append(cand, b)
			}
		}
	}
	r.Shuffle(len(cand), func(i, j int) { cand[i], cand[j] = cand[j], cand[i] })
	for _, c := range cand {
		if len(set) >= sample {
			break
		}
		set[c] = true
	}
	out := make([]int, 0, len(set))
	for k := range set {
		out = append(out, k)
	}
	sort.Ints(out)
	return out
}

// posAt computes the hcl.Pos of a byte offset using HCL's own scanner conventions
// (grapheme clusters for columns), independently of hcl-lang.
func posAt(src []byte, off int) hcl.Pos {
	sc := hcl.NewRangeScanner(src[:off], "", scanAll)
	pos := hcl.InitialPos
	for sc.Scan() {
		pos = sc.Range().End
	}
	return pos
}

func scanAll(data []byte, atEOF bool) (int, []byte, error) {
	if len(data) == 0 {
		return 0, nil, nil
	}
	return len(data), data, nil
}
