package main

// Canonical, order-preserving rendering of every query result type (used for determinism,
// equivariance and correspondence checks).

import (
	"fmt"
	"reflect"
	"sort"
	"strings"

	"github.com/hashicorp/hcl-lang/decoder"
	"github.com/hashicorp/hcl-lang/lang"
	"github.com/hashicorp/hcl-lang/reference"
	"github.com/hashicorp/hcl/v2"
)

func candidateS(c lang.Candidate) S {
	add := List{}
	for _, e := range c.AdditionalTextEdits {
		add = append(add, L(rangeS(e.Range), Str(e.NewText), Str(e.Snippet)))
	}
	hook := S(Nil)
	if c.ResolveHook != nil {
		hook = L(Str(c.ResolveHook.Name), Str(c.ResolveHook.Path))
	}
	return T("cand", Str(c.Label), Int(int(c.Kind)), Str(c.Detail), Str(c.Description.Value), Bool(c.IsDeprecated),
		rangeS(c.TextEdit.Range), Str(c.TextEdit.NewText), Str(c.TextEdit.Snippet), Bool(c.TriggerSuggest), add, hook, Str(c.SortText))
}

func symbolS(s decoder.Symbol) S {
	nested := List{}
	for _, n := range s.NestedSymbols() {
		nested = append(nested, symbolS(n))
	}
	kind := "?"
	extra := ""
	switch x := s.(type) {
	case *decoder.BlockSymbol:
		kind = "block"
		extra = strings.Join(append([]string{x.Type}, x.Labels...), "|")
	case *decoder.AttributeSymbol:
		kind = "attr"
		extra = exprKindS(x.ExprKind)
	case *decoder.ExprSymbol:
		kind = "expr"
		extra = exprKindS(x.ExprKind)
	}
	return T("sym", Atom(kind), Str(s.Name()), Str(extra), rangeS(s.Range()), nested)
}

func tokenS(t lang.SemanticToken) S {
	return T("tok", Str(string(t.Type)), modsS(t.Modifiers), rangeS(t.Range))
}

func fullTargetS(t reference.Target) S {
	nested := List{}
	for _, n := range t.NestedTargets {
		nested = append(nested, fullTargetS(n))
	}
	return T("target", addrS(t.Addr), addrS(t.LocalAddr), orangeS(t.TargetableFromRangePtr), Str(string(t.ScopeId)),
		orangeS(t.RangePtr), orangeS(t.DefRangePtr), tyS(t.Type), Str(t.Name), Str(t.Description.Value), nested)
}

// resultS renders a query result; ordered = false sorts collections the property allows to be unordered (diagnostics)
func resultS(v interface{}) S {
	switch x := v.(type) {
	case nil:
		return T("nil")
	case lang.Candidates:
		l := List{}
		for _, c := range x.List {
			l = append(l, candidateS(c))
		}
		return T("candidates", Bool(x.IsComplete), l)
	case *lang.HoverData:
		if x == nil {
			return T("nohover")
		}
		return T("hover", Str(x.Content.Value), Int(int(x.Content.Kind)), rangeS(x.Range))
	case *lang.FunctionSignature:
		if x == nil {
			return T("nosig")
		}
		ps := List{}
		for _, p := range x.Parameters {
			ps = append(ps, L(Str(p.Name), Str(p.Description.Value)))
		}
		return T("sig", Str(x.Name), Str(x.Description.Value), ps, Int(int(x.ActiveParameter)))
	case []lang.SemanticToken:
		l := List{}
		for _, t := range x {
			l = append(l, tokenS(t))
		}
		return T("tokens", l)
	case []decoder.Symbol:
		l := List{}
		for _, s := range x {
			l = append(l, symbolS(s))
		}
		return T("symbols", l)
	case []lang.Link:
		l := List{}
		for _, k := range x {
			l = append(l, L(Str(k.URI), Str(k.Tooltip), rangeS(k.Range)))
		}
		return T("links", l)
	case hcl.Diagnostics:
		return diagsCanonical(x)
	case lang.DiagnosticsMap:
		l := List{}
		names := make([]string, 0, len(x))
		for n := range x {
			names = append(names, n)
		}
		sort.Strings(names)
		for _, n := range names {
			l = append(l, L(Str(n), diagsCanonical(x[n])))
		}
		return T("diagmap", l)
	case reference.Targets:
		l := List{}
		for _, t := range x {
			l = append(l, fullTargetS(t))
		}
		return T("targets", l)
	case reference.Origins:
		return T("origins", originsS(x))
	case decoder.ReferenceTargets:
		l := List{}
		for _, t := range x {
			l = append(l, L(rangeS(t.OriginRange), Str(t.Path.Path), rangeS(t.Range), orangeS(t.DefRangePtr)))
		}
		return T("reftargets", l)
	case decoder.ReferenceOrigins:
		l := List{}
		for _, o := range x {
			l = append(l, L(Str(o.Path.Path), rangeS(o.Range)))
		}
		return T("reforigins", l)
	case decoder.WriteOnlyAttributes:
		return T("writeonly", Str(fmt.Sprintf("%v", x)))
	}
	return T("other", Str(fmt.Sprintf("%T", v)), Str(fmt.Sprintf("%v", reflect.ValueOf(v))))
}

func errS(err error) S {
	if err == nil {
		return Nil
	}
	return T("err", Str(fmt.Sprintf("%T", err)), Str(err.Error()))
}

func outcomeS(r QResult) S {
	if r.Panic != "" {
		return T("panic", Str(r.PanicFunc))
	}
	return T("out", resultS(r.Val), errS(r.Err))
}

func exprKindS(k lang.SymbolExprKind) string {
	switch x := k.(type) {
	case lang.ReferenceExprKind:
		return "ref"
	case lang.LiteralTypeKind:
		return "lit:" + x.Type.FriendlyName()
	case lang.TupleConsExprKind:
		return "tuple"
	case lang.ObjectConsExprKind:
		return "object"
	}
	return ""
}
