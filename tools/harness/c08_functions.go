package main

// Function-name completion: which functions are offered for an expected type.
//
// Expected types and return types are drawn from a pool in which convertibility is not symmetric
// (an object with more attributes converts to one with fewer, a tuple to a list, anything to and
// from the dynamic type; not the other way round), at the top level of an attribute value and in
// argument positions of calls.  The function candidates of CompletionAtPos are compared with the
// model (kind funccands, Model/FuncCands.v) and checked directly: known function, name starts
// with the typed text, return type converts to the expected type (cty's own convert package
// decides convertibility, in the direction the property states).

import (
	"context"
	"fmt"
	"math/rand"
	"sort"
	"strings"

	"github.com/hashicorp/hcl-lang/lang"
	"github.com/hashicorp/hcl-lang/schema"
	"github.com/zclconf/go-cty/cty"
	"github.com/zclconf/go-cty/cty/convert"
	"github.com/zclconf/go-cty/cty/function"
)

var funcTypePool = []cty.Type{
	cty.String, cty.Number, cty.Bool, cty.DynamicPseudoType,
	cty.List(cty.String), cty.Set(cty.Number), cty.Map(cty.String), cty.List(cty.DynamicPseudoType),
	cty.Tuple([]cty.Type{cty.String, cty.Number}),
	cty.Object(map[string]cty.Type{"host": cty.String}),
	cty.Object(map[string]cty.Type{"host": cty.String, "port": cty.Number}),
	cty.ObjectWithOptionalAttrs(map[string]cty.Type{"host": cty.String, "port": cty.Number}, []string{"port"}),
	cty.List(cty.Object(map[string]cty.Type{"host": cty.String})),
}

func funcConvTable() S {
	l := List{}
	for _, a := range funcTypePool {
		for _, b := range funcTypePool {
			_, err := convert.Convert(cty.UnknownVal(a), b)
			l = append(l, L(tyS(a), tyS(b), Bool(err == nil)))
		}
	}
	return l
}

func funcCandidateCases(run *Run, r *rand.Rand, n int) {
	ctx := context.Background()
	conv := funcConvTable()
	stems := []string{"mk", "mk_", "make", "to", "m", "endpoint", "endpoint_"}
	for i := 0; i < n; i++ {
		// a table of functions: every pool type is returned by at least one, names share stems
		funcs := map[string]schema.FunctionSignature{}
		var names []string
		for ti, t := range funcTypePool {
			for k, kn := 0, 1+r.Intn(2); k < kn; k++ {
				name := fmt.Sprintf("%s%d%s", pick(r, stems), ti, strings.Repeat("x", k))
				if _, dup := funcs[name]; dup {
					continue
				}
				funcs[name] = schema.FunctionSignature{ReturnType: t, Description: "returns " + t.FriendlyName()}
				names = append(names, name)
			}
		}
		// wrappers: one parameter of every pool type, and a variadic one
		for ti, t := range funcTypePool {
			name := fmt.Sprintf("wrap%d", ti)
			funcs[name] = schema.FunctionSignature{ReturnType: cty.DynamicPseudoType, Params: []function.Parameter{{Name: "v", Type: t}}}
			names = append(names, name)
		}
		vt := funcTypePool[r.Intn(len(funcTypePool))]
		funcs["wrapv"] = schema.FunctionSignature{ReturnType: cty.DynamicPseudoType, Params: []function.Parameter{{Name: "first", Type: cty.String}},
			VarParam: &function.Parameter{Name: "rest", Type: vt}}
		names = append(names, "wrapv")
		sort.Strings(names)
		fl := List{}
		for _, nm := range names {
			fl = append(fl, L(Str(nm), tyS(funcs[nm].ReturnType)))
		}
		attrs := map[string]*schema.AttributeSchema{}
		for ti, t := range funcTypePool {
			attrs[fmt.Sprintf("a%d", ti)] = &schema.AttributeSchema{IsOptional: true, Constraint: schema.AnyExpression{OfType: t}}
		}
		// maps of every pool type: a key written in parentheses is a string whatever the element type
		for ti, t := range funcTypePool {
			attrs[fmt.Sprintf("m%d", ti)] = &schema.AttributeSchema{IsOptional: true, Constraint: schema.AnyExpression{OfType: cty.Map(t)}}
		}
		sch := &schema.BodySchema{Attributes: attrs}

		type probe struct {
			src      string
			prefix   string
			expected cty.Type
		}
		var probes []probe
		prefixes := func() []string {
			ps := []string{"", pick(r, stems), "wrap", "zz"}
			nm := names[r.Intn(len(names))]
			ps = append(ps, nm[:1+r.Intn(len(nm))])
			return ps
		}
		for ti, t := range funcTypePool {
			for _, p := range prefixes() {
				probes = append(probes, probe{fmt.Sprintf("a%d = %s", ti, p), p, t})
			}
			// in the argument slot of a call (the value's own type is dynamic)
			for _, p := range prefixes() {
				probes = append(probes, probe{fmt.Sprintf("a3 = wrap%d(%s", ti, p), p, t})
			}
		}
		// the key of an index expression is a string, whatever the type of the value around it
		for ti := range funcTypePool {
			for _, p := range prefixes() {
				if p != "" {
					probes = append(probes, probe{fmt.Sprintf("a%d = zz[%s]", ti, p), p, cty.String})
				}
			}
		}
		for ti := range funcTypePool {
			probes = append(probes, probe{fmt.Sprintf("m%d = { () = null }", ti), "", cty.String})
			for _, p := range prefixes()[1:3] {
				probes = append(probes, probe{fmt.Sprintf("m%d = { (%s) = null }", ti, p), p, cty.String})
			}
		}
		// second and later arguments of a variadic function
		for _, p := range prefixes() {
			probes = append(probes, probe{fmt.Sprintf("a3 = wrapv(\"s\", %s", p), p, vt})
			probes = append(probes, probe{fmt.Sprintf("a3 = wrapv(\"s\", wrap0(\"x\"), %s", p), p, vt})
		}
		for _, pb := range probes {
			// (an unfinished call with nothing typed in the argument slot is not recovered by the parser: nothing is offered)
			closed := (r.Intn(2) == 0 || pb.prefix == "") && strings.Contains(pb.src, "(")
			src := pb.src
			cut := len(src)
			if strings.HasSuffix(src, "]") {
				cut--
				closed = false
			}
			if i := strings.Index(src, ") = null }"); i >= 0 {
				cut = i
				closed = false
			}
			if closed {
				src += strings.Repeat(")", strings.Count(pb.src, "(")-strings.Count(pb.src, ")"))
			}
			src += "\n"
			w := newWorld()
			pd := w.AddPath("root", sch, map[string]string{"main.tf": src}, funcs)
			w.Collect()
			d, _ := w.Dec.Path(pd.Path)
			pos, ok := lcTable([]byte(src))[cut]
			if !ok {
				continue
			}
			res := safeCall("CompletionAtPos", func() (interface{}, error) { return d.CompletionAtPos(ctx, "main.tf", pos) })
			run.Res.Evaluations++
			if res.Panic != "" || res.Err != nil {
				continue
			}
			loc := map[string]interface{}{"seed": run.Res.Seed, "kind": "function-candidates", "table": i, "src": src, "offset": cut,
				"expected": pb.expected.FriendlyName(), "functions": names}
			obs := List{}
			nf := 0
			for _, c := range res.Val.(lang.Candidates).List {
				if c.Kind != lang.FunctionCandidateKind {
					continue
				}
				nf++
				obs = append(obs, L(Str(c.Label), Str(c.TextEdit.NewText), Str(c.TextEdit.Snippet)))
				f, known := funcs[c.Label]
				if !known {
					run.Violate(Violation{Key: "C08/function-candidate-unknown", Rule: "every function candidate is a known function",
						Func: "functionExpr.CompletionAtPos", Detail: c.Label, Replay: loc})
					continue
				}
				if !strings.HasPrefix(c.Label, pb.prefix) {
					run.Violate(Violation{Key: "C08/function-candidate-ignores-typed-text", Rule: "every function candidate starts with the typed text",
						Func: "functionExpr.CompletionAtPos", Detail: fmt.Sprintf("typed %q, candidate %q", pb.prefix, c.Label), Replay: loc})
				}
				if _, err := convert.Convert(cty.UnknownVal(f.ReturnType), pb.expected); err != nil {
					run.Violate(Violation{Key: "C08/function-candidate-return-type-does-not-convert", Rule: "every function candidate is a known function whose return type converts to the expected type",
						Func: "functionExpr.CompletionAtPos", Detail: fmt.Sprintf("%s returns %s, expected %s: %v", c.Label, f.ReturnType.FriendlyName(), pb.expected.FriendlyName(), err), Replay: loc})
				}
			}
			run.Case("funccands", []S{conv, fl, Str(pb.prefix), tyS(pb.expected)}, obs)
			run.Count("function_candidate_probes")
			if nf > 0 {
				run.Count("function_candidate_probes_with_candidates")
				run.Distinct("fc|" + src + "|" + strings.Join(names, ","))
			}
		}
	}
}
