package main

// Hover on references: block-local names (self.*, count.*, each.*) describe a declaration of the enclosing
// block, so the hover on them cannot depend on what other files of the path declare.  The Terraform-like
// configuration is hovered alone and next to a second file with the same layout in which the resource types
// are exchanged ("aws" <-> "gcp": same byte offsets, other dependent bodies, an attribute of the same name
// with another type); the hover on every block-local reference must be the same, name the written reference
// and contain the cursor.

import (
	"context"
	"fmt"
	"math/rand"
	"strings"

	"github.com/hashicorp/hcl-lang/decoder"
	"github.com/hashicorp/hcl-lang/lang"
	"github.com/hashicorp/hcl-lang/reference"
	"github.com/hashicorp/hcl/v2"
)

func referenceHoverOracle(run *Run, n int) {
	ctx := context.Background()
	for i := 0; i < n; i++ {
		r := rand.New(rand.NewSource(subSeed(run.Res.Seed, 880000+i)))
		sc, cfg := tfScenario(r)
		swapped := strings.NewReplacer("res \"aws\"", "res \"gcp\"", "res \"gcp\"", "res \"aws\"").Replace(cfg.Src)
		for _, otherName := range []string{"a_other.tf", "z_other.tf"} {
			w1 := newWorld()
			pd1 := w1.AddPath("root", tfSchema(), map[string]string{"main.tf": cfg.Src}, sc.Main.Ctx.Functions)
			w1.Collect()
			w2 := newWorld()
			pd2 := w2.AddPath("root", tfSchema(), map[string]string{"main.tf": cfg.Src, otherName: swapped}, sc.Main.Ctx.Functions)
			w2.Collect()
			d1, _ := w1.Dec.Path(pd1.Path)
			d2, _ := w2.Dec.Path(pd2.Path)
			tbl := lcTable([]byte(cfg.Src))
			for _, o := range pd1.Ctx.ReferenceOrigins {
				lo, ok := o.(reference.LocalOrigin)
				if !ok || lo.Range.Filename != "main.tf" || len(lo.Addr) == 0 {
					continue
				}
				root := lo.Addr[0].String()
				if otherName == "a_other.tf" {
					refHoverCase(run, ctx, d1, pd1, lo, tbl, cfg.Src)
				}
				if root != "self" && root != "count" && root != "each" {
					continue
				}
				pos, ok := tbl[lo.Range.Start.Byte+1]
				if !ok {
					continue
				}
				r1 := safeCall("HoverAtPos", func() (interface{}, error) { return d1.HoverAtPos(ctx, "main.tf", pos) })
				r2 := safeCall("HoverAtPos", func() (interface{}, error) { return d2.HoverAtPos(ctx, "main.tf", pos) })
				run.Res.Evaluations += 2
				if r1.Panic != "" || r2.Panic != "" || r1.Err != nil || r2.Err != nil {
					continue
				}
				h1, _ := r1.Val.(*lang.HoverData)
				h2, _ := r2.Val.(*lang.HoverData)
				run.Count("block_local_reference_hovers")
				loc := map[string]interface{}{"seed": run.Res.Seed, "kind": "reference-hover", "config": i, "src": cfg.Src, "other_file": otherName, "other_src": swapped,
					"offset": pos.Byte, "reference": lo.Addr.String()}
				show := func(h *lang.HoverData) string {
					if h == nil {
						return "<none>"
					}
					return fmt.Sprintf("%q %v", h.Content.Value, h.Range)
				}
				if show(h1) != show(h2) {
					run.Violate(Violation{Key: "C12/block-local-reference-hover-depends-on-other-file", Rule: "the hover on a reference describes the declaration it denotes: for a block-local name, one of the enclosing block",
						Func: "Reference.HoverAtPos", Detail: fmt.Sprintf("alone: %s; next to %s: %s", show(h1), otherName, show(h2)), Replay: loc})
				}
				if h1 != nil {
					run.Distinct(fmt.Sprintf("refhover|%s|%d", cfg.Src, pos.Byte))
					if !strings.HasPrefix(h1.Content.Value, "`"+lo.Addr.String()+"`") {
						run.Violate(Violation{Key: "C12/reference-hover-names-another-address", Rule: "the hover on a reference names the reference under the cursor",
							Func: "Reference.HoverAtPos", Detail: fmt.Sprintf("reference %s, hover %q", lo.Addr.String(), h1.Content.Value), Replay: loc})
					}
				}
			}
		}
	}
}

// refHoverCase: the content of the hover on a written reference against the model (kind refhover): the address
// in backquotes, the description of the declaration's type (object types with their attributes in byte order,
// nested objects indented, optional attributes marked), the declaration's description.  Which declaration a
// reference denotes (Targets.Match) is an input here; it is modelled in Model/Ref.v.
func refHoverCase(run *Run, ctx context.Context, d *decoder.PathDecoder, pd *PathData, lo reference.LocalOrigin, tbl map[int]hcl.Pos, src string) {
	ts, ok := pd.Ctx.ReferenceTargets.Match(lo)
	if !ok || len(ts) == 0 {
		return
	}
	t := ts[0]
	root := lo.Addr[0].String()
	if len(t.LocalAddr) > 0 && root != "self" && root != "count" && root != "each" {
		return // a block written by its absolute address inside itself would be shown under its local address
	}
	pos, ok := tbl[lo.Range.Start.Byte+1]
	if !ok {
		return
	}
	res := safeCall("HoverAtPos", func() (interface{}, error) { return d.HoverAtPos(ctx, "main.tf", pos) })
	run.Res.Evaluations++
	if res.Panic != "" || res.Err != nil {
		return
	}
	h, _ := res.Val.(*lang.HoverData)
	if h == nil {
		return
	}
	run.Case("refhover", []S{Str(lo.Addr.String()), Str(t.Name), tyS(t.Type), Str(t.Description.Value)}, Str(h.Content.Value))
	run.Count("reference_hover_contents")
}
