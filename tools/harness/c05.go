package main

// C05: concurrent queries on a shared path context match sequential; the binary is built with
// -race by bin/check, the race detector's reports are collected from its log files.

import (
	"fmt"
	"math/rand"
	"sync"

	"github.com/hashicorp/hcl-lang/lang"
	"github.com/hashicorp/hcl-lang/schema"
	"github.com/hashicorp/hcl/v2/hclsyntax"
	"github.com/zclconf/go-cty/cty"
)

func init() { props["C05"] = runC05 }

func runC05(run *Run, replay string) {
	run.Res.Rule = "generated scenario (schema with dependent bodies and extensions, configuration, functions); the sequential result of every query of a mixed set (collection, file-level and positional queries at random offsets, both prefill modes) is recorded, then 16 goroutines issue the same set in shuffled order against the same path context/decoder; every concurrent result must equal the sequential one; built with the Go race detector; distinct non-trivial = distinct (file text, query, offset) executed concurrently"
	bases, rounds := 24, 2
	if run.Thorough {
		bases, rounds = 200, 6
	}
	const G = 16
	for bi := 0; bi < bases; bi++ {
		r := rand.New(rand.NewSource(subSeed(run.Res.Seed, bi)))
		scs := genScenarios(r, ScenarioOpts{Histories: 2, Inject: bi%3 == 1, Gen: GenOpts{Degenerate: bi%5 == 4}, SecondPath: bi%2 == 0})
		if bi%4 == 0 {
			scs = append(scs, directedScenario(r))
		}
		if bi%4 == 1 {
			scs = append(scs, impliedScenario(r))
		}
		for si, s := range scs {
			// slices of the schema and parameter lists with spare capacity, as slices built by append have: a query
			// appending to one in place writes shared memory
			padSpareSchemaAndFunctions(s.W)
			s.W.Collect()
			var qs []Query
			qs = append(qs, s.pathQueries(s.Main)...)
			qs = append(qs, s.fileQueries(s.Main, s.File)...)
			tbl := lcTable(s.Src)
			for _, off := range append(append(cursorOffsets(r, s.Src, s.Kind == "directed", 12), callOffsets(s.Src)...), labelOffsets(s)...) {
				if pos, ok := tbl[off]; ok {
					qs = append(qs, s.posQueries(s.Main, s.File, pos)...)
				}
			}
			// the first concurrent round runs BEFORE anything was asked alone: a value computed lazily on first use
			// and kept (a cache, a memoised field) is then first written by racing goroutines
			loc := map[string]interface{}{"seed": run.Res.Seed, "base": bi, "scenario": si, "kind": s.Kind, "src": string(s.Src)}
			type bad struct {
				q        Query
				got, exp string
			}
			concurrent := func(round int, check func(i int, got string)) {
				var wg sync.WaitGroup
				for g := 0; g < G; g++ {
					order := rand.New(rand.NewSource(subSeed(run.Res.Seed, bi*100000+si*1000+round*32+g))).Perm(len(qs))
					wg.Add(1)
					go func(order []int) {
						defer wg.Done()
						for _, i := range order {
							check(i, Show(outcomeS(safeCall(qs[i].Name, qs[i].Run))))
						}
					}(order)
				}
				wg.Wait()
				run.Res.Evaluations += G * len(qs)
			}
			var mu sync.Mutex
			first := make([][]string, len(qs))
			concurrent(0, func(i int, got string) {
				mu.Lock()
				first[i] = append(first[i], got)
				mu.Unlock()
			})
			seq := make([]string, len(qs))
			for i, q := range qs {
				seq[i] = Show(outcomeS(safeCall(q.Name, q.Run)))
			}
			var bads []bad
			for i := range qs {
				for _, got := range first[i] {
					if got != seq[i] {
						bads = append(bads, bad{qs[i], got, seq[i]})
						break
					}
				}
			}
			for round := 1; round < rounds; round++ {
				concurrent(round, func(i int, got string) {
					if got != seq[i] {
						mu.Lock()
						bads = append(bads, bad{qs[i], got, seq[i]})
						mu.Unlock()
					}
				})
			}
			for _, b := range bads {
				run.Violate(Violation{Key: "C05/concurrent-differs/" + b.q.Name, Rule: "every concurrent result equals the result of the same query run alone",
					Func: b.q.Name, Detail: firstDiff(b.exp, b.got), Replay: locWith(loc, b.q)})
			}
			for _, q := range qs {
				off := -1
				if q.Pos != nil {
					off = q.Pos.Byte
				}
				run.Distinct(fmt.Sprintf("%s|%s|%d", s.Src, q.Name, off))
			}
			if bi < 2 && si == 0 {
				run.Sample(map[string]interface{}{"src": string(s.Src), "queries": len(qs), "goroutines": G, "rounds": rounds})
			}
		}
	}
}

// directedScenario: half-typed expressions of the forms whose completion recovers bytes from the
// file buffer (namespaced function names, object keys, trailing dots), under any-expression constraints.
func directedScenario(r *rand.Rand) *Scenario {
	sch := &schema.BodySchema{Attributes: map[string]*schema.AttributeSchema{
		"x": {IsOptional: true, Constraint: schema.AnyExpression{OfType: cty.String}},
		"y": {IsOptional: true, Constraint: schema.AnyExpression{OfType: cty.DynamicPseudoType}},
		"o": {IsOptional: true, Constraint: schema.Object{Attributes: schema.ObjectAttributes{
			"alpha": {IsOptional: true, Constraint: schema.LiteralType{Type: cty.String}},
			"beta":  {IsOptional: true, Constraint: schema.AnyExpression{OfType: cty.Number}}}}},
		"m": {IsOptional: true, Constraint: schema.Map{Elem: schema.AnyExpression{OfType: cty.String}}},
	}}
	texts := []string{
		"x = provider::a::b\ny = provider::\n",
		"x = provider::a::\no = {\n  al\n}\n",
		"y = provider::a\nx = var.\nm = { k = provider::a:: }\n",
		"o = { alpha = \"a\", be }\nx = f1(provider::a::\n",
	}
	text := texts[r.Intn(len(texts))]
	w := newWorld()
	pd := w.AddPath("root", sch, map[string]string{"main.tf": text}, genFunctions(r))
	return &Scenario{W: w, Main: pd, File: "main.tf", Src: []byte(text), Kind: "directed"}
}

// impliedScenario: implied origins declared at the root (in a slice with spare capacity, as a schema built by
// append has) and in the bodies of different block types used in different files of the path.
func impliedScenario(r *rand.Rand) *Scenario {
	imp := func(name string) schema.ImpliedOrigin {
		return schema.ImpliedOrigin{
			OriginAddress: lang.Address{lang.RootStep{Name: "module"}, lang.AttrStep{Name: name}, lang.AttrStep{Name: "out"}},
			TargetAddress: lang.Address{lang.RootStep{Name: "output"}, lang.AttrStep{Name: "out"}},
			Path:          lang.Path{Path: "mod-" + name, LanguageID: "hcl"},
			Constraints:   schema.Constraints{ScopeId: "output", Type: cty.DynamicPseudoType},
		}
	}
	val := &schema.AttributeSchema{IsOptional: true, Constraint: schema.AnyExpression{OfType: cty.DynamicPseudoType}}
	blk := func(name string) *schema.BlockSchema {
		return &schema.BlockSchema{Body: &schema.BodySchema{AnyAttribute: val, ImpliedOrigins: schema.ImpliedOrigins{imp(name)}}}
	}
	root := make(schema.ImpliedOrigins, 0, 4)
	root = append(root, imp("root"))
	sch := &schema.BodySchema{AnyAttribute: val, ImpliedOrigins: root,
		Blocks: map[string]*schema.BlockSchema{"ma": blk("a"), "mb": blk("b"), "mc": blk("c")}}
	files := map[string]string{}
	for _, n := range []string{"a", "b", "c"} {
		var sb string
		for i, k := 0, 1+r.Intn(3); i < k; i++ {
			// (two attributes of one body name the same implied address: both get the path origin)
			sb += fmt.Sprintf("m%s {\n  v%d = module.%s.out\n  w = module.root.out\n  again = module.%s.out\n  zz = module.root.out\n}\n", n, i, n, n)
		}
		files[n+".tf"] = sb + "top_" + n + " = module.root.out\n"
	}
	w := newWorld()
	pd := w.AddPath("root", sch, files, genFunctions(r))
	return &Scenario{W: w, Main: pd, File: "a.tf", Src: []byte(files["a.tf"]), Kind: "implied-origins"}
}

// labelOffsets: a position inside every block label of the scenario's file (label completion consults the
// dependent-body keys of the block schema)
func labelOffsets(s *Scenario) []int {
	var out []int
	f := s.Main.Ctx.Files[s.File]
	if f == nil {
		return nil
	}
	body, ok := f.Body.(*hclsyntax.Body)
	if !ok {
		return nil
	}
	var walk func(b *hclsyntax.Body, d int)
	walk = func(b *hclsyntax.Body, d int) {
		if d > 4 {
			return
		}
		for _, k := range b.Blocks {
			for _, lr := range k.LabelRanges {
				if lr.End.Byte-lr.Start.Byte >= 2 {
					out = append(out, lr.Start.Byte+1)
				}
			}
			walk(k.Body, d+1)
		}
	}
	walk(body, 0)
	if len(out) > 12 {
		out = out[:12]
	}
	return out
}
