package main

import (
	"github.com/hashicorp/hcl-lang/decoder"
	"github.com/hashicorp/hcl-lang/schema"
	"github.com/hashicorp/hcl/v2/hclsyntax"
)

var lookupNames = []string{"failed", "successful", "partial", "nokeys"}

// walkBlocks visits every block of a body that the (effective) schema knows, with its block schema,
// descending with the merged schema the library itself computes.
func walkBlocks(body *hclsyntax.Body, bs *schema.BodySchema, depth int, f func(b *hclsyntax.Block, bsch *schema.BlockSchema, merged *schema.BodySchema, res int, depth int)) {
	if body == nil || bs == nil {
		return
	}
	for _, b := range body.Blocks {
		bsch, ok := bs.Blocks[b.Type]
		if !ok {
			continue
		}
		var merged *schema.BodySchema
		var res int
		r := safeCall("MergeBlockBodySchemas", func() (interface{}, error) {
			merged, res = decoder.VerifMergeBlockBodySchemas(b.AsHCLBlock(), bsch)
			return nil, nil
		})
		if r.Panic != "" {
			continue
		}
		f(b, bsch, merged, res, depth)
		walkBlocks(b.Body, merged, depth+1, f)
	}
}

// mergeCases emits one correspondence case per schema-known block of the scenario's main file.
func mergeCases(run *Run, s *Scenario, limit int) int {
	f := s.Main.Ctx.Files[s.File]
	if f == nil {
		return 0
	}
	body, ok := f.Body.(*hclsyntax.Body)
	if !ok {
		return 0
	}
	n := 0
	walkBlocks(body, s.Main.Schema, 0, func(b *hclsyntax.Block, bsch *schema.BlockSchema, merged *schema.BodySchema, res int, depth int) {
		if n >= limit {
			return
		}
		n++
		run.Count("merge_result_" + lookupNames[res])
		if bsch.Body != nil && bsch.Body.Extensions != nil && bsch.Body.Extensions.DynamicBlocks && (res == 1 || res == 2) {
			// dependent body in force under the dynamic-blocks extension: do its nested blocks carry extensions of their own?
			if dep, _, _ := decoder.VerifDependentBodySchema(b.AsHCLBlock(), bsch); dep != nil {
				for _, nb := range dep.Blocks {
					if nb != nil && nb.Body != nil && nb.Body.Extensions != nil && !nb.Body.Extensions.DynamicBlocks {
						run.Count("merge_dynamic_into_dependent_block_with_own_extensions")
					}
				}
			}
		}
		run.Case("merge", []S{s.blockSchemaSnapshot(bsch), blockS(b)}, T("merged", Atom(lookupNames[res]), bodySchemaS(merged)))
	})
	return n
}
