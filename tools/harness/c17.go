package main

// C17: Copy() yields an equal, fully independent value.
// Reflection-driven: every exported field of every schema struct is populated (so fields added in
// the future are populated too), Copy() is called, the copy is compared structurally, and every
// mutable container / pointed-to struct reachable from the copy (resp. the original) is mutated
// to see whether the other side changes.  The observed per-field copy mode is emitted as the
// table coq/Gen/Fields.v is generated from.

import (
	"fmt"
	"os"
	"path/filepath"
	"reflect"
	"sort"
	"strings"

	"github.com/google/go-cmp/cmp"
	"github.com/google/go-cmp/cmp/cmpopts"
	"github.com/hashicorp/hcl-lang/lang"
	"github.com/hashicorp/hcl-lang/schema"
	"github.com/hashicorp/hcl/v2"
	"github.com/zclconf/go-cty-debug/ctydebug"
	"github.com/zclconf/go-cty/cty"
	"github.com/zclconf/go-cty/cty/function"
)

func init() { props["C17"] = runC17 }

var (
	tConstraint = reflect.TypeOf((*schema.Constraint)(nil)).Elem()
	tAddrStep   = reflect.TypeOf((*schema.AddrStep)(nil)).Elem()
	tLangStep   = reflect.TypeOf((*lang.AddressStep)(nil)).Elem()
	tDefault    = reflect.TypeOf((*schema.Default)(nil)).Elem()
	tCtyType    = reflect.TypeOf(cty.Type{})
	tCtyValue   = reflect.TypeOf(cty.Value{})
	tSchemaAddr = reflect.TypeOf(schema.Address{})
	tLangAddr   = reflect.TypeOf(lang.Address{})
)

type populator struct {
	n       int
	variant int // 0 = everything populated; 1 = pointers/maps/slices of schema nodes nil (sparse)
	// leave-one-out populations: the skip-th scalar leaf (string, number, flag, cty type or value) keeps its
	// zero value while everything around it is populated as usual
	skip, leaf int
}

func (p *populator) skipLeaf() bool {
	if p.skip == 0 {
		return false
	}
	p.leaf++
	if p.leaf == p.skip {
		p.next() // the values of the other leaves stay what they are in the full population
		return true
	}
	return false
}

func (p *populator) next() int { p.n++; return p.n }

func (p *populator) constraint(depth int) schema.Constraint {
	k := p.next() % 12
	if depth <= 0 {
		k = k % 5
	}
	if p.variant == 1 {
		// sparse: collections that do not (yet) say what they hold - valid schema values
		switch k {
		case 6:
			return schema.List{Description: lang.Markdown("d"), MinItems: 1}
		case 7:
			return schema.Set{Description: lang.Markdown("d"), MaxItems: 2}
		case 8:
			return schema.Tuple{Description: lang.Markdown("d")}
		case 9:
			return schema.Map{Name: "m", AllowInterpolatedKeys: true}
		case 10:
			return schema.Object{Name: "o"}
		case 11:
			return schema.OneOf{schema.Set{}, schema.List{Elem: schema.Map{}}}
		}
	}
	switch k {
	case 0:
		return schema.AnyExpression{OfType: cty.String, SkipLiteralComplexTypes: true}
	case 1:
		return schema.LiteralType{Type: cty.List(cty.Number), SkipComplexTypes: true}
	case 2:
		return schema.Keyword{Keyword: "kw", Name: "n", Description: lang.Markdown("d")}
	case 3:
		return schema.Reference{OfScopeId: "scope", OfType: cty.Bool, Name: "r", Address: &schema.ReferenceAddrSchema{ScopeId: "s"}}
	case 4:
		return schema.LiteralValue{Value: cty.StringVal("v"), IsDeprecated: true, Description: lang.Markdown("d")}
	case 5:
		return schema.TypeDeclaration{}
	case 6:
		return schema.List{Elem: p.constraint(depth - 1), Description: lang.Markdown("d"), MinItems: 1, MaxItems: 2}
	case 7:
		return schema.Set{Elem: p.constraint(depth - 1), Description: lang.Markdown("d"), MinItems: 1, MaxItems: 2}
	case 8:
		return schema.Tuple{Elems: []schema.Constraint{p.constraint(depth - 1), p.constraint(depth - 1)}, Description: lang.Markdown("d")}
	case 9:
		return schema.Map{Elem: p.constraint(depth - 1), Name: "m", Description: lang.Markdown("d"), MinItems: 1, MaxItems: 3, AllowInterpolatedKeys: true}
	case 10:
		oa := schema.ObjectAttributes{}
		for i := 0; i < 2; i++ {
			as := &schema.AttributeSchema{}
			p.fill(reflect.ValueOf(as).Elem(), depth-1)
			oa[fmt.Sprintf("k%d", i)] = as
		}
		return schema.Object{Attributes: oa, Name: "o", Description: lang.Markdown("d"), AllowInterpolatedKeys: true}
	default:
		return schema.OneOf{p.constraint(depth - 1), p.constraint(depth - 1)}
	}
}

// fill populates every settable field of v.
func (p *populator) fill(v reflect.Value, depth int) {
	t := v.Type()
	switch {
	case t == tCtyType:
		if p.skipLeaf() {
			return
		}
		v.Set(reflect.ValueOf(cty.Map(cty.String)))
		return
	case t == tCtyValue:
		if p.skipLeaf() {
			return
		}
		v.Set(reflect.ValueOf(cty.StringVal(fmt.Sprintf("val%d", p.next()))))
		return
	case t == tConstraint:
		v.Set(reflect.ValueOf(p.constraint(depth)))
		return
	case t == tAddrStep:
		switch p.next() % 4 {
		case 0:
			v.Set(reflect.ValueOf(schema.StaticStep{Name: "st"}))
		case 1:
			v.Set(reflect.ValueOf(schema.LabelStep{Index: 1}))
		case 2:
			v.Set(reflect.ValueOf(schema.AttrNameStep{}))
		default:
			v.Set(reflect.ValueOf(schema.AttrValueStep{Name: "av", IsOptional: true}))
		}
		return
	case t == tLangStep:
		switch p.next() % 3 {
		case 0:
			v.Set(reflect.ValueOf(lang.RootStep{Name: "root"}))
		case 1:
			v.Set(reflect.ValueOf(lang.AttrStep{Name: "attr"}))
		default:
			v.Set(reflect.ValueOf(lang.IndexStep{Key: cty.NumberIntVal(3)}))
		}
		return
	case t == tDefault:
		v.Set(reflect.ValueOf(schema.DefaultValue{Value: cty.StringVal("def")}))
		return
	}
	switch v.Kind() {
	case reflect.Bool, reflect.Int, reflect.Int64, reflect.Int32, reflect.Uint, reflect.Uint64, reflect.Uint32, reflect.String:
		if p.skipLeaf() {
			return
		}
	}
	switch v.Kind() {
	case reflect.Bool:
		switch p.variant {
		case 2: // neighbouring flags get different values, so that a field filled from its neighbour shows
			v.SetBool(p.next()%2 == 0)
		case 3:
			v.SetBool(p.next()%2 == 1)
		default:
			v.SetBool(true)
		}
	case reflect.Int, reflect.Int64, reflect.Int32:
		v.SetInt(int64(p.next()%7 + 1))
	case reflect.Uint, reflect.Uint64, reflect.Uint32:
		v.SetUint(uint64(p.next()%7 + 1))
	case reflect.String:
		v.SetString(fmt.Sprintf("s%d", p.next()))
	case reflect.Struct:
		for i := 0; i < v.NumField(); i++ {
			if v.Field(i).CanSet() {
				p.fill(v.Field(i), depth)
			}
		}
	case reflect.Ptr:
		if depth <= 0 || (p.variant == 1 && t.Elem().Kind() == reflect.Struct) {
			return // nil
		}
		nv := reflect.New(t.Elem())
		p.fill(nv.Elem(), depth-1)
		v.Set(nv)
	case reflect.Slice:
		if depth <= 0 || (p.variant == 1 && isNodeType(t.Elem())) || (t.Elem().Kind() == reflect.Ptr && depth-1 <= 0) {
			return
		}
		s := reflect.MakeSlice(t, 2, 2)
		for i := 0; i < 2; i++ {
			p.fill(s.Index(i), depth-1)
		}
		v.Set(s)
	case reflect.Map:
		if depth <= 0 || (p.variant == 1 && isNodeType(t.Elem())) || (t.Elem().Kind() == reflect.Ptr && depth-1 <= 0) {
			return
		}
		m := reflect.MakeMap(t)
		for i := 0; i < 2; i++ {
			k := reflect.New(t.Key()).Elem()
			k.SetString(fmt.Sprintf("k%d", i))
			e := reflect.New(t.Elem()).Elem()
			p.fill(e, depth-1)
			m.SetMapIndex(k, e)
		}
		v.Set(m)
	case reflect.Interface, reflect.Func:
		// unknown interface types are left nil
	}
}

func isNodeType(t reflect.Type) bool {
	for t.Kind() == reflect.Ptr {
		t = t.Elem()
	}
	return t.Kind() == reflect.Struct && strings.Contains(t.PkgPath(), "hcl-lang") || t.Kind() == reflect.Struct && strings.Contains(t.PkgPath(), "go-cty/cty/function")
}

// sharedAllowed: values the property allows a copy to share (constraints, addresses, cty types/values)
func sharedAllowed(t reflect.Type) bool {
	return t == tConstraint || t == tCtyType || t == tCtyValue || t == tSchemaAddr || t == tLangAddr || t == tAddrStep || t == tLangStep || t == tDefault
}

var cmpOpts = cmp.Options{ctydebug.CmpOptions, cmpopts.EquateEmpty()}

func deepEqual(a, b interface{}) (eq bool, diff string) {
	defer func() {
		if r := recover(); r != nil {
			eq, diff = false, fmt.Sprint("cmp panic: ", r)
		}
	}()
	d := cmp.Diff(a, b, cmpOpts)
	return d == "", d
}

// clone: deep copy by reflection, independent of the Copy() methods (snapshot)
func clone(v reflect.Value) reflect.Value {
	t := v.Type()
	if t == tCtyType || t == tCtyValue {
		return v
	}
	switch v.Kind() {
	case reflect.Ptr:
		if v.IsNil() {
			return v
		}
		n := reflect.New(t.Elem())
		n.Elem().Set(clone(v.Elem()))
		return n
	case reflect.Struct:
		n := reflect.New(t).Elem()
		n.Set(v) // unexported fields by value
		for i := 0; i < v.NumField(); i++ {
			if n.Field(i).CanSet() {
				n.Field(i).Set(clone(v.Field(i)))
			}
		}
		return n
	case reflect.Slice:
		if v.IsNil() {
			return v
		}
		n := reflect.MakeSlice(t, v.Len(), v.Len())
		for i := 0; i < v.Len(); i++ {
			n.Index(i).Set(clone(v.Index(i)))
		}
		return n
	case reflect.Map:
		if v.IsNil() {
			return v
		}
		n := reflect.MakeMap(t)
		for _, k := range v.MapKeys() {
			n.SetMapIndex(k, clone(v.MapIndex(k)))
		}
		return n
	case reflect.Interface:
		if v.IsNil() {
			return v
		}
		n := reflect.New(t).Elem()
		n.Set(clone(v.Elem()))
		return n
	}
	return v
}

// mutation sites: paths to maps / slices / pointed-to structs that must not be shared
type mpath []string

func mutationPaths(v reflect.Value, path mpath, out *[]mpath, top bool) {
	t := v.Type()
	if !top && sharedAllowed(t) {
		return
	}
	if t == tCtyType || t == tCtyValue {
		return
	}
	switch v.Kind() {
	case reflect.Ptr:
		if v.IsNil() {
			return
		}
		if v.Elem().Kind() == reflect.Struct {
			*out = append(*out, append(append(mpath{}, path...), "*"))
		}
		mutationPaths(v.Elem(), append(path, "*"), out, false)
	case reflect.Struct:
		for i := 0; i < v.NumField(); i++ {
			if t.Field(i).IsExported() {
				mutationPaths(v.Field(i), append(path, "."+t.Field(i).Name), out, false)
			}
		}
	case reflect.Slice:
		if v.IsNil() || v.Len() == 0 {
			return
		}
		*out = append(*out, append(append(mpath{}, path...), "[]"))
		for i := 0; i < v.Len(); i++ {
			mutationPaths(v.Index(i), append(path, fmt.Sprintf("[%d]", i)), out, false)
		}
	case reflect.Map:
		if v.IsNil() {
			return
		}
		*out = append(*out, append(append(mpath{}, path...), "{}"))
		keys := v.MapKeys()
		sort.Slice(keys, func(i, j int) bool { return keys[i].String() < keys[j].String() })
		for _, k := range keys {
			mutationPaths(v.MapIndex(k), append(path, "{"+k.String()+"}"), out, false)
		}
	case reflect.Interface:
		if !v.IsNil() {
			mutationPaths(v.Elem(), path, out, top)
		}
	}
}

// navigate returns the value at path (without the final mutation marker)
func navigate(v reflect.Value, path mpath) (reflect.Value, bool) {
	for _, s := range path {
		for v.Kind() == reflect.Interface {
			if v.IsNil() {
				return v, false
			}
			v = v.Elem()
		}
		switch {
		case s == "*":
			if v.Kind() != reflect.Ptr || v.IsNil() {
				return v, false
			}
			v = v.Elem()
		case strings.HasPrefix(s, "."):
			if v.Kind() != reflect.Struct {
				return v, false
			}
			v = v.FieldByName(s[1:])
			if !v.IsValid() {
				return v, false
			}
		case strings.HasPrefix(s, "["):
			var i int
			fmt.Sscanf(s, "[%d]", &i)
			if v.Kind() != reflect.Slice || i >= v.Len() {
				return v, false
			}
			v = v.Index(i)
		case strings.HasPrefix(s, "{"):
			if v.Kind() != reflect.Map {
				return v, false
			}
			e := v.MapIndex(reflect.ValueOf(s[1 : len(s)-1]).Convert(v.Type().Key()))
			if !e.IsValid() {
				return v, false
			}
			v = e
		}
	}
	return v, true
}

// mutate applies the mutation named by the last element of the path; returns false if not applicable
func mutate(root reflect.Value, path mpath) bool {
	last := path[len(path)-1]
	v, ok := navigate(root, path[:len(path)-1])
	if !ok {
		return false
	}
	for v.Kind() == reflect.Interface && !v.IsNil() {
		v = v.Elem()
	}
	switch last {
	case "*": // change a field of the pointed-to struct
		if v.Kind() != reflect.Ptr || v.IsNil() {
			return false
		}
		s := v.Elem()
		for i := 0; i < s.NumField(); i++ {
			f := s.Field(i)
			if !f.CanSet() {
				continue
			}
			switch f.Kind() {
			case reflect.Bool:
				f.SetBool(!f.Bool())
				return true
			case reflect.String:
				f.SetString(f.String() + "-mutated")
				return true
			case reflect.Uint, reflect.Uint64:
				f.SetUint(f.Uint() + 100)
				return true
			case reflect.Int, reflect.Int64:
				f.SetInt(f.Int() + 100)
				return true
			}
		}
		// no scalar field: zero the first settable one
		for i := 0; i < s.NumField(); i++ {
			if s.Field(i).CanSet() && !s.Field(i).IsZero() {
				s.Field(i).Set(reflect.Zero(s.Field(i).Type()))
				return true
			}
		}
		return false
	case "[]": // replace an entry
		if v.Kind() != reflect.Slice || v.Len() == 0 {
			return false
		}
		if v.Index(0).IsZero() {
			return false
		}
		v.Index(0).Set(reflect.Zero(v.Type().Elem()))
		return true
	case "{}": // add and remove an entry
		if v.Kind() != reflect.Map || v.IsNil() {
			return false
		}
		keys := v.MapKeys()
		if len(keys) > 0 {
			sort.Slice(keys, func(i, j int) bool { return keys[i].String() < keys[j].String() })
			v.SetMapIndex(keys[0], reflect.Value{})
		}
		k := reflect.New(v.Type().Key()).Elem()
		k.SetString("added-by-mutation")
		v.SetMapIndex(k, reflect.Zero(v.Type().Elem()))
		return true
	}
	return false
}

type subject struct {
	name string
	mk   func(p *populator) reflect.Value // addressable value whose Copy method is called
}

func ptrSubject(name string, zero interface{}) subject {
	t := reflect.TypeOf(zero).Elem()
	return subject{name, func(p *populator) reflect.Value {
		v := reflect.New(t)
		p.fill(v.Elem(), 3)
		return v
	}}
}

// ptrSubjectDeep: recursive types (a Targetable nests Targetables) are populated several levels down, so
// that sharing below the first nested level is also probed
func ptrSubjectDeep(name string, zero interface{}, depth int) subject {
	t := reflect.TypeOf(zero).Elem()
	return subject{name, func(p *populator) reflect.Value {
		v := reflect.New(t)
		p.fill(v.Elem(), depth)
		return v
	}}
}

func valSubject(name string, zero interface{}) subject {
	t := reflect.TypeOf(zero)
	return subject{name, func(p *populator) reflect.Value {
		v := reflect.New(t).Elem()
		p.fill(v, 3)
		return v
	}}
}

func c17Subjects() []subject {
	return []subject{
		ptrSubject("BodySchema", &schema.BodySchema{}),
		ptrSubject("BlockSchema", &schema.BlockSchema{}),
		ptrSubject("AttributeSchema", &schema.AttributeSchema{}),
		ptrSubject("LabelSchema", &schema.LabelSchema{}),
		ptrSubject("BlockAddrSchema", &schema.BlockAddrSchema{}),
		ptrSubject("AttributeAddrSchema", &schema.AttributeAddrSchema{}),
		ptrSubject("BlockAsTypeOf", &schema.BlockAsTypeOf{}),
		ptrSubject("PathTarget", &schema.PathTarget{}),
		ptrSubjectDeep("Targetable", &schema.Targetable{}, 8),
		ptrSubject("FunctionSignature", &schema.FunctionSignature{}),
		ptrSubject("DocsLink", &schema.DocsLink{}),
		ptrSubject("Target", &schema.Target{}),
		ptrSubject("BodyExtensions", &schema.BodyExtensions{}),
		valSubject("ImpliedOrigin", schema.ImpliedOrigin{}),
		valSubject("Address", schema.Address{}),
		valSubject("lang.Address", lang.Address{}),
		valSubject("SemanticTokenModifiers", lang.SemanticTokenModifiers{}),
		valSubject("CompletionHooks", lang.CompletionHooks{}),
		valSubject("AnyExpression", schema.AnyExpression{}),
		valSubject("Keyword", schema.Keyword{}),
		valSubject("List", schema.List{}),
		valSubject("LiteralType", schema.LiteralType{}),
		valSubject("LiteralValue", schema.LiteralValue{}),
		valSubject("Map", schema.Map{}),
		valSubject("Object", schema.Object{}),
		valSubject("OneOf", schema.OneOf{}),
		valSubject("Reference", schema.Reference{}),
		valSubject("Set", schema.Set{}),
		valSubject("Tuple", schema.Tuple{}),
		valSubject("TypeDeclaration", schema.TypeDeclaration{}),
	}
}

func callCopy(v reflect.Value) (out reflect.Value, panicked string) {
	defer func() {
		if r := recover(); r != nil {
			panicked = fmt.Sprint(r)
		}
	}()
	m := v.MethodByName("Copy")
	if !m.IsValid() {
		return out, "no Copy method"
	}
	res := m.Call(nil)
	return res[0], ""
}

type fieldObs struct {
	Struct, Field, Kind, Mode string
}

func fieldKind(t reflect.Type) string {
	if sharedAllowed(t) {
		return "immutable" // constraints, addresses, cty types/values: may be shared
	}
	switch t.Kind() {
	case reflect.Ptr:
		return "node_ptr"
	case reflect.Slice:
		if isNodeType(t.Elem()) || t.Elem().Kind() == reflect.Interface {
			return "node_slice"
		}
		return "imm_slice"
	case reflect.Map:
		if isNodeType(t.Elem()) {
			return "node_map"
		}
		return "imm_map"
	case reflect.Func, reflect.Interface:
		return "immutable"
	}
	return "immutable"
}

func runC17(run *Run, replay string) {
	run.Res.Rule = "for each of the 30 schema/lang types with a Copy method: every exported field populated by reflection (nesting <= 3, recursive types 8; a second, sparse variant with nil pointers/containers; two variants with alternating boolean flags), Copy() called under recover, structural comparison (nil ~ empty), then one mutation per map / slice / pointed-to struct reachable outside constraints, addresses and cty values - applied to the copy (original must not change) and to the original (copy must not change); distinct non-trivial = distinct (type, variant, mutation path)"
	_ = hcl.Pos{}
	_ = function.Parameter{}
	var table []fieldObs
	for _, sub := range c17Subjects() {
		for variant := 0; variant < 4; variant++ {
			p := &populator{variant: variant}
			orig := sub.mk(p)
			run.Res.Evaluations++
			run.Count("type_" + sub.name)
			cp, pan := callCopy(orig)
			if pan != "" {
				run.Violate(Violation{Key: "C17/panic/" + sub.name, Rule: "Copy() returns without panicking", Func: "schema." + sub.name + ".Copy",
					Detail: pan, Replay: map[string]interface{}{"type": sub.name, "variant": variant}})
				continue
			}
			if eq, diff := deepEqual(orig.Interface(), cp.Interface()); !eq {
				// name the field
				field := firstDiffField(diff)
				run.Violate(Violation{Key: "C17/not-equal/" + sub.name + "." + field, Rule: "the copy is structurally equal to the original in every field",
					Func: "schema." + sub.name + ".Copy", Detail: diff, Replay: map[string]interface{}{"type": sub.name, "variant": variant, "field": field}})
			}
			// aliasing probes
			var paths []mpath
			mutationPaths(orig, nil, &paths, true)
			for _, path := range paths {
				for dir := 0; dir < 2; dir++ {
					p2 := &populator{variant: variant}
					o2 := sub.mk(p2)
					c2, pan := callCopy(o2)
					if pan != "" {
						break
					}
					// the value Copy returned may not be addressable: wrap it
					c2a := reflect.New(c2.Type()).Elem()
					c2a.Set(c2)
					target, other := c2a, o2
					if dir == 1 {
						target, other = o2, c2a
					}
					snap := clone(other)
					if !mutate(target, path) {
						continue
					}
					run.Res.Evaluations++
					run.Distinct(fmt.Sprintf("%s|%d|%s|%d", sub.name, variant, strings.Join(path, ""), dir))
					if eq, diff := deepEqual(snap.Interface(), other.Interface()); !eq {
						who := "original"
						if dir == 1 {
							who = "copy"
						}
						top := topField(path)
						run.Violate(Violation{Key: "C17/shared/" + sub.name + "." + top, Rule: "the copy shares no mutable container with the original",
							Func: "schema." + sub.name + ".Copy",
							Detail: fmt.Sprintf("mutating %s of the %s changed the %s: %s", strings.Join(path, ""), map[int]string{0: "copy", 1: "original"}[dir], who, diff),
							Replay: map[string]interface{}{"type": sub.name, "variant": variant, "path": strings.Join(path, ""), "direction": dir}})
					}
				}
			}
			if variant == 0 {
				// leave-one-out populations: a copy that loses a field only when a neighbouring one is empty
				count := &populator{variant: 0, skip: 1 << 30}
				sub.mk(count)
				leaves := count.leaf
				if leaves > 300 {
					leaves = 300
				}
				for k := 1; k <= leaves; k++ {
					pk := &populator{variant: 0, skip: k}
					ok := sub.mk(pk)
					ck, pan := callCopy(ok)
					run.Res.Evaluations++
					run.Count("leave_one_out_populations")
					if pan != "" {
						run.Violate(Violation{Key: "C17/panic/" + sub.name, Rule: "Copy() returns without panicking", Func: "schema." + sub.name + ".Copy",
							Detail: pan, Replay: map[string]interface{}{"type": sub.name, "variant": "leave-one-out", "leaf": k}})
						continue
					}
					if eq, diff := deepEqual(ok.Interface(), ck.Interface()); !eq {
						field := firstDiffField(diff)
						run.Violate(Violation{Key: "C17/not-equal/" + sub.name + "." + field, Rule: "the copy is structurally equal to the original in every field",
							Func: "schema." + sub.name + ".Copy", Detail: diff, Replay: map[string]interface{}{"type": sub.name, "variant": "leave-one-out", "leaf": k, "field": field}})
					}
				}
				table = append(table, observeFields(sub, orig, cp)...)
				run.Sample(map[string]interface{}{"type": sub.name, "mutation_paths": len(paths)})
			}
		}
	}
	// collections that do not (yet) say what they hold, alone and nested: valid schema values, copied like any other
	kw := schema.Keyword{Keyword: "kw"}
	for i, c := range []schema.Constraint{
		schema.Set{}, schema.List{}, schema.Map{}, schema.Tuple{}, schema.Object{}, schema.OneOf{},
		schema.Set{Description: lang.Markdown("d"), MinItems: 1, MaxItems: 2},
		schema.List{Elem: schema.Set{}}, schema.Set{Elem: schema.List{}}, schema.Map{Elem: schema.Set{}},
		schema.OneOf{kw, schema.Set{}}, schema.OneOf{schema.List{}, schema.Map{}, schema.Tuple{}},
		schema.Tuple{Elems: []schema.Constraint{kw, schema.Set{Elem: schema.Set{}}}},
		schema.Map{Elem: schema.Tuple{Elems: []schema.Constraint{schema.Object{}, schema.Set{Elem: schema.Set{}}}}},
		schema.Object{Attributes: schema.ObjectAttributes{"a": {IsOptional: true, Constraint: schema.Set{}}}},
	} {
		cp, pan := callCopy(reflect.ValueOf(c))
		run.Res.Evaluations++
		run.Count("element_less_collections")
		name := reflect.TypeOf(c).Name()
		if pan != "" {
			run.Violate(Violation{Key: "C17/panic/" + name, Rule: "Copy() returns without panicking", Func: "schema." + name + ".Copy",
				Detail: pan, Replay: map[string]interface{}{"type": name, "variant": "element-less", "index": i, "value": fmt.Sprintf("%#v", c)}})
			continue
		}
		if eq, diff := deepEqual(c, cp.Interface()); !eq {
			run.Violate(Violation{Key: "C17/not-equal/" + name, Rule: "the copy is structurally equal to the original in every field",
				Func: "schema." + name + ".Copy", Detail: diff, Replay: map[string]interface{}{"type": name, "variant": "element-less", "index": i}})
		}
	}
	// attributes that say nothing about their value (no constraint: legitimate for computed-only attributes), alone
	// and inside every value that holds attributes
	bare := func() *schema.AttributeSchema { return &schema.AttributeSchema{IsComputed: true, Description: lang.Markdown("d")} }
	for i, c := range []interface{}{
		bare(),
		&schema.BodySchema{Attributes: map[string]*schema.AttributeSchema{"c": bare(), "k": {IsOptional: true, Constraint: kw}}},
		&schema.BodySchema{AnyAttribute: bare()},
		&schema.BlockSchema{Body: &schema.BodySchema{Attributes: map[string]*schema.AttributeSchema{"c": bare()}}},
		&schema.BlockSchema{DependentBody: map[schema.SchemaKey]*schema.BodySchema{
			schema.NewSchemaKey(schema.DependencyKeys{Labels: []schema.LabelDependent{{Index: 0, Value: "x"}}}): {Attributes: map[string]*schema.AttributeSchema{"c": bare()}}}},
		schema.ObjectAttributes{"c": bare()},
		schema.Object{Attributes: schema.ObjectAttributes{"c": bare(), "k": {IsOptional: true, Constraint: kw}}},
		schema.List{Elem: schema.Object{Attributes: schema.ObjectAttributes{"c": bare()}}},
	} {
		cp, pan := callCopy(reflect.ValueOf(c))
		run.Res.Evaluations++
		run.Count("constraint_less_attributes")
		t := reflect.TypeOf(c)
		for t.Kind() == reflect.Ptr {
			t = t.Elem()
		}
		name := t.Name()
		if pan != "" {
			run.Violate(Violation{Key: "C17/panic/" + name, Rule: "Copy() returns without panicking", Func: "schema." + name + ".Copy",
				Detail: pan, Replay: map[string]interface{}{"type": name, "variant": "constraint-less-attribute", "index": i, "value": fmt.Sprintf("%#v", c)}})
			continue
		}
		if eq, diff := deepEqual(c, cp.Interface()); !eq {
			run.Violate(Violation{Key: "C17/not-equal/" + name, Rule: "the copy is structurally equal to the original in every field",
				Func: "schema." + name + ".Copy", Detail: diff, Replay: map[string]interface{}{"type": name, "variant": "constraint-less-attribute", "index": i}})
		}
	}
	writeFieldsTable(table, filepath.Join(run.OutDir, "Fields.v"))
	run.Res.Extra = map[string]interface{}{"fields_in_table": len(table)}
}

// genFieldsTable observes every subject once (fully populated variant) - used by `harness gen-tables`.
func genFieldsTable(outDir string) error {
	var table []fieldObs
	for _, sub := range c17Subjects() {
		p := &populator{}
		orig := sub.mk(p)
		cp, pan := callCopy(orig)
		if pan != "" {
			// a panicking Copy() copies nothing: every field counts as omitted
			o := orig
			for o.Kind() == reflect.Ptr {
				o = o.Elem()
			}
			if o.Kind() == reflect.Struct {
				for i := 0; i < o.NumField(); i++ {
					if o.Type().Field(i).IsExported() {
						table = append(table, fieldObs{sub.name, o.Type().Field(i).Name, fieldKind(o.Type().Field(i).Type), "omitted"})
					}
				}
			}
			continue
		}
		table = append(table, observeFields(sub, orig, cp)...)
	}
	return writeFieldsTable(table, filepath.Join(outDir, "Fields.v"))
}

func writeFieldsTable(table []fieldObs, path string) error {
	var sb strings.Builder
	sb.WriteString("(* GENERATED by tools/harness C17 from the struct definitions (reflection) and the observed\n   behaviour of Copy() in /repo's current working tree.  Do not edit. *)\n")
	sb.WriteString("From Coq Require Import String List.\nFrom HV Require Import Model.CopyModel.\nImport ListNotations.\nOpen Scope string_scope.\n")
	sb.WriteString("Definition fields_table : list field_entry := [\n")
	for i, f := range table {
		sep := ";"
		if i == len(table)-1 {
			sep = ""
		}
		fmt.Fprintf(&sb, "  {| fe_struct := %q; fe_field := %q; fe_kind := K_%s; fe_mode := M_%s |}%s\n", f.Struct, f.Field, f.Kind, f.Mode, sep)
	}
	sb.WriteString("].\n")
	old, _ := os.ReadFile(path)
	if string(old) == sb.String() {
		return nil // unchanged: keep the timestamp so that make does not rebuild
	}
	return writeIfChanged(path, []byte(sb.String()))
}

func topField(path mpath) string {
	for _, s := range path {
		if strings.HasPrefix(s, ".") {
			return s[1:]
		}
	}
	return strings.Join(path, "")
}

func firstDiffField(diff string) string {
	for _, line := range strings.Split(diff, "\n") {
		l := strings.TrimSpace(line)
		if (strings.HasPrefix(l, "-") || strings.HasPrefix(l, "+")) && strings.Contains(l, ":") {
			f := strings.TrimSpace(strings.TrimLeft(l, "-+ \t"))
			return strings.SplitN(f, ":", 2)[0]
		}
	}
	return "?"
}

// observeFields: per exported field of the subject's struct, the kind (from the type) and the
// copy mode (from behaviour): omitted / shared / shallow / deep.
func observeFields(sub subject, orig, cp reflect.Value) []fieldObs {
	o := orig
	for o.Kind() == reflect.Ptr || o.Kind() == reflect.Interface {
		o = o.Elem()
	}
	c := cp
	for c.Kind() == reflect.Ptr || c.Kind() == reflect.Interface {
		c = c.Elem()
	}
	if o.Kind() != reflect.Struct {
		return nil
	}
	var out []fieldObs
	for i := 0; i < o.NumField(); i++ {
		ft := o.Type().Field(i)
		if !ft.IsExported() {
			continue
		}
		of, cf := o.Field(i), c.Field(i)
		kind := fieldKind(ft.Type)
		mode := "deep"
		eq, _ := deepEqual(of.Interface(), cf.Interface())
		switch {
		case !eq && cf.IsZero():
			mode = "omitted"
		case !eq:
			mode = "omitted" // differs: treated like an omitted field
		case kind == "immutable":
			mode = "shared"
		default:
			mode = aliasMode(of, cf)
		}
		out = append(out, fieldObs{sub.name, ft.Name, kind, mode})
	}
	return out
}

// aliasMode compares identities of the containers / pointees of a field
func aliasMode(of, cf reflect.Value) string {
	switch of.Kind() {
	case reflect.Ptr:
		if of.IsNil() {
			return "deep"
		}
		if of.Pointer() == cf.Pointer() {
			return "shared"
		}
		return "deep"
	case reflect.Slice:
		if of.IsNil() || of.Len() == 0 {
			return "deep"
		}
		if of.Pointer() == cf.Pointer() {
			return "shared"
		}
		if of.Index(0).Kind() == reflect.Ptr && !of.Index(0).IsNil() && of.Index(0).Pointer() == cf.Index(0).Pointer() {
			return "shallow"
		}
		return "deep"
	case reflect.Map:
		if of.IsNil() {
			return "deep"
		}
		if of.Pointer() == cf.Pointer() {
			return "shared"
		}
		for _, k := range of.MapKeys() {
			e, f := of.MapIndex(k), cf.MapIndex(k)
			if e.Kind() == reflect.Ptr && !e.IsNil() && f.IsValid() && e.Pointer() == f.Pointer() {
				return "shallow"
			}
		}
		return "deep"
	}
	return "shared"
}

// cloneIface deep-clones a value by reflection (independent of Copy()).
func cloneIface(v interface{}) interface{} {
	return clone(reflect.ValueOf(v)).Interface()
}
