package main

// Correspondence cases for Model/ValueTargets.v: the reference targets declared by the value of one
// attribute (decodeReferenceTargetsForAttribute and the ReferenceTargets methods of the expression
// kinds), observed through the public CollectReferenceTargets on a one-attribute schema.

import (
	"fmt"
	"math/rand"
	"strings"

	"github.com/hashicorp/hcl-lang/lang"
	"github.com/hashicorp/hcl-lang/reference"
	"github.com/hashicorp/hcl-lang/schema"
	"github.com/hashicorp/hcl/v2"
	"github.com/hashicorp/hcl/v2/hclsyntax"
	"github.com/zclconf/go-cty/cty"
)

// the expression as the library's helpers see it (hcl.ExprList, hcl.ExprMap, rawObjectKey,
// isEmptyExpression, Value with an empty evaluation context)
func texprS(e hcl.Expression) S {
	vt := S(Nil)
	func() {
		defer func() { _ = recover() }()
		if val, diags := e.Value(&hcl.EvalContext{}); !diags.HasErrors() {
			vt = tyS(val.Type())
		}
	}()
	rng := rangeS(e.Range())
	if l, ok := e.(*hclsyntax.LiteralValueExpr); ok && l.Val == cty.DynamicVal {
		return T("empty", rng)
	}
	if _, ok := e.(*hclsyntax.ForExpr); ok {
		return T("for", rng, vt)
	}
	if elems, diags := hcl.ExprList(e); !diags.HasErrors() {
		l := List{}
		for _, x := range elems {
			l = append(l, texprS(x))
		}
		return T("tuple", rng, vt, l)
	}
	if items, diags := hcl.ExprMap(e); !diags.HasErrors() {
		l := List{}
		for _, it := range items {
			k := S(Nil)
			if ke, ok := it.Key.(hclsyntax.Expression); ok {
				if name, ok := rawKey(ke); ok {
					k = Str(name)
				}
			}
			l = append(l, L(k, rangeS(it.Key.Range()), texprS(it.Value)))
		}
		return T("object", rng, vt, l)
	}
	if st, ok := e.(*hclsyntax.ScopeTraversalExpr); ok {
		ad := S(Atom("none"))
		if a, err := lang.TraversalToAddress(st.Traversal); err == nil {
			ad = addrS(a)
		}
		return T("trav", rng, vt, ad)
	}
	return T("leaf", rng, vt)
}

func attrAddrS(a *schema.AttributeAddrSchema) S {
	if a == nil {
		return Nil
	}
	steps := List{}
	for _, s := range a.Steps {
		switch x := s.(type) {
		case schema.StaticStep:
			steps = append(steps, T("static", Str(x.Name)))
		case schema.AttrNameStep:
			steps = append(steps, Atom("attrname"))
		default:
			steps = append(steps, Atom("other"))
		}
	}
	return L(steps, Str(a.FriendlyName), Str(string(a.ScopeId)), Bool(a.AsExprType), Bool(a.AsReference))
}

var vtAttrNames = []string{"a", "b", "name", "a-b", "x1", "_u", "two words", "1x", "a.b", ""}

func vtType(r *rand.Rand, d int) cty.Type {
	n := 9
	if d <= 0 {
		n = 4
	}
	switch r.Intn(n) {
	case 0:
		return cty.Bool
	case 1:
		return cty.Number
	case 2:
		return cty.String
	case 3:
		return cty.DynamicPseudoType
	case 4:
		return cty.List(vtType(r, d-1))
	case 5:
		return cty.Set(vtType(r, d-1))
	case 6:
		return cty.Map(vtType(r, d-1))
	case 7:
		k := r.Intn(3)
		ts := make([]cty.Type, k)
		for i := range ts {
			ts[i] = vtType(r, d-1)
		}
		return cty.Tuple(ts)
	default:
		k := r.Intn(4)
		m := map[string]cty.Type{}
		var opt []string
		for i := 0; i < k; i++ {
			n := pick(r, vtAttrNames)
			m[n] = vtType(r, d-1)
			if r.Intn(3) == 0 {
				opt = append(opt, n)
			}
		}
		return cty.ObjectWithOptionalAttrs(m, opt)
	}
}

func vtCons(r *rand.Rand, d int) schema.Constraint {
	n := 12
	if d <= 0 {
		n = 5
	}
	elem := func() schema.Constraint {
		if r.Intn(10) == 0 {
			return nil
		}
		return vtCons(r, d-1)
	}
	switch r.Intn(n) {
	case 0, 1:
		return schema.LiteralType{Type: vtType(r, 2)}
	case 2:
		return schema.AnyExpression{OfType: vtType(r, 2)}
	case 3:
		switch r.Intn(3) {
		case 0:
			return schema.Reference{OfScopeId: "variable"}
		default:
			return schema.Reference{Address: &schema.ReferenceAddrSchema{ScopeId: pick(r, scopeIds)}, Name: pick(r, []string{"", "refname"})}
		}
	case 4:
		return pick(r, []schema.Constraint{schema.Keyword{Keyword: "kw"}, schema.TypeDeclaration{},
			schema.LiteralValue{Value: cty.StringVal("lv")}, schema.LiteralValue{Value: cty.ListVal([]cty.Value{cty.NumberIntVal(1)})}})
	case 5:
		return schema.List{Elem: elem()}
	case 6:
		return schema.Set{Elem: elem()}
	case 7:
		k := r.Intn(4)
		es := make([]schema.Constraint, k)
		for i := range es {
			es[i] = vtCons(r, d-1)
		}
		return schema.Tuple{Elems: es}
	case 8:
		return schema.Map{Elem: elem()}
	case 9, 10:
		k := r.Intn(4)
		oa := schema.ObjectAttributes{}
		for i := 0; i < k; i++ {
			oa[pick(r, vtAttrNames)] = &schema.AttributeSchema{IsOptional: true, Constraint: vtCons(r, d-1)}
		}
		return schema.Object{Attributes: oa}
	default:
		k := r.Intn(4)
		oo := schema.OneOf{}
		for i := 0; i < k; i++ {
			oo = append(oo, vtCons(r, d-1))
		}
		return oo
	}
}

type vtGen struct {
	r *rand.Rand
	g *exprGen
}

func (v *vtGen) key(name string) string {
	r := v.r
	plain := hclsyntax.ValidIdentifier(name)
	switch {
	case plain && r.Intn(3) > 0:
		return name
	case r.Intn(8) == 0:
		return "(" + fmt.Sprintf("%q", name) + ")"
	case r.Intn(8) == 0:
		return fmt.Sprintf("\"%s${1}\"", name)
	}
	return fmt.Sprintf("%q", name)
}

func (v *vtGen) objText(items []string) string {
	if len(items) == 0 {
		return "{}"
	}
	if v.r.Intn(2) == 0 {
		return "{ " + strings.Join(items, ", ") + " }"
	}
	return "{\n    " + strings.Join(items, "\n    ") + "\n  }"
}

// text for a value of the type: mostly conforming, with wrong-typed, missing, surplus and repeated parts
func (v *vtGen) forType(t cty.Type, d int) string {
	r := v.r
	if d < 0 || r.Intn(9) == 0 {
		return v.odd()
	}
	switch {
	case t == cty.Bool:
		return pick(r, []string{"true", "false"})
	case t == cty.Number:
		return pick(r, []string{"0", "42", "1.5"})
	case t == cty.String:
		return pick(r, []string{`"foo"`, `""`, `"é世"`, "<<EOT\nheredoc\nEOT", `"a-${var.x}"`})
	case t == cty.DynamicPseudoType:
		return pick(r, []string{`"dyn"`, "7", "true", "null", "[1, \"two\"]", "{ k = 1, \"q k\" = [true] }", "[[1], {}]", "{ a = { b = 1 } }", "[var.x]", "{ a = var.x }"})
	case t.IsListType() || t.IsSetType():
		var es []string
		for i, n := 0, r.Intn(4); i < n; i++ {
			es = append(es, v.forType(t.ElementType(), d-1))
		}
		return "[" + strings.Join(es, ", ") + "]"
	case t.IsTupleType():
		var es []string
		for _, et := range t.TupleElementTypes() {
			if r.Intn(6) == 0 {
				break
			}
			es = append(es, v.forType(et, d-1))
		}
		if r.Intn(6) == 0 {
			es = append(es, "\"surplus\"")
		}
		return "[" + strings.Join(es, ", ") + "]"
	case t.IsMapType():
		var es []string
		for i, n := 0, r.Intn(4); i < n; i++ {
			es = append(es, v.key(pick(r, []string{"k1", "k2", "q k", "k1", "a-b"}))+" = "+v.forType(t.ElementType(), d-1))
		}
		return v.objText(es)
	case t.IsObjectType():
		var es []string
		for _, n := range sortedKeys(t.AttributeTypes()) {
			if r.Intn(4) == 0 {
				continue
			}
			es = append(es, v.key(n)+" = "+v.forType(t.AttributeType(n), d-1))
			if r.Intn(8) == 0 {
				es = append(es, v.key(n)+" = "+v.forType(t.AttributeType(n), d-1))
			}
		}
		if r.Intn(5) == 0 {
			es = append(es, "unknown_attr = 1")
		}
		r.Shuffle(len(es), func(i, j int) { es[i], es[j] = es[j], es[i] })
		return v.objText(es)
	}
	return "null"
}

func (v *vtGen) odd() string {
	r := v.r
	return pick(r, []string{"var.x", "var.x.y[0]", "self.a", "null", "[for x in var.l : x]", "{for k, x in var.m : k => x}",
		"(1)", "1 + 2", "true ? 1 : 2", "f(1)", "[1, 2]", "{}", "[]", "{ a = 1 }", "\"s\"", "[\"a\", \"b\"]", "local.y[\"k\"]", "x"})
}

func (v *vtGen) forCons(c schema.Constraint, d int) string {
	r := v.r
	if c == nil || d < 0 || r.Intn(10) == 0 {
		return v.odd()
	}
	switch cc := c.(type) {
	case schema.AnyExpression:
		return v.forType(cc.OfType, 2)
	case schema.LiteralType:
		return v.forType(cc.Type, 2)
	case schema.LiteralValue:
		return v.forType(cc.Value.Type(), 1)
	case schema.Keyword:
		return cc.Keyword
	case schema.TypeDeclaration:
		return "string"
	case schema.Reference:
		return pick(r, []string{"var.x", "local.y.z", "var.l[0]", "data.a[\"k\"]", "x", "var.x[var.i]", "\"var.x\"", "self.a"})
	case schema.List:
		var es []string
		for i, n := 0, r.Intn(4); i < n; i++ {
			es = append(es, v.forCons(cc.Elem, d-1))
		}
		return "[" + strings.Join(es, ", ") + "]"
	case schema.Set:
		var es []string
		for i, n := 0, r.Intn(4); i < n; i++ {
			es = append(es, v.forCons(cc.Elem, d-1))
		}
		return "[" + strings.Join(es, ", ") + "]"
	case schema.Tuple:
		var es []string
		for _, e := range cc.Elems {
			if r.Intn(6) == 0 {
				break
			}
			es = append(es, v.forCons(e, d-1))
		}
		if r.Intn(6) == 0 {
			es = append(es, "\"surplus\"")
		}
		return "[" + strings.Join(es, ", ") + "]"
	case schema.Map:
		var es []string
		for i, n := 0, r.Intn(4); i < n; i++ {
			es = append(es, v.key(pick(r, []string{"k1", "k2", "q k", "k1", "a-b"}))+" = "+v.forCons(cc.Elem, d-1))
		}
		return v.objText(es)
	case schema.Object:
		var es []string
		for _, n := range sortedKeys(cc.Attributes) {
			if r.Intn(4) == 0 {
				continue
			}
			es = append(es, v.key(n)+" = "+v.forCons(cc.Attributes[n].Constraint, d-1))
			if r.Intn(8) == 0 {
				es = append(es, v.key(n)+" = "+v.forCons(cc.Attributes[n].Constraint, d-1))
			}
		}
		if r.Intn(5) == 0 {
			es = append(es, "unknown_attr = 1")
		}
		r.Shuffle(len(es), func(i, j int) { es[i], es[j] = es[j], es[i] })
		return v.objText(es)
	case schema.OneOf:
		if len(cc) == 0 {
			return v.odd()
		}
		return v.forCons(cc[r.Intn(len(cc))], d)
	}
	return v.odd()
}

func vtAddr(r *rand.Rand) *schema.AttributeAddrSchema {
	if r.Intn(8) == 0 {
		return nil
	}
	var steps schema.Address
	switch r.Intn(8) {
	case 0:
		steps = schema.Address{schema.AttrNameStep{}}
	case 1:
		steps = schema.Address{}
	case 2:
		steps = schema.Address{schema.StaticStep{Name: "var"}, schema.LabelStep{Index: 0}}
	case 3:
		steps = schema.Address{schema.StaticStep{Name: "root"}, schema.StaticStep{Name: "mid"}, schema.AttrNameStep{}}
	default:
		steps = schema.Address{schema.StaticStep{Name: "var"}, schema.AttrNameStep{}}
	}
	a := &schema.AttributeAddrSchema{Steps: steps, FriendlyName: pick(r, []string{"", "friendly"}), ScopeId: pick(r, scopeIds)}
	switch r.Intn(6) {
	case 0:
		a.AsReference = true
	case 1:
		a.AsReference, a.AsExprType = true, true
	case 2:
	default:
		a.AsExprType = true
	}
	return a
}

func valueTargetCases(run *Run, r *rand.Rand, n int) {
	v := &vtGen{r: r, g: &exprGen{r: r}}
	for i := 0; i < n; i++ {
		cons := vtCons(r, 2)
		aa := vtAddr(r)
		attrName := pick(r, []string{"attr", "a-b", "x1"})
		var text string
		switch r.Intn(12) {
		case 0:
			text = "" // nothing after the equals sign: the parser's placeholder for a missing expression
		case 1:
			text = v.g.any(2)
		default:
			text = v.forCons(cons, 3)
		}
		oneValueTargetCase(run, cons, aa, attrName, text)
	}
}

// the witness of Properties/C09.v (C09_nesting_refuted_below_reference_declarations), replayed on the implementation
func valueTargetWitness(run *Run) {
	cons := schema.List{Elem: schema.OneOf{schema.Reference{Address: &schema.ReferenceAddrSchema{ScopeId: "provider"}}, schema.LiteralType{Type: cty.String}}}
	aa := &schema.AttributeAddrSchema{Steps: schema.Address{schema.StaticStep{Name: "var"}, schema.AttrNameStep{}}, AsExprType: true}
	oneValueTargetCase(run, cons, aa, "attr", "[aws.west, \"x\"]")
}

// valueTargetFocus: every collection constraint (alone and nested in another) over elements that declare targets
// themselves, are plain literals or any expressions, under every way an attribute can be addressable, with
// written values that hold a reference next to a literal.  No random draw.
type vtSpec struct {
	cons schema.Constraint
	aa   *schema.AttributeAddrSchema
	text string
}

func valueTargetFocusSpecs() []vtSpec {
	decl := schema.Reference{Address: &schema.ReferenceAddrSchema{ScopeId: "provider"}}
	elems := []schema.Constraint{decl, schema.OneOf{decl, schema.LiteralType{Type: cty.String}}, schema.OneOf{schema.LiteralType{Type: cty.String}, decl},
		schema.LiteralType{Type: cty.String}, schema.AnyExpression{OfType: cty.DynamicPseudoType}, schema.Keyword{Keyword: "kw"}, schema.OneOf{schema.Keyword{Keyword: "kw"}, schema.Keyword{Keyword: "kx"}}}
	steps := schema.Address{schema.StaticStep{Name: "var"}, schema.AttrNameStep{}}
	addrs := []*schema.AttributeAddrSchema{nil, {Steps: steps, AsExprType: true}, {Steps: steps, AsReference: true}, {Steps: steps, AsExprType: true, AsReference: true, ScopeId: "variable"}}
	type wrap struct {
		mk    func(e schema.Constraint) schema.Constraint
		texts []string
	}
	seqTexts := []string{"[aws.west, \"x\"]", "[\"x\", aws.west, aws.east]", "[kw, kx]", "[]"}
	mapTexts := []string{"{ k = aws.west, j = \"x\" }", "{ \"q k\" = \"x\", k = aws.west }", "{ k = kw }", "{}"}
	wraps := []wrap{
		{func(e schema.Constraint) schema.Constraint { return schema.List{Elem: e} }, seqTexts},
		{func(e schema.Constraint) schema.Constraint { return schema.Set{Elem: e} }, seqTexts},
		{func(e schema.Constraint) schema.Constraint { return schema.Tuple{Elems: []schema.Constraint{e, e}} }, seqTexts},
		{func(e schema.Constraint) schema.Constraint { return schema.Map{Elem: e} }, mapTexts},
		{func(e schema.Constraint) schema.Constraint {
			return schema.Object{Attributes: schema.ObjectAttributes{"k": {IsOptional: true, Constraint: e}, "j": {IsOptional: true, Constraint: e}}}
		}, mapTexts},
		{func(e schema.Constraint) schema.Constraint { return schema.List{Elem: schema.Set{Elem: e}} }, []string{"[[aws.west, \"x\"], [aws.east]]", "[[kw]]"}},
		{func(e schema.Constraint) schema.Constraint { return schema.Set{Elem: schema.List{Elem: e}} }, []string{"[[aws.west, \"x\"], [aws.east]]", "[[kw]]"}},
		{func(e schema.Constraint) schema.Constraint { return schema.Map{Elem: schema.Set{Elem: e}} }, []string{"{ k = [aws.west, \"x\"], j = [aws.east] }"}},
		{func(e schema.Constraint) schema.Constraint { return schema.Set{Elem: schema.Map{Elem: e}} }, []string{"[{ k = aws.west }, { j = \"x\" }]"}},
		{func(e schema.Constraint) schema.Constraint {
			return schema.OneOf{schema.Set{Elem: e}, schema.LiteralType{Type: cty.String}}
		}, []string{"[aws.west, \"x\"]", "\"s\""}},
	}
	var out []vtSpec
	for _, w := range wraps {
		for _, e := range elems {
			for _, aa := range addrs {
				for _, t := range w.texts {
					out = append(out, vtSpec{w.mk(e), aa, t})
				}
			}
		}
	}
	return out
}

func valueTargetFocus(run *Run) {
	for _, sp := range valueTargetFocusSpecs() {
		oneValueTargetCase(run, sp.cons, sp.aa, "attr", sp.text)
		run.Count("attrtargets_focus")
	}
}

// valueTargetProbeShare: the same family as worlds of their own - the attribute, a reference to what it declares
// (var.attr), one into its first element and one to what an element may declare; the share of the family whose
// index is i modulo n.  Every query is asked at every offset of the referencing lines.
func valueTargetProbeShare(i, n int) []*Scenario {
	var out []*Scenario
	if n < 1 {
		n = 1
	}
	for k, sp := range valueTargetFocusSpecs() {
		if k%n != i%n {
			continue
		}
		src := "attr = " + sp.text + "\nuse = var.attr\nidx = var.attr[0]\nkey = var.attr.k\ndecl = aws.west\n"
		sch := &schema.BodySchema{Attributes: map[string]*schema.AttributeSchema{
			"attr": {IsOptional: true, Constraint: sp.cons, Address: sp.aa},
			"use":  {IsOptional: true, Constraint: schema.AnyExpression{OfType: cty.DynamicPseudoType}},
			"idx":  {IsOptional: true, Constraint: schema.AnyExpression{OfType: cty.String}},
			"key":  {IsOptional: true, Constraint: schema.Reference{OfScopeId: "variable"}},
			"decl": {IsOptional: true, Constraint: schema.OneOf{schema.Reference{OfScopeId: "provider"}, schema.AnyExpression{OfType: cty.DynamicPseudoType}}},
		}}
		w := newWorld()
		pd := w.AddPath("root", sch, map[string]string{"main.tf": src}, genFunctions(nil))
		s := &Scenario{W: w, Main: pd, File: "main.tf", Src: []byte(src), Kind: "value-target-probe"}
		for off := len("attr = " + sp.text); off <= len(src); off++ {
			s.Offsets = append(s.Offsets, off)
		}
		out = append(out, s)
	}
	return out
}

func oneValueTargetCase(run *Run, cons schema.Constraint, aa *schema.AttributeAddrSchema, attrName, text string) {
	for once := true; once; once = false {
		src := attrName + " = " + text + "\n"
		w := newWorld()
		sch := &schema.BodySchema{Attributes: map[string]*schema.AttributeSchema{attrName: {IsOptional: true, Constraint: cons, Address: aa}}}
		p := w.AddPath("p", sch, map[string]string{"main.tf": src}, nil)
		f := p.Ctx.Files["main.tf"]
		if f == nil {
			run.Count("attrtargets_unparsed")
			continue
		}
		body, ok := f.Body.(*hclsyntax.Body)
		if !ok || body.Attributes[attrName] == nil || len(body.Attributes) != 1 || len(body.Blocks) != 0 {
			run.Count("attrtargets_unparsed")
			continue
		}
		attr := body.Attributes[attrName]
		pd, err := w.Dec.Path(lang.Path{Path: "p", LanguageID: "hcl"})
		if err != nil {
			continue
		}
		res := safeCall("CollectReferenceTargets", func() (interface{}, error) { return pd.CollectReferenceTargets() })
		if res.Panic != "" {
			run.Violate(Violation{Key: "C01/panic/" + res.PanicFunc, Rule: "no panic", Func: res.PanicFunc, Detail: res.Panic,
				Replay: map[string]interface{}{"source": src, "constraint": Show(consS(cons)), "address": Show(attrAddrS(aa))}})
			continue
		}
		obs, _ := res.Val.(reference.Targets)
		// direct oracle: nested targets are declared exactly one step below their parent, inside its range
		// (the range rule presupposes what the theorem presupposes: the parser put the value inside the attribute;
		// for "name =" without a value it does not)
		er := attr.Expr.Range()
		exprInsideAttr := er.Start.Byte >= attr.SrcRange.Start.Byte && er.End.Byte <= attr.SrcRange.End.Byte
		if !exprInsideAttr {
			run.Count("attrtargets_value_outside_attribute")
		}
		var walk func(parent reference.Target)
		walk = func(parent reference.Target) {
			for _, n := range parent.NestedTargets {
				ok := len(n.Addr) == len(parent.Addr)+1 && lang.Address(n.Addr[:len(parent.Addr)]).Equals(parent.Addr)
				if len(parent.Addr) == 0 {
					ok = len(n.Addr) == 1
				}
				if !ok {
					key := "C09/nested-address-not-one-step-below/other"
					if n.DefRangePtr == nil && n.Type == cty.NilType && consHasRefDecl(cons) {
						// a Reference constraint with an Address declares the written traversal itself
						key = "C09/nested-address-not-one-step-below/reference-declaration-inside-addressable-collection"
					}
					run.Violate(Violation{Key: key, Rule: "nested targets extend their parent's address by exactly one step", Func: "CollectReferenceTargets",
						Detail: fmt.Sprintf("%s has the nested target %s", parent.Addr.String(), n.Addr.String()),
						Replay: map[string]interface{}{"source": src, "constraint": Show(consS(cons)), "address": Show(attrAddrS(aa))}})
				} else if exprInsideAttr && parent.RangePtr != nil && n.RangePtr != nil &&
					(n.RangePtr.Filename != parent.RangePtr.Filename || n.RangePtr.Start.Byte < parent.RangePtr.Start.Byte || n.RangePtr.End.Byte > parent.RangePtr.End.Byte) {
					run.Violate(Violation{Key: "C09/nested-range-outside-parent/value", Rule: "elements of a written value lie inside that value's range", Func: "CollectReferenceTargets",
						Detail: fmt.Sprintf("%s %v is not inside %s %v", n.Addr.String(), n.RangePtr, parent.Addr.String(), parent.RangePtr),
						Replay: map[string]interface{}{"source": src, "constraint": Show(consS(cons)), "address": Show(attrAddrS(aa))}})
				}
				walk(n)
			}
		}
		for _, t := range obs {
			walk(t)
		}
		run.Res.Evaluations++
		run.Case("attrtargets", []S{Str(attrName), rangeS(attr.SrcRange), rangeS(attr.NameRange), attrAddrS(aa), consS(cons), texprS(attr.Expr)}, targetsS(obs))
		run.Count("attrtargets")
		if len(obs) > 0 {
			run.Count("attrtargets_nonempty")
		}
		for _, t := range obs {
			if len(t.NestedTargets) > 0 {
				run.Count("attrtargets_nested")
				break
			}
		}
	}
}

// a Reference constraint that declares a target (Reference.Address) occurs somewhere in the constraint
func consHasRefDecl(c schema.Constraint) bool {
	switch x := c.(type) {
	case schema.Reference:
		return x.Address != nil
	case schema.List:
		return x.Elem != nil && consHasRefDecl(x.Elem)
	case schema.Set:
		return x.Elem != nil && consHasRefDecl(x.Elem)
	case schema.Map:
		return x.Elem != nil && consHasRefDecl(x.Elem)
	case schema.Tuple:
		for _, e := range x.Elems {
			if consHasRefDecl(e) {
				return true
			}
		}
	case schema.OneOf:
		for _, e := range x {
			if consHasRefDecl(e) {
				return true
			}
		}
	case schema.Object:
		for _, a := range x.Attributes {
			if a != nil && consHasRefDecl(a.Constraint) {
				return true
			}
		}
	}
	return false
}
