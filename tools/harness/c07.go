package main

// C07: body and label completion offers exactly what the effective schema still allows.

import (
	"context"
	"encoding/json"
	"fmt"
	"math/rand"
	"sort"
	"strings"

	"github.com/hashicorp/hcl-lang/decoder"
	"github.com/hashicorp/hcl-lang/lang"
	"github.com/hashicorp/hcl-lang/schema"
	"github.com/hashicorp/hcl/v2"
	"github.com/hashicorp/hcl/v2/hclsyntax"
)

func init() { props["C07"] = runC07 }

func tokensS(src []byte) S {
	toks, diags := hclsyntax.LexConfig(src, "main.tf", hcl.InitialPos)
	if diags.HasErrors() {
		return Atom("nolex")
	}
	l := List{}
	for _, t := range toks {
		k := "other"
		switch t.Type {
		case hclsyntax.TokenIdent:
			k = "ident"
		case hclsyntax.TokenNewline:
			k = "newline"
		case hclsyntax.TokenEOF:
			k = "eof"
		case hclsyntax.TokenQuotedLit:
			k = "quotedlit"
		case hclsyntax.TokenCQuote:
			k = "cquote"
		}
		l = append(l, L(Atom(k), rangeS(t.Range)))
	}
	return l
}

// decodedKeysS: every dependent-body key of the schema tree with its decoded label pairs, plus
// the label-only keys the dynamic-block schema is built with for every block type name.
func decodedKeysS(root *schema.BodySchema) S {
	seen := map[string]S{}
	names := map[string]bool{}
	var body func(b *schema.BodySchema, d int)
	var block func(b *schema.BlockSchema, d int)
	body = func(b *schema.BodySchema, d int) {
		if b == nil || d > 8 {
			return
		}
		for n, k := range b.Blocks {
			names[n] = true
			block(k, d+1)
		}
	}
	block = func(b *schema.BlockSchema, d int) {
		if b == nil {
			return
		}
		body(b.Body, d)
		for k, db := range b.DependentBody {
			var dk schema.DependencyKeys
			if err := json.Unmarshal([]byte(k), &dk); err == nil {
				ls := List{}
				for _, l := range dk.Labels {
					ls = append(ls, L(Int(l.Index), Str(l.Value)))
				}
				seen[string(k)] = ls
			}
			body(db, d)
		}
	}
	body(root, 0)
	names["content"] = true
	names["dynamic"] = true
	for n := range names {
		k := schema.NewSchemaKey(schema.DependencyKeys{Labels: []schema.LabelDependent{{Index: 0, Value: n}}})
		seen[string(k)] = L(L(Int(0), Str(n)))
	}
	out := List{}
	for _, k := range sortedKeys(seen) {
		out = append(out, L(Str(k), seen[k]))
	}
	return out
}

func completionObserved(c lang.Candidates, err error) (S, bool) {
	if err != nil {
		if pe, ok := err.(*decoder.PositionalError); ok {
			return T("err", Str(pe.Msg)), true
		}
		return nil, false
	}
	l := List{}
	for _, x := range c.List {
		l = append(l, L(Str(x.Label), Int(int(x.Kind)), rangeS(x.TextEdit.Range), Str(x.Description.Value), Bool(x.IsDeprecated)))
	}
	return T("cands", Bool(c.IsComplete), l), true
}

// identPrefixAt: the part of the identifier TOKEN (per HCL's lexer) left of the offset, "" when the
// offset is not on or right after an identifier token (comments, strings, operators ...)
func identPrefixAt(src []byte, off int) string {
	toks, _ := hclsyntax.LexConfig(src, "p.tf", hcl.InitialPos)
	for _, t := range toks {
		if t.Type == hclsyntax.TokenIdent && t.Range.Start.Byte <= off && off <= t.Range.End.Byte {
			return string(src[t.Range.Start.Byte:off])
		}
	}
	return ""
}

func rawIdentPrefixAt(src []byte, off int) string {
	i := off
	for i > 0 {
		c := src[i-1]
		if c == '_' || c == '-' || c >= '0' && c <= '9' || c >= 'a' && c <= 'z' || c >= 'A' && c <= 'Z' || c >= 0x80 {
			i--
		} else {
			break
		}
	}
	return string(src[i:off])
}

func countDiags(ds hcl.Diagnostics, summaryPrefix string) int {
	n := 0
	for _, d := range ds {
		if strings.HasPrefix(d.Summary, summaryPrefix) {
			n++
		}
	}
	return n
}

func runC07(run *Run, replay string) {
	run.Res.Rule = "generated schema (nested blocks, dependent bodies keyed by labels and attribute values, AnyAttribute bodies, extensions, attribute/block name clashes; some runs with the candidate limit lowered to 3) x configuration (conforming or not, typing-history states) x cursor offsets at token boundaries; the body/label-level model must return the same candidates (label, kind, edit range, description, deprecated, order, complete flag) or the same positional error; direct oracle: candidates sorted, duplicate-free, prefix-matching, and accepting a candidate adds no 'unexpected' or 'too many blocks' diagnostic; distinct non-trivial = distinct (file text, offset) with at least one body/label candidate"
	bases, hist, posN := 60, 4, 24
	if run.Thorough {
		bases, hist, posN = 600, 20, 200
	}
	ctx := context.Background()
	for bi := 0; bi < bases; bi++ {
		r := rand.New(rand.NewSource(subSeed(run.Res.Seed, bi)))
		max := uint(100)
		if bi%4 == 3 {
			max = 3
		}
		opts := ScenarioOpts{Histories: hist, Inject: bi%3 == 1, Gen: GenOpts{Degenerate: bi%7 == 6, DynFocus: bi%4 == 1}}
		if bi%5 == 1 {
			opts.Gen.MaxDepth = 3
		}
		scs07 := genScenarios(r, opts)
		if bi == 0 {
			// block counts between the limits, static and generated (dynamic) blocks mixed; every offset
			for _, fs := range validationFocusScenarios() {
				for off := 0; off <= len(fs.Src); off++ {
					fs.Offsets = append(fs.Offsets, off)
				}
				scs07 = append(scs07, fs)
			}
		}
		for si, sc := range scs07 {
			f := sc.Main.Ctx.Files[sc.File]
			body, ok := f.Body.(*hclsyntax.Body)
			if !ok {
				continue
			}
			toks := tokensS(sc.Src)
			dec := decodedKeysS(sc.Main.Schema)
			schS := sc.schemaS()
			bodyS_ := bodyS(body)
			tbl := lcTable(sc.Src)
			loc := map[string]interface{}{"seed": run.Res.Seed, "base": bi, "scenario": si, "kind": sc.Kind, "src": string(sc.Src), "max_candidates": max}
			d, _ := sc.W.Dec.Path(sc.Main.Path)
			decoder.VerifSetMaxCandidates(d, max)
			before, _ := d.ValidateFile(ctx, sc.File)
			pairs := List{}
			_, pdiags := hclsyntax.ParseConfig(sc.Src, sc.File, hcl.InitialPos)
			cleanParse := !pdiags.HasErrors()
			for _, off := range append(cursorOffsets(r, sc.Src, false, posN), sc.Offsets...) {
				pos, ok := tbl[off]
				if !ok {
					continue
				}
				res := safeCall("CompletionAtPos", func() (interface{}, error) { return d.CompletionAtPos(ctx, sc.File, pos) })
				run.Res.Evaluations++
				if res.Panic != "" {
					continue
				}
				cands, _ := res.Val.(lang.Candidates)
				obs, ok := completionObserved(cands, res.Err)
				if !ok {
					continue
				}
				pairs = append(pairs, L(posS(pos), obs))
				// ---- direct oracle on body/label candidates
				structural := len(cands.List) > 0 && cleanParse && bodyLevelPos(body, pos)
				for _, c := range cands.List {
					if c.Kind != lang.AttributeCandidateKind && c.Kind != lang.BlockCandidateKind && c.Kind != lang.LabelCandidateKind {
						structural = false
					}
				}
				if !structural || res.Err != nil {
					continue
				}
				run.Distinct(fmt.Sprintf("%s|%d", sc.Src, off))
				q := Query{Name: "CompletionAtPos", Pos: &pos, File: sc.File}
				labels := make([]string, len(cands.List))
				for i, c := range cands.List {
					labels[i] = c.Label
				}
				if cands.IsComplete {
					if !sort.StringsAreSorted(labels) {
						run.Violate(Violation{Key: "C07/not-sorted", Rule: "candidates are sorted by name", Func: "bodySchemaCandidates", Detail: fmt.Sprint(labels), Replay: locWith(loc, q)})
					}
				}
				for i := 1; i < len(labels); i++ {
					for j := 0; j < i; j++ {
						if labels[i] == labels[j] {
							run.Violate(Violation{Key: "C07/duplicate-candidate", Rule: "candidates are without duplicates", Func: "bodySchemaCandidates", Detail: fmt.Sprint(labels), Replay: locWith(loc, q)})
						}
					}
				}
				if cands.List[0].Kind != lang.LabelCandidateKind {
					prefix := identPrefixAt(sc.Src, off)
					for _, c := range cands.List {
						if !strings.HasPrefix(c.Label, prefix) {
							run.Violate(Violation{Key: "C07/candidate-ignores-prefix", Rule: "candidates start with the typed prefix", Func: "bodySchemaCandidates",
								Detail: fmt.Sprintf("prefix %q, candidate %q", prefix, c.Label), Replay: locWith(loc, q)})
							break
						}
					}
					// accept each candidate (bounded) and re-validate
					for ci, c := range cands.List {
						if ci >= 6 {
							break
						}
						er := c.TextEdit.Range
						if er.Start.Byte < 0 || er.End.Byte > len(sc.Src) || er.Start.Byte > er.End.Byte {
							continue
						}
						if er.End.Byte != off {
							// the edit would replace existing text right of the cursor (e.g. a whole attribute,
							// possibly the dependency key that selected the schema): not an insertion
							continue
						}
						ins := c.Label + " = null"
						if c.Kind == lang.BlockCandidateKind {
							ins = c.Label + " {\n}"
						}
						nsrc := string(sc.Src[:er.Start.Byte]) + ins + string(sc.Src[er.End.Byte:])
						if _, nd := hclsyntax.ParseConfig([]byte(nsrc), sc.File, hcl.InitialPos); nd.HasErrors() {
							continue
						}
						w2 := newWorld()
						pd2 := w2.AddPath("root", sc.Main.Schema, map[string]string{sc.File: nsrc}, sc.Main.Ctx.Functions)
						d2, _ := w2.Dec.Path(pd2.Path)
						after, err := d2.ValidateFile(ctx, sc.File)
						run.Res.Evaluations++
						if err != nil {
							continue
						}
						insEnd := er.Start.Byte + len(ins)
						onAccepted := func(what string) int {
							n := 0
							for _, dg := range after {
								if strings.HasPrefix(dg.Summary, what) && dg.Subject != nil && dg.Subject.Start.Byte >= er.Start.Byte && dg.Subject.Start.Byte < insEnd {
									n++
								}
							}
							return n
						}
						for _, what := range []string{"Unexpected attribute", "Unexpected block", fmt.Sprintf("Too many blocks specified for %q", c.Label)} {
							bad := false
							if strings.HasPrefix(what, "Too many") {
								bad = countDiags(after, what) > countDiags(before, what) && er.Start.Byte == er.End.Byte-len(identPrefixAt(sc.Src, er.End.Byte))
							} else {
								bad = onAccepted(what) > 0
							}
							if bad {
								m := locWith(loc, q)
								m["candidate"] = c.Label
								m["accepted_source"] = nsrc
								run.Violate(Violation{Key: "C07/accepted-candidate-invalid/" + strings.SplitN(what, " for", 2)[0], Rule: "accepting a candidate never makes validation report an unexpected or surplus item",
									Func: "CompletionAtPos", Detail: fmt.Sprintf("after accepting %q validation reports a new %q", c.Label, what), Replay: m})
							}
						}
					}
				}
				if len(run.Res.Samples) < 3 {
					run.Sample(map[string]interface{}{"src": string(sc.Src), "offset": off, "candidates": labels})
				}
			}
			if len(pairs) > 0 {
				run.Case("completions", []S{Int(int(max)), Str(string(sc.Src)), toks, dec, bodyS_, schS, pairs}, T("allok"))
			}
		}
	}
}

// bodyLevelPos: is the position at body/label level (not inside an attribute's value) of a
// cleanly parsed file?  Independent of hcl-lang: only the parser's ranges are used.
func bodyLevelPos(body *hclsyntax.Body, pos hcl.Pos) bool {
	for _, a := range body.Attributes {
		r := a.SrcRange
		if r.ContainsPos(pos) || r.End.Byte == pos.Byte {
			return a.NameRange.ContainsPos(pos)
		}
	}
	for _, b := range body.Blocks {
		if b.Range().ContainsPos(pos) {
			if b.Body != nil && b.Body.Range().ContainsPos(pos) && !b.OpenBraceRange.ContainsPos(pos) && !b.CloseBraceRange.ContainsPos(pos) {
				return bodyLevelPos(b.Body, pos)
			}
			return true
		}
	}
	return true
}
