package main

// C19: JSON and native syntax of the same configuration yield the same reference graph.
// One structured configuration (of the Terraform-like language of tfgen.go, restricted to what
// both syntaxes can express) is rendered twice; targets, origins and the symbol outline are compared.
// Also used for the JSON part of C14 (source order of symbols in JSON, pretty and single-line).

import (
	"context"
	"fmt"
	"math/rand"
	"sort"
	"strings"

	"github.com/hashicorp/hcl-lang/decoder"
	"github.com/hashicorp/hcl-lang/reference"
	"github.com/hashicorp/hcl-lang/schema"
	"github.com/zclconf/go-cty/cty"
)

func init() { props["C19"] = runC19 }

// ---- structured configuration
type DExpr struct {
	Kind  string // str | num | bool | list | obj | ref | tmpl
	Str   string
	Items []DExpr
	Keys  []string
	// the value of a property the effective schema of its body does not declare: JSON decoding (schema-driven)
	// leaves it out; it is written into the JSON rendering only
	Unknown bool
}

type DAttr struct {
	Name string
	Val  DExpr
}

type DBlock struct {
	Type   string
	Labels []string
	Body   DBody
}

type DBody struct {
	Attrs  []DAttr
	Blocks []DBlock
}

func (e DExpr) native() string {
	switch e.Kind {
	case "str":
		return fmt.Sprintf("%q", e.Str)
	case "num", "bool", "ref":
		return e.Str
	case "tmpl":
		return `"pre-${` + e.Str + `}-post"`
	case "tmpl2":
		return `"${self.zone}-${` + e.Str + `}"`
	case "list":
		var xs []string
		for _, i := range e.Items {
			xs = append(xs, i.native())
		}
		return "[" + strings.Join(xs, ", ") + "]"
	case "obj":
		var xs []string
		for i, k := range e.Keys {
			xs = append(xs, k+" = "+e.Items[i].native())
		}
		return "{ " + strings.Join(xs, ", ") + " }"
	}
	return "null"
}

func (e DExpr) json(legacy bool) string {
	switch e.Kind {
	case "str":
		return fmt.Sprintf("%q", e.Str)
	case "num", "bool":
		return e.Str
	case "ref":
		if legacy {
			return fmt.Sprintf("%q", e.Str)
		}
		return fmt.Sprintf("%q", "${"+e.Str+"}")
	case "tmpl":
		return fmt.Sprintf("%q", "pre-${"+e.Str+"}-post")
	case "tmpl2":
		return fmt.Sprintf("%q", "${self.zone}-${"+e.Str+"}")
	case "list":
		var xs []string
		for _, i := range e.Items {
			xs = append(xs, i.json(false))
		}
		return "[" + strings.Join(xs, ", ") + "]"
	case "obj":
		var xs []string
		for i, k := range e.Keys {
			xs = append(xs, fmt.Sprintf("%q: %s", k, e.Items[i].json(false)))
		}
		return "{" + strings.Join(xs, ", ") + "}"
	}
	return "null"
}

func (b DBody) native(ind string) string {
	var sb strings.Builder
	for _, a := range b.Attrs {
		if a.Val.Unknown {
			continue
		}
		fmt.Fprintf(&sb, "%s%s = %s\n", ind, a.Name, a.Val.native())
	}
	for _, k := range b.Blocks {
		hdr := k.Type
		for _, l := range k.Labels {
			hdr += fmt.Sprintf(" %q", l)
		}
		fmt.Fprintf(&sb, "%s%s {\n%s%s}\n", ind, hdr, k.Body.native(ind+"  "), ind)
	}
	return sb.String()
}

// JSON: attributes as members, blocks of one type as an array of label-nested objects; members in
// written order (attributes and blocks interleaved as given by `order`)
func (b DBody) jsonMembers(legacyRefs map[string]bool, nlsep, ind string) []string {
	var ms []string
	for _, a := range b.Attrs {
		ms = append(ms, fmt.Sprintf("%s%q: %s", ind, a.Name, a.Val.json(legacyRefs[a.Name])))
	}
	// group blocks by type, keeping first-occurrence order
	var types []string
	byType := map[string][]DBlock{}
	for _, k := range b.Blocks {
		if _, ok := byType[k.Type]; !ok {
			types = append(types, k.Type)
		}
		byType[k.Type] = append(byType[k.Type], k)
	}
	for _, t := range types {
		var objs []string
		for _, k := range byType[t] {
			inner := "{" + nlsep + strings.Join(k.Body.jsonMembers(legacyRefs, nlsep, ind+"  "), ","+nlsep) + nlsep + ind + "}"
			for i := len(k.Labels) - 1; i >= 0; i-- {
				inner = fmt.Sprintf("{%q: %s}", k.Labels[i], inner)
			}
			objs = append(objs, inner)
		}
		ms = append(ms, fmt.Sprintf("%s%q: [%s]", ind, t, strings.Join(objs, ", ")))
	}
	return ms
}

func (b DBody) json(pretty bool) string {
	legacy := map[string]bool{"ref": true, "dep": true, "decl": true}
	if pretty {
		return "{\n" + strings.Join(b.jsonMembers(legacy, "\n", "  "), ",\n") + "\n}\n"
	}
	return "{" + strings.Join(b.jsonMembers(legacy, "", ""), ", ") + "}"
}

// ---- generator (schema = tfSchema())
type dualGen struct {
	r     *rand.Rand
	decls []string
	nref  int
}

func (g *dualGen) ref() DExpr {
	g.nref++
	if len(g.decls) > 0 && g.r.Intn(5) > 0 {
		return DExpr{Kind: "ref", Str: pick(g.r, g.decls)}
	}
	return DExpr{Kind: "ref", Str: pick(g.r, []string{"var.missing", "local.nope"})}
}

func (g *dualGen) refOrTmpl() DExpr {
	e := g.ref()
	if g.r.Intn(2) == 0 {
		return DExpr{Kind: "tmpl", Str: e.Str}
	}
	return e
}

func (g *dualGen) strOrRef() DExpr {
	if g.r.Intn(8) == 0 {
		// a self.* reference (admitted only where the body enables it) in front of another reference
		e := g.ref()
		return DExpr{Kind: "tmpl2", Str: e.Str}
	}
	switch g.r.Intn(4) {
	case 0:
		return g.ref()
	case 1:
		e := g.ref()
		return DExpr{Kind: "tmpl", Str: e.Str}
	}
	return DExpr{Kind: "str", Str: pick(g.r, []string{"x", "größe", "a b"})}
}

func genDual(r *rand.Rand) DBody {
	g := &dualGen{r: r}
	var b DBody
	names := []string{"alpha", "beta", "gamma", "a1"}
	for i, n := 0, 1+r.Intn(3); i < n; i++ {
		name := names[i]
		body := DBody{}
		if r.Intn(2) == 0 {
			body.Attrs = append(body.Attrs, DAttr{Name: "default", Val: pick(r, []DExpr{{Kind: "str", Str: "d"}, {Kind: "num", Str: "1"}, {Kind: "list", Items: []DExpr{{Kind: "str", Str: "x"}}}})})
		}
		if r.Intn(2) == 0 {
			body.Attrs = append(body.Attrs, DAttr{Name: "description", Val: DExpr{Kind: "str", Str: "desc"}})
		}
		b.Blocks = append(b.Blocks, DBlock{Type: "variable", Labels: []string{name}, Body: body})
		g.decls = append(g.decls, "var."+name)
	}
	if r.Intn(3) > 0 {
		lb := DBody{}
		for i, n := 0, 1+r.Intn(3); i < n; i++ {
			name := fmt.Sprintf("l%d", i)
			val := pick(r, []DExpr{{Kind: "str", Str: "s"}, {Kind: "num", Str: "7"},
				{Kind: "list", Items: []DExpr{{Kind: "str", Str: "a"}, {Kind: "str", Str: "b"}}},
				{Kind: "obj", Keys: []string{"k", "n"}, Items: []DExpr{{Kind: "str", Str: "v"}, {Kind: "num", Str: "1"}}}})
			if r.Intn(3) == 0 {
				val = g.ref()
			}
			lb.Attrs = append(lb.Attrs, DAttr{Name: name, Val: val})
			g.decls = append(g.decls, "local."+name)
		}
		b.Blocks = append(b.Blocks, DBlock{Type: "locals", Body: lb})
	}
	for i, n := 0, 1+r.Intn(3); i < n; i++ {
		typ := pick(r, tfTypes)
		name := fmt.Sprintf("r%d", i)
		rb := DBody{}
		add := func(n string, v DExpr) { rb.Attrs = append(rb.Attrs, DAttr{Name: n, Val: v}) }
		if r.Intn(2) == 0 {
			if r.Intn(3) == 0 {
				add("str", g.strOrRef())
			} else {
				add("str", DExpr{Kind: "str", Str: "lit"})
			}
		}
		if r.Intn(2) == 0 {
			add("num", DExpr{Kind: "num", Str: "42"})
		}
		if r.Intn(2) == 0 {
			add("ref", g.ref())
		}
		if r.Intn(2) == 0 {
			add("any", g.strOrRef())
		}
		if r.Intn(3) == 0 {
			add("refs", DExpr{Kind: "list", Items: []DExpr{g.ref(), g.ref()}})
		}
		if r.Intn(3) == 0 {
			add("tags", DExpr{Kind: "obj", Keys: []string{"env", "team"}, Items: []DExpr{g.strOrRef(), {Kind: "str", Str: "t"}}})
		}
		if r.Intn(3) == 0 {
			add("strs", DExpr{Kind: "list", Items: []DExpr{{Kind: "str", Str: "a"}, g.strOrRef()}})
		}
		if r.Intn(3) == 0 {
			// a plain JSON string under a constraint admitting a reference is read as a legacy bare
			// traversal: it has no single native equivalent, so only "${...}" forms are generated here
			add("oneof", g.refOrTmpl())
		}
		if r.Intn(4) == 0 {
			add("multi", pick(r, []DExpr{g.refOrTmpl(), {Kind: "list", Items: []DExpr{g.ref()}}}))
		}
		if i%2 == 0 && len(g.decls) > 0 {
			// a computed-only attribute set anyway (no random draw): decoded like any other in both syntaxes
			g.nref++
			add("arn", DExpr{Kind: "tmpl", Str: g.decls[0]})
		}
		if typ == "aws" {
			add("zone", DExpr{Kind: "str", Str: "z1"})
			if r.Intn(2) == 0 {
				add("region", g.strOrRef())
			}
		} else {
			add("title", DExpr{Kind: "str", Str: "t"})
			add("labels", DExpr{Kind: "obj", Keys: []string{"k"}, Items: []DExpr{{Kind: "str", Str: "v"}}})
		}
		hasOpts := false
		if r.Intn(3) == 0 {
			hasOpts = true
			rb.Blocks = append(rb.Blocks, DBlock{Type: "opts", Body: DBody{Attrs: []DAttr{{"flag", DExpr{Kind: "bool", Str: "true"}}, {"via", g.strOrRef()}}}})
		}
		_ = hasOpts
		for k, m := 0, r.Intn(3); k < m; k++ {
			rb.Blocks = append(rb.Blocks, DBlock{Type: "item", Body: DBody{Attrs: []DAttr{{"val", g.strOrRef()}}}})
		}
		if i%2 == 0 && typ == "gcp" {
			// dynamic blocks of two block types of the dependent body, with different bodies (no random draw)
			fe := DAttr{Name: "for_each", Val: DExpr{Kind: "list", Items: []DExpr{{Kind: "str", Str: "a"}}}}
			rb.Blocks = append(rb.Blocks,
				DBlock{Type: "dynamic", Labels: []string{"meta"}, Body: DBody{Attrs: []DAttr{fe}, Blocks: []DBlock{{Type: "content", Body: DBody{Attrs: []DAttr{{"key", DExpr{Kind: "str", Str: "k"}},
					{"obj", DExpr{Kind: "obj", Keys: []string{"a", "b"}, Items: []DExpr{{Kind: "str", Str: "x"}, {Kind: "num", Str: "1"}}}}}}}}}},
				DBlock{Type: "dynamic", Labels: []string{"extra"}, Body: DBody{Attrs: []DAttr{fe}, Blocks: []DBlock{{Type: "content", Body: DBody{Attrs: []DAttr{{"e1", DExpr{Kind: "str", Str: "s"}}, {"e2", DExpr{Kind: "num", Str: "1"}}}}}}}})
		}
		b.Blocks = append(b.Blocks, DBlock{Type: "res", Labels: []string{typ, name}, Body: rb})
		g.decls = append(g.decls, fmt.Sprintf("res.%s.%s", typ, name))
		if i%2 == 1 {
			// a resource of a type no dependent body is registered for: the static body alone is in force and dynamic
			// blocks are propagated into its nested blocks.  Inside a nested block WITHOUT dependent bodies a static and a
			// dynamic block of a block type two levels down (no random draw)
			fe := DAttr{Name: "for_each", Val: DExpr{Kind: "list", Items: []DExpr{{Kind: "str", Str: "a"}}}}
			ub := DBody{Attrs: []DAttr{{"str", DExpr{Kind: "str", Str: "u"}}}, Blocks: []DBlock{{Type: "opts", Body: DBody{
				Attrs: []DAttr{{"flag", DExpr{Kind: "bool", Str: "false"}}},
				Blocks: []DBlock{
					{Type: "sub", Body: DBody{Attrs: []DAttr{{"s", DExpr{Kind: "str", Str: "one"}}}}},
					{Type: "dynamic", Labels: []string{"sub"}, Body: DBody{Attrs: []DAttr{fe}, Blocks: []DBlock{{Type: "content", Body: DBody{Attrs: []DAttr{{"s", DExpr{Kind: "str", Str: "two"}}}}}}}},
				}}}}}
			b.Blocks = append(b.Blocks, DBlock{Type: "res", Labels: []string{"unk", fmt.Sprintf("u%d", i)}, Body: ub})
		}
	}
	for i, n := 0, r.Intn(3); i < n; i++ {
		ob := DBody{Attrs: []DAttr{{"value", g.strOrRef()}}}
		if r.Intn(3) == 0 {
			ob.Attrs = append(ob.Attrs, DAttr{Name: "dep", Val: g.ref()})
		}
		// declarations written as references ("${mark.m0}" / legacy "mark.m0" in JSON), and strings that are no
		// traversal (a plain string in both syntaxes); no random draw
		ob.Attrs = append(ob.Attrs, DAttr{Name: "decl", Val: DExpr{Kind: []string{"ref", "str"}[i%2], Str: []string{fmt.Sprintf("mark.m%d", i), "eu west"}[i%2]}})
		ob.Attrs = append(ob.Attrs, DAttr{Name: "decls", Val: DExpr{Kind: "list", Items: []DExpr{{Kind: "ref", Str: fmt.Sprintf("mark.l%d", i)}, {Kind: "str", Str: "ap south-1"}, {Kind: "ref", Str: fmt.Sprintf("mark.k%d.x", i)}}}})
		b.Blocks = append(b.Blocks, DBlock{Type: "output", Labels: []string{fmt.Sprintf("o%d", i)}, Body: ob})
	}
	for i, n := 0, r.Intn(2); i < n; i++ {
		backend := pick(r, []string{"s3", "gcs", ""})
		dbody := DBody{Attrs: []DAttr{{"provider", DExpr{Kind: "str", Str: "p"}}}}
		if backend != "" {
			dbody.Attrs = append(dbody.Attrs, DAttr{Name: "backend", Val: DExpr{Kind: "str", Str: backend}})
		}
		dbody.Attrs = append(dbody.Attrs, DAttr{Name: "workspace", Val: g.strOrRef()})
		if backend == "s3" {
			dbody.Attrs = append(dbody.Attrs, DAttr{Name: "bucket", Val: DExpr{Kind: "str", Str: "b"}})
		}
		if r.Intn(2) == 0 {
			dbody.Blocks = append(dbody.Blocks, DBlock{Type: "defaults", Body: DBody{Attrs: []DAttr{{"region", DExpr{Kind: "str", Str: "r"}}}}})
		}
		b.Blocks = append(b.Blocks, DBlock{Type: "data", Labels: []string{"remote_state", fmt.Sprintf("d%d", i)}, Body: dbody})
	}
	if r.Intn(2) == 0 {
		// blocks whose attributes all come from the label-selected body, each also carrying a property that
		// only the OTHER kind declares (unknown here)
		kinds := []string{"aws", "gcp"}
		r.Shuffle(2, func(i, j int) { kinds[i], kinds[j] = kinds[j], kinds[i] })
		for i, k := range kinds[:1+r.Intn(2)] {
			other := map[string]string{"aws": "gcp", "gcp": "aws"}[k]
			pb := DBody{Attrs: []DAttr{{Name: k + "_only", Val: DExpr{Kind: "str", Str: "v"}}, {Name: other + "_only", Val: DExpr{Kind: "str", Str: "foreign", Unknown: true}},
				{Name: "common", Val: DExpr{Kind: "num", Str: "1"}}}}
			if i == 1 && r.Intn(2) == 0 {
				pb.Attrs = pb.Attrs[1:]
			}
			b.Blocks = append(b.Blocks, DBlock{Type: "plug", Labels: []string{k}, Body: pb})
		}
	}
	for i, n := 0, r.Intn(3); i < n; i++ {
		kind := pick(r, []string{"role", "role", "plain"})
		cb := DBody{Attrs: []DAttr{{"extra", g.strOrRef()}}}
		if kind == "role" {
			if r.Intn(2) == 0 {
				cb.Attrs = append(cb.Attrs, DAttr{Name: "role", Val: g.ref()})
			}
			if r.Intn(2) == 0 {
				cb.Attrs = append(cb.Attrs, DAttr{Name: "alias", Val: DExpr{Kind: "str", Str: "al"}})
			}
		}
		if r.Intn(2) == 0 {
			cb.Attrs = append(cb.Attrs, DAttr{Name: fmt.Sprintf("free%d", i), Val: g.strOrRef()})
		}
		if r.Intn(2) == 0 {
			cb.Blocks = append(cb.Blocks, DBlock{Type: "sub", Body: DBody{Attrs: []DAttr{{"x", DExpr{Kind: "num", Str: "1"}}}}})
		}
		if r.Intn(2) == 0 {
			bb := DBody{Attrs: []DAttr{{"path", DExpr{Kind: "str", Str: "p"}}},
				Blocks: []DBlock{{Type: "bopts", Body: DBody{Attrs: []DAttr{{"mode", DExpr{Kind: "str", Str: "m"}}}}}}}
			if r.Intn(3) == 0 {
				bb.Attrs = append([]DAttr{{"kind", DExpr{Kind: "str", Str: "local"}}}, bb.Attrs...)
			}
			cb.Blocks = append(cb.Blocks, DBlock{Type: "backend", Body: bb})
		}
		b.Blocks = append(b.Blocks, DBlock{Type: "cfg", Labels: []string{kind}, Body: cb})
	}
	return b
}

// ---- projections
func absTargetsProj(ts reference.Targets) []string {
	var out []string
	var walk func(ts reference.Targets, depth int) []string
	walk = func(ts reference.Targets, depth int) []string {
		var xs []string
		for _, t := range ts {
			if len(t.Addr) == 0 {
				continue
			}
			nested := walk(t.NestedTargets, depth+1)
			sort.Strings(nested)
			xs = append(xs, fmt.Sprintf("%s|%s|%s|{%s}", t.Addr.String(), Show(tyS(t.Type)), t.ScopeId, strings.Join(nested, ";")))
		}
		return xs
	}
	out = walk(ts, 0)
	sort.Strings(out)
	return out
}

func originsProj(os reference.Origins, withCons bool) []string {
	var out []string
	for _, o := range os {
		lo, ok := o.(reference.LocalOrigin)
		if !ok {
			continue
		}
		s := lo.Addr.String()
		if withCons {
			s += "|" + Show(consListS(lo.Constraints))
		}
		out = append(out, s)
	}
	sort.Strings(out)
	return out
}

func outlineProj(ss []decoder.Symbol) string {
	var xs []string
	for _, s := range ss {
		switch s.(type) {
		case *decoder.BlockSymbol, *decoder.AttributeSymbol:
			nested := ""
			if _, isBlock := s.(*decoder.BlockSymbol); isBlock {
				nested = outlineProj(s.NestedSymbols())
			}
			xs = append(xs, s.Name()+"{"+nested+"}")
		}
	}
	return strings.Join(xs, ",")
}

func runC19(run *Run, replay string) {
	run.Res.Rule = "structured configurations of the Terraform-like language restricted to what both syntaxes express (labelled blocks, literal values of all types, lists/maps/objects, references as \"${...}\" templates and legacy bare strings, templates with interpolation, any-attribute bodies, nested blocks), rendered in native syntax and in JSON (pretty and single-line); absolute reference targets (address, type, scope, nesting), reference origins (addresses; constraints equal or reduced to dynamic inside JSON strings) and the block/attribute outline must coincide; JSON symbols must be in source order; distinct non-trivial = distinct configuration with at least one reference"
	n := 120
	if run.Thorough {
		n = 2500
	}
	ctx := context.Background()
	jsonRefCases(run, rand.New(rand.NewSource(subSeed(run.Res.Seed, 191919))), n*5)
	objectKeyParityOracle(run)
	for i := 0; i < n; i++ {
		r := rand.New(rand.NewSource(subSeed(run.Res.Seed, i)))
		db := genDual(r)
		nat := db.native("")
		pretty := i%2 == 0
		js := db.json(pretty)
		mk := func(file, src string) (*World, *PathData) {
			w := newWorld()
			pd := w.AddPath("root", tfSchema(), map[string]string{file: src}, nil)
			w.Collect()
			return w, pd
		}
		wn, pn := mk("main.tf", nat)
		wj, pj := mk("main.tf.json", js)
		run.Res.Evaluations++
		loc := map[string]interface{}{"seed": run.Res.Seed, "config": i, "native": nat, "json": js}
		if len(pn.Ctx.ReferenceOrigins) > 0 {
			run.Distinct(nat)
		}
		if pj.Ctx.Files["main.tf.json"] == nil {
			run.Res.HypothesisFailures = append(run.Res.HypothesisFailures, "generated JSON does not parse: "+js)
			continue
		}
		tn, tj := absTargetsProj(pn.Ctx.ReferenceTargets), absTargetsProj(pj.Ctx.ReferenceTargets)
		if strings.Join(tn, "\n") != strings.Join(tj, "\n") {
			run.Violate(Violation{Key: "C19/targets-differ", Rule: "JSON yields the same absolute reference targets (address, type, scope, nesting) as native syntax", Func: "CollectReferenceTargets",
				Detail: firstDiff(strings.Join(tn, "\n"), strings.Join(tj, "\n")), Replay: loc})
		}
		on, oj := originsProj(pn.Ctx.ReferenceOrigins, false), originsProj(pj.Ctx.ReferenceOrigins, false)
		if strings.Join(on, "\n") != strings.Join(oj, "\n") {
			run.Violate(Violation{Key: "C19/origins-differ", Rule: "JSON yields the same reference origins (address) as native syntax", Func: "CollectReferenceOrigins",
				Detail: firstDiff(strings.Join(on, "\n"), strings.Join(oj, "\n")), Replay: loc})
		}
		sn, _ := wn.Dec.Symbols(ctx, "")
		sj, _ := wj.Dec.Symbols(ctx, "")
		if outlineProj(sn) != outlineProj(sj) {
			run.Violate(Violation{Key: "C19/outline-differs", Rule: "JSON yields the same block/attribute symbol outline when a schema is present", Func: "Decoder.Symbols",
				Detail: firstDiff(outlineProj(sn), outlineProj(sj)), Replay: loc})
		}
		jsonSymbolOrder(run, sj, loc)
		jsonCases(run, db, nat, js)
		for k := 0; k < 3; k++ {
			jsonVariantCases(run, r, db)
		}
		run.Count(fmt.Sprintf("origins_%d", min(len(on), 6)))
		if len(run.Res.Samples) < 2 {
			run.Sample(map[string]interface{}{"native": nat, "json": js, "targets": tn, "origins": on})
		}
	}
}

// C14 (JSON part): symbols of a JSON file are in source order at every level and children lie inside parents
func jsonSymbolOrder(run *Run, sj []decoder.Symbol, loc map[string]interface{}) {
	var ordered, nested func(ss []decoder.Symbol) bool
	ordered = func(ss []decoder.Symbol) bool {
		for k, s := range ss {
			if k > 0 && ss[k-1].Range().Start.Byte > s.Range().Start.Byte {
				return false
			}
			if !ordered(s.NestedSymbols()) {
				return false
			}
		}
		return true
	}
	nested = func(ss []decoder.Symbol) bool {
		for _, s := range ss {
			for _, c := range s.NestedSymbols() {
				if c.Range().Start.Byte < s.Range().Start.Byte || c.Range().End.Byte > s.Range().End.Byte {
					return false
				}
			}
			if !nested(s.NestedSymbols()) {
				return false
			}
		}
		return true
	}
	if !ordered(sj) {
		run.Violate(Violation{Key: "C14/json-symbols-not-in-source-order", Rule: "symbols correspond to the written items in source order", Func: "Decoder.Symbols", Detail: outlineProj(sj), Replay: loc})
	}
	if !nested(sj) {
		run.Violate(Violation{Key: "C14/json-child-outside-parent", Rule: "every child's range lies inside its parent's", Func: "Decoder.Symbols", Detail: outlineProj(sj), Replay: loc})
	}
}

// JSON files with schema for C14: outline equals the written items (the native outline of the same
// configuration), in source order, for pretty and single-line JSON
func c14JSON(run *Run, n int) {
	ctx := context.Background()
	// many blocks of one type written in array form (the JSON parser gives all of them the position of the
	// array's bracket) with an attribute written behind them: the k-th block symbol is the k-th written block
	for _, count := range []int{3, 13, 16, 40} {
		var items []string
		for k := 0; k < count; k++ {
			items = append(items, fmt.Sprintf(`{"val": "v%d"}`, k))
		}
		js := `{"res": [{"aws": {"r0": {"str": "s", "item": [` + strings.Join(items, ", ") + `], "zone": "z1"}}}]}`
		wj := newWorld()
		pj := wj.AddPath("root", tfSchema(), map[string]string{"main.tf.json": js}, nil)
		if pj.Ctx.Files["main.tf.json"] == nil {
			continue
		}
		run.Res.Evaluations++
		run.Count("json_array_form_files")
		loc := map[string]interface{}{"seed": run.Res.Seed, "json_array_form_blocks": count, "json": js}
		sj, _ := wj.Dec.Symbols(ctx, "")
		jsonSymbolOrder(run, sj, loc)
		k := 0
		for _, top := range sj {
			for _, s := range top.NestedSymbols() {
				if _, isBlock := s.(*decoder.BlockSymbol); !isBlock || s.Name() != "item" {
					continue
				}
				want := fmt.Sprintf(`"v%d"`, k)
				got := ""
				for _, c := range s.NestedSymbols() {
					if rng := c.Range(); rng.End.Byte <= len(js) && rng.Start.Byte <= rng.End.Byte {
						got += js[rng.Start.Byte:rng.End.Byte]
					}
				}
				if !strings.Contains(got, want) {
					run.Violate(Violation{Key: "C14/json-array-form-blocks-permuted", Rule: "the symbols of a JSON file (with schema) correspond one-to-one, in source order, to the attributes and blocks written in it", Func: "Decoder.Symbols",
						Detail: fmt.Sprintf("block symbol #%d of %d holds %s, written there: %s", k, count, got, want), Replay: loc})
					break
				}
				k++
			}
		}
		if k != count {
			run.Violate(Violation{Key: "C14/json-array-form-blocks-count", Rule: "the symbols of a JSON file (with schema) correspond one-to-one, in source order, to the attributes and blocks written in it", Func: "Decoder.Symbols",
				Detail: fmt.Sprintf("%d of %d written blocks have their symbol in place", k, count), Replay: loc})
		}
	}
	for i := 0; i < n; i++ {
		r := rand.New(rand.NewSource(subSeed(run.Res.Seed, 140000+i)))
		db := genDual(r)
		nat, js := db.native(""), db.json(i%2 == 0)
		wn := newWorld()
		wn.AddPath("root", tfSchema(), map[string]string{"main.tf": nat}, nil)
		wj := newWorld()
		pj := wj.AddPath("root", tfSchema(), map[string]string{"main.tf.json": js}, nil)
		if pj.Ctx.Files["main.tf.json"] == nil {
			continue
		}
		run.Res.Evaluations++
		run.Count("json_files")
		loc := map[string]interface{}{"seed": run.Res.Seed, "json_config": i, "native": nat, "json": js}
		sn, _ := wn.Dec.Symbols(ctx, "")
		sj, _ := wj.Dec.Symbols(ctx, "")
		if outlineProj(sn) != outlineProj(sj) {
			run.Violate(Violation{Key: "C14/json-outline-differs-from-written-items", Rule: "the symbols of a JSON file (with schema) correspond one-to-one, in source order, to the attributes and blocks written in it", Func: "Decoder.Symbols",
				Detail: firstDiff(outlineProj(sn), outlineProj(sj)), Replay: loc})
		}
		jsonSymbolOrder(run, sj, loc)
	}
}

// objectKeyParityOracle: objects under an Object constraint in which one key is written as an expression - in
// native syntax a parenthesised literal ("k3"), in JSON the plain member name - before, between and behind
// members holding references.  The references written in the other members are the same in both renderings.
func objectKeyParityOracle(run *Run) {
	sch := &schema.BodySchema{Attributes: map[string]*schema.AttributeSchema{
		"obj": {IsOptional: true, Constraint: schema.Object{Attributes: schema.ObjectAttributes{
			"first":  {IsOptional: true, Constraint: schema.AnyExpression{OfType: cty.String}},
			"second": {IsOptional: true, Constraint: schema.Reference{OfScopeId: "local"}},
			"third":  {IsOptional: true, Constraint: schema.AnyExpression{OfType: cty.DynamicPseudoType}},
		}}},
	}}
	type member struct{ nat, js string }
	refs := []member{
		{`first = var.a`, `"first": "${var.a}"`},
		{`second = local.b`, `"second": "${local.b}"`},
		{`third = [var.c, local.d]`, `"third": ["${var.c}", "${local.d}"]`},
	}
	key := member{`("k3") = "x"`, `"k3": "x"`}
	for pos := 0; pos <= len(refs); pos++ {
		for n := 1; n <= len(refs); n++ {
			if pos > n {
				continue
			}
			var ms []member
			ms = append(ms, refs[:pos]...)
			ms = append(ms, key)
			ms = append(ms, refs[pos:n]...)
			var nat, js []string
			for _, m := range ms {
				nat = append(nat, m.nat)
				js = append(js, m.js)
			}
			natSrc := "obj = { " + strings.Join(nat, ", ") + " }\n"
			jsSrc := "{\"obj\": {" + strings.Join(js, ", ") + "}}\n"
			addrs := func(file, src string) ([]string, bool) {
				w := newWorld()
				pd := w.AddPath("root", sch, map[string]string{file: src}, nil)
				if pd.Ctx.Files[file] == nil {
					return nil, false
				}
				d, _ := w.Dec.Path(pd.Path)
				res := safeCall("CollectReferenceOrigins", func() (interface{}, error) { return d.CollectReferenceOrigins() })
				if res.Panic != "" || res.Err != nil {
					return nil, false
				}
				var out []string
				for _, o := range res.Val.(reference.Origins) {
					if mo, ok := o.(reference.MatchableOrigin); ok {
						out = append(out, mo.Address().String())
					}
				}
				sort.Strings(out)
				return out, true
			}
			a, ok1 := addrs("main.tf", natSrc)
			b, ok2 := addrs("main.tf.json", jsSrc)
			run.Res.Evaluations++
			run.Count("object_key_parity_pairs")
			if !ok1 || !ok2 {
				continue
			}
			if strings.Join(a, " ") != strings.Join(b, " ") {
				run.Violate(Violation{Key: "C19/origins-differ/object-with-expression-key", Rule: "JSON yields the same reference origins (address) as native syntax", Func: "CollectReferenceOrigins",
					Detail: fmt.Sprintf("native %v, JSON %v", a, b), Replay: map[string]interface{}{"kind": "object-key-parity", "native": natSrc, "json": jsSrc}})
			}
		}
	}
}
