package main

// C03 (results are a function of the inputs) and C04 (queries never modify what the caller supplied).

import (
	"fmt"
	"math/rand"
	"strings"

	"github.com/hashicorp/hcl-lang/schema"
	"github.com/hashicorp/hcl/v2/hclsyntax"
	"github.com/zclconf/go-cty/cty"
)

func init() { props["C03"] = runC03; props["C04"] = runC04 }

// rebuild the scenario list of a base from scratch (fresh schema objects, fresh parse, fresh decoder)
func rebuildScenarios(seed int64, bi int, o Omni) []*Scenario {
	r := rand.New(rand.NewSource(subSeed(seed, bi)))
	opts := o.Opts
	opts.Inject = bi%3 == 1
	opts.Gen.Degenerate = bi%3 == 2
	opts.SecondPath = bi%4 == 2
	if bi%5 == 1 {
		opts.Gen.MaxDepth = 3
	}
	opts.Gen.DynFocus = bi%3 == 1
	scs := genScenarios(r, opts)
	if bi%2 == 0 {
		// the Terraform-like language: self references, inferred bodies with nested list/map/object blocks
		ts, _ := tfScenario(r)
		scs = append(scs, ts)
	}
	// attributes whose value is still missing: the parser's placeholder expression of one reaches the name
	// of the next (deterministic texts, every offset queried)
	scs = append(scs, missingValuesScenario(bi))
	if bi%3 == 0 {
		// fixed values, literal types and type declarations, incl. object types whose attribute names differ in
		// letter case only (own random stream); asked on the lines that list such names
		lf := literalValueFocusScenario(rand.New(rand.NewSource(subSeed(seed, 777000+bi))))
		for ls := 0; ls < len(lf.Src); {
			le := ls
			for le < len(lf.Src) && lf.Src[le] != '\n' {
				le++
			}
			if line := string(lf.Src[ls:le]); strings.Contains(line, "tdc") || strings.Contains(line, "lt_case") {
				lf.Offsets = append(lf.Offsets, ls+1, ls+(le-ls)/2, le)
			}
			ls = le + 1
		}
		scs = append(scs, lf)
	}
	if len(scs) > 0 {
		// the first configuration as a JSON file with all members of every body on ONE line (own random stream):
		// what puts the symbols of such a file in order cannot be the line
		if js := jsonScenarioLines(rand.New(rand.NewSource(subSeed(seed, 888000+bi))), scs[0], false, true); js != nil {
			scs = append(scs, js)
		}
	}
	return scs
}

func missingValuesScenario(bi int) *Scenario {
	attr := func(t cty.Type) *schema.AttributeSchema {
		return &schema.AttributeSchema{IsOptional: true, Constraint: schema.LiteralType{Type: t}}
	}
	body := &schema.BodySchema{Attributes: map[string]*schema.AttributeSchema{
		"a": attr(cty.Bool), "b": attr(cty.Bool), "c": attr(cty.Bool), "d": attr(cty.String), "e": attr(cty.Number)}}
	sch := &schema.BodySchema{Attributes: body.Attributes, Blocks: map[string]*schema.BlockSchema{"blk": {Body: body}}}
	texts := []string{
		"a =\nb =\n",
		"a =\nb =\nc =\nd =\ne =\n",
		"a = \nb = true\nc =\n",
		"blk {\n  a =\n  b =\n  c =\n}\n",
		"e =\nd =\nblk {\n  d =\n  e =\n}\na =\n",
		"a =\r\nb =\r\nc = \r\n",
	}
	src := texts[bi%len(texts)]
	w := newWorld()
	pd := w.AddPath("root", sch, map[string]string{"main.tf": src}, nil)
	s := &Scenario{W: w, Main: pd, File: "main.tf", Src: []byte(src), Kind: "missing-values"}
	for off := 0; off <= len(src); off++ {
		s.Offsets = append(s.Offsets, off)
	}
	return s
}

func firstDiff(a, b string) string {
	i := 0
	for i < len(a) && i < len(b) && a[i] == b[i] {
		i++
	}
	lo := i - 80
	if lo < 0 {
		lo = 0
	}
	hi := func(s string) int {
		if i+120 < len(s) {
			return i + 120
		}
		return len(s)
	}
	return fmt.Sprintf("...%s  <>  ...%s", a[lo:hi(a)], b[lo:hi(b)])
}

func runC03(run *Run, replay string) {
	run.Res.Rule = "every public query on generated scenarios (schemas with up to 24 addressable attributes per body so that sorts leave the insertion-sort regime) is repeated on the same decoder (12x for collection and file queries, 3x for positional ones, interleaved with all other queries) and once on a freshly generated world (new schema objects, new parse, new decoder); results are compared structurally with element order (diagnostics as multisets); distinct non-trivial = distinct (file text, query, offset) with a non-empty result"
	o := Omni{FocusThin: 4, Bases: 36, PosSample: 14, OnlyBase: -1, Opts: ScenarioOpts{Histories: 2, Gen: GenOpts{MaxDepth: 2}}}
	if run.Thorough {
		o.Bases, o.PosSample, o.Opts.Histories = 400, 60, 10
	}
	for bi := 0; bi < o.Bases; bi++ {
		oo := o
		if bi%4 == 3 {
			oo.Opts.Gen.ManyAttrs = 14 + bi%11
		}
		scs := rebuildScenarios(run.Res.Seed, bi, oo)
		fresh := rebuildScenarios(run.Res.Seed, bi, oo)
		// history independence from a pristine state: positional queries asked first on one fresh world must
		// equal the same queries asked on another fresh world after whole-file queries have walked every block
		firstW, afterW := rebuildScenarios(run.Res.Seed, bi, oo), rebuildScenarios(run.Res.Seed, bi, oo)
		for si := range firstW {
			a, b := firstW[si], afterW[si]
			for _, q := range b.fileQueries(b.Main, b.File) {
				safeCall(q.Name, q.Run)
			}
			rr := rand.New(rand.NewSource(subSeed(run.Res.Seed, bi*1000+si+500)))
			tbl := lcTable(a.Src)
			offs := cursorOffsets(rr, a.Src, false, o.PosSample)
			// ... and, deterministically, the body-level position of every line (behind its indentation) and its end
			for ls := 0; ls < len(a.Src); {
				le := ls
				for le < len(a.Src) && a.Src[le] != '\n' {
					le++
				}
				fs := ls
				for fs < le && (a.Src[fs] == ' ' || a.Src[fs] == '\t') {
					fs++
				}
				offs = append(offs, fs, le)
				ls = le + 1
			}
			for _, off := range offs {
				pos, ok := tbl[off]
				if !ok {
					continue
				}
				qa, qb := a.posQueries(a.Main, a.File, pos), b.posQueries(b.Main, b.File, pos)
				for i := range qa {
					ra, rb := Show(outcomeS(safeCall(qa[i].Name, qa[i].Run))), Show(outcomeS(safeCall(qb[i].Name, qb[i].Run)))
					run.Res.Evaluations += 2
					if ra != rb {
						run.Violate(Violation{Key: "C03/depends-on-earlier-queries/" + strings.SplitN(qa[i].Name, "(", 2)[0], Rule: "a query's result does not depend on which queries ran before it",
							Func: qa[i].Name, Detail: firstDiff(ra, rb),
							Replay: locWith(map[string]interface{}{"seed": run.Res.Seed, "base": bi, "scenario": si, "kind": a.Kind, "src": string(a.Src)}, qa[i])})
					}
				}
			}
		}
		for si, s := range scs {
			f := fresh[si]
			s.W.Collect()
			f.W.Collect()
			loc := map[string]interface{}{"seed": run.Res.Seed, "base": bi, "scenario": si, "kind": s.Kind, "src": string(s.Src), "many_attrs": oo.Opts.Gen.ManyAttrs}
			check := func(q Query, fq Query, reps int) {
				first := Show(outcomeS(safeCall(q.Name, q.Run)))
				run.Res.Evaluations++
				if len(first) > 40 {
					off := -1
					if q.Pos != nil {
						off = q.Pos.Byte
					}
					run.Distinct(fmt.Sprintf("%s|%s|%d", s.Src, q.Name, off))
				}
				for k := 1; k < reps; k++ {
					again := Show(outcomeS(safeCall(q.Name, q.Run)))
					run.Res.Evaluations++
					if again != first {
						run.Violate(Violation{Key: "C03/repeat-differs/" + strings.SplitN(q.Name, "(", 2)[0], Rule: "repeating a query on the same decoder yields an equal result (same element order)",
							Func: q.Name, Detail: firstDiff(first, again), Replay: locWith(loc, q)})
						break
					}
				}
				fr := Show(outcomeS(safeCall(fq.Name, fq.Run)))
				run.Res.Evaluations++
				if fr != first {
					run.Violate(Violation{Key: "C03/fresh-decoder-differs/" + strings.SplitN(q.Name, "(", 2)[0], Rule: "running a query on a freshly constructed decoder yields an equal result",
						Func: q.Name, Detail: firstDiff(first, fr), Replay: locWith(loc, q)})
				}
			}
			pq, fpq := s.pathQueries(s.Main), f.pathQueries(f.Main)
			for i := range pq {
				check(pq[i], fpq[i], 12)
			}
			fq, ffq := s.fileQueries(s.Main, s.File), f.fileQueries(f.Main, f.File)
			for i := range fq {
				check(fq[i], ffq[i], 12)
			}
			r := rand.New(rand.NewSource(subSeed(run.Res.Seed, bi*1000+si)))
			tbl := lcTable(s.Src)
			for _, off := range append(append(cursorOffsets(r, s.Src, o.AllPos, o.PosSample), s.Offsets...), callOffsets(s.Src)...) {
				pos, ok := tbl[off]
				if !ok {
					continue
				}
				qs, fqs := s.posQueries(s.Main, s.File, pos), f.posQueries(f.Main, f.File, pos)
				for i := range qs {
					check(qs[i], fqs[i], 3)
				}
			}
			// path/file queries once more after all the positional ones (history independence)
			for i := range pq {
				check(pq[i], fpq[i], 2)
			}
			if bi < 2 && si == 0 {
				run.Sample(map[string]interface{}{"src": string(s.Src), "queries_per_scenario": len(pq) + len(fq)})
			}
		}
	}
}

// ---------------------------------------------------------------- C04

type worldPrint struct {
	schema  []string
	files   []string
	refs    []string
	funcs   []string
}

func fingerprintWorld(w *World) string {
	var sb strings.Builder
	for _, p := range w.Paths {
		sb.WriteString("PATH " + p.Path.Path + "\n")
		sb.WriteString(Show(bodySchemaS(p.Ctx.Schema)))
		sb.WriteString("\n")
		for _, n := range sortedKeys(p.Ctx.Files) {
			f := p.Ctx.Files[n]
			sb.WriteString(n + ":")
			sb.Write(f.Bytes[:cap(f.Bytes)])
			if body, ok := f.Body.(*hclsyntax.Body); ok {
				sb.WriteString(Show(bodyS(body)))
			}
			sb.WriteString("\n")
		}
		sb.WriteString(Show(resultS(p.Ctx.ReferenceTargets)))
		sb.WriteString(Show(resultS(p.Ctx.ReferenceOrigins)))
		for _, n := range sortedKeys(p.Ctx.Functions) {
			fs := p.Ctx.Functions[n]
			sb.WriteString(n + "(")
			for _, prm := range fs.Params {
				sb.WriteString(prm.Name + ":" + Show(tyS(prm.Type)) + ",")
			}
			if fs.VarParam != nil {
				sb.WriteString("..." + fs.VarParam.Name + ":" + Show(tyS(fs.VarParam.Type)))
			}
			sb.WriteString(")" + Show(tyS(fs.ReturnType)) + fs.Description + fs.Detail + "\n")
		}
		sb.WriteString(fmt.Sprintf("validators=%d\n", len(p.Ctx.Validators)))
	}
	return sb.String()
}

func runC04(run *Run, replay string) {
	run.Res.Rule = "same scenario generator as C01 (dependent bodies at two levels, nested blocks, dynamic/count/for_each extensions); a structural fingerprint of every path context (schema tree incl. dependent bodies and constraints, file bytes up to capacity and syntax trees, functions, collected targets/origins) is taken before and compared after every query, including queries that return errors or panic; a reflection-based deep comparison of the schema against a private clone is made at the end of each scenario; exported helpers (NewSchemaKey) are checked not to reorder their arguments; distinct non-trivial = distinct (file text, query, offset) executed"
	o := Omni{FocusThin: 5, Bases: 36, PosSample: 14, OnlyBase: -1, Opts: ScenarioOpts{Histories: 3, Gen: GenOpts{MaxDepth: 2}}}
	if run.Thorough {
		o.Bases, o.PosSample, o.Opts.Histories = 150, 30, 6
	}
	var cur *Scenario
	var before string
	var clones []interface{}
	spareSeen := map[string]bool{}
	checkSpare := func(w *World, when string, loc map[string]interface{}) {
		for _, v := range spareViolationsOf(w) {
			if spareSeen[v] {
				continue
			}
			spareSeen[v] = true
			run.Violate(Violation{Key: "C04/wrote-into-spare-capacity", Rule: "no query writes into the backing array of a slice the caller supplied (appending to it in place)",
				Func: when, Detail: v, Replay: loc})
		}
	}
	endScenario := func(loc map[string]interface{}) {
		if cur == nil {
			return
		}
		checkSpare(cur.W, "any query of the scenario", loc)
		for i, p := range cur.W.Paths {
			if eq, diff := deepEqual(clones[i], p.Ctx.Schema); !eq {
				run.Violate(Violation{Key: "C04/schema-modified-deep", Rule: "the schema tree is structurally identical before and after any sequence of queries",
					Func: "?", Detail: diff, Replay: loc})
			}
		}
	}
	var lastLoc map[string]interface{}
	o.OnScenario = func(s *Scenario, loc map[string]interface{}, coll []CollectRes) {
		cur = s
		lastLoc = loc
		checkSpare(s.W, "CollectReferenceTargets/CollectReferenceOrigins", loc)
		// the collection calls are queries too: the schema must be what it was before them
		for i, p := range s.W.Paths {
			if eq, diff := deepEqual(clones[i], p.Ctx.Schema); !eq {
				run.Violate(Violation{Key: "C04/schema-modified-deep/collect", Rule: "the schema tree is structurally identical before and after reference collection",
					Func: "CollectReferenceTargets/CollectReferenceOrigins", Detail: diff, Replay: loc})
			}
		}
		before = fingerprintWorld(s.W)
	}
	o.BeforeCollect = func(s *Scenario, loc map[string]interface{}) {
		endScenario(lastLoc)
		cur = nil
		clones = nil
		// every slice of the schema and every parameter list gets zeroed spare capacity (as slices built by append have)
		padSpareSchemaAndFunctions(s.W)
		for _, p := range s.W.Paths {
			clones = append(clones, cloneSchema(p.Ctx.Schema))
		}
	}
	omnibus(run, o, func(s *Scenario, p *PathData, q Query, res QResult, loc map[string]interface{}) {
		run.Res.Evaluations++
		after := fingerprintWorld(s.W)
		if after != before {
			what := "path context"
			run.Violate(Violation{Key: "C04/modified/" + strings.SplitN(q.Name, "(", 2)[0], Rule: "no query modifies anything reachable from the path context it was given",
				Func: q.Name, Detail: what + " changed: " + firstDiff(before, after), Replay: locWith(loc, q)})
			before = after
		}
		off := -1
		if q.Pos != nil {
			off = q.Pos.Byte
		}
		run.Distinct(fmt.Sprintf("%s|%s|%d", s.Src, q.Name, off))
		if run.Res.Evaluations%9973 == 1 {
			run.Sample(locWith(loc, q))
		}
	})
	endScenario(lastLoc)
	// exported helpers must not modify their arguments
	for i := 0; i < 300; i++ {
		k := genKeys(run.R, i%5 == 4)
		b := Show(L(keysS(k)...))
		_ = schema.NewSchemaKey(k)
		run.Res.Evaluations++
		if a := Show(L(keysS(k)...)); a != b {
			run.Violate(Violation{Key: "C04/modified/NewSchemaKey", Rule: "helpers never modify what the caller supplied", Func: "schema.NewSchemaKey",
				Detail: b + " became " + a, Replay: map[string]interface{}{"kind": "keys", "keys": b}})
		}
	}
}

func cloneSchema(b *schema.BodySchema) interface{} {
	if b == nil {
		return b
	}
	return cloneIface(b)
}
