package main

// JSON renderings of generated native configurations (any schema): used by the omnibus so that every
// public query is also exercised on JSON files, including strings that evaluate to typed nulls,
// unknown values and malformed templates.

import (
	gojson "encoding/json"
	"math/rand"
	"sort"
	"strings"

	"github.com/hashicorp/hcl/v2/hclsyntax"
	"github.com/zclconf/go-cty/cty"
)

var hostileJSONStrings = []string{
	`${true ? null : "a"}`, `${null}`, `${`, `${var.}`, `x${`, `%{if true}a%{endif}`, `${[}`, ``, `${1}`, `${var.a}${var.b}`,
	`${true ? null : 1}`, `${upper(null)}`, `${unknownfn()}`, `a.b`, `${self.x}`, `${[for v in var.x : v]}`, `$${literal}`, `größe`,
}

func jsonStr(s string) string {
	b, _ := gojson.Marshal(s)
	// encoding/json escapes <, >, & as \u00XX: harmless
	return string(b)
}

type jsonGen struct {
	r       *rand.Rand
	src     []byte
	hostile bool
	oneLine bool
}

func (g *jsonGen) text(e hclsyntax.Expression) string {
	return string(e.Range().SliceBytes(g.src))
}

func (g *jsonGen) expr(e hclsyntax.Expression) string {
	if g.hostile && g.r.Intn(3) == 0 {
		if g.r.Intn(3) == 0 {
			return jsonStr(`${true ? null : "a"}`)
		}
		return jsonStr(pick(g.r, hostileJSONStrings))
	}
	switch x := e.(type) {
	case *hclsyntax.LiteralValueExpr:
		if x.Val.IsNull() {
			return "null"
		}
		if x.Val.Type() == cty.Bool || x.Val.Type() == cty.Number {
			t := strings.TrimSpace(g.text(x))
			if t != "" && !strings.ContainsAny(t, " \n") {
				return t
			}
		}
		return "null"
	case *hclsyntax.TemplateExpr:
		t := g.text(x)
		if len(t) >= 2 && t[0] == '"' && t[len(t)-1] == '"' && !strings.Contains(t, "\n") {
			if x.IsStringLiteral() {
				if lv, ok := x.Parts[0].(*hclsyntax.LiteralValueExpr); ok && lv.Val.Type() == cty.String {
					return jsonStr(lv.Val.AsString())
				}
			}
			// interpolated template: the text between the quotes is the JSON string's content
			return jsonStr(t[1 : len(t)-1])
		}
		return jsonStr("heredoc")
	case *hclsyntax.ScopeTraversalExpr:
		if g.r.Intn(3) == 0 {
			return jsonStr(g.text(x)) // legacy bare reference
		}
		return jsonStr("${" + g.text(x) + "}")
	case *hclsyntax.TupleConsExpr:
		var xs []string
		for _, i := range x.Exprs {
			xs = append(xs, g.expr(i))
		}
		return "[" + strings.Join(xs, ", ") + "]"
	case *hclsyntax.ObjectConsExpr:
		var xs []string
		seen := map[string]bool{}
		for _, it := range x.Items {
			k, ok := rawKey(it.KeyExpr)
			if !ok {
				k = "${" + g.text(it.KeyExpr) + "}"
			}
			if g.hostile && g.r.Intn(10) == 0 {
				k = pick(g.r, hostileJSONStrings)
			}
			if seen[k] {
				continue
			}
			seen[k] = true
			xs = append(xs, jsonStr(k)+": "+g.expr(it.ValueExpr))
		}
		return "{" + strings.Join(xs, ", ") + "}"
	}
	return jsonStr("${" + g.text(e) + "}")
}

func (g *jsonGen) body(b *hclsyntax.Body) string {
	var ms []string
	names := make([]string, 0, len(b.Attributes))
	for n := range b.Attributes {
		names = append(names, n)
	}
	sort.Slice(names, func(i, j int) bool {
		return b.Attributes[names[i]].SrcRange.Start.Byte < b.Attributes[names[j]].SrcRange.Start.Byte
	})
	for _, n := range names {
		ms = append(ms, jsonStr(n)+": "+g.expr(b.Attributes[n].Expr))
	}
	var types []string
	byType := map[string][]*hclsyntax.Block{}
	for _, k := range b.Blocks {
		if _, ok := byType[k.Type]; !ok {
			types = append(types, k.Type)
		}
		byType[k.Type] = append(byType[k.Type], k)
	}
	for _, t := range types {
		if _, clash := b.Attributes[t]; clash {
			continue
		}
		var objs []string
		for _, k := range byType[t] {
			inner := g.body(k.Body)
			for i := len(k.Labels) - 1; i >= 0; i-- {
				inner = "{" + jsonStr(k.Labels[i]) + ": " + inner + "}"
			}
			objs = append(objs, inner)
		}
		v := "[" + strings.Join(objs, ", ") + "]"
		if len(objs) == 1 && g.r.Intn(2) == 0 {
			v = objs[0]
		}
		ms = append(ms, jsonStr(t)+": "+v)
	}
	if g.oneLine {
		// every member of every body on one line (minified files)
		return "{" + strings.Join(ms, ", ") + "}"
	}
	return "{" + strings.Join(ms, ",\n ") + "}"
}

// jsonScenario renders the scenario's main file as JSON against the same schema
func jsonScenario(r *rand.Rand, s *Scenario, hostile bool) *Scenario {
	return jsonScenarioLines(r, s, hostile, false)
}

// ... with all members of a body on one line if [oneLine]
func jsonScenarioLines(r *rand.Rand, s *Scenario, hostile, oneLine bool) *Scenario {
	f := s.Main.Ctx.Files[s.File]
	if f == nil {
		return nil
	}
	body, ok := f.Body.(*hclsyntax.Body)
	if !ok {
		return nil
	}
	g := &jsonGen{r: r, src: s.Src, hostile: hostile, oneLine: oneLine}
	text := g.body(body) + "\n"
	w := newWorld()
	pd := w.AddPath("root", s.Main.Schema, map[string]string{"main.tf.json": text}, s.Main.Ctx.Functions)
	if pd.Ctx.Files["main.tf.json"] == nil {
		return nil
	}
	kind := "json"
	if hostile {
		kind = "json-hostile"
	}
	if oneLine {
		kind += "-one-line"
	}
	return &Scenario{W: w, Main: pd, File: "main.tf.json", Src: []byte(text), Kind: kind}
}
