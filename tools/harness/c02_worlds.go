package main

// C02 on multi-path worlds: the two decoder-level lookups must pair every range with the path
// that owns the file it names (readable and unreadable paths, path and direct origins).

import (
	"fmt"
	"math/rand"

	"github.com/hashicorp/hcl-lang/decoder"
	"github.com/hashicorp/hcl-lang/lang"
	"github.com/hashicorp/hcl-lang/reference"
	"github.com/hashicorp/hcl-lang/schema"
	"github.com/hashicorp/hcl/v2"
)

// c02FailingPathInFront: a path whose context cannot be read stands BEFORE / BETWEEN / BEHIND the paths that hold the
// declaration and the path origins pointing at it; every origin reported for the declaration names a file of the
// path it is reported for (deterministic).
func c02FailingPathInFront(run *Run) {
	for failAt := 0; failAt < 4; failAt++ {
		w := newWorld()
		owner := map[string]string{}
		var names []string
		for i := 0; i < 4; i++ {
			names = append(names, fmt.Sprintf("q%d", i))
		}
		// roles: the first readable path declares, the others refer to it
		declPath := ""
		var decl reference.Target
		for i, nme := range names {
			p := lang.Path{Path: nme, LanguageID: "hcl"}
			file := nme + "_main.tf"
			owner[file] = nme
			pd := w.AddPath(nme, schema.NewBodySchema(), map[string]string{}, nil)
			pd.Fail = i == failAt
			if pd.Fail {
				continue
			}
			rng := hcl.Range{Filename: file, Start: hcl.Pos{Line: 1, Column: 1, Byte: 0}, End: hcl.Pos{Line: 1, Column: 9, Byte: 8}}
			if declPath == "" {
				declPath = nme
				decl = reference.Target{Addr: lang.Address{lang.RootStep{Name: "var"}, lang.AttrStep{Name: "x"}}, ScopeId: lang.ScopeId("variable"), RangePtr: &rng, DefRangePtr: &rng}
				pd.Ctx.ReferenceTargets = reference.Targets{decl}
				continue
			}
			pd.Ctx.ReferenceOrigins = reference.Origins{reference.PathOrigin{Range: rng, TargetAddr: decl.Addr, TargetPath: lang.Path{Path: declPath, LanguageID: "hcl"},
				Constraints: reference.OriginConstraints{{OfScopeId: lang.ScopeId("variable")}}}}
			_ = p
		}
		res := safeCall("ReferenceOriginsTargetingPos", func() (interface{}, error) {
			return w.Dec.ReferenceOriginsTargetingPos(lang.Path{Path: declPath, LanguageID: "hcl"}, decl.RangePtr.Filename, decl.RangePtr.Start), nil
		})
		run.Res.Evaluations++
		run.Count("failing_path_worlds")
		loc := map[string]interface{}{"seed": run.Res.Seed, "kind": "c02-failing-path", "failing_path_index": failAt}
		if res.Panic != "" {
			continue
		}
		ros := res.Val.(decoder.ReferenceOrigins)
		for _, ro := range ros {
			run.Res.Hypotheses["world_ranges_checked"]++
			if owner[ro.Range.Filename] != ro.Path.Path {
				run.Violate(Violation{Key: "C02/wrong-file/ReferenceOriginsTargetingPos/origin-range-behind-unreadable-path",
					Rule: "every emitted range names a file of the path it is reported for", Func: "ReferenceOriginsTargetingPos",
					Detail: fmt.Sprintf("origin range names %q, a file of path %q, but is reported for path %q", ro.Range.Filename, owner[ro.Range.Filename], ro.Path.Path), Replay: loc})
			}
		}
	}
}

func c02Worlds(run *Run, n int) {
	c02FailingPathInFront(run)
	for wi := 0; wi < n; wi++ {
		r := rand.New(rand.NewSource(subSeed(run.Res.Seed, 2020000+wi)))
		np := 2 + r.Intn(2)
		var paths []lang.Path
		for i := 0; i < np; i++ {
			paths = append(paths, lang.Path{Path: fmt.Sprintf("p%d", i), LanguageID: "hcl"})
		}
		w := newWorld()
		owner := map[string]string{}
		type pw struct {
			pd *PathData
			ts reference.Targets
			os reference.Origins
		}
		var pws []pw
		var shared []lang.Address
		for i, p := range paths {
			files := []string{fmt.Sprintf("p%d_main.tf", i), fmt.Sprintf("p%d_b.tf", i)}
			for _, f := range files {
				owner[f] = p.Path
			}
			g := &forestGen{r: r, wf: true, files: files}
			g.addrs = append(g.addrs, shared...) // the same declarations may exist in several paths
			ts := g.forest(1 + r.Intn(5))
			shared = append(shared, g.addrs...)
			os := g.origins(3+r.Intn(6), paths, 12)
			pd := w.AddPath(p.Path, schema.NewBodySchema(), map[string]string{}, nil)
			pd.Ctx.ReferenceTargets = ts
			pd.Ctx.ReferenceOrigins = os
			if wi%2 == 1 {
				// stored the way a language server's state store keeps them: as copies; the lookups below
				// start from the stored origins
				pd.Ctx.ReferenceTargets = ts.Copy()
				pd.Ctx.ReferenceOrigins = os.Copy()
				os = pd.Ctx.ReferenceOrigins
			}
			pd.Fail = i > 0 && r.Intn(2) == 0
			pws = append(pws, pw{pd, ts, os})
		}
		loc := map[string]interface{}{"seed": run.Res.Seed, "world": wi, "kind": "c02-world"}
		check := func(what, file, path, q string) {
			if file == callerSupplied && what != "origin range" {
				return // the target range of a direct origin is the caller's own: passed through, not judged
			}
			run.Res.Hypotheses["world_ranges_checked"]++
			if owner[file] != path {
				run.Violate(Violation{Key: "C02/wrong-file/" + q + "/" + what,
					Rule: "every emitted range names a file of the path it is reported for", Func: q,
					Detail: fmt.Sprintf("%s: %s names %q, a file of path %q, but is reported for path %q", q, what, file, owner[file], path), Replay: loc})
			}
		}
		for _, x := range pws {
			if x.pd.Fail {
				continue
			}
			for _, o := range x.os {
				pos, file := o.OriginRange().Start, o.OriginRange().Filename
				res := safeCall("ReferenceTargetsForOriginAtPos", func() (interface{}, error) {
					return w.Dec.ReferenceTargetsForOriginAtPos(x.pd.Path, file, pos)
				})
				run.Res.Evaluations++
				if res.Panic != "" || res.Err != nil {
					continue
				}
				for _, rt := range res.Val.(decoder.ReferenceTargets) {
					check("origin range", rt.OriginRange.Filename, x.pd.Path.Path, "ReferenceTargetsForOriginAtPos")
					check("target range", rt.Range.Filename, rt.Path.Path, "ReferenceTargetsForOriginAtPos")
					if rt.DefRangePtr != nil {
						check("definition range", rt.DefRangePtr.Filename, rt.Path.Path, "ReferenceTargetsForOriginAtPos")
					}
				}
			}
			for _, t := range allTargets(x.ts) {
				if t.RangePtr == nil {
					continue
				}
				res := safeCall("ReferenceOriginsTargetingPos", func() (interface{}, error) {
					return w.Dec.ReferenceOriginsTargetingPos(x.pd.Path, t.RangePtr.Filename, t.RangePtr.Start), nil
				})
				run.Res.Evaluations++
				if res.Panic != "" {
					continue
				}
				for _, ro := range res.Val.(decoder.ReferenceOrigins) {
					check("origin range", ro.Range.Filename, ro.Path.Path, "ReferenceOriginsTargetingPos")
				}
			}
		}
	}
}
