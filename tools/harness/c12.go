package main

// C12: hover describes the element under the cursor and its range contains the cursor.

import (
	"context"
	"fmt"
	"math/rand"

	"github.com/hashicorp/hcl-lang/decoder"
	"github.com/hashicorp/hcl-lang/lang"
	"github.com/hashicorp/hcl/v2/hclsyntax"
)

func init() { props["C12"] = runC12 }

func runC12(run *Run, replay string) {
	run.Res.Rule = "generated schema x configuration (valid, injected, typing-history states) x cursor offsets (token boundaries and a sample; all offsets in thorough); HoverAtPos: at body level (attribute names, block types, labels, positional errors) the model must predict the same range and - for block types and labels, incl. dependent bodies resolved in one or two steps - the same content; everywhere: a hover has non-empty content and a range containing the cursor; inside object values (literal, quoted, interpolated, traversal, numeric and parenthesised keys in any order, under object / list-of-object / one-of constraints) the hover of an item never shows another attribute's description and always names the element; distinct non-trivial = distinct (file text, offset) with a hover"
	bases, hist, posN := 60, 4, 40
	if run.Thorough {
		bases, hist, posN = 600, 20, 100000
	}
	ctx := context.Background()
	ehdCases(run)
	attrHoverCases(run)
	objectHoverOracle(run, bases*3)
	literalValueHoverOracle(run, bases*4)
	referenceHoverOracle(run, bases)
	for bi := 0; bi < bases; bi++ {
		r := rand.New(rand.NewSource(subSeed(run.Res.Seed, bi)))
		opts := ScenarioOpts{Histories: hist, Inject: bi%3 == 1, Gen: GenOpts{Degenerate: bi%7 == 6, DynFocus: bi%8 == 3}}
		if bi%5 == 1 {
			opts.Gen.MaxDepth = 3
		}
		scs12 := genScenarios(r, opts)
		if bi%3 == 0 {
			// fixed-value constraints against matching and non-matching written values (own random stream)
			lf := literalValueFocusScenario(rand.New(rand.NewSource(subSeed(run.Res.Seed, 777000+bi))))
			for off := 0; off <= len(lf.Src); off++ {
				lf.Offsets = append(lf.Offsets, off)
			}
			scs12 = append(scs12, lf)
		}
		// typing states of a value under every constraint kind, every offset of the value
		scs12 = append(scs12, valueFocusShare(bi, bases)...)
		for si, sc := range scs12 {
			sc.W.Collect()
			f := sc.Main.Ctx.Files[sc.File]
			body, ok := f.Body.(*hclsyntax.Body)
			if !ok {
				continue
			}
			d, _ := sc.W.Dec.Path(sc.Main.Path)
			tbl := lcTable(sc.Src)
			pairs := List{}
			loc := map[string]interface{}{"seed": run.Res.Seed, "base": bi, "scenario": si, "kind": sc.Kind, "src": string(sc.Src)}
			garbage := parserRangesMalformed(sc)
			for _, off := range append(cursorOffsets(r, sc.Src, run.Thorough, posN), sc.Offsets...) {
				pos, ok := tbl[off]
				if !ok {
					continue
				}
				res := safeCall("HoverAtPos", func() (interface{}, error) { return d.HoverAtPos(ctx, sc.File, pos) })
				run.Res.Evaluations++
				if res.Panic != "" {
					continue
				}
				hv, _ := res.Val.(*lang.HoverData)
				q := Query{Name: "HoverAtPos", Pos: &pos, File: sc.File}
				var obs S
				switch {
				case res.Err != nil:
					pe, ok := res.Err.(*decoder.PositionalError)
					if !ok {
						continue
					}
					obs = T("err", Str(pe.Msg))
				case hv == nil:
					obs = T("nohover")
				default:
					obs = T("hover", Str(hv.Content.Value), rangeS(hv.Range))
					run.Distinct(fmt.Sprintf("%s|%d", sc.Src, off))
					run.Count("hover_returned")
					if hv.Content.Value == "" {
						run.Violate(Violation{Key: "C12/empty-content", Rule: "a hover has non-empty content", Func: "HoverAtPos", Detail: fmt.Sprint(hv.Range), Replay: locWith(loc, q)})
					}
					if !garbage && (pos.Byte < hv.Range.Start.Byte || pos.Byte > hv.Range.End.Byte || hv.Range.Filename != sc.File) {
						run.Violate(Violation{Key: "C12/range-does-not-contain-cursor", Rule: "the hover range contains the cursor", Func: "HoverAtPos",
							Detail: fmt.Sprintf("cursor byte %d, range %v", pos.Byte, hv.Range), Replay: locWith(loc, q)})
					}
				}
				pairs = append(pairs, L(posS(pos), obs))
			}
			if len(pairs) > 0 {
				run.Case("hovers", []S{bodyS(body), sc.schemaS(), pairs, Str(string(sc.Src))}, T("allok"))
				hoverValueCase(run, sc, body, pairs)
			}
			if len(run.Res.Samples) < 2 && len(pairs) > 5 {
				run.Sample(map[string]interface{}{"src": string(sc.Src), "positions": len(pairs)})
			}
		}
	}
}
