(* C06 - completion items are applicable edits; lists honour limit and 'complete' flag.
   Models: Model/Snippet.v (Constraint.EmptyCompletionData for every constraint kind, with and without
   required-field prefilling), Model/Completion.v (candidate lists, limit, complete flag),
   Base/Pos.v (edit range); each compared with the implementation on every run. *)
From Coq Require Import String List ZArith Bool.
From HV Require Import Base.Pos Model.Schema Model.Ast Model.Snippet Model.Completion Proofs.SnippetProofs Proofs.CompletionProofs.

(* the snippet of every constraint - at any nesting of lists, sets, tuples, maps, objects, one-of and
   type-driven expansions - is either empty (the caller falls back) or uses exactly the tab stops
   next, next+1, ... each once, and hands back the next free number *)
Theorem C06_snippet_tab_stops_consecutive : forall prefill fuel c next lvl d,
  ecd prefill fuel c next lvl = Some d -> good next d.
Proof. exact ecd_numbering. Qed.
Print Assumptions C06_snippet_tab_stops_consecutive.

(* a body candidate list never exceeds the limit *)
Theorem C06_candidate_list_within_limit : forall max b bs prefix edit, (2 <= max)%Z ->
  (Z.of_nat (length (cs_list (body_schema_candidates max b bs prefix edit))) <= max)%Z.
Proof. exact list_within_limit. Qed.
Print Assumptions C06_candidate_list_within_limit.

(* it is marked complete only when no matching candidate was left out *)
Theorem C06_complete_flag_sound : forall max b bs prefix edit,
  cs_complete (body_schema_candidates max b bs prefix edit) = true ->
  cs_list (body_schema_candidates max b bs prefix edit) = Base.SortSpec.stable_sort cand_ltb (allowed b bs prefix edit).
Proof. exact complete_list_is_exact. Qed.
Print Assumptions C06_complete_flag_sound.

(* the edit range of reference / literal-value candidates (as repaired) starts at or before the
   cursor and reaches it *)
Theorem C06_edit_range_reaches_cursor : forall fname lc r p,
  good_range fname lc r -> good_pos lc p ->
  (p_byte (r_start (edit_range r p)) <= p_byte p <= p_byte (r_end (edit_range r p)))%Z.
Proof. exact edit_range_reaches_cursor. Qed.
Print Assumptions C06_edit_range_reaches_cursor.
