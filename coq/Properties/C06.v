(* C06 - completion items are applicable edits; lists honour limit and 'complete' flag.
   Models: Model/Snippet.v (Constraint.EmptyCompletionData for every constraint kind, with and without
   required-field prefilling), Model/Completion.v (candidate lists, limit, complete flag),
   Base/Pos.v (edit range), Model/HookCands.v (attribute values with completion hooks), Model/ValueCands.v (completion
   inside attribute values: every constraint kind x every expression shape, with the recovery of dropped text); each compared with the implementation on every run. *)
From Coq Require Import String List ZArith Bool.
From HV Require Import Base.Pos Model.Schema Model.Ast Model.Snippet Model.Completion Proofs.SnippetProofs Proofs.CompletionProofs Model.HookCands Proofs.HookCandsProofs Model.ValueTokens Model.ValueCands Proofs.ValueCandsProofs.

(* the snippet of every constraint - at any nesting of lists, sets, tuples, maps, objects, one-of and
   type-driven expansions - is either empty (the caller falls back) or uses exactly the tab stops
   next, next+1, ... each once, and hands back the next free number *)
Theorem C06_snippet_tab_stops_consecutive : forall prefill fuel c next lvl d,
  ecd prefill fuel c next lvl = Some d -> good next d.
Proof. exact ecd_numbering. Qed.
Print Assumptions C06_snippet_tab_stops_consecutive.

(* a body candidate list never exceeds the limit *)
Theorem C06_candidate_list_within_limit : forall max b bs prefix edit, (2 <= max)%Z ->
  (Z.of_nat (length (cs_list (body_schema_candidates max b bs prefix edit))) <= max)%Z.
Proof. exact list_within_limit. Qed.
Print Assumptions C06_candidate_list_within_limit.

(* it is marked complete only when no matching candidate was left out *)
Theorem C06_complete_flag_sound : forall max b bs prefix edit,
  cs_complete (body_schema_candidates max b bs prefix edit) = true ->
  cs_list (body_schema_candidates max b bs prefix edit) = Base.SortSpec.stable_sort cand_ltb (allowed b bs prefix edit).
Proof. exact complete_list_is_exact. Qed.
Print Assumptions C06_complete_flag_sound.

(* the edit range of reference / literal-value candidates (as repaired) starts at or before the
   cursor and reaches it *)
Theorem C06_edit_range_reaches_cursor : forall fname lc r p,
  good_range fname lc r -> good_pos lc p ->
  (p_byte (r_start (edit_range r p)) <= p_byte p <= p_byte (r_end (edit_range r p)))%Z.
Proof. exact edit_range_reaches_cursor. Qed.
Print Assumptions C06_edit_range_reaches_cursor.

(* candidates contributed by completion hooks carry an edit range that is a real range of the
   requested file, starts at or before the cursor and reaches it *)
Theorem C06_hook_edit_range_reaches_cursor : forall fname lc e em p,
  good_range fname lc e -> good_pos lc p -> (em = false -> (p_byte p <= p_byte (r_end e))%Z) ->
  good_range fname lc (hook_edit_range e em p) /\
  (p_byte (r_start (hook_edit_range e em p)) <= p_byte p <= p_byte (r_end (hook_edit_range e em p)))%Z.
Proof. exact hook_edit_range_good. Qed.
Print Assumptions C06_hook_edit_range_reaches_cursor.

(* hook candidates and the value's own candidates together never exceed the limit: the list is the
   hook results in schema order followed by the expression's candidates, cut at the limit *)
Theorem C06_hooked_list_is_prefix_within_limit : forall max has_hooks string_typed results er exprc,
  snd (attr_value_completion max has_hooks string_typed results er exprc) =
    firstn max (map (as_hook er) (all_hook_results has_hooks string_typed results) ++ map as_expr exprc) /\
  (length (snd (attr_value_completion max has_hooks string_typed results er exprc)) <= max)%nat.
Proof. exact attr_value_completion_list_within_limit. Qed.
Print Assumptions C06_hooked_list_is_prefix_within_limit.

(* ... and the list is marked complete only when no hook may add more and nothing was left out *)
Theorem C06_hooked_complete_flag_sound : forall max has_hooks string_typed results er exprc,
  fst (attr_value_completion max has_hooks string_typed results er exprc) = true ->
  has_hooks = false /\
  snd (attr_value_completion max has_hooks string_typed results er exprc) = map as_expr exprc /\
  (length exprc <= max)%nat.
Proof. exact attr_value_completion_complete. Qed.
Print Assumptions C06_hooked_complete_flag_sound.

(* completion inside an attribute value - keyword, boolean, literal, collection, object-attribute and map-item
   candidates and the places of reference / function candidates, under every constraint at any nesting, whatever
   text surrounds the cursor: every edit range starts at or before the cursor and reaches it.
   [wfc]: a traversal's range covers its root name and starts with it, a boolean literal's range covers its
   text, an object item's key ends no later than its value, a call's name lies inside the call, a closing parenthesis is
   at most one byte (checked by the harness on every file).  Type declarations included. *)
Theorem C06_value_candidates_reach_cursor : forall prefill file opens empties vals funcs parens cparens fname refs fns p fuel c e l,
  (forall r o cl, lookup_parens cparens r = Some (o, cl) -> (re cl <= rs cl + 1)%Z) ->
  cexpr_wf vals e ->
  value_cands prefill file opens empties vals funcs parens cparens fname refs fns p fuel c e = Some (Some l) ->
  Forall (fun i => (vi_sb i <= p_byte p <= vi_eb i)%Z) l.
Proof. intros prefill file opens empties vals funcs parens cparens fname refs fns p fuel c e l Hp Hw H. exact (value_cands_reach_cursor prefill file opens empties vals funcs parens cparens fname refs fns p Hp fuel c e Hw l H). Qed.
Print Assumptions C06_value_candidates_reach_cursor.
