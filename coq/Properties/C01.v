(* C01 - every query is total (partial claim: the modelled code paths; the rest is decided by the
   recover()/deadline oracle on the implementation and by the site inventory).
   Termination of the model functions is Coq's own guard check: every model function is a
   structurally recursive Fixpoint (no fuel is needed at body level). *)
From Coq Require Import String List ZArith Bool.
From HV Require Import Base.Pos Model.Schema Model.Ast Model.Merge Model.Validate Proofs.TotalProofs
                       Model.ValueTokens Model.ValueCands Proofs.ValueCandsProofs.

(* validator.BlockLabelsLength indexes LabelRanges[i] for every written label: in bounds on
   every tree that has as many label ranges as labels (parser contract, checked on every file). *)
Theorem C01_label_range_index_in_bounds : forall valid k,
  labels_wf k -> surplus_label_diags_partial valid (k_type k) (k_labels k) 0 (k_label_rngs k) <> None.
Proof. exact block_labels_length_never_panics. Qed.
Print Assumptions C01_label_range_index_in_bounds.

(* MergeBlockBodySchemas dereferences the dependent schema only after a (partially) successful
   lookup, and such a lookup always carries a body. *)
Theorem C01_successful_lookup_has_body : forall bs k r dk res,
  dependent_body_schema bs k = (r, dk, res) ->
  (res = LookupSuccessful \/ res = LookupPartiallySuccessful) -> r <> None.
Proof. exact dependent_body_total. Qed.
Print Assumptions C01_successful_lookup_has_body.

(* Tuple.CompletionAtPos indexes the declared element constraints (tuple.cons.Elems[nextIdx]) with the slot the
   recovered text left of the cursor selects - the one behind a comma, the first one behind the opening bracket, the one
   after the written elements: whenever fewer elements are written than declared, a constraint exists for that slot
   (no index out of range), whatever the file's bytes are. *)
Theorem C01_tuple_completion_slot_in_bounds : forall file empties p elems cs le li (s : string),
  elems <> nil -> (length elems < length cs)%nat ->
  tuple_at file empties p 0 elems cs 0%Z 0 = TDone le li \/ (exists le0, tuple_at file empties p 0 elems cs le0 0 = TDone le li) ->
  nth_error cs (if String.eqb s "," then S li else if String.eqb s "[" then 0%nat else length elems) <> None.
Proof. exact tuple_slot_declared. Qed.
Print Assumptions C01_tuple_completion_slot_in_bounds.

(* Completion inside a value fails only by running out of fuel: no step of the descent fails by itself - if no call
   fails with fuel n, none fails with fuel n+1 - for every constraint, expression, file content and cursor (the tuple slot
   lookup, the recovery of dropped text and every scan over elements, items, parts and arguments are total). *)
Theorem C01_value_completion_fails_only_by_fuel : forall prefill file opens empties vals funcs parens cparens fname refs fns p n,
  (forall c' e', value_cands prefill file opens empties vals funcs parens cparens fname refs fns p n c' e' <> None) ->
  (forall e', type_cands file opens empties cparens p n e' <> None) ->
  forall c e, value_cands prefill file opens empties vals funcs parens cparens fname refs fns p (S n) c e <> None.
Proof. exact value_cands_no_internal_failure. Qed.
Print Assumptions C01_value_completion_fails_only_by_fuel.
