(* C01 - every query is total (partial claim: the modelled code paths; the rest is decided by the
   recover()/deadline oracle on the implementation and by the site inventory).
   Termination of the model functions is Coq's own guard check: every model function is a
   structurally recursive Fixpoint (no fuel is needed at body level). *)
From Coq Require Import String List ZArith Bool.
From HV Require Import Base.Pos Model.Schema Model.Ast Model.Merge Model.Validate Proofs.TotalProofs.

(* validator.BlockLabelsLength indexes LabelRanges[i] for every written label: in bounds on
   every tree that has as many label ranges as labels (parser contract, checked on every file). *)
Theorem C01_label_range_index_in_bounds : forall valid k,
  labels_wf k -> surplus_label_diags_partial valid (k_type k) (k_labels k) 0 (k_label_rngs k) <> None.
Proof. exact block_labels_length_never_panics. Qed.
Print Assumptions C01_label_range_index_in_bounds.

(* MergeBlockBodySchemas dereferences the dependent schema only after a (partially) successful
   lookup, and such a lookup always carries a body. *)
Theorem C01_successful_lookup_has_body : forall bs k r dk res,
  dependent_body_schema bs k = (r, dk, res) ->
  (res = LookupSuccessful \/ res = LookupPartiallySuccessful) -> r <> None.
Proof. exact dependent_body_total. Qed.
Print Assumptions C01_successful_lookup_has_body.
