(* C16 - dependent-body selection is canonical: same keys, same schema, in any order.
   Only statements closed by [exact] of a lemma proved in Proofs/. *)
From Coq Require Import String List ZArith Permutation.
From HV Require Import Base.SortSpec Base.Pos Model.Addr Model.DepKeys Model.Schema Model.Ast Model.Merge Model.Links
                       Proofs.DepKeysProofs Proofs.LinksProofs Proofs.LinksComplete.

(* A schema key depends only on the (multi)set of key/value pairs, not on the order in which they
   are listed - for every list of label and attribute keys, repeated indices and names included. *)
Theorem C16_schema_key_order_independent : forall ls ls' ats ats',
  Permutation ls ls' -> Permutation ats ats' -> schema_key ls ats = schema_key ls' ats'.
Proof. exact schema_key_perm_invariant. Qed.
Print Assumptions C16_schema_key_order_independent.

(* The rendered label list does not depend on the sorting algorithm either (stable or not). *)
Theorem C16_labels_sort_algorithm_independent : forall ls l1 l2,
  is_sort label_ltb ls l1 -> is_sort label_ltb ls l2 -> l1 = l2.
Proof. exact labels_any_sort. Qed.
Print Assumptions C16_labels_sort_algorithm_independent.

(* ---- documentation links (Model/Links.v = LinksInFile) ---- *)

(* A documentation link is attached to exactly the labels / attribute values that selected a body having a
   link: the lookup of the block found a body with a DocsLink, the link carries that (decorated) URL and
   tooltip, and its range is that of a label among the dependency keys in force, or the value of such an
   attribute. *)
Theorem C16_link_on_selecting_label_or_attribute : forall url ks k l,
  In l (block_links url ks k) ->
  exists dep dk res u tip,
    dependent_body_schema ks k = (Some dep, dk, res) /\ res <> LookupFailed /\
    bs_docs dep = Some (u, tip) /\ url u = Some (lk_uri l) /\ lk_tooltip l = tip /\
    ((exists ld, In ld (dk_labels dk) /\ nth_error (k_label_rngs k) (Z.to_nat (ld_index ld)) = Some (lk_rng l))
     \/ (exists ak a, In ak (dk_attrs dk) /\ find_attr (ak_name ak) (b_attrs (k_body k)) = Some a /\
                      lk_rng l = expr_range (a_expr a))).
Proof. exact link_on_selecting_item. Qed.
Print Assumptions C16_link_on_selecting_label_or_attribute.

(* the label keys in force are labels the schema marks as dependency keys, at their own index *)
Theorem C16_label_keys_are_dependency_key_labels : forall ls labels i ld,
  In ld (label_keys_prefix i ls labels) ->
  exists j l, ld_index ld = Z.of_nat (i + j) /\ nth_error ls j = Some l /\ ls_depkey l = true /\
              nth_error labels (i + j) = Some (ld_value ld).
Proof. exact label_keys_prefix_depkey. Qed.
Print Assumptions C16_label_keys_are_dependency_key_labels.

(* the attribute keys in force are attributes the body marks as dependency keys *)
Theorem C16_attribute_keys_are_dependency_key_attributes : forall sattrs attrs ak,
  In ak (attr_keys sattrs attrs) -> exists s, In (ak_name ak, s) sattrs /\ af_depkey (as_flags s) = true.
Proof. exact attr_keys_depkey. Qed.
Print Assumptions C16_attribute_keys_are_dependency_key_attributes.

(* ... and conversely every key label (that is written) and every key attribute written in the block carries the link of
   the body they selected: "exactly" the selecting labels / attributes *)
Theorem C16_selecting_label_carries_the_link : forall url ks k dep dk res u tip u' ld r,
  dependent_body_schema ks k = (Some dep, dk, res) -> res <> LookupFailed ->
  bs_docs dep = Some (u, tip) -> url u = Some u' ->
  In ld (dk_labels dk) -> nth_error (k_label_rngs k) (Z.to_nat (ld_index ld)) = Some r ->
  In {| lk_uri := u'; lk_tooltip := tip; lk_rng := r |} (block_links url ks k).
Proof. exact selecting_label_carries_the_link. Qed.
Print Assumptions C16_selecting_label_carries_the_link.

Theorem C16_selecting_attribute_carries_the_link : forall url ks k dep dk res u tip u' ak a,
  dependent_body_schema ks k = (Some dep, dk, res) -> res <> LookupFailed ->
  bs_docs dep = Some (u, tip) -> url u = Some u' ->
  In ak (dk_attrs dk) -> find_attr (ak_name ak) (b_attrs (k_body k)) = Some a ->
  In {| lk_uri := u'; lk_tooltip := tip; lk_rng := expr_range (a_expr a) |} (block_links url ks k).
Proof. exact selecting_attribute_carries_the_link. Qed.
Print Assumptions C16_selecting_attribute_carries_the_link.
