(* C16 - dependent-body selection is canonical: same keys, same schema, in any order.
   Only statements closed by [exact] of a lemma proved in Proofs/. *)
From Coq Require Import String List ZArith Permutation.
From HV Require Import Base.SortSpec Model.Addr Model.DepKeys Proofs.DepKeysProofs.

(* A schema key depends only on the (multi)set of key/value pairs, not on the order in which they
   are listed - for every list of label and attribute keys, repeated indices and names included. *)
Theorem C16_schema_key_order_independent : forall ls ls' ats ats',
  Permutation ls ls' -> Permutation ats ats' -> schema_key ls ats = schema_key ls' ats'.
Proof. exact schema_key_perm_invariant. Qed.
Print Assumptions C16_schema_key_order_independent.

(* The rendered label list does not depend on the sorting algorithm either (stable or not). *)
Theorem C16_labels_sort_algorithm_independent : forall ls l1 l2,
  is_sort label_ltb ls l1 -> is_sort label_ltb ls l2 -> l1 = l2.
Proof. exact labels_any_sort. Qed.
Print Assumptions C16_labels_sort_algorithm_independent.
