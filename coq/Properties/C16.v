(* C16 - dependent-body selection is canonical: same keys, same schema, in any order.
   Only statements closed by [exact] of a lemma proved in Proofs/. *)
From Coq Require Import String List ZArith Permutation.
From HV Require Import Base.SortSpec Model.Addr Model.DepKeys Proofs.DepKeysProofs.

(* A schema key depends only on the set of key/value pairs, not on the order in which they are
   listed (distinct label indices, distinct attribute names: what a block can actually supply). *)
Theorem C16_schema_key_order_independent : forall ls ls' ats ats',
  NoDup (map ld_index ls) -> NoDup (map ad_name ats) ->
  Permutation ls ls' -> Permutation ats ats' ->
  schema_key ls ats = schema_key ls' ats'.
Proof. exact schema_key_perm_invariant. Qed.
Print Assumptions C16_schema_key_order_independent.
