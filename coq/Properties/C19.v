(* C19 - JSON and native syntax of the same configuration yield the same reference graph.
   Model: Model/Json.v - ast.DecodeBody's schema-driven JSON branch (over hcl/json's PartialContent,
   JustAttributes and unpackBlock), the JSON rendering of a syntax-independent configuration, what
   native syntax decodes to, and the JSON spellings of a reference (expr_reference_ref_origins.go).
   Both decoders and the reference reader are compared with the implementation on every run.
   PARTIAL: proved is that both syntaxes decode to the same attributes/blocks/labels/values at every
   depth (all later stages - targets, origins, symbols - read only this content and its ranges) and
   that both JSON spellings of a reference denote the address written; the later stages themselves
   are compared on the implementation by the paired-rendering oracle (tools/harness/c19.go), not proved. *)
From Coq Require Import String List Bool Arith.
From HV Require Import Model.Schema Model.Json Proofs.JsonProofs.
Import ListNotations.

(* decoding the JSON rendering of any configuration expressible under the schema - any nesting depth,
   any number of labels, label-dependent bodies, AnyAttribute bodies - gives exactly the attributes,
   blocks, labels and values that native syntax gives, in the same order *)
Theorem C19_json_decodes_to_native_content : forall d sch fuel,
  conforms sch d = true -> ddepth d <= fuel -> jdecode fuel sch (to_json d) = Some (ncontent d).
Proof. exact json_roundtrip. Qed.
Print Assumptions C19_json_decodes_to_native_content.

(* a traversal written as "${...}" is an origin with exactly that address, as in native syntax *)
Theorem C19_template_reference : forall t, trav_ok TStart t = true -> json_ref ("${" ++ t ++ "}")%string = Some t.
Proof. exact json_ref_interp. Qed.
Print Assumptions C19_template_reference.

(* and so is the legacy bare string *)
Theorem C19_legacy_reference : forall t, trav_ok TStart t = true -> json_ref t = Some t.
Proof. exact json_ref_legacy. Qed.
Print Assumptions C19_legacy_reference.

(* no other JSON string is an origin, and an origin's address is the traversal written *)
Theorem C19_no_other_origins : forall s t,
  json_ref s = Some t -> trav_ok TStart t = true /\ (s = t \/ s = ("${" ++ t ++ "}")%string).
Proof. exact json_ref_sound. Qed.
Print Assumptions C19_no_other_origins.

(* the dynamic-blocks extension: a dynamic block labelled with a block type that may be generated holds one
   block type, "content", decoded with the body of exactly that block type *)
Theorem C19_dynamic_content_decoded_with_named_type : forall types t blk v,
  Model.Schema.alookup t types = Some blk ->
  inner_schema (dynamic_block types) [t] v =
  JSch ["for_each"; "iterator"; "labels"]%string false [("content"%string, JBlk 0 (jb_body blk) [])] false.
Proof. exact dynamic_content_is_the_named_type. Qed.
Print Assumptions C19_dynamic_content_decoded_with_named_type.
