(* C18 - results move with the text: edits elsewhere only shift positions.
   shift_* move every position of the edited file that lies at or after the insertion point by the
   inserted lines and bytes (Model/Shift.v).  Proved for the modelled queries; that the HCL parser maps
   the translated text to the translated tree is a hypothesis, validated by the harness on every pair. *)
From Coq Require Import String List ZArith Bool.
From HV Require Import Base.Pos Model.Schema Model.Ast Model.Merge Model.Validate Model.BodyQueries Model.Shift Proofs.ShiftProofs Proofs.ShiftSymbols Model.Links Proofs.ShiftLinks Model.Hover Proofs.ShiftHover.

(* the schema in force inside a block does not depend on where the block is *)
Theorem C18_effective_schema_position_independent : forall file at_ dl db sc k,
  merge_block_body_schemas sc (shift_block file at_ dl db k) = merge_block_body_schemas sc k.
Proof. exact merge_shift. Qed.
Print Assumptions C18_effective_schema_position_independent.

(* validation of the translated file = the translated diagnostics, at any nesting depth *)
Theorem C18_validation_equivariant : forall file at_ dl db b u s,
  walk_body u s (shift_body file at_ dl db b) = map (shift_diag file at_ dl db) (walk_body u s b).
Proof. exact walk_body_equivariant. Qed.
Print Assumptions C18_validation_equivariant.

(* semantic tokens of the translated file = the translated tokens *)
Theorem C18_tokens_equivariant : forall file at_ dl db b bs mods,
  tokens_body bs mods (shift_body file at_ dl db b) = map (shift_stoken file at_ dl db) (tokens_body bs mods b).
Proof. exact tokens_body_equivariant. Qed.
Print Assumptions C18_tokens_equivariant.

(* the outline of the translated file = the translated outline (inserting text never moves bytes backwards) *)
Theorem C18_symbols_equivariant : forall file at_ dl db, (0 <= db)%Z -> forall b bs,
  body_in_file file b ->
  symbols_body bs (shift_body file at_ dl db b) = map (shift_symbol file at_ dl db) (symbols_body bs b).
Proof. exact symbols_body_equivariant. Qed.
Print Assumptions C18_symbols_equivariant.

(* the documentation links of the translated file = the translated links (same URLs and tooltips, on the moved labels
   and key attributes) *)
Theorem C18_links_equivariant : forall file at_ dl db url bs b,
  links_in_body url bs (shift_body file at_ dl db b) = map (shift_link file at_ dl db) (links_in_body url bs b).
Proof. exact links_in_body_equivariant. Qed.
Print Assumptions C18_links_equivariant.

(* the hover of the translated file at the moved cursor = the translated hover of the original at the cursor: same
   content (or the same positional error), the range moved with the text - for attribute names, block types and labels
   at any nesting depth (every range of the tree naming the edited file; inserting text never moves bytes backwards) *)
Theorem C18_hover_equivariant : forall file at_ dl db, (0 <= db)%Z -> forall p b bs,
  hover_in_file file b ->
  hover_body (shift_pos at_ dl db p) (shift_body file at_ dl db b) bs = shift_outcome file at_ dl db (hover_body p b bs).
Proof. exact hover_body_equivariant. Qed.
Print Assumptions C18_hover_equivariant.
