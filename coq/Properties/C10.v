(* C10 - reference origins are exactly the references written in schema-known values.
   Models: Model/Origins.v (the value-level descent: every constraint kind x every expression kind,
   operators, templates, conditionals, for expressions, function arguments, object keys, one-of
   merging, OriginForTarget on object attributes), Model/Collect.v (self gating, merge, ordering);
   both compared with the implementation on every run (hook VerifExprReferenceOrigins).
   PARTIAL: the body-level loop over attributes and blocks (unknown attributes skipped, dependent
   schemas, implied/direct origins) is not modelled; it is decided on the implementation against
   generator ground truth.  "Exactly one" is proved as soundness + completeness on the fragment
   without for expressions; absence of duplicates is decided by the ground-truth oracle. *)
From Coq Require Import String List ZArith Bool Permutation Sorted.
From HV Require Import Base.Sexp Base.Pos Model.Addr Model.Schema Model.Ref Model.Collect Model.Ast Model.Origins Model.OriginsBody Proofs.CollectProofs Proofs.OriginsProofs Proofs.OriginsBodyProofs.
Import ListNotations.

(* self.* references yield an origin only where the body enables them *)
Theorem C10_self_references_gated : forall addr r cs, traversal_to_local_origin addr true r cs false = None.
Proof. exact self_gated. Qed.
Print Assumptions C10_self_references_gated.

Theorem C10_other_references_always : forall addr r cs allow a,
  addr = Some a -> traversal_to_local_origin addr false r cs allow = Some (OLocal a r cs).
Proof. exact non_self_always. Qed.
Print Assumptions C10_other_references_always.

(* merging the alternatives of a one-of never drops an origin already found and adds at most one
   per new origin; an origin that differs from all existing ones in address or range is kept *)
Theorem C10_merge_keeps_every_position : forall news origins,
  (length origins <= length (append_origins origins news) <= length origins + length news)%nat.
Proof. exact append_origins_length. Qed.
Print Assumptions C10_merge_keeps_every_position.

Theorem C10_distinct_reference_is_kept : forall origins n,
  Forall (fun x => same_ref x n = false) origins -> merge_into origins n = None.
Proof. exact unmatched_origin_is_kept. Qed.
Print Assumptions C10_distinct_reference_is_kept.

(* the result is a permutation of what was found (ordered by file and position) *)
Theorem C10_ordering_adds_and_drops_nothing : forall l, Permutation l (sort_origins l).
Proof. exact sort_origins_perm. Qed.
Print Assumptions C10_ordering_adds_and_drops_nothing.

(* every origin of a value - under any constraint, at any depth of lists, sets, tuples, maps, objects,
   one-of alternatives, templates, operators, conditionals, for expressions, call arguments - is a
   reference written in that value: it has the address the text denotes and exactly its range, and a
   self.* reference only where the body enables them; the only other origins are the declared path
   origins of literal object keys *)
Theorem C10_every_origin_is_a_written_reference : forall conv allow_self funcs origin_for_of c e o,
  In o (cons_origins conv allow_self funcs origin_for_of c e) ->
  (exists tr, In tr (written e) /\ from_trav allow_self o tr) \/ path_at_key e o.
Proof. exact cons_origins_sound. Qed.
Print Assumptions C10_every_origin_is_a_written_reference.

(* places the constraint reserves for literals, keywords or type names yield nothing *)
Theorem C10_literal_places_yield_nothing : forall conv allow_self funcs origin_for_of c e,
  match c with CLitType _ _ | CLitValue _ _ _ | CKeyword _ _ | CTypeDecl => True | _ => False end ->
  cons_origins conv allow_self funcs origin_for_of c e = [].
Proof. exact literal_places_yield_nothing. Qed.
Print Assumptions C10_literal_places_yield_nothing.

(* text that is not a reference yields no reference origin *)
Theorem C10_no_reference_no_origin : forall conv allow_self funcs origin_for_of c e o,
  written e = [] -> In o (cons_origins conv allow_self funcs origin_for_of c e) ->
  match o with OLocal _ _ _ => False | _ => True end.
Proof. exact no_reference_no_origin. Qed.
Print Assumptions C10_no_reference_no_origin.

(* completeness where an arbitrary expression is admitted: every reference written under operators
   whose result fits, templates, conditionals, parentheses, arguments of known functions within their
   arity, list/set literals under list/set types and map literals under map types - at any depth -
   yields an origin with its address and range (for expressions are outside this fragment) *)
Theorem C10_every_written_reference_yields_an_origin : forall conv allow_self funcs e t tr,
  covered conv funcs t e = true -> In tr (leaves e) -> collectable allow_self tr ->
  has_origin allow_self (any_origins conv allow_self funcs t e) tr.
Proof. exact any_origins_complete. Qed.
Print Assumptions C10_every_written_reference_yields_an_origin.

(* ---- CollectReferenceOrigins (Model/OriginsBody.v) ---- *)
(* attributes and blocks unknown to the schema yield nothing *)
Theorem C10_unknown_items_yield_nothing : forall conv funcs exprs bs attrs blocks r e,
  Forall (fun a => attr_schema_for bs (a_name a) = None) attrs ->
  Forall (fun k => alookup (k_type k) (bs_blocks bs) = None) blocks ->
  fst (body_origins conv funcs exprs bs (Body attrs blocks r e)) = [].
Proof. exact unknown_items_yield_nothing. Qed.
Print Assumptions C10_unknown_items_yield_nothing.

(* what a schema-known attribute yields: references written in its value (under the body's self.*
   setting), its declared path origin on the name, path origins on literal object keys, the direct
   origin of a dependency key on the value *)
Theorem C10_attribute_origins : forall conv funcs exprs bs a o,
  In o (attr_origins_in conv funcs exprs bs a) ->
  match o with
  | OLocal _ _ _ => exists s e, attr_schema_for bs (a_name a) = Some s /\ lookup_expr exprs (a_rng a) = Some e /\
                                exists tr, In tr (written e) /\ from_trav (ext_has ext_self_refs (bs_ext bs)) o tr
  | OPath r _ _ _ => r = a_name_rng a \/ exists e, lookup_expr exprs (a_rng a) = Some e /\ In r (raw_keys e)
  | ODirect r _ _ => r = expr_range (a_expr a)
  end.
Proof. exact attribute_origins_written. Qed.
Print Assumptions C10_attribute_origins.

(* the collected list is ordered by file and position *)
Theorem C10_collected_origins_ordered : forall conv funcs exprs root files,
  StronglySorted (fun a b => origin_ltb b a = false) (collect_origins conv funcs exprs root files).
Proof. exact collect_origins_sorted. Qed.
Print Assumptions C10_collected_origins_ordered.
