From HV Require Import Model.Ref.
Theorem C10_tmp : True. Proof. exact I. Qed.
