(* C10 - reference origins are exactly the references written in schema-known values
   (partial: self gating, the merge of origins across one-of alternatives and the final ordering
   are modelled and proved; the walk over expressions is decided on the implementation against
   generator ground truth). *)
From Coq Require Import String List ZArith Bool Permutation.
From HV Require Import Base.Pos Model.Addr Model.Ref Model.Collect Proofs.CollectProofs.

(* self.* references yield an origin only where the body enables them *)
Theorem C10_self_references_gated : forall addr r cs, traversal_to_local_origin addr true r cs false = None.
Proof. exact self_gated. Qed.
Print Assumptions C10_self_references_gated.

Theorem C10_other_references_always : forall addr r cs allow a,
  addr = Some a -> traversal_to_local_origin addr false r cs allow = Some (OLocal a r cs).
Proof. exact non_self_always. Qed.
Print Assumptions C10_other_references_always.

(* merging the alternatives of a one-of never drops an origin already found and adds at most one
   per new origin; an origin that differs from all existing ones in address or range is kept *)
Theorem C10_merge_keeps_every_position : forall news origins,
  (length origins <= length (append_origins origins news) <= length origins + length news)%nat.
Proof. exact append_origins_length. Qed.
Print Assumptions C10_merge_keeps_every_position.

Theorem C10_distinct_reference_is_kept : forall origins n,
  Forall (fun x => same_ref x n = false) origins -> merge_into origins n = None.
Proof. exact unmatched_origin_is_kept. Qed.
Print Assumptions C10_distinct_reference_is_kept.

(* the result is a permutation of what was found (ordered by file and position) *)
Theorem C10_ordering_adds_and_drops_nothing : forall l, Permutation l (sort_origins l).
Proof. exact sort_origins_perm. Qed.
Print Assumptions C10_ordering_adds_and_drops_nothing.
