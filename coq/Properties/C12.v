(* C12 - hover describes the element under the cursor and its range contains the cursor.
   Model: Model/Hover.v (hoverAtPos at body level) and Model/ValueHover.v (which sub-expression of a value answers,
   i.e. the range of the hover data, for every constraint and expression kind) and Model/TypeHover.v (what the hover on a
   reference says: address, type description, target description), compared with HoverAtPos on every run, and
   Model/HoverData.v (Constraint.EmptyHoverData: WHAT the hover of a list / set / tuple / map / object value or a
   fixed value says), compared with EmptyHoverData on every run, and Model/AttrDetail.v (what the hover on an attribute
   NAME says: name, marks, friendly name of the constraint, description), compared with HoverAtPos on every run. *)
From Coq Require Import String List ZArith Bool.
From HV Require Import Base.Sexp Base.Pos Model.Schema Model.Ast Model.Merge Model.Hover Model.Origins Model.ValueTokens Model.ValueHover
                       Proofs.HoverProofs Proofs.ValueTokensProofs Proofs.ValueHoverProofs Model.TypeHover Proofs.TypeHoverProofs Model.Snippet Model.HoverData Proofs.HoverDataProofs Model.AttrDetail Proofs.AttrDetailProofs Model.Completion Proofs.HoverRanges.

(* whenever hover data is returned for an attribute name, block type or label - at any nesting
   depth - its range contains the cursor *)
Theorem C12_hover_range_contains_cursor : forall p b bs c r,
  hover_body p b bs = HHover c r -> contains_pos r p = true.
Proof. exact hover_range_contains_cursor. Qed.
Print Assumptions C12_hover_range_contains_cursor.

(* on a dependency-key label the content names the label value and is taken from the dependent
   body whenever it resolves fully or partially *)
Theorem C12_label_hover_uses_dependent_body : forall i k s ls b dk res,
  nth_error (bk_labels s) i = Some ls -> ls_depkey ls = true ->
  dependent_body_schema s k = (Some b, dk, res) -> (res = LookupSuccessful \/ res = LookupPartiallySuccessful) ->
  bs_hover_url b = ""%string ->
  exists tail, hover_label i k s = Some (("`" ++ nth i (k_labels k) "" ++ "`" ++ tail)%string).
Proof. exact label_hover_uses_dependent_body. Qed.
Print Assumptions C12_label_hover_uses_dependent_body.

(* ---- inside attribute values (Model/ValueHover.v) ---- *)

(* Whenever hover data is returned for a position inside a value its range contains the cursor: for every
   constraint (any nesting of lists, sets, tuples, maps, objects, one-of, literal types and values, keywords,
   references, type declarations), every expression shape and any depth.  [wf_s]: the parser's tree nests;
   [wfh]: a parenthesised object key is the key, a key ends no later than its value. *)
Theorem C12_value_hover_range_contains_cursor : forall funcs vals parens opens typeok p fuel c e r,
  wf_s e -> wfh e -> contains_pos (se_rng e) p = true ->
  value_hover funcs vals parens opens typeok p fuel c e = Some (Some r) -> contains_pos r p = true.
Proof. exact value_hover_contains_cursor. Qed.
Print Assumptions C12_value_hover_range_contains_cursor.

(* the hover on a reference names it: the content begins with the address, in backquotes *)
Theorem C12_reference_hover_names_the_address : forall addr name t desc,
  String.prefix ("`" ++ addr ++ "`") (reference_hover_content addr name t desc) = true.
Proof. exact reference_hover_names_the_address. Qed.
Print Assumptions C12_reference_hover_names_the_address.

(* every type is described by a non-empty text *)
Theorem C12_type_description_not_empty : forall f t lvl,
  t <> TNil -> exists c, type_content (S f) t lvl = Some c /\ c <> ""%string.
Proof. exact type_content_defined. Qed.
Print Assumptions C12_type_description_not_empty.

(* the description of an object type does not depend on the order in which the type's attribute map is visited *)
Theorem C12_object_description_independent_of_map_order : forall f ats ats' lvl,
  NoDup (map fst ats) -> Permutation.Permutation ats ats' ->
  type_content f (TObject ats) lvl = type_content f (TObject ats') lvl.
Proof. exact object_content_independent_of_map_order. Qed.
Print Assumptions C12_object_description_independent_of_map_order.

(* ---- the content of the hover of a value (Model/HoverData.v) ---- *)

(* The hover of an object value lists exactly the declared attributes: the content is the braces (fenced at the top
   level) around one line per declared attribute, in the order of the names, and the line of an attribute carries its
   name, the description of ITS constraint one level deeper, and exactly the flags the schema gives it. *)
Theorem C12_object_value_hover_lists_declared_attributes : forall f ats an nm ip lvl s,
  ats <> nil ->
  ehd (S f) (CObject ats an nm ip) lvl = Some (Some s) ->
  exists ls, s = object_text lvl ls /\ Forall2 (line_describes (ehd f) lvl) ats ls.
Proof. exact ehd_object_listing. Qed.
Print Assumptions C12_object_value_hover_lists_declared_attributes.

(* ... where the flags shown for an attribute are determined by its optional and sensitive marks alone *)
Theorem C12_object_value_hover_flags : forall fl,
  flag_comment fl =
  match af_optional fl, af_sensitive fl with
  | true, true => " # optional, sensitive"
  | true, false => " # optional"
  | false, true => " # sensitive"
  | false, false => ""
  end%string.
Proof. exact flag_comment_cases. Qed.
Print Assumptions C12_object_value_hover_flags.

(* content, when the description of a value has any, is not the empty string (every constraint that is not itself a
   fixed value; a fixed number is shown by the text of the number) *)
Theorem C12_value_description_not_empty : forall f c lvl s,
  not_lit_value c -> ehd f c lvl = Some (Some s) -> s <> ""%string.
Proof. exact ehd_content_nonempty. Qed.
Print Assumptions C12_value_description_not_empty.

(* ---- the content of the hover on an attribute name (Model/AttrDetail.v) ---- *)

(* the content names the attribute: it begins with the name in bold *)
Theorem C12_attribute_hover_names_the_attribute : forall name a,
  String.prefix ("**" ++ name ++ "**") (attr_hover_content name a) = true.
Proof. exact attr_hover_names_the_attribute. Qed.
Print Assumptions C12_attribute_hover_names_the_attribute.

(* ... and carries the description the schema gives the attribute, as its last paragraph *)
Theorem C12_attribute_hover_carries_the_description : forall name a,
  as_desc a <> ""%string ->
  exists head, attr_hover_content name a = (head ++ nl ++ nl ++ as_desc a)%string.
Proof. exact attr_hover_carries_the_description. Qed.
Print Assumptions C12_attribute_hover_carries_the_description.

(* the marks shown between name and type are exactly those the schema's flags say *)
Theorem C12_attribute_hover_marks : forall f,
  (In "write-only"%string (detail_marks f) <-> af_writeonly f = true) /\
  (In "required"%string (detail_marks f) <-> af_required f = true) /\
  (In "optional"%string (detail_marks f) <-> af_required f = false /\ af_optional f = true) /\
  (In "sensitive"%string (detail_marks f) <-> af_sensitive f = true).
Proof. exact detail_marks_spec. Qed.
Print Assumptions C12_attribute_hover_marks.

(* the description of a list / set / map value is the wrapper around the description of its element (and there is none
   when the schema does not say what the collection holds) *)
Theorem C12_collection_description_wraps_the_element : forall f c lvl s,
  ehd (S f) c lvl = Some (Some s) ->
  match c with
  | CList (Some e) _ _ => exists s', ehd f e lvl = Some (Some s') /\ s = ("list(" ++ s' ++ ")")%string
  | CSet (Some e) _ _ => exists s', ehd f e lvl = Some (Some s') /\ s = ("set(" ++ s' ++ ")")%string
  | CMap (Some e) _ _ _ _ => exists s', ehd f e lvl = Some (Some s') /\ s = ("map(" ++ s' ++ ")")%string
  | CList None _ _ | CSet None _ _ | CMap None _ _ _ _ => False
  | _ => True
  end.
Proof. exact ehd_collection_wraps_element. Qed.
Print Assumptions C12_collection_description_wraps_the_element.

(* the description of a tuple value lists the descriptions of all its elements, in order *)
Theorem C12_tuple_description_lists_the_elements : forall f es lvl s,
  ehd (S f) (CTuple es) lvl = Some (Some s) ->
  exists ds, s = ("tuple([" ++ Base.Str.join ", " ds ++ "])")%string /\ Forall2 (fun e d => ehd f e lvl = Some (Some d)) es ds.
Proof. exact ehd_tuple_lists_elements. Qed.
Print Assumptions C12_tuple_description_lists_the_elements.

(* ---- which range a body-level hover carries ---- *)

(* on an attribute name: the whole attribute as range (the name is under the cursor and known to the effective schema) *)
Theorem C12_attribute_name_hover_has_the_whole_attribute_as_range : forall p bs attrs c r,
  hover_attrs p attrs bs = Some (HHover c r) ->
  exists a, In a attrs /\ r = a_rng a /\ contains_pos (a_name_rng a) p = true /\ contains_pos (a_rng a) p = true /\
            hover_attr_schema bs (a_name a) <> None.
Proof. exact attr_hover_range_is_the_attribute. Qed.
Print Assumptions C12_attribute_name_hover_has_the_whole_attribute_as_range.

(* on a label: that label as range, for a label the schema declares, with the content of that label *)
Theorem C12_label_hover_has_the_label_as_range : forall p k sc rngs i c r,
  hover_labels p k sc i rngs = Some (HHover c r) ->
  exists j, nth_error rngs j = Some r /\ contains_pos r p = true /\ (i + j < length (bk_labels sc))%nat /\ c = hover_label (i + j) k sc.
Proof. exact label_hover_range_is_the_label. Qed.
Print Assumptions C12_label_hover_has_the_label_as_range.

(* at any nesting depth: whenever body-level hover returns data, its range is the extent of an attribute, the type keyword
   of a block or one of a block's labels written in the file, and it contains the cursor *)
Theorem C12_hover_range_is_an_attribute_a_type_keyword_or_a_label : forall p b bs c r,
  hover_body p b bs = HHover c r -> In r (hover_item_ranges b) /\ contains_pos r p = true.
Proof. exact hover_range_is_an_item. Qed.
Print Assumptions C12_hover_range_is_an_attribute_a_type_keyword_or_a_label.
