(* C12 - hover describes the element under the cursor and its range contains the cursor.
   Model: Model/Hover.v (hoverAtPos at body level), compared with HoverAtPos on every run. *)
From Coq Require Import String List ZArith Bool.
From HV Require Import Base.Pos Model.Schema Model.Ast Model.Merge Model.Hover Proofs.HoverProofs.

(* whenever hover data is returned for an attribute name, block type or label - at any nesting
   depth - its range contains the cursor *)
Theorem C12_hover_range_contains_cursor : forall p b bs c r,
  hover_body p b bs = HHover c r -> contains_pos r p = true.
Proof. exact hover_range_contains_cursor. Qed.
Print Assumptions C12_hover_range_contains_cursor.

(* on a dependency-key label the content names the label value and is taken from the dependent
   body whenever it resolves fully or partially *)
Theorem C12_label_hover_uses_dependent_body : forall i k s ls b dk res,
  nth_error (bk_labels s) i = Some ls -> ls_depkey ls = true ->
  dependent_body_schema s k = (Some b, dk, res) -> (res = LookupSuccessful \/ res = LookupPartiallySuccessful) ->
  bs_hover_url b = ""%string ->
  exists tail, hover_label i k s = Some (("`" ++ nth i (k_labels k) "" ++ "`" ++ tail)%string).
Proof. exact label_hover_uses_dependent_body. Qed.
Print Assumptions C12_label_hover_uses_dependent_body.
