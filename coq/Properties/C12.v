From HV Require Import Model.Hover.
Theorem C12_tmp : True. Proof. exact I. Qed.
