(* C05 - concurrent queries match sequential (partial: the logical half).
   Steps of a query read the shared world and their own local state only; then every
   interleaving gives each thread the result it computes alone.  That the code's steps are
   read-only is C04 (and the race detector run on the implementation); data-race freedom in the
   sense of the Go memory model cannot be exhibited by the model. *)
From Coq Require Import List Arith.
From HV Require Import Model.Conc.

Theorem C05_interleaving_irrelevant : forall (World Local : Type) (step : World -> Local -> Local) w sched ts i,
  run World Local step w ts sched i = iter World Local step (steps_of i sched) w (ts i).
Proof. exact interleaving_irrelevant. Qed.
Print Assumptions C05_interleaving_irrelevant.

Theorem C05_schedule_independent : forall (World Local : Type) (step : World -> Local -> Local) w ts s1 s2 i,
  steps_of i s1 = steps_of i s2 -> run World Local step w ts s1 i = run World Local step w ts s2 i.
Proof. exact schedule_independent. Qed.
Print Assumptions C05_schedule_independent.
