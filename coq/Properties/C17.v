(* C17 - copying a schema value yields an equal, fully independent value. *)
From Coq Require Import String List ZArith NArith Bool.
From HV Require Import Model.CopyModel Gen.Fields Proofs.CopyProofs Proofs.CopyTable.

(* every exported field of every schema struct of the current source tree (regenerated table) is
   copied in a mode adequate for its kind: nothing omitted, containers of schema nodes deep *)
Theorem C17_every_field_of_every_struct_adequate : forallb adequate_entry fields_table = true.
Proof. exact table_adequate. Qed.
Print Assumptions C17_every_field_of_every_struct_adequate.

(* an adequately copied field is structurally equal to the original ... *)
Theorem C17_adequate_copy_equal : forall k m next v,
  adequate k m = true -> well_kinded k v -> erase (copy_field m next v) = erase v.
Proof. exact copy_field_equal. Qed.
Print Assumptions C17_adequate_copy_equal.

(* ... and isolated from it: a write through any cell of the copy leaves the original unchanged
   and vice versa (for values of any size and nesting depth) *)
Theorem C17_adequate_copy_isolated : forall k m next v,
  adequate k m = true -> well_kinded k v -> below next v ->
  (forall i f, In i (cells (copy_field m next v)) -> write i f v = v) /\
  (forall i f, In i (cells v) -> write i f (copy_field m next v) = copy_field m next v).
Proof. exact copy_field_isolated. Qed.
Print Assumptions C17_adequate_copy_isolated.

Theorem C17_struct_copy_equal : forall next fs, struct_ok fs ->
  map (fun f => let '(k, m, v) := f in erase (copy_field m next v)) fs =
  map (fun f => let '(k, m, v) := f in erase v) fs.
Proof. exact struct_copy_equal. Qed.
Print Assumptions C17_struct_copy_equal.
