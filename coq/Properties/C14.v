(* C14 - document and workspace symbols are a faithful outline of the configuration.
   Model: Model/BodyQueries.v (symbolsForBody, nestedSymbolsForExpr, symbolExprKind, workspace query),
   compared with SymbolsInFile on every run. *)
From Coq Require Import String List ZArith Bool Sorted Permutation.
From HV Require Import Base.Pos Base.SortSpec Model.Schema Model.Ast Model.BodyQueries Proofs.BodyQueriesProofs Proofs.SymbolNesting Base.Str Proofs.WorkspaceSymbols.

(* the symbols of a body correspond one-to-one to the attributes and blocks written in it ... *)
Theorem C14_symbols_one_to_one : forall bs b, Permutation (body_items bs b) (symbols_body bs b).
Proof. exact symbols_one_to_one. Qed.
Print Assumptions C14_symbols_one_to_one.

Theorem C14_symbols_count : forall bs b,
  length (symbols_body bs b) = (length (b_attrs b) + length (b_blocks b))%nat.
Proof. exact symbols_count. Qed.
Print Assumptions C14_symbols_count.

(* ... in source order *)
Theorem C14_symbols_in_source_order : forall bs b, StronglySorted (le sym_ltb) (symbols_body bs b).
Proof. exact symbols_sorted. Qed.
Print Assumptions C14_symbols_in_source_order.

(* an unreadable path never hides the symbols of the others *)
Theorem C14_unreadable_path_harmless : forall q l1 fs l2,
  workspace_symbols q (l1 ++ (false, fs) :: l2) = workspace_symbols q (l1 ++ l2).
Proof. exact unreadable_path_harmless. Qed.
Print Assumptions C14_unreadable_path_harmless.

(* the empty query returns all top-level symbols of all files of all readable paths *)
Theorem C14_empty_query_returns_all : forall paths,
  workspace_symbols "" paths =
  flat_map (fun p : bool * list (string * list symbol) => if fst p then flat_map (fun f : string * list symbol => snd f) (snd p) else nil) paths.
Proof. exact empty_query_returns_all. Qed.
Print Assumptions C14_empty_query_returns_all.

(* every child's range lies inside its parent's, at any depth (nested blocks, attributes, elements of
   list literals, items of object literals) - for every tree in which the parser's ranges nest
   (sub-expressions inside their expression, an object item's key before its value, an attribute's
   value inside the attribute, attributes and blocks inside the enclosing block) *)
Theorem C14_children_inside_parents : forall b bs outer,
  wf_body outer b ->
  Forall (fun s => match outer with Some o => inside (sym_rng s) o | None => True end /\ all_inside s) (symbols_body bs b).
Proof. exact symbols_nest. Qed.
Print Assumptions C14_children_inside_parents.

(* a workspace query returns exactly the top-level symbols of the files of the readable paths whose name contains the
   query (all of them for the empty query): nothing else, nothing missing *)
Theorem C14_workspace_query_exact : forall q paths s,
  In s (workspace_symbols q paths) <->
  exists fs f, In (true, fs) paths /\ In f fs /\ In s (snd f) /\ (String.eqb q "" || contains_str q (sym_name s)) = true.
Proof. exact workspace_symbols_exact. Qed.
Print Assumptions C14_workspace_query_exact.
