(* C13 - semantic tokens are ordered, disjoint and exactly the schema-known elements.
   Model: Model/BodyQueries.v (tokensForBody at body level: attribute names, block types, labels with
   their modifiers, descent with the merged schema, final sort), compared with
   SemanticTokensInFile on every run; Model/ValueTokens.v: the tokens inside attribute values (every expression and
   constraint kind), with the body level the complete result of SemanticTokensInFile, compared on every run. *)
From Coq Require Import String List ZArith Bool Sorted Permutation.
From HV Require Import Base.Sexp Base.SortSpec Base.Pos Model.Schema Model.Ast Model.BodyQueries Model.Origins Model.ValueTokens
                       Proofs.BodyQueriesProofs Proofs.TokenPlaces Proofs.ValueTargetsProofs Proofs.ValueTokensProofs Proofs.ValueTokensDisjoint Proofs.TokensKnown.

(* every token carries the modifiers of all enclosing blocks, outermost first, then its own *)
Theorem C13_tokens_inherit_enclosing_modifiers : forall b bs mods,
  Forall (fun t => has_prefix_list mods (st_mods t)) (tokens_body bs mods b).
Proof. exact tokens_inherit_modifiers. Qed.
Print Assumptions C13_tokens_inherit_enclosing_modifiers.

(* surplus labels get none: one label token per label that the schema declares and the block has *)
Theorem C13_no_token_for_surplus_labels : forall mods ls rs,
  length (label_tokens mods ls rs) = Nat.min (length ls) (length rs).
Proof. exact label_tokens_length. Qed.
Print Assumptions C13_no_token_for_surplus_labels.

(* the tokens of a file are sorted by position, and are exactly those of the schema-directed walk *)
Theorem C13_tokens_sorted : forall schema b, StronglySorted (le stoken_ltb) (tokens_in_file schema b).
Proof. exact tokens_in_file_sorted. Qed.
Print Assumptions C13_tokens_sorted.

Theorem C13_sorting_adds_and_drops_nothing : forall schema b,
  Permutation (tokens_body schema nil b) (tokens_in_file schema b).
Proof. exact tokens_in_file_perm. Qed.
Print Assumptions C13_sorting_adds_and_drops_nothing.

(* the tokens are a subsequence of the attribute names, block types and labels written in the file,
   in the order of the walk: every written element yields at most one token and nothing else yields one *)
Theorem C13_tokens_subsequence_of_written_elements : forall b bs mods,
  sublist (map st_rng (tokens_body bs mods b)) (places b).
Proof. exact tokens_subsequence_of_places. Qed.
Print Assumptions C13_tokens_subsequence_of_written_elements.

(* hence pairwise disjoint wherever the parser keeps names, types and labels apart *)
Theorem C13_tokens_pairwise_disjoint : forall b bs mods,
  ForallOrdPairs disjoint (places b) -> ForallOrdPairs disjoint (map st_rng (tokens_body bs mods b)).
Proof. exact tokens_pairwise_disjoint. Qed.
Print Assumptions C13_tokens_pairwise_disjoint.

(* ---- tokens inside attribute values (Model/ValueTokens.v) ---- *)

(* Every token produced for a value lies inside that value's range: for every constraint (any nesting of
   lists, maps, objects, tuples, one-of, literal types and values, type declarations), every expression
   shape (operators, templates, conditionals, for expressions, index keys, function calls) and any depth.
   [wf_s]: the parser's tree nests (parts inside wholes). *)
Theorem C13_value_tokens_inside_the_value : forall funcs vals fuel c e,
  wf_s e -> toks_inside (se_rng e) (value_tokens funcs vals fuel c e).
Proof. exact value_tokens_inside. Qed.
Print Assumptions C13_value_tokens_inside_the_value.

(* ... hence every value token of a file lies inside the value of one of its attributes: value tokens
   never reach into names, labels or other attributes *)
Theorem C13_file_value_tokens_inside_values : forall funcs vals exprs,
  (forall r e, lookup_sexpr exprs r = Some e -> wf_s e) ->
  forall fuel bs b ts,
  body_value_tokens funcs vals exprs fuel bs b = Some (Some ts) ->
  Forall (fun t => exists r e, lookup_sexpr exprs r = Some e /\ inside (vk_rng t) (se_rng e)) ts.
Proof. exact file_value_tokens_inside_values. Qed.
Print Assumptions C13_file_value_tokens_inside_values.

(* The tokens of a value are pairwise disjoint, for every constraint and expression shape, at any depth.
   [dj_s]: the parser keeps the parts of an expression apart (sibling expressions do not overlap, a key ends
   before its value, a function name before its arguments, the steps of a traversal follow each other). *)
Theorem C13_value_tokens_pairwise_disjoint : forall funcs vals fuel c e ts,
  wf_s e -> dj_s e -> value_tokens funcs vals fuel c e = Some (Some ts) ->
  ForallOrdPairs (fun x y => rdisj (vk_rng x) (vk_rng y)) ts.
Proof. exact value_tokens_pairwise_disjoint. Qed.
Print Assumptions C13_value_tokens_pairwise_disjoint.

(* ---- exactly the schema-known elements ---- *)

(* every attribute the effective schema knows gets its attribute-name token, with the enclosing modifiers and its own *)
Theorem C13_known_attribute_is_marked : forall bs mods b a s,
  In a (b_attrs b) -> token_attr_schema bs (a_name a) = Some s ->
  In {| st_type := TokAttrName; st_mods := List.app mods (as_mods s); st_rng := a_name_rng a |} (tokens_body bs mods b).
Proof. exact known_attribute_gets_a_token. Qed.
Print Assumptions C13_known_attribute_is_marked.

(* every block of a known type gets its block-type token *)
Theorem C13_known_block_is_marked : forall bs mods b k sc,
  In k (b_blocks b) -> alookup (k_type k) (bs_blocks bs) = Some sc ->
  In {| st_type := TokBlockType; st_mods := List.app mods (bk_mods sc); st_rng := k_type_rng k |} (tokens_body bs mods b).
Proof. exact known_block_gets_its_type_token. Qed.
Print Assumptions C13_known_block_is_marked.

(* unknown attributes get no token; a block of an unknown type gets none, and nothing written inside it does *)
Theorem C13_unknown_attributes_are_not_marked : forall bs mods attrs r e,
  Forall (fun a => token_attr_schema bs (a_name a) = None) attrs ->
  tokens_body bs mods (Body attrs nil r e) = nil.
Proof. exact unknown_attribute_gets_no_token. Qed.
Print Assumptions C13_unknown_attributes_are_not_marked.

Theorem C13_unknown_block_is_not_marked : forall rec bs mods k,
  alookup (k_type k) (bs_blocks bs) = None -> block_tokens rec bs mods k = nil.
Proof. exact unknown_block_gets_no_token. Qed.
Print Assumptions C13_unknown_block_is_not_marked.
