(* C13 - semantic tokens are ordered, disjoint and exactly the schema-known elements.
   Model: Model/BodyQueries.v (tokensForBody at body level: attribute names, block types, labels with
   their modifiers, descent with the merged schema, final sort), compared with
   SemanticTokensInFile on every run; tokens inside values are decided on the implementation. *)
From Coq Require Import String List ZArith Bool Sorted Permutation.
From HV Require Import Base.SortSpec Model.Schema Model.Ast Model.BodyQueries Proofs.BodyQueriesProofs.

(* every token carries the modifiers of all enclosing blocks, outermost first, then its own *)
Theorem C13_tokens_inherit_enclosing_modifiers : forall b bs mods,
  Forall (fun t => has_prefix_list mods (st_mods t)) (tokens_body bs mods b).
Proof. exact tokens_inherit_modifiers. Qed.
Print Assumptions C13_tokens_inherit_enclosing_modifiers.

(* surplus labels get none: one label token per label that the schema declares and the block has *)
Theorem C13_no_token_for_surplus_labels : forall mods ls rs,
  length (label_tokens mods ls rs) = Nat.min (length ls) (length rs).
Proof. exact label_tokens_length. Qed.
Print Assumptions C13_no_token_for_surplus_labels.

(* the tokens of a file are sorted by position, and are exactly those of the schema-directed walk *)
Theorem C13_tokens_sorted : forall schema b, StronglySorted (le stoken_ltb) (tokens_in_file schema b).
Proof. exact tokens_in_file_sorted. Qed.
Print Assumptions C13_tokens_sorted.

Theorem C13_sorting_adds_and_drops_nothing : forall schema b,
  Permutation (tokens_body schema nil b) (tokens_in_file schema b).
Proof. exact tokens_in_file_perm. Qed.
Print Assumptions C13_sorting_adds_and_drops_nothing.
