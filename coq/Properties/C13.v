(* C13 - semantic tokens are ordered, disjoint and exactly the schema-known elements.
   Model: Model/BodyQueries.v (tokensForBody at body level: attribute names, block types, labels with
   their modifiers, descent with the merged schema, final sort), compared with
   SemanticTokensInFile on every run; Model/ValueTokens.v: the tokens inside attribute values (every expression and
   constraint kind), with the body level the complete result of SemanticTokensInFile, compared on every run. *)
From Coq Require Import String List ZArith Bool Sorted Permutation.
From HV Require Import Base.Sexp Base.SortSpec Base.Pos Model.Schema Model.Ast Model.BodyQueries Model.Origins Model.ValueTokens
                       Proofs.BodyQueriesProofs Proofs.TokenPlaces Proofs.ValueTargetsProofs Proofs.ValueTokensProofs Proofs.ValueTokensDisjoint.

(* every token carries the modifiers of all enclosing blocks, outermost first, then its own *)
Theorem C13_tokens_inherit_enclosing_modifiers : forall b bs mods,
  Forall (fun t => has_prefix_list mods (st_mods t)) (tokens_body bs mods b).
Proof. exact tokens_inherit_modifiers. Qed.
Print Assumptions C13_tokens_inherit_enclosing_modifiers.

(* surplus labels get none: one label token per label that the schema declares and the block has *)
Theorem C13_no_token_for_surplus_labels : forall mods ls rs,
  length (label_tokens mods ls rs) = Nat.min (length ls) (length rs).
Proof. exact label_tokens_length. Qed.
Print Assumptions C13_no_token_for_surplus_labels.

(* the tokens of a file are sorted by position, and are exactly those of the schema-directed walk *)
Theorem C13_tokens_sorted : forall schema b, StronglySorted (le stoken_ltb) (tokens_in_file schema b).
Proof. exact tokens_in_file_sorted. Qed.
Print Assumptions C13_tokens_sorted.

Theorem C13_sorting_adds_and_drops_nothing : forall schema b,
  Permutation (tokens_body schema nil b) (tokens_in_file schema b).
Proof. exact tokens_in_file_perm. Qed.
Print Assumptions C13_sorting_adds_and_drops_nothing.

(* the tokens are a subsequence of the attribute names, block types and labels written in the file,
   in the order of the walk: every written element yields at most one token and nothing else yields one *)
Theorem C13_tokens_subsequence_of_written_elements : forall b bs mods,
  sublist (map st_rng (tokens_body bs mods b)) (places b).
Proof. exact tokens_subsequence_of_places. Qed.
Print Assumptions C13_tokens_subsequence_of_written_elements.

(* hence pairwise disjoint wherever the parser keeps names, types and labels apart *)
Theorem C13_tokens_pairwise_disjoint : forall b bs mods,
  ForallOrdPairs disjoint (places b) -> ForallOrdPairs disjoint (map st_rng (tokens_body bs mods b)).
Proof. exact tokens_pairwise_disjoint. Qed.
Print Assumptions C13_tokens_pairwise_disjoint.

(* ---- tokens inside attribute values (Model/ValueTokens.v) ---- *)

(* Every token produced for a value lies inside that value's range: for every constraint (any nesting of
   lists, maps, objects, tuples, one-of, literal types and values, type declarations), every expression
   shape (operators, templates, conditionals, for expressions, index keys, function calls) and any depth.
   [wf_s]: the parser's tree nests (parts inside wholes). *)
Theorem C13_value_tokens_inside_the_value : forall funcs vals fuel c e,
  wf_s e -> toks_inside (se_rng e) (value_tokens funcs vals fuel c e).
Proof. exact value_tokens_inside. Qed.
Print Assumptions C13_value_tokens_inside_the_value.

(* ... hence every value token of a file lies inside the value of one of its attributes: value tokens
   never reach into names, labels or other attributes *)
Theorem C13_file_value_tokens_inside_values : forall funcs vals exprs,
  (forall r e, lookup_sexpr exprs r = Some e -> wf_s e) ->
  forall fuel bs b ts,
  body_value_tokens funcs vals exprs fuel bs b = Some (Some ts) ->
  Forall (fun t => exists r e, lookup_sexpr exprs r = Some e /\ inside (vk_rng t) (se_rng e)) ts.
Proof. exact file_value_tokens_inside_values. Qed.
Print Assumptions C13_file_value_tokens_inside_values.

(* The tokens of a value are pairwise disjoint, for every constraint and expression shape, at any depth.
   [dj_s]: the parser keeps the parts of an expression apart (sibling expressions do not overlap, a key ends
   before its value, a function name before its arguments, the steps of a traversal follow each other). *)
Theorem C13_value_tokens_pairwise_disjoint : forall funcs vals fuel c e ts,
  wf_s e -> dj_s e -> value_tokens funcs vals fuel c e = Some (Some ts) ->
  ForallOrdPairs (fun x y => rdisj (vk_rng x) (vk_rng y)) ts.
Proof. exact value_tokens_pairwise_disjoint. Qed.
Print Assumptions C13_value_tokens_pairwise_disjoint.
