(* C07 - body and label completion offers exactly what the effective schema still allows.
   Model: Model/Completion.v (completionAtPos at body/label level, bodySchemaCandidates,
   labelCandidatesFromDependentSchema, token lookups), compared with CompletionAtPos on every run. *)
From Coq Require Import String List ZArith Bool Sorted.
From HV Require Import Base.Pos Base.SortSpec Model.Schema Model.Ast Model.Completion Proofs.CompletionProofs Proofs.CompletionNoDup Model.Validate Proofs.CompletionValidates.

(* A complete candidate list is exactly the sorted list of: count / for_each where the extension is
   on, not yet declared and matching the prefix; the attributes of the effective schema that are
   declarable (not read-only, not present) and match the prefix; the AnyAttribute placeholder for
   an empty prefix; the block types that do not clash with an attribute name, are below their
   maximum and match the prefix.  Nothing else is offered and nothing that matches is left out. *)
Theorem C07_body_candidates_exact : forall max b bs prefix edit,
  cs_complete (body_schema_candidates max b bs prefix edit) = true ->
  cs_list (body_schema_candidates max b bs prefix edit) = stable_sort cand_ltb (allowed b bs prefix edit).
Proof. exact complete_list_is_exact. Qed.
Print Assumptions C07_body_candidates_exact.

Theorem C07_body_candidates_sorted : forall max b bs prefix edit,
  cs_complete (body_schema_candidates max b bs prefix edit) = true ->
  StronglySorted (le cand_ltb) (cs_list (body_schema_candidates max b bs prefix edit)).
Proof. exact complete_list_is_sorted. Qed.
Print Assumptions C07_body_candidates_sorted.

(* An offered block type has room for one more block: the MaxBlocks validator (count > max)
   cannot report it after the candidate is accepted. *)
Theorem C07_offered_block_has_room : forall b t s,
  is_block_declarable b t s = true -> (bk_max s = 0 \/ count_type (b_blocks b) t + 1 <= bk_max s)%Z.
Proof. exact offered_block_does_not_exceed_max. Qed.
Print Assumptions C07_offered_block_has_room.

(* Without duplicates: a list marked complete offers no name twice as the same kind of item (attribute / block type),
   the schema's attribute names and block type names being unique (keys of Go maps). *)
Theorem C07_body_candidates_without_duplicates : forall max b bs prefix edit,
  NoDup (map fst (bs_attrs bs)) -> NoDup (map fst (bs_blocks bs)) ->
  cs_complete (body_schema_candidates max b bs prefix edit) = true ->
  NoDup (map ident (cs_list (body_schema_candidates max b bs prefix edit))).
Proof. intros max b bs prefix edit. exact (complete_list_nodup b bs prefix edit max). Qed.
Print Assumptions C07_body_candidates_without_duplicates.

(* An attribute of the schema that is offered can still be declared: it is not present in the body yet, it is not
   read-only (computed without being optional) and it starts with the typed prefix - so accepting it neither repeats
   an attribute nor writes one the schema does not know. *)
Theorem C07_offered_attribute_can_be_declared : forall b bs prefix p,
  In p (filter (attr_ok b bs prefix) (bs_attrs bs)) ->
  In p (bs_attrs bs) /\
  find_attr (fst p) (b_attrs b) = None /\
  (af_computed (as_flags (snd p)) = true -> af_optional (as_flags (snd p)) = true) /\
  has_prefix prefix (fst p) = true.
Proof. exact offered_schema_attribute_declarable. Qed.
Print Assumptions C07_offered_attribute_can_be_declared.

(* Accepting a candidate never makes validation report an unexpected item (Model/Validate.v is the validating walk):
   for every offered attribute name the walk finds an attribute schema, so whatever it reports about an attribute of
   that name is not "Unexpected attribute" ... *)
Theorem C07_accepted_attribute_is_not_unexpected : forall b bs prefix edit c unknown a,
  In c (allowed b bs prefix edit) -> c_kind c = CKAttr ->
  forall d, In d (attr_diags unknown (walker_attr_schema bs (c_label c)) a) -> d_kind d <> KUnexpectedAttr.
Proof. exact accepted_attribute_not_unexpected. Qed.
Print Assumptions C07_accepted_attribute_is_not_unexpected.

(* ... and for every offered block type it finds a block schema: nothing it reports about a block of that type is
   "Unexpected block" (the surplus-block side is C07_offered_block_has_room) *)
Theorem C07_accepted_block_is_not_unexpected : forall b bs prefix edit c unknown k,
  In c (allowed b bs prefix edit) -> c_kind c = CKBlock -> k_type k = c_label c ->
  forall d, In d (block_diags unknown (block_schema_for (Some bs) k) k) -> d_kind d <> KUnexpectedBlock.
Proof. exact accepted_block_not_unexpected. Qed.
Print Assumptions C07_accepted_block_is_not_unexpected.
