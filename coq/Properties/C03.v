(* C03 - results are a function of the inputs: deterministic and history-independent.
   What is proved concerns the places where Go gives no ordering guarantee: sorting with
   sort.Sort / sort.Slice (not stable) over elements gathered in map iteration order. *)
From Coq Require Import String List ZArith Permutation Sorted.
From HV Require Import Base.SortSpec Model.Ref Model.DepKeys Proofs.RefProofs Proofs.DepKeysProofs.

(* reference targets: whatever order they were collected in (map iteration) and whichever sort
   algorithm runs (sort.Sort is not stable), the sequence of (local address, address, position,
   scope, type, name, definition position) of the sorted result is the same (the implementation's last
   key, the description text, is not part of the model's targets) *)
Theorem C03_target_order_is_a_function_of_the_set : forall l l' l1 l2,
  Permutation l l' -> is_sort targets_less l l1 -> is_sort targets_less l' l2 -> map tkey l1 = map tkey l2.
Proof. exact sort_keys_unique. Qed.
Print Assumptions C03_target_order_is_a_function_of_the_set.

Theorem C03_targets_less_asymmetric : forall a b, targets_less a b = true -> targets_less b a = false.
Proof. exact targets_less_asym. Qed.
Print Assumptions C03_targets_less_asymmetric.

Theorem C03_targets_less_transitive : forall a b c,
  targets_less a b = true -> targets_less b c = true -> targets_less a c = true.
Proof. exact targets_less_trans. Qed.
Print Assumptions C03_targets_less_transitive.

(* the comparator before the fix commit was not asymmetric, so Go's sort contract did not apply *)
Theorem C03_targets_less_before_fix_refuted :
  exists a b, targets_less_prefix a b = true /\ targets_less_prefix b a = true.
Proof. exact targets_less_prefix_refuted. Qed.
Print Assumptions C03_targets_less_before_fix_refuted.

(* schema keys (selection of the dependent body) do not depend on the order in which Go's map
   iteration delivers the dependency-key attributes *)
Theorem C03_schema_key_independent_of_map_order : forall ls ls' ats ats',
  Permutation ls ls' -> Permutation ats ats' -> schema_key ls ats = schema_key ls' ats'.
Proof. exact schema_key_perm_invariant. Qed.
Print Assumptions C03_schema_key_independent_of_map_order.
