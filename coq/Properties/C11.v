(* C11 - go-to-definition and find-references are inverse views of one resolution.
   Model: Model/Ref.v (Target.Matches, Targets.Match, Origins.Match, InnermostAtPos, AtPos and the two
   decoder lookups over a world of paths), compared with the exported functions on every run. *)
From Coq Require Import String List ZArith Bool.
From HV Require Import Base.Pos Model.Addr Model.Schema Model.Ref Proofs.RefProofs Proofs.InverseProofs.

(* origins that point into another path resolve against that path's declarations, local origins
   against their own path, direct origins are passed through unchanged *)
Theorem C11_origins_resolve_in_the_path_they_point_to : forall conv w own o rt,
  In rt (resolve_origin conv w own o) ->
  rt_origin rt = o_range o /\
  match o with
  | OLocal _ _ _ => rt_path rt = pc_path own
  | OPath _ _ tp _ => rt_path rt = tp
  | ODirect _ tp tr => rt_path rt = tp /\ rt_range rt = tr
  end.
Proof. exact resolve_origin_path. Qed.
Print Assumptions C11_origins_resolve_in_the_path_they_point_to.

(* every reported declaration matches the origin under the one matching relation *)
Theorem C11_reported_declarations_match : forall conv w own o rt,
  In rt (resolve_origin conv w own o) ->
  match o with
  | OLocal a r cs => exists t, In t (targets_match conv (pc_targets own) a cs r) /\ t_rng t = Some (rt_range rt) /\ t_def t = rt_def rt
  | OPath r a tp cs => exists c t, find_path w tp = Some c /\ In t (targets_match conv (pc_targets c) a cs r) /\
                                   t_rng t = Some (rt_range rt) /\ t_def t = rt_def rt
  | ODirect _ _ _ => True
  end.
Proof. exact resolve_origin_sound. Qed.
Print Assumptions C11_reported_declarations_match.

(* block-local names such as count.index, each.key, self.attr do not leak out of their block *)
Theorem C11_local_names_do_not_leak : forall conv t a cs r fr,
  target_matches conv t a cs r = true -> t_from t = Some fr -> range_overlaps fr r = false ->
  exists a', addr_equals (t_addr t) a' = true.
Proof. exact local_names_do_not_leak. Qed.
Print Assumptions C11_local_names_do_not_leak.

(* the inverse, go-to-definition => find-references: if the resolution of an origin contains a
   declaration t, then find-references at any position whose innermost declaration is t lists that
   origin's place - for origins of the same path ... *)
Theorem C11_gotodef_implies_findrefs_local : forall conv w p own file x a r cs t,
  find_path w p = Some own ->
  In (OLocal a r cs) (pc_origins own) ->
  In t (targets_match conv (pc_targets own) a cs r) ->
  In t (innermost_at_pos (S (forest_depth (pc_targets own))) (pc_targets own) file x) ->
  In (pc_path own, r) (origins_targeting_pos conv w p file x).
Proof. exact gotodef_findrefs_local. Qed.
Print Assumptions C11_gotodef_implies_findrefs_local.

(* ... and for origins of any readable path that point into the queried one *)
Theorem C11_gotodef_implies_findrefs_other_path : forall conv w c own file x a r tp cs t,
  In c w -> pc_ok c = true ->
  In (OPath r a tp cs) (pc_origins c) ->
  find_path w tp = Some own ->
  In t (targets_match conv (pc_targets own) a cs r) ->
  In t (innermost_at_pos (S (forest_depth (pc_targets own))) (pc_targets own) file x) ->
  In (pc_path c, r) (origins_targeting_pos conv w tp file x).
Proof. exact gotodef_findrefs_path. Qed.
Print Assumptions C11_gotodef_implies_findrefs_other_path.

(* find-references => go-to-definition: every listed place holds an origin of a readable path that
   points into the queried path and whose resolution contains the innermost declaration at the
   position or one nested in it; direct origins are never listed *)
Theorem C11_findrefs_implies_gotodef : forall conv w p own file x pp r,
  find_path w p = Some own ->
  In (pp, r) (origins_targeting_pos conv w p file x) ->
  exists c o t t',
    In c w /\ pc_ok c = true /\ pc_path c = pp /\ In o (pc_origins c) /\ o_range o = r /\
    In t (innermost_at_pos (S (forest_depth (pc_targets own))) (pc_targets own) file x) /\
    (t' = t \/ deep_mem t' (t_nested t)) /\
    match o with
    | OLocal a _ cs => pp = p /\ In t' (targets_match conv (pc_targets own) a cs r)
    | OPath _ a tp cs => tp = p /\ In t' (targets_match conv (pc_targets own) a cs r)
    | ODirect _ _ _ => False
    end.
Proof. exact findrefs_gotodef. Qed.
Print Assumptions C11_findrefs_implies_gotodef.
