From HV Require Import Model.Ref.
Theorem C11_tmp : True. Proof. exact I. Qed.
