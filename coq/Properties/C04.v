(* C04 - queries never modify what the caller supplied; derived schemas are fresh copies.
   In the Gallina model every query is a function of its inputs (there is nothing to modify); what
   has to be established about the code is that the schemas a query derives and then writes to
   (MergeBlockBodySchemas sets Extensions on copied blocks, overlays attributes and blocks) share no
   mutable cell with the caller's schema.  That is the Copy() theorem of C17 instantiated with the
   table regenerated from the current source. *)
From Coq Require Import String List ZArith NArith Bool.
From HV Require Import Model.CopyModel Gen.Fields Proofs.CopyProofs Proofs.CopyTable.

Theorem C04_copies_used_for_derived_schemas_are_adequate : forallb adequate_entry fields_table = true.
Proof. exact table_adequate. Qed.
Print Assumptions C04_copies_used_for_derived_schemas_are_adequate.

(* a write through any cell of a derived (copied) schema leaves the caller's schema unchanged *)
Theorem C04_writes_to_derived_schema_do_not_reach_the_original : forall k m next v,
  adequate k m = true -> well_kinded k v -> below next v ->
  (forall i f, In i (cells (copy_field m next v)) -> write i f v = v) /\
  (forall i f, In i (cells v) -> write i f (copy_field m next v) = copy_field m next v).
Proof. exact copy_field_isolated. Qed.
Print Assumptions C04_writes_to_derived_schema_do_not_reach_the_original.
