From HV Require Import Model.Ref.
Theorem C08_tmp : True. Proof. exact I. Qed.
