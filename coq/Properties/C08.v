(* C08 - value completion offers only what fits: visible declarations, conforming values.
   Model: Model/Ref.v (Targets.MatchWalk, localTargetMatches, absTargetMatches, containsMatch,
   Target.Address), compared with the exported functions on every run;
   Model/FuncCands.v (functionExpr.matchingFunctions), compared with CompletionAtPos on every run. *)
From Coq Require Import String List ZArith Bool.
From HV Require Import Base.Pos Model.Addr Model.Schema Model.Ref Proofs.RefProofs Model.FuncCands Proofs.FuncCandsProofs.

(* every declaration the completion walk offers is offered through its local or absolute address *)
Theorem C08_offered_targets_match : forall conv self_active ref_scope ref_type prefix outer_body origin_rng fuel ts t,
  In t (match_walk conv self_active ref_scope ref_type prefix outer_body origin_rng fuel ts) ->
  exists cm, local_target_matches conv self_active ref_scope ref_type prefix origin_rng cm t = true \/
             abs_target_matches conv ref_scope ref_type prefix outer_body cm t = true.
Proof. exact match_walk_sound. Qed.
Print Assumptions C08_offered_targets_match.

(* through the local address: starts with the typed text; self.* only where enabled; only where
   the block-local name is visible from *)
Theorem C08_local_candidates_visible : forall conv self_active ref_scope ref_type prefix origin_rng cm t,
  local_target_matches conv self_active ref_scope ref_type prefix origin_rng cm t = true ->
  String.prefix prefix (addr_string (t_local t)) = true /\
  (first_is_self (t_local t) = true -> self_active = true) /\
  (forall fr, t_from t = Some fr -> range_overlaps fr origin_rng = true).
Proof. exact local_match_implies. Qed.
Print Assumptions C08_local_candidates_visible.

(* through the absolute address: starts with the typed text, is not a field of the block being
   edited, and fits the expected scope/type itself or contains a nested declaration that does *)
Theorem C08_absolute_candidates_fit : forall conv ref_scope ref_type prefix outer_body cm t,
  abs_target_matches conv ref_scope ref_type prefix outer_body cm t = true ->
  String.prefix prefix (addr_string (t_addr t)) = true /\ target_in_range t outer_body = false /\
  (matches_constraint conv t ref_scope ref_type = true \/ cm = true).
Proof. exact abs_match_implies. Qed.
Print Assumptions C08_absolute_candidates_fit.

(* every function candidate is a known function whose name starts with the typed text and whose
   return type converts to the expected type; accepting it writes a call of that function *)
Theorem C08_function_candidates_fit : forall conv funcs prefix expected c,
  In c (matching_functions conv funcs prefix expected) ->
  exists f, In f funcs /\ fc_label c = fd_name f /\ fc_newtext c = (fd_name f ++ "()")%string /\
            String.prefix prefix (fd_name f) = true /\ conv (fd_ret f) expected = true.
Proof. exact function_candidates_sound. Qed.
Print Assumptions C08_function_candidates_fit.

(* ... every such function is offered ... *)
Theorem C08_function_candidates_complete : forall conv funcs prefix expected f,
  In f funcs -> String.prefix prefix (fd_name f) = true -> conv (fd_ret f) expected = true ->
  In (cand_of f) (matching_functions conv funcs prefix expected).
Proof. exact function_candidates_complete. Qed.
Print Assumptions C08_function_candidates_complete.

(* ... and the list does not depend on the order in which the function table (a map) is visited *)
Theorem C08_function_candidates_order_independent : forall conv funcs funcs' prefix expected,
  NoDup (map fd_name funcs) -> Permutation.Permutation funcs funcs' ->
  matching_functions conv funcs prefix expected = matching_functions conv funcs' prefix expected.
Proof. exact function_candidates_order_independent. Qed.
Print Assumptions C08_function_candidates_order_independent.
