(* C08 - value completion offers only what fits: visible declarations, conforming values.
   Model: Model/Ref.v (Targets.MatchWalk, localTargetMatches, absTargetMatches, containsMatch,
   Target.Address), compared with the exported functions on every run;
   Model/FuncCands.v (functionExpr.matchingFunctions), compared with CompletionAtPos on every run;
   Model/ValueCands.v (CompletionAtPos of every expression kind: which keyword, boolean, literal, collection,
   object-attribute and map-item candidates are offered where), compared with CompletionAtPos at every offset of
   generated and focus files on every run. *)
From Coq Require Import String List ZArith Bool.
Import ListNotations.
From HV Require Import Base.Pos Base.Sexp Model.Addr Model.Schema Model.Ref Proofs.RefProofs Model.FuncCands Proofs.FuncCandsProofs
                       Model.ValueTokens Model.ValueHover Model.ValueCands Proofs.ValueCandsProofs Gen.Consts.

(* every declaration the completion walk offers is offered through its local or absolute address *)
Theorem C08_offered_targets_match : forall conv self_active ref_scope ref_type prefix outer_body origin_rng fuel ts t,
  In t (match_walk conv self_active ref_scope ref_type prefix outer_body origin_rng fuel ts) ->
  exists cm, local_target_matches conv self_active ref_scope ref_type prefix origin_rng cm t = true \/
             abs_target_matches conv ref_scope ref_type prefix outer_body cm t = true.
Proof. exact match_walk_sound. Qed.
Print Assumptions C08_offered_targets_match.

(* through the local address: starts with the typed text; self.* only where enabled; only where
   the block-local name is visible from *)
Theorem C08_local_candidates_visible : forall conv self_active ref_scope ref_type prefix origin_rng cm t,
  local_target_matches conv self_active ref_scope ref_type prefix origin_rng cm t = true ->
  String.prefix prefix (addr_string (t_local t)) = true /\
  (first_is_self (t_local t) = true -> self_active = true) /\
  (forall fr, t_from t = Some fr -> range_overlaps fr origin_rng = true).
Proof. exact local_match_implies. Qed.
Print Assumptions C08_local_candidates_visible.

(* through the absolute address: starts with the typed text, is not a field of the block being
   edited, and fits the expected scope/type itself or contains a nested declaration that does *)
Theorem C08_absolute_candidates_fit : forall conv ref_scope ref_type prefix outer_body cm t,
  abs_target_matches conv ref_scope ref_type prefix outer_body cm t = true ->
  String.prefix prefix (addr_string (t_addr t)) = true /\ target_in_range t outer_body = false /\
  (matches_constraint conv t ref_scope ref_type = true \/ cm = true).
Proof. exact abs_match_implies. Qed.
Print Assumptions C08_absolute_candidates_fit.

(* every function candidate is a known function whose name starts with the typed text and whose
   return type converts to the expected type; accepting it writes a call of that function *)
Theorem C08_function_candidates_fit : forall conv funcs prefix expected c,
  In c (matching_functions conv funcs prefix expected) ->
  exists f, In f funcs /\ fc_label c = fd_name f /\ fc_newtext c = (fd_name f ++ "()")%string /\
            String.prefix prefix (fd_name f) = true /\ conv (fd_ret f) expected = true.
Proof. exact function_candidates_sound. Qed.
Print Assumptions C08_function_candidates_fit.

(* ... every such function is offered ... *)
Theorem C08_function_candidates_complete : forall conv funcs prefix expected f,
  In f funcs -> String.prefix prefix (fd_name f) = true -> conv (fd_ret f) expected = true ->
  In (cand_of f) (matching_functions conv funcs prefix expected).
Proof. exact function_candidates_complete. Qed.
Print Assumptions C08_function_candidates_complete.

(* ... and the list does not depend on the order in which the function table (a map) is visited *)
Theorem C08_function_candidates_order_independent : forall conv funcs funcs' prefix expected,
  NoDup (map fd_name funcs) -> Permutation.Permutation funcs funcs' ->
  matching_functions conv funcs prefix expected = matching_functions conv funcs' prefix expected.
Proof. exact function_candidates_order_independent. Qed.
Print Assumptions C08_function_candidates_order_independent.

(* keyword candidates are exactly those the constraint admits: (soundness, any depth) a keyword candidate offered
   anywhere inside a value carries the keyword of a Keyword constraint that occurs in the attribute's constraint -
   as list / set / map element, tuple position, object attribute or one-of alternative; literal types,
   any-expressions, function arguments, type declarations and interpolated keys never yield one *)
Theorem C08_keyword_candidates_admitted : forall prefill file opens empties vals funcs parens cparens fname refs fns p fuel c e l i,
  value_cands prefill file opens empties vals funcs parens cparens fname refs fns p fuel c e = Some (Some l) -> In i l -> vi_kind i = kKeyword ->
  exists kw, has_kw c kw /\ exists n s t sb eb, i = VC kKeyword (Some kw) n s t sb eb.
Proof.
  intros prefill file opens empties vals funcs parens cparens fname refs fns p fuel c e l i H Hin Hk.
  exact (proj1 (Forall_forall _ _) (value_cands_keywords_admitted prefill file opens empties vals funcs parens cparens fname refs fns p fuel c e l H) i Hin Hk).
Qed.
Print Assumptions C08_keyword_candidates_admitted.

(* (completeness at the leaf) a Keyword constraint offers its keyword at an empty value ... *)
Theorem C08_keyword_offered_at_empty_value : forall p kw,
  keyword_cands p kw CEmpty = vret [VC kKeyword (Some kw) (Some kw) (Some kw) (Some false) (p_byte p) (p_byte p)].
Proof. exact keyword_at_empty. Qed.
Print Assumptions C08_keyword_offered_at_empty_value.

(* ... and on a name being typed exactly when the typed text is a prefix of the keyword *)
Theorem C08_keyword_offered_iff_prefix : forall p kw r vt root rr res,
  (0 <= p_byte p - rs rr <= Z.of_nat (String.length root))%Z ->
  keyword_cands p kw (CExpr (SE r vt (NTrav root [TSRoot rr] res))) =
    if bytes_prefix (String.substring 0 (Z.to_nat (p_byte p - rs rr)) root) kw
    then vret [VC kKeyword (Some kw) (Some kw) (Some kw) (Some false) (rs r) (re r)] else vnil.
Proof. exact keyword_on_typed_name. Qed.
Print Assumptions C08_keyword_offered_iff_prefix.

(* object attribute names offered inside an object value are exactly the attributes of the constraint that start
   with the typed text and are not declared elsewhere in the object (the item being edited itself may be replaced) *)
Theorem C08_object_attribute_candidates_exact : forall prefill prefix ats d er name,
  (exists n s t, In (VC kAttribute (Some name) n s t (fst er) (snd er)) (attrs_to_cands prefill prefix ats d er)) <->
  (exists a, In (name, a) ats) /\ bytes_prefix prefix name = true /\ (forall dr, decl_get d name = Some dr -> overlaps dr er = true).
Proof. exact attrs_to_cands_exact. Qed.
Print Assumptions C08_object_attribute_candidates_exact.
