(* C15 - validation reports exactly the schema violations present in the file.
   Model: Model/Validate.v (walker + eight stock validators), compared with ValidateFile on every run. *)
From Coq Require Import String List ZArith Bool.
From HV Require Import Base.Pos Model.Schema Model.Ast Model.Merge Model.Validate Proofs.ValidateProofs Proofs.ValidateCounts.

(* Inside a block whose dependent body could not be resolved, nothing is reported as unexpected -
   at any nesting depth below it. *)
Theorem C15_unknown_schema_silences_unexpected : forall b s,
  Forall (fun d => is_unexpected d = false) (walk_body true s b).
Proof. exact walk_unknown_no_unexpected. Qed.
Print Assumptions C15_unknown_schema_silences_unexpected.

Theorem C15_unresolved_dependent_body_sets_the_flag : forall u s sc k m res,
  block_schema_for s k = Some sc -> bk_body sc <> None ->
  merge_block_body_schemas sc k = (m, res) ->
  (res = LookupFailed \/ res = LookupPartiallySuccessful) ->
  exists own, walk_block walk_body u s k = (own ++ walk_body true (Some m) (k_body k))%list.
Proof. exact unresolved_dependent_body_silences_unexpected. Qed.
Print Assumptions C15_unresolved_dependent_body_sets_the_flag.

(* A dynamic block of a type satisfies that type's minimum. *)
Theorem C15_dynamic_block_satisfies_minimum : forall bs b name,
  ext_has ext_dynamic (bs_ext bs) = true -> (0 < count_dynamic name (b_blocks b))%Z ->
  forall d, In d (body_diags bs b) -> d_kind d = KTooFewBlocks -> d_name d <> name.
Proof. exact dynamic_satisfies_minimum. Qed.
Print Assumptions C15_dynamic_block_satisfies_minimum.

(* A "required attribute" error is reported for a name iff the body's schema requires it and
   the body does not declare it. *)
Theorem C15_missing_required_exact : forall bs b name,
  (exists d, In d (body_diags bs b) /\ d_kind d = KMissingRequired /\ d_name d = name) <->
  (exists sc, In (name, sc) (bs_attrs bs) /\ af_required (as_flags sc) = true /\ find_attr name (b_attrs b) = None).
Proof. exact missing_required_iff. Qed.
Print Assumptions C15_missing_required_exact.

(* Every diagnostic has its subject on an item of the file: an attribute, a block type, a label
   or a body - at any nesting depth. *)
Theorem C15_subject_on_offending_item : forall b u s d,
  In d (walk_body u s b) -> In (d_subject d) (item_ranges b).
Proof. exact walk_subjects_are_item_ranges. Qed.
Print Assumptions C15_subject_on_offending_item.

(* Exactly one 'unexpected' error per attribute the effective schema does not know (none where the schema itself is
   unknown), none for an attribute it knows. *)
Theorem C15_one_unexpected_error_per_unknown_attribute : forall unknown s a,
  count_kind KUnexpectedAttr (attr_diags unknown s a) =
  match s with None => if unknown then 0 else 1 | Some _ => 0 end%nat.
Proof. exact unexpected_attribute_count. Qed.
Print Assumptions C15_one_unexpected_error_per_unknown_attribute.

(* Per block: a block of a known type gets one error per surplus label, one 'not enough labels' error iff labels are
   missing, and is never 'unexpected'; a block of an unknown type gets exactly one 'unexpected' error (none where the
   schema is unknown). *)
Theorem C15_block_errors_counted : forall unknown s k,
  match s with
  | Some sc =>
      count_kind KUnexpectedBlock (block_diags unknown s k) = 0%nat /\
      count_kind KNotEnoughLabels (block_diags unknown s k) = (if Nat.ltb (length (k_labels k)) (length (bk_labels sc)) then 1 else 0)%nat /\
      count_kind KTooManyLabels (block_diags unknown s k) =
        (length (firstn (length (k_labels k)) (k_label_rngs k)) - length (bk_labels sc))%nat
  | None => count_kind KUnexpectedBlock (block_diags unknown s k) = (if unknown then 0 else 1)%nat
  end.
Proof. exact block_diag_counts. Qed.
Print Assumptions C15_block_errors_counted.
