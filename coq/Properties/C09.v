(* C09 - reference targets are exactly the addressable declarations the schema describes
   (partial: the address construction of blocks is modelled and proved; collection as a whole is
   decided on the implementation against generator ground truth). *)
From Coq Require Import String List ZArith Bool.
From HV Require Import Model.Addr Model.Collect Proofs.CollectProofs.
Import ListNotations.

Theorem C09_static_step_contributes_its_name : forall labels attr_val i n rest acc,
  resolve_steps labels attr_val i (AStatic n :: rest) acc = resolve_steps labels attr_val (S i) rest (acc ++ [mk_step i n])%list.
Proof. exact static_step_contributes_its_name. Qed.
Print Assumptions C09_static_step_contributes_its_name.

Theorem C09_label_step_contributes_the_label : forall labels attr_val i idx l rest acc,
  nth_error labels idx = Some l ->
  resolve_steps labels attr_val i (ALabel idx :: rest) acc = resolve_steps labels attr_val (S i) rest (acc ++ [mk_step i l])%list.
Proof. exact label_step_contributes_the_label. Qed.
Print Assumptions C09_label_step_contributes_the_label.

Theorem C09_attr_value_step_contributes_the_value : forall labels attr_val i n o v rest acc,
  attr_val n = AVStr v ->
  resolve_steps labels attr_val i (AAttrValue n o :: rest) acc = resolve_steps labels attr_val (S i) rest (acc ++ [mk_step i v])%list.
Proof. exact attr_value_step_contributes_the_value. Qed.
Print Assumptions C09_attr_value_step_contributes_the_value.

(* the address extends what was resolved so far by at most one step per schema step *)
Theorem C09_address_from_declared_steps : forall labels attr_val steps i acc a,
  resolve_steps labels attr_val i steps acc = Some a ->
  exists suffix, a = (acc ++ suffix)%list /\ (length suffix <= length steps)%nat.
Proof. exact resolve_steps_extends. Qed.
Print Assumptions C09_address_from_declared_steps.

(* a block that lacks a label its address needs is not addressable: no target *)
Theorem C09_missing_label_no_address : forall labels attr_val pre idx rest i acc,
  nth_error labels idx = None ->
  Forall (fun s => match s with AStatic _ => True | _ => False end) pre ->
  resolve_steps labels attr_val i (pre ++ ALabel idx :: rest) acc = None.
Proof. exact missing_label_no_address. Qed.
Print Assumptions C09_missing_label_no_address.
