(* C09 - reference targets are exactly the addressable declarations the schema describes
   (partial: the address construction of blocks and the value-level descent of addressable attributes
   are modelled and proved; block bodies "as data" / inferred bodies are decided on the implementation
   against generator ground truth). *)
From Coq Require Import String List ZArith Bool.
From HV Require Import Base.Pos Model.Addr Model.Schema Model.Ref Model.Collect Model.ValueTargets Proofs.CollectProofs Proofs.ValueTargetsProofs.
Import ListNotations.

Theorem C09_static_step_contributes_its_name : forall labels attr_val i n rest acc,
  resolve_steps labels attr_val i (AStatic n :: rest) acc = resolve_steps labels attr_val (S i) rest (acc ++ [mk_step i n])%list.
Proof. exact static_step_contributes_its_name. Qed.
Print Assumptions C09_static_step_contributes_its_name.

Theorem C09_label_step_contributes_the_label : forall labels attr_val i idx l rest acc,
  nth_error labels idx = Some l ->
  resolve_steps labels attr_val i (ALabel idx :: rest) acc = resolve_steps labels attr_val (S i) rest (acc ++ [mk_step i l])%list.
Proof. exact label_step_contributes_the_label. Qed.
Print Assumptions C09_label_step_contributes_the_label.

Theorem C09_attr_value_step_contributes_the_value : forall labels attr_val i n o v rest acc,
  attr_val n = AVStr v ->
  resolve_steps labels attr_val i (AAttrValue n o :: rest) acc = resolve_steps labels attr_val (S i) rest (acc ++ [mk_step i v])%list.
Proof. exact attr_value_step_contributes_the_value. Qed.
Print Assumptions C09_attr_value_step_contributes_the_value.

(* the address extends what was resolved so far by at most one step per schema step *)
Theorem C09_address_from_declared_steps : forall labels attr_val steps i acc a,
  resolve_steps labels attr_val i steps acc = Some a ->
  exists suffix, a = (acc ++ suffix)%list /\ (length suffix <= length steps)%nat.
Proof. exact resolve_steps_extends. Qed.
Print Assumptions C09_address_from_declared_steps.

(* a block that lacks a label its address needs is not addressable: no target *)
Theorem C09_missing_label_no_address : forall labels attr_val pre idx rest i acc,
  nth_error labels idx = None ->
  Forall (fun s => match s with AStatic _ => True | _ => False end) pre ->
  resolve_steps labels attr_val i (pre ++ ALabel idx :: rest) acc = None.
Proof. exact missing_label_no_address. Qed.
Print Assumptions C09_missing_label_no_address.

(* ---- addressable attributes: the value-level descent (Model/ValueTargets.v) ---- *)

(* Every target collected for an addressable attribute is declared at the attribute's address, inside
   the attribute's range; every nested target, at any depth, is declared exactly one step below its
   parent and inside its parent's range ([good], Proofs/ValueTargetsProofs.v).  Hypotheses: the
   constraint contains no Reference that itself declares a target (see the refutation below); the
   parser's tree nests (children inside parents, a key before its value). *)
Theorem C09_attribute_targets_nest : forall fuel name attr_rng name_rng aa c e ts a,
  no_ref_decl c = true -> wf_expr e -> inside (e_rng e) attr_rng ->
  resolve_attr_addr name (aa_steps aa) = Some a ->
  attr_targets fuel name attr_rng name_rng (Some aa) c e = Some ts ->
  Forall (good a attr_rng) ts.
Proof. exact attr_targets_nest. Qed.
Print Assumptions C09_attribute_targets_nest.

(* nothing is collected for an attribute the schema does not mark addressable *)
Theorem C09_attribute_without_address_declares_nothing : forall fuel name attr_rng name_rng c e ts,
  no_ref_decl c = true -> wf_expr e ->
  attr_targets fuel name attr_rng name_rng None c e = Some ts -> ts = [].
Proof. exact attr_without_address_declares_nothing. Qed.
Print Assumptions C09_attribute_without_address_declares_nothing.

(* list index = source order *)
Theorem C09_list_index_is_source_position : forall n ec c r v elems ts,
  value_targets (S n) (CList (Some ec) 0 0) (Some c) (ETuple r v elems) = Some ts ->
  exists parts,
    ts = whole_coll TList (Some ec) c (ETuple r v elems) (concat parts) /\
    length parts = length elems /\
    forall k x, nth_error elems k = Some x ->
      value_targets n ec (Some (ctx_push (ctx_copy c) (SIdxNum (Z.of_nat k)) None None)) x = Some (nth k parts []).
Proof. exact list_elements_by_position. Qed.
Print Assumptions C09_list_index_is_source_position.

(* map key = written key; the entry's range is key .. value, its definition range the key *)
Theorem C09_map_key_is_written_key : forall n ec c r v items ts,
  value_targets (S n) (CMap (Some ec) "" false 0 0) (Some c) (EObject r v items) = Some ts ->
  exists parts,
    ts = whole_coll TMap (Some ec) c (EObject r v items) (sort_targets (concat parts)) /\
    length parts = length items /\
    forall j i, nth_error items j = Some i ->
      match ti_key i with
      | None => nth j parts [] = []
      | Some k => value_targets n ec (Some (ctx_push (ctx_copy c) (SIdxStr k)
                                            (Some (range_between (ti_krng i) (e_rng (ti_val i)))) (Some (ti_krng i))))
                                (ti_val i) = Some (nth j parts [])
      end.
Proof. exact map_items_by_key. Qed.
Print Assumptions C09_map_key_is_written_key.

(* The nesting rule is FALSE when a Reference constraint that declares a target (Reference.Address)
   sits below an addressable collection: attr = [aws.west, "x"] under
   list(one-of(reference declaring a provider alias, string)) yields the target var.attr with the nested
   target aws.west.  Replayed on the implementation: known finding
   C09/nested-address-not-one-step-below/reference-declaration-inside-addressable-collection. *)
Theorem C09_nesting_refuted_below_reference_declarations :
  exists t n,
    attr_targets 10 "attr" (rz 1 1 0 1 23 22) (rz 1 1 0 1 5 4) (Some witness_addr) witness_cons witness_expr = Some [t] /\
    In n (t_nested t) /\ wf_expr witness_expr /\ ~ (exists s, t_addr n = (t_addr t ++ [s])%list).
Proof. exact nested_reference_declaration_refuted. Qed.
Print Assumptions C09_nesting_refuted_below_reference_declarations.
