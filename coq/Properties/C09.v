From HV Require Import Model.Ref.
Theorem C09_tmp : True. Proof. exact I. Qed.
