(* C09 - reference targets are exactly the addressable declarations the schema describes
   (partial: the address construction of blocks and the value-level descent of addressable attributes
   are modelled and proved; block bodies "as data" / inferred bodies are decided on the implementation
   against generator ground truth). *)
From Coq Require Import String List ZArith Bool.
From HV Require Import Base.Pos Model.Addr Model.Schema Model.Ast Model.Merge Model.Ref Model.Collect Model.ValueTargets Model.TargetsBody Proofs.CollectProofs Proofs.ValueTargetsProofs Proofs.TargetsBodyProofs Proofs.TargetsInferredProofs.
Import ListNotations.

Theorem C09_static_step_contributes_its_name : forall labels attr_val i n rest acc,
  resolve_steps labels attr_val i (AStatic n :: rest) acc = resolve_steps labels attr_val (S i) rest (acc ++ [mk_step i n])%list.
Proof. exact static_step_contributes_its_name. Qed.
Print Assumptions C09_static_step_contributes_its_name.

Theorem C09_label_step_contributes_the_label : forall labels attr_val i idx l rest acc,
  nth_error labels idx = Some l ->
  resolve_steps labels attr_val i (ALabel idx :: rest) acc = resolve_steps labels attr_val (S i) rest (acc ++ [mk_step i l])%list.
Proof. exact label_step_contributes_the_label. Qed.
Print Assumptions C09_label_step_contributes_the_label.

Theorem C09_attr_value_step_contributes_the_value : forall labels attr_val i n o v rest acc,
  attr_val n = AVStr v ->
  resolve_steps labels attr_val i (AAttrValue n o :: rest) acc = resolve_steps labels attr_val (S i) rest (acc ++ [mk_step i v])%list.
Proof. exact attr_value_step_contributes_the_value. Qed.
Print Assumptions C09_attr_value_step_contributes_the_value.

(* the address extends what was resolved so far by at most one step per schema step *)
Theorem C09_address_from_declared_steps : forall labels attr_val steps i acc a,
  resolve_steps labels attr_val i steps acc = Some a ->
  exists suffix, a = (acc ++ suffix)%list /\ (length suffix <= length steps)%nat.
Proof. exact resolve_steps_extends. Qed.
Print Assumptions C09_address_from_declared_steps.

(* a block that lacks a label its address needs is not addressable: no target *)
Theorem C09_missing_label_no_address : forall labels attr_val pre idx rest i acc,
  nth_error labels idx = None ->
  Forall (fun s => match s with AStatic _ => True | _ => False end) pre ->
  resolve_steps labels attr_val i (pre ++ ALabel idx :: rest) acc = None.
Proof. exact missing_label_no_address. Qed.
Print Assumptions C09_missing_label_no_address.

(* ---- addressable attributes: the value-level descent (Model/ValueTargets.v) ---- *)

(* Every target collected for an addressable attribute is declared at the attribute's address, inside
   the attribute's range; every nested target, at any depth, is declared exactly one step below its
   parent and inside its parent's range ([good], Proofs/ValueTargetsProofs.v).  Hypotheses: the
   constraint contains no Reference that itself declares a target (see the refutation below); the
   parser's tree nests (children inside parents, a key before its value). *)
Theorem C09_attribute_targets_nest : forall fuel name attr_rng name_rng aa c e ts a,
  no_ref_decl c = true -> wf_expr e -> inside (e_rng e) attr_rng ->
  resolve_attr_addr name (aa_steps aa) = Some a ->
  attr_targets fuel name attr_rng name_rng (Some aa) c e = Some ts ->
  Forall (good a attr_rng) ts.
Proof. exact attr_targets_nest. Qed.
Print Assumptions C09_attribute_targets_nest.

(* nothing is collected for an attribute the schema does not mark addressable *)
Theorem C09_attribute_without_address_declares_nothing : forall fuel name attr_rng name_rng c e ts,
  no_ref_decl c = true -> wf_expr e ->
  attr_targets fuel name attr_rng name_rng None c e = Some ts -> ts = [].
Proof. exact attr_without_address_declares_nothing. Qed.
Print Assumptions C09_attribute_without_address_declares_nothing.

(* list index = source order *)
Theorem C09_list_index_is_source_position : forall n ec c r v elems ts,
  value_targets (S n) (CList (Some ec) 0 0) (Some c) (ETuple r v elems) = Some ts ->
  exists parts,
    ts = whole_coll TList (Some ec) c (ETuple r v elems) (concat parts) /\
    length parts = length elems /\
    forall k x, nth_error elems k = Some x ->
      value_targets n ec (Some (ctx_push (ctx_copy c) (SIdxNum (Z.of_nat k)) None None)) x = Some (nth k parts []).
Proof. exact list_elements_by_position. Qed.
Print Assumptions C09_list_index_is_source_position.

(* map key = written key; the entry's range is key .. value, its definition range the key *)
Theorem C09_map_key_is_written_key : forall n ec c r v items ts,
  value_targets (S n) (CMap (Some ec) "" false 0 0) (Some c) (EObject r v items) = Some ts ->
  exists parts,
    ts = whole_coll TMap (Some ec) c (EObject r v items) (sort_targets (concat parts)) /\
    length parts = length items /\
    forall j i, nth_error items j = Some i ->
      match ti_key i with
      | None => nth j parts [] = []
      | Some k => value_targets n ec (Some (ctx_push (ctx_copy c) (SIdxStr k)
                                            (Some (range_between (ti_krng i) (e_rng (ti_val i)))) (Some (ti_krng i))))
                                (ti_val i) = Some (nth j parts [])
      end.
Proof. exact map_items_by_key. Qed.
Print Assumptions C09_map_key_is_written_key.

(* The nesting rule is FALSE when a Reference constraint that declares a target (Reference.Address)
   sits below an addressable collection: attr = [aws.west, "x"] under
   list(one-of(reference declaring a provider alias, string)) yields the target var.attr with the nested
   target aws.west.  Replayed on the implementation: known finding
   C09/nested-address-not-one-step-below/reference-declaration-inside-addressable-collection. *)
Theorem C09_nesting_refuted_below_reference_declarations :
  exists t n,
    attr_targets 10 "attr" (rz 1 1 0 1 23 22) (rz 1 1 0 1 5 4) (Some witness_addr) witness_cons witness_expr = Some [t] /\
    In n (t_nested t) /\ wf_expr witness_expr /\ ~ (exists s, t_addr n = (t_addr t ++ [s])%list).
Proof. exact nested_reference_declaration_refuted. Qed.
Print Assumptions C09_nesting_refuted_below_reference_declarations.

(* ---- whole bodies: decodeReferenceTargetsForBody (Model/TargetsBody.v) ---- *)

(* nothing is collected for an attribute unknown to the schema (no count / for_each extension, no
   declared attribute of that name, no any-attribute schema) *)
Theorem C09_unknown_attribute_declares_nothing : forall exprs n bs b a,
  attr_known bs (a_name a) = false -> one_attr exprs n bs b a = Some [].
Proof. exact unknown_attribute_declares_nothing. Qed.
Print Assumptions C09_unknown_attribute_declares_nothing.

(* ... nor for a block of a type unknown to the schema, whatever it contains: removing it from the file
   does not change the result *)
Theorem C09_unknown_block_declares_nothing : forall exprs avals gaps typedecls nfc fuel bs parent attrs pre k post r e,
  alookup (k_type k) (bs_blocks bs) = None ->
  body_targets exprs avals gaps typedecls nfc fuel bs parent (Body attrs (pre ++ k :: post) r e) =
  body_targets exprs avals gaps typedecls nfc fuel bs parent (Body attrs (pre ++ post) r e).
Proof. exact unknown_block_declares_nothing. Qed.
Print Assumptions C09_unknown_block_declares_nothing.

(* everything collected for a body comes from a schema-known attribute, from a schema-known block, or
   is a declaration the body itself stands for (TargetableAs) *)
Theorem C09_body_targets_sound : forall exprs avals gaps typedecls nfc fuel bs parent b ts t,
  body_targets exprs avals gaps typedecls nfc (S fuel) bs parent b = Some (Some ts) -> In t ts ->
  (exists a x, In a (b_attrs b) /\ attr_known bs (a_name a) = true /\ one_attr exprs fuel bs b a = Some x /\ In t x)
  \/ (exists k ks x, In k (b_blocks b) /\ alookup (k_type k) (bs_blocks bs) = Some ks /\
                     block_targets exprs avals gaps typedecls nfc (body_targets exprs avals gaps typedecls nfc fuel) fuel ks k = Some (Some x) /\ In t x)
  \/ (exists s tg, In s (bs_targetable bs) /\ targetable_of_sexp s = Some tg /\ t = targetable_target parent tg).
Proof. exact body_targets_sound. Qed.
Print Assumptions C09_body_targets_sound.

(* what a schema-known block contributes: what its body declares under the merged schema, and the
   targets standing for the block itself (as reference, as type of an attribute, body / dependent body as
   data, unknown nested references), all at its resolved address with the block's extent and header as
   range and definition range *)
Theorem C09_block_target_is_the_block : forall exprs avals gaps typedecls nfc rec n ks k x t,
  block_targets exprs avals gaps typedecls nfc rec n ks k = Some (Some x) -> In t x ->
  (exists inner, rec (fst (merge_block_body_schemas ks k)) (Some (k_rng k, k_def_rng k)) (k_body k) = Some (Some inner) /\ In t inner)
  \/ (exists ba addr own, block_addr_of_sexp (bk_addr ks) = Some (Some ba) /\
                          block_own_targets exprs gaps typedecls nfc n ks ba addr k = Some own /\ In t own /\
                          t_addr t = addr /\ t_rng t = Some (k_rng k) /\ t_def t = Some (k_def_rng k)).
Proof. exact block_targets_in. Qed.
Print Assumptions C09_block_target_is_the_block.

(* ---- blocks whose body is data: the inferred nested targets ---- *)

(* Every target inferred from a data body is declared exactly one step below the block (or below its
   parent element): attribute name, block type, index of a list block among the blocks of its type,
   first label of a map block - at any depth ([deep], Proofs/TargetsInferredProofs.v).  Hypotheses: the
   parser's tree nests, no constraint of the data body declares targets itself. *)
Theorem C09_inferred_targets_one_step_below : forall exprs nfc gaps scope self_refs,
  (forall r e, lookup_rng exprs r = Some e -> wf_expr e /\ inside (e_rng e) r) ->
  forall fuel addr b obs sr sa ts,
  bs_no_ref fuel obs = true ->
  inferred exprs nfc gaps scope self_refs fuel addr b obs sr sa = Some ts ->
  Forall (fun t => exists s, deep (addr ++ [s])%list t) ts.
Proof. exact inferred_one_step_below. Qed.
Print Assumptions C09_inferred_targets_one_step_below.

(* "whose range is that declaration's own extent" is FALSE for the first element of a list (or map) of
   blocks in a data body: it shares its range with the collection, which is extended over the blocks that
   follow.  Replayed on the implementation: known finding
   C09/element-range-not-the-block/.../first-element-widened-over-following-blocks. *)
Theorem C09_first_block_element_range_refuted :
  exists coll e0,
    inferred [] [] [(20, 21)%Z] "" false 5 [SRoot "res"; SAttr "x"] data_body (Some data_body_schema) None [] = Some [coll] /\
    nth_error (t_nested coll) 0 = Some e0 /\
    t_addr e0 = [SRoot "res"; SAttr "x"; SAttr "item"; SIdxNum 0] /\
    t_rng e0 = Some (rb 10 31) /\
    k_rng (item_block 10 20) = rb 10 20.
Proof. exact first_list_element_range_refuted. Qed.
Print Assumptions C09_first_block_element_range_refuted.
