(* C02 - every emitted range is a real, self-consistent place in the right file.
   good_range fname lc r: r names the file, both ends are positions of the scanner table lc of the
   file's content (so 0 <= byte <= len and line/column agree with the byte offset) and start <= end. *)
From Coq Require Import String List ZArith Bool.
From HV Require Import Base.Pos Model.Schema Model.Ast Model.Validate Proofs.ValidateProofs Proofs.RangeProofs Model.Hover Model.BodyQueries Proofs.TokenPlaces Proofs.HoverRanges Proofs.EmittedRanges.

(* the range algebra hcl-lang uses preserves good ranges *)
Theorem C02_range_between_good : forall fname lc a b,
  good_range fname lc a -> good_range fname lc b -> (p_byte (r_start a) <= p_byte (r_end b))%Z ->
  good_range fname lc (range_between a b).
Proof. exact range_between_good. Qed.
Print Assumptions C02_range_between_good.

(* completion edit range of reference / literal-value completion (as repaired): good for every
   cursor position of the file, wherever it lies relative to the expression *)
Theorem C02_edit_range_good : forall fname lc r p,
  good_range fname lc r -> good_pos lc p -> good_range fname lc (edit_range r p).
Proof. exact edit_range_good. Qed.
Print Assumptions C02_edit_range_good.

(* ... while the computation before the fix commit is refuted by any cursor before the expression *)
Theorem C02_edit_range_before_fix_refuted : forall fname lc r p,
  (p_byte p < p_byte (r_start r))%Z -> ~ good_range fname lc (edit_range_prefix r p).
Proof. exact edit_range_prefix_refuted. Qed.
Print Assumptions C02_edit_range_before_fix_refuted.

(* every diagnostic subject is a range of the syntax tree, at any depth: good whenever the
   parser's ranges are (the parser contract is evaluated on every parsed file) *)
Theorem C02_diagnostic_subjects_good : forall fname lc b u s,
  Forall (good_range fname lc) (item_ranges b) ->
  Forall (fun d => good_range fname lc (d_subject d)) (walk_body u s b).
Proof. exact diagnostic_subjects_good. Qed.
Print Assumptions C02_diagnostic_subjects_good.

(* the range of body-level hover data is a range of the syntax tree (an attribute, a type keyword or a label, at any
   depth): good whenever the parser's ranges are *)
Theorem C02_hover_range_good : forall fname lc p b bs c r,
  Forall (good_range fname lc) (hover_item_ranges b) ->
  hover_body p b bs = HHover c r -> good_range fname lc r.
Proof. exact hover_range_good. Qed.
Print Assumptions C02_hover_range_good.

(* every body-level semantic token sits on a name, type keyword or label of the syntax tree, at any depth: good whenever
   the parser's ranges are *)
Theorem C02_token_ranges_good : forall fname lc b bs mods,
  Forall (good_range fname lc) (places b) ->
  Forall (fun t => good_range fname lc (st_rng t)) (tokens_body bs mods b).
Proof. exact token_ranges_good. Qed.
Print Assumptions C02_token_ranges_good.
