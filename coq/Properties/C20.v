(* C20 - signature help names the innermost enclosing call and the argument being typed.
   Model: Model/Signature.v (SignatureAtPos: pre-order visit of the call nodes, argument scan,
   recovery of a trailing comma, clamp to the variadic parameter), compared with
   PathDecoder.SignatureAtPos at every byte offset of generated files on every run. *)
From Coq Require Import String List ZArith Bool.
From HV Require Import Base.Pos Model.Schema Model.Signature Proofs.SignatureProofs Proofs.SignatureClamp.

(* every returned signature belongs to a call of a known function whose range contains the cursor;
   its parameter list is the function's fixed parameters followed by the variadic one and the
   active parameter is a valid index *)
Theorem C20_signature_well_formed : forall funcs file calls p s,
  signature_at_pos funcs file calls p = Some s ->
  exists c f, In c calls /\ alookup (cl_name c) funcs = Some f /\ sig_valid f s /\ contains_pos (cl_rng c) p = true.
Proof. exact signature_valid. Qed.
Print Assumptions C20_signature_well_formed.

(* the active parameter is clamped: within the fixed parameters, or the variadic one; with more
   arguments than parameters and no variadic parameter no signature comes from that call *)
Theorem C20_active_parameter_clamped : forall plen act v a,
  (0 <= act)%Z -> (0 < plen)%Z -> clamp_active plen act v = Some a -> (0 <= a < plen)%Z.
Proof. exact clamp_active_valid. Qed.
Print Assumptions C20_active_parameter_clamped.

(* the last visited call that has an effect decides: it is the signature of the innermost known
   call around the cursor (the visit is pre-order), and an innermost call with too many arguments
   clears the signature of the enclosing calls *)
Theorem C20_innermost_call_decides : forall funcs file p before c after,
  call_effect funcs file p c <> NoEffect ->
  Forall (fun c' => call_effect funcs file p c' = NoEffect) after ->
  signature_at_pos funcs file (before ++ c :: after) p =
  match call_effect funcs file p c with Set_ s => Some s | _ => None end.
Proof. exact last_effective_call_decides. Qed.
Print Assumptions C20_innermost_call_decides.

(* the clamp, case by case: within the fixed parameters the active parameter is the argument's own index; beyond them it
   is the variadic parameter (the last of the list); with more arguments than parameters and no variadic one there is
   no signature *)
Theorem C20_active_parameter_is_the_argument_index : forall plen act v,
  (act < plen)%Z -> clamp_active plen act v = Some act.
Proof. exact clamp_within. Qed.
Print Assumptions C20_active_parameter_is_the_argument_index.

Theorem C20_surplus_arguments_go_to_the_variadic_parameter : forall plen act,
  (plen <= act)%Z -> clamp_active plen act true = Some (plen - 1)%Z.
Proof. exact clamp_variadic. Qed.
Print Assumptions C20_surplus_arguments_go_to_the_variadic_parameter.

Theorem C20_surplus_arguments_without_variadic_give_no_signature : forall plen act,
  (plen <= act)%Z -> clamp_active plen act false = None.
Proof. exact clamp_surplus. Qed.
Print Assumptions C20_surplus_arguments_without_variadic_give_no_signature.
