From Coq Require Import ExtrOcamlBasic.
From HV Require Import Model.Run.
Extraction Language OCaml.
Extraction "model.ml" run_line.
