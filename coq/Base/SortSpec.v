(* What Go's sort package guarantees, as used by the model.
   sort.SliceStable / sort.Stable: the result is the stable sort of the input, which is a
   function of the input list (stable_sort below computes it).
   sort.Sort / sort.Slice / sort.Strings: only "a permutation of the input which is ordered
   by less" may be assumed (is_sort); equal elements may come out in any order. *)
From Coq Require Import List Permutation Sorted Bool.
Import ListNotations.

Section Sort.
  Context {A : Type} (ltb : A -> A -> bool).

  Fixpoint insert_front (x : A) (l : list A) : list A :=
    match l with
    | [] => [x]
    | y :: r => if ltb y x then y :: insert_front x r else x :: y :: r
    end.

  (* folding from the right and inserting in front of the first element that is not
     smaller keeps equal elements in input order: this is the stable sort *)
  Fixpoint stable_sort (l : list A) : list A :=
    match l with
    | [] => []
    | x :: r => insert_front x (stable_sort r)
    end.

  Definition le (a b : A) : Prop := ltb b a = false.

  Definition is_sort (l l' : list A) : Prop := Permutation l l' /\ StronglySorted le l'.

  Lemma insert_front_perm x l : Permutation (x :: l) (insert_front x l).
  Proof.
    induction l as [|y r IH]; simpl; [apply Permutation_refl|].
    destruct (ltb y x); [|apply Permutation_refl].
    eapply perm_trans; [apply perm_swap|]. now apply perm_skip.
  Qed.

  Lemma stable_sort_perm l : Permutation l (stable_sort l).
  Proof.
    induction l as [|x r IH]; simpl; [constructor|].
    eapply perm_trans; [apply perm_skip, IH|apply insert_front_perm].
  Qed.

  Hypothesis asym : forall a b, ltb a b = true -> ltb b a = false.
  Hypothesis le_trans : forall a b c, le a b -> le b c -> le a c.

  Lemma insert_front_sorted x l : StronglySorted le l -> StronglySorted le (insert_front x l).
  Proof.
    induction l as [|y r IH]; simpl; intros Hs; [repeat constructor|].
    inversion Hs as [|? ? Hr Hall]; subst.
    destruct (ltb y x) eqn:E.
    - constructor; [auto|].
      assert (Hyx : le y x) by (apply asym; exact E).
      rewrite Forall_forall in *. intros z Hz.
      apply (Permutation_in _ (Permutation_sym (insert_front_perm x r))) in Hz.
      destruct Hz as [<-|Hz]; auto.
    - constructor; [exact Hs|]. constructor; [exact E|].
      rewrite Forall_forall in *. intros z Hz. eapply le_trans; [exact E|auto].
  Qed.

  Lemma stable_sort_sorted l : StronglySorted le (stable_sort l).
  Proof. induction l; simpl; [constructor|now apply insert_front_sorted]. Qed.

  Lemma stable_sort_is_sort l : is_sort l (stable_sort l).
  Proof. split; [apply stable_sort_perm|apply stable_sort_sorted]. Qed.

  (* No ties => any two sorted permutations coincide (so every Go sort gives this result). *)
  Lemma sorted_unique (l1 : list A) : forall l2,
    (forall a b, In a l1 -> In b l1 -> a = b \/ ltb a b = true \/ ltb b a = true) ->
    StronglySorted le l1 -> StronglySorted le l2 -> Permutation l1 l2 -> l1 = l2.
  Proof.
    induction l1 as [|x r1 IH]; intros l2 Hcmp H1 H2 Hp.
    - now apply Permutation_nil in Hp.
    - destruct l2 as [|y r2]; [apply Permutation_sym, Permutation_nil in Hp; discriminate|].
      inversion H1 as [|? ? Hs1 Ha1]; inversion H2 as [|? ? Hs2 Ha2]; subst.
      rewrite Forall_forall in Ha1, Ha2.
      assert (Hy : In y (x :: r1)) by (eapply Permutation_in; [apply Permutation_sym, Hp|left; reflexivity]).
      assert (Hx : In x (y :: r2)) by (eapply Permutation_in; [apply Hp|left; reflexivity]).
      assert (x = y) as ->.
      { destruct (Hcmp x y (or_introl eq_refl) Hy) as [E|[E|E]]; [exact E| |].
        - destruct Hx as [Hx|Hx]; [now symmetry|]. apply Ha2 in Hx. unfold le in Hx. congruence.
        - destruct Hy as [Hy|Hy]; [exact Hy|]. apply Ha1 in Hy. unfold le in Hy. congruence. }
      f_equal. apply IH; auto.
      + intros a b Ha Hb. apply Hcmp; now right.
      + eapply Permutation_cons_inv; exact Hp.
  Qed.

  Theorem stable_sort_perm_invariant l l' :
    (forall a b, In a l -> In b l -> a = b \/ ltb a b = true \/ ltb b a = true) ->
    Permutation l l' -> stable_sort l = stable_sort l'.
  Proof.
    intros Hcmp Hp. apply sorted_unique; try apply stable_sort_sorted.
    - intros a b Ha Hb.
      apply Hcmp; (eapply Permutation_in; [apply Permutation_sym, stable_sort_perm|assumption]).
    - eapply perm_trans; [apply Permutation_sym, stable_sort_perm|].
      eapply perm_trans; [exact Hp|apply stable_sort_perm].
  Qed.

  (* ... and any Go sort (stable or not) of a tie-free list is that same list *)
  Theorem any_sort_unique l l1 l2 :
    (forall a b, In a l -> In b l -> a = b \/ ltb a b = true \/ ltb b a = true) ->
    is_sort l l1 -> is_sort l l2 -> l1 = l2.
  Proof.
    intros Hcmp [P1 S1] [P2 S2]. apply sorted_unique; auto.
    - intros a b Ha Hb.
      apply Hcmp; (eapply Permutation_in; [apply Permutation_sym, P1|assumption]).
    - eapply perm_trans; [apply Permutation_sym, P1|exact P2].
  Qed.
End Sort.

(* sorting commutes with a key projection that the comparator factors through *)
Section MapSort.
  Context {A B : Type} (ltbA : A -> A -> bool) (ltbB : B -> B -> bool) (g : A -> B).
  Hypothesis factor : forall a b, ltbA a b = ltbB (g a) (g b).

  Lemma map_insert_front x l : map g (insert_front ltbA x l) = insert_front ltbB (g x) (map g l).
  Proof.
    induction l as [|y r IH]; simpl; [reflexivity|].
    rewrite factor. destruct (ltbB (g y) (g x)); simpl; [now rewrite IH|reflexivity].
  Qed.

  Lemma map_stable_sort l : map g (stable_sort ltbA l) = stable_sort ltbB (map g l).
  Proof. induction l as [|x r IH]; simpl; [reflexivity|]. now rewrite map_insert_front, IH. Qed.
End MapSort.
