(* S-expressions: the interchange format between the Go harness and the model.
   The reader is a total Gallina function so that the kernel's vm_compute and the
   extracted OCaml runner evaluate exactly the same code on the same bytes. *)
From Coq Require Import String Ascii List ZArith Bool.
Import ListNotations.
Open Scope string_scope.

Inductive sexp :=
| SAtom (s : string)
| SStr (s : string)
| SList (l : list sexp).

Fixpoint string_of_rev (l : list ascii) (acc : string) : string :=
  match l with [] => acc | c :: r => string_of_rev r (String c acc) end.

Inductive pmode :=
| MNone | MAtom (acc : list ascii) | MStr (acc : list ascii) | MEsc (acc : list ascii)
| MHex1 (acc : list ascii) | MHex2 (acc : list ascii) (c : ascii).

Record pst := { stack : list (list sexp); top : list sexp; mode : pmode; bad : bool }.

Definition hexval (c : ascii) : N :=
  let n := N_of_ascii c in
  if andb (N.leb 48 n) (N.leb n 57) then n - 48
  else if andb (N.leb 97 n) (N.leb n 102) then n - 87
  else if andb (N.leb 65 n) (N.leb n 70) then n - 55 else 0.

Definition is_space (c : ascii) : bool :=
  let n := N_of_ascii c in orb (N.eqb n 32) (orb (N.eqb n 10) (orb (N.eqb n 9) (N.eqb n 13))).

Definition emit (s : pst) (x : sexp) : pst :=
  {| stack := stack s; top := x :: top s; mode := MNone; bad := bad s |}.

Definition step_none (s : pst) (c : ascii) : pst :=
  if Ascii.eqb c "("%char then {| stack := top s :: stack s; top := []; mode := MNone; bad := bad s |}
  else if Ascii.eqb c ")"%char then
    match stack s with
    | [] => {| stack := []; top := top s; mode := MNone; bad := true |}
    | t :: st => {| stack := st; top := SList (rev (top s)) :: t; mode := MNone; bad := bad s |}
    end
  else if is_space c then s
  else if Ascii.eqb c """"%char then {| stack := stack s; top := top s; mode := MStr []; bad := bad s |}
  else {| stack := stack s; top := top s; mode := MAtom [c]; bad := bad s |}.

Definition set_mode (s : pst) (m : pmode) : pst :=
  {| stack := stack s; top := top s; mode := m; bad := bad s |}.

Definition pstep (s : pst) (c : ascii) : pst :=
  match mode s with
  | MNone => step_none s c
  | MAtom acc =>
      if orb (is_space c) (orb (Ascii.eqb c "("%char) (Ascii.eqb c ")"%char))
      then step_none (emit s (SAtom (string_of_rev acc ""))) c
      else set_mode s (MAtom (c :: acc))
  | MStr acc =>
      if Ascii.eqb c """"%char then emit s (SStr (string_of_rev acc ""))
      else if Ascii.eqb c "\"%char then set_mode s (MEsc acc)
      else set_mode s (MStr (c :: acc))
  | MEsc acc =>
      if Ascii.eqb c "x"%char then set_mode s (MHex1 acc) else set_mode s (MStr (c :: acc))
  | MHex1 acc => set_mode s (MHex2 acc c)
  | MHex2 acc c1 => set_mode s (MStr (ascii_of_N (hexval c1 * 16 + hexval c) :: acc))
  end.

Fixpoint pfold (s : pst) (str : string) : pst :=
  match str with EmptyString => s | String c r => pfold (pstep s c) r end.

(* All top-level s-expressions of a text; None on unbalanced input. *)
Definition parse_all (str : string) : option (list sexp) :=
  let s := pfold {| stack := []; top := []; mode := MNone; bad := false |} (str ++ " ") in
  if bad s then None else
  match stack s, mode s with
  | [], MNone => Some (rev (top s))
  | _, _ => None
  end.

Definition parse_one (str : string) : option sexp :=
  match parse_all str with Some [x] => Some x | _ => None end.

(* Printer (canonical; used to compare model output with observed output). *)
Definition hexdigit (n : N) : ascii :=
  if N.ltb n 10 then ascii_of_N (48 + n) else ascii_of_N (87 + n).

Fixpoint escape (s : string) : string :=
  match s with
  | EmptyString => EmptyString
  | String c r =>
      let n := N_of_ascii c in
      if orb (N.ltb n 32) (orb (N.leb 127 n) (orb (N.eqb n 34) (N.eqb n 92)))
      then String "\"%char (String "x"%char (String (hexdigit (N.div n 16)) (String (hexdigit (N.modulo n 16)) (escape r))))
      else String c (escape r)
  end.

Section Show.
  Variable show : sexp -> string.
  Fixpoint show_list (l : list sexp) : string :=
    match l with
    | [] => ""
    | [x] => show x
    | x :: r => show x ++ " " ++ show_list r
    end.
End Show.

Fixpoint show (x : sexp) : string :=
  match x with
  | SAtom s => s
  | SStr s => """" ++ escape s ++ """"
  | SList l => "(" ++ show_list show l ++ ")"
  end.

Section Eqb.
  Variable eqb : sexp -> sexp -> bool.
  Fixpoint list_eqb (a b : list sexp) : bool :=
    match a, b with
    | [], [] => true
    | x :: a', y :: b' => andb (eqb x y) (list_eqb a' b')
    | _, _ => false
    end.
End Eqb.

Fixpoint sexp_eqb (a b : sexp) : bool :=
  match a, b with
  | SAtom s, SAtom t => String.eqb s t
  | SStr s, SStr t => String.eqb s t
  | SList l, SList m => list_eqb sexp_eqb l m
  | _, _ => false
  end.

(* Integers *)
Fixpoint digits_to_Z (s : string) (acc : Z) : option Z :=
  match s with
  | EmptyString => Some acc
  | String c r =>
      let n := N_of_ascii c in
      if andb (N.leb 48 n) (N.leb n 57) then digits_to_Z r (acc * 10 + Z.of_N (n - 48))%Z else None
  end.

Definition Z_of_string (s : string) : option Z :=
  match s with
  | EmptyString => None
  | String c r =>
      if Ascii.eqb c "-"%char then
        match r with EmptyString => None | _ => option_map Z.opp (digits_to_Z r 0%Z) end
      else digits_to_Z s 0%Z
  end.

Fixpoint pos_digits (fuel : nat) (p : positive) (acc : string) : string :=
  match fuel with
  | O => acc
  | S f =>
      let q := Z.div (Zpos p) 10 in
      let d := Z.modulo (Zpos p) 10 in
      let acc' := String (ascii_of_N (48 + Z.to_N d)) acc in
      match q with Zpos p' => pos_digits f p' acc' | _ => acc' end
  end.

Definition string_of_Z (z : Z) : string :=
  match z with
  | Z0 => "0"
  | Zpos p => pos_digits (S (Pos.size_nat p)) p ""
  | Zneg p => "-" ++ pos_digits (S (Pos.size_nat p)) p ""
  end.

Definition sZ (z : Z) : sexp := SAtom (string_of_Z z).
Definition sN (n : nat) : sexp := SAtom (string_of_Z (Z.of_nat n)).
Definition sB (b : bool) : sexp := SAtom (if b then "t" else "f").

Definition as_Z (x : sexp) : option Z := match x with SAtom s => Z_of_string s | _ => None end.
Definition as_str (x : sexp) : option string := match x with SStr s => Some s | _ => None end.
Definition as_bool (x : sexp) : option bool :=
  match x with SAtom s => if String.eqb s "t" then Some true else if String.eqb s "f" then Some false else None | _ => None end.
Definition as_list (x : sexp) : option (list sexp) := match x with SList l => Some l | _ => None end.

Fixpoint map_opt {A B} (f : A -> option B) (l : list A) : option (list B) :=
  match l with
  | [] => Some []
  | x :: r => match f x, map_opt f r with Some y, Some ys => Some (y :: ys) | _, _ => None end
  end.

(* tagged list: (tag a b c) *)
Definition tagged (x : sexp) : option (string * list sexp) :=
  match x with SList (SAtom t :: args) => Some (t, args) | _ => None end.

Definition opt_bind {A B} (o : option A) (f : A -> option B) : option B :=
  match o with Some a => f a | None => None end.
Notation "'do' x <- o ; k" := (opt_bind o (fun x => k)) (at level 200, x pattern, o at level 100, k at level 200).

Goal parse_one "(a ""b\x41\\c"" (1 -2) ())" = Some (SList [SAtom "a"; SStr "bA\c"; SList [SAtom "1"; SAtom "-2"]; SList []]).
Proof. vm_compute. reflexivity. Qed.
Goal show (SList [SAtom "a"; SStr "b""c"; SList []]) = "(a ""b\x22c"" ())". Proof. vm_compute. reflexivity. Qed.
Goal string_of_Z 1200 = "1200" /\ string_of_Z (-7) = "-7" /\ Z_of_string "-120" = Some (-120)%Z.
Proof. vm_compute. auto. Qed.
