(* Lexicographic products of total comparisons. *)
From Coq Require Import String ZArith List Lia.
From HV Require Import Base.Str.

Definition lexc (c1 c2 : comparison) : comparison := match c1 with Eq => c2 | _ => c1 end.

Record proper {A} (c : A -> A -> comparison) : Prop := {
  p_eq : forall a b, c a b = Eq <-> a = b;
  p_anti : forall a b, c b a = CompOpp (c a b);
  p_trans : forall a b d, c a b = Lt -> c b d = Lt -> c a d = Lt }.

Lemma proper_string : proper String.compare.
Proof.
  split.
  - apply compare_eq.
  - intros a b. apply String.compare_antisym.
  - intros a b d. apply compare_lt_trans.
Qed.

Lemma proper_Z : proper Z.compare.
Proof.
  split.
  - intros a b. apply Z.compare_eq_iff.
  - intros a b. apply Z.compare_antisym.
  - intros a b d. rewrite !Z.compare_lt_iff. lia.
Qed.

Definition pair_cmp {A B} (ca : A -> A -> comparison) (cb : B -> B -> comparison) (x y : A * B) : comparison :=
  lexc (ca (fst x) (fst y)) (cb (snd x) (snd y)).

Lemma proper_pair {A B} (ca : A -> A -> comparison) (cb : B -> B -> comparison) :
  proper ca -> proper cb -> proper (pair_cmp ca cb).
Proof.
  intros [ea aa ta] [eb ab tb]. split.
  - intros [a1 b1] [a2 b2]. unfold pair_cmp, lexc; simpl. split.
    + destruct (ca a1 a2) eqn:E; try discriminate. intros H. apply ea in E. apply eb in H. congruence.
    + intros H. inversion H; subst. rewrite (proj2 (ea a2 a2) eq_refl). now apply eb.
  - intros [a1 b1] [a2 b2]. unfold pair_cmp, lexc; simpl. rewrite aa.
    destruct (ca a1 a2); simpl; auto.
  - intros [a1 b1] [a2 b2] [a3 b3]. unfold pair_cmp, lexc; simpl.
    destruct (ca a1 a2) eqn:E1; try discriminate.
    + apply ea in E1; subst a2. destruct (ca a1 a3) eqn:E2; try discriminate; auto. apply tb.
    + intros _. destruct (ca a2 a3) eqn:E2; try discriminate.
      * apply ea in E2; subst a3. rewrite E1. auto.
      * intros _. rewrite (ta _ _ _ E1 E2). reflexivity.
Qed.

Definition opt_cmp {A} (c : A -> A -> comparison) (x y : option A) : comparison :=
  match x, y with
  | None, None => Eq
  | None, Some _ => Lt
  | Some _, None => Gt
  | Some a, Some b => c a b
  end.

Lemma proper_opt {A} (c : A -> A -> comparison) : proper c -> proper (opt_cmp c).
Proof.
  intros [e a t]. split.
  - intros [x|] [y|]; simpl; split; try discriminate; try reflexivity.
    + intros H. apply e in H. congruence.
    + intros H. inversion H. now apply e.
  - intros [x|] [y|]; simpl; auto.
  - intros [x|] [y|] [z|]; simpl; try discriminate; auto. apply t.
Qed.

(* the boolean "less" of a proper comparison is a strict total order *)
Section Less.
  Context {A} (c : A -> A -> comparison) (P : proper c).
  Definition ltb_of (a b : A) : bool := match c a b with Lt => true | _ => false end.

  Lemma ltb_of_asym a b : ltb_of a b = true -> ltb_of b a = false.
  Proof. unfold ltb_of. rewrite (p_anti c P a b). destruct (c a b); simpl; congruence. Qed.

  Lemma ltb_of_total a b : a = b \/ ltb_of a b = true \/ ltb_of b a = true.
  Proof.
    unfold ltb_of. rewrite (p_anti c P a b). destruct (c a b) eqn:E; simpl; auto.
    left. now apply (p_eq c P).
  Qed.

  Lemma ltb_of_trans a b d : ltb_of a b = true -> ltb_of b d = true -> ltb_of a d = true.
  Proof.
    unfold ltb_of. destruct (c a b) eqn:E1; try discriminate. destruct (c b d) eqn:E2; try discriminate.
    intros _ _. now rewrite (p_trans c P _ _ _ E1 E2).
  Qed.

  Lemma ltb_of_le_trans a b d : ltb_of b a = false -> ltb_of d b = false -> ltb_of d a = false.
  Proof.
    intros H1 H2. destruct (ltb_of d a) eqn:E; [|reflexivity]. exfalso.
    destruct (ltb_of_total b a) as [->|[H|H]]; [congruence|congruence|].
    pose proof (ltb_of_trans _ _ _ E H). congruence.
  Qed.
End Less.
