(* Byte-string facts used by the model: Go's string order is bytewise = String.compare. *)
From Coq Require Import String Ascii List ZArith Bool Lia.
Import ListNotations.
Open Scope string_scope.

Definition slt (a b : string) : Prop := String.compare a b = Lt.

Lemma ascii_compare_refl a : Ascii.compare a a = Eq.
Proof. unfold Ascii.compare. apply N.compare_refl. Qed.

Lemma compare_refl s : String.compare s s = Eq.
Proof. induction s as [|c s IH]; simpl; [reflexivity|]. rewrite ascii_compare_refl. exact IH. Qed.

Lemma compare_eq s t : String.compare s t = Eq <-> s = t.
Proof. split; [apply String.compare_eq_iff|intros ->; apply compare_refl]. Qed.

Lemma ascii_compare_lt_trans a b c :
  Ascii.compare a b = Lt -> Ascii.compare b c = Lt -> Ascii.compare a c = Lt.
Proof. unfold Ascii.compare. rewrite !N.compare_lt_iff. lia. Qed.

Lemma compare_lt_trans s : forall t u,
  String.compare s t = Lt -> String.compare t u = Lt -> String.compare s u = Lt.
Proof.
  induction s as [|a s IH]; intros [|b t] [|c u]; simpl; try congruence.
  destruct (Ascii.compare a b) eqn:Hab; try discriminate.
  - apply Ascii.compare_eq_iff in Hab; subst b.
    destruct (Ascii.compare a c) eqn:Hac; try congruence. intros H1 H2. eapply IH; eauto.
  - intros _. destruct (Ascii.compare b c) eqn:Hbc; try discriminate.
    + apply Ascii.compare_eq_iff in Hbc; subst c. rewrite Hab. reflexivity.
    + intros _. rewrite (ascii_compare_lt_trans _ _ _ Hab Hbc). reflexivity.
Qed.

Lemma slt_irrefl s : ~ slt s s.
Proof. unfold slt. rewrite compare_refl. discriminate. Qed.

Lemma slt_trans s t u : slt s t -> slt t u -> slt s u.
Proof. apply compare_lt_trans. Qed.

Lemma slt_total s t : slt s t \/ s = t \/ slt t s.
Proof.
  unfold slt. destruct (String.compare s t) eqn:H.
  - right; left. now apply compare_eq.
  - now left.
  - right; right. rewrite String.compare_antisym, H. reflexivity.
Qed.

Lemma ltb_slt s t : String.ltb s t = true <-> slt s t.
Proof. unfold String.ltb, slt. destruct (String.compare s t); split; congruence. Qed.

Lemma append_nil_r s : s ++ "" = s.
Proof. induction s; simpl; congruence. Qed.

Lemma append_assoc (a b c : string) : (a ++ b) ++ c = a ++ (b ++ c).
Proof. induction a; simpl; congruence. Qed.

Lemma append_inj_l (a : string) : forall b c, a ++ b = a ++ c -> b = c.
Proof. induction a; simpl; intros; [assumption|]. inversion H. auto. Qed.

Lemma length_append (a b : string) : String.length (a ++ b) = String.length a + String.length b.
Proof. induction a; simpl; auto. Qed.

Definition join (sep : string) (l : list string) : string := String.concat sep l.
