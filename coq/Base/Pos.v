(* hcl.Pos / hcl.Range and the operations hcl-lang uses on them. *)
From Coq Require Import String List ZArith Bool Lia.
From HV Require Import Base.Sexp.
Import ListNotations.
Open Scope Z_scope.

Record pos := { p_line : Z; p_col : Z; p_byte : Z }.
Record range := { r_file : string; r_start : pos; r_end : pos }.

Definition pos_eqb (a b : pos) : bool :=
  Z.eqb (p_line a) (p_line b) && Z.eqb (p_col a) (p_col b) && Z.eqb (p_byte a) (p_byte b).

Definition range_eqb (a b : range) : bool :=
  String.eqb (r_file a) (r_file b) && pos_eqb (r_start a) (r_start b) && pos_eqb (r_end a) (r_end b).

(* hcl.Range.ContainsPos -> ContainsOffset on bytes, half open *)
Definition contains_offset (r : range) (o : Z) : bool :=
  Z.leb (p_byte (r_start r)) o && Z.ltb o (p_byte (r_end r)).
Definition contains_pos (r : range) (p : pos) : bool := contains_offset r (p_byte p).

Definition range_empty (r : range) : bool :=
  Z.eqb (p_line (r_start r)) (p_line (r_end r)) && Z.eqb (p_col (r_start r)) (p_col (r_end r)).

(* hcl.RangeBetween: start of the first, end of the second (no min/max) *)
Definition range_between (a b : range) : range :=
  {| r_file := r_file a; r_start := r_start a; r_end := r_end b |}.

Definition with_end (r : range) (p : pos) : range := {| r_file := r_file r; r_start := r_start r; r_end := p |}.
Definition with_start (r : range) (p : pos) : range := {| r_file := r_file r; r_start := p; r_end := r_end r |}.
Definition empty_range_at (f : string) (p : pos) : range := {| r_file := f; r_start := p; r_end := p |}.

(* reference.rangeOverlaps *)
Definition range_overlaps (one other : range) : bool :=
  if negb (String.eqb (r_file one) (r_file other)) then false
  else if range_empty one && range_empty other then false
  else if contains_offset one (p_byte (r_start other)) || contains_offset one (p_byte (r_end other)) then true
  else if contains_offset other (p_byte (r_start one)) || contains_offset other (p_byte (r_end one)) then true
  else false.

(* ---- what "a real, self-consistent place in the file" means (C02) ----
   lc is the scanner table of the file: the (line, column) HCL's scanner assigns to a byte
   offset, None for offsets that are not character boundaries or lie outside the file. *)
Section Good.
  Variable fname : string.
  Variable lc : Z -> option (Z * Z).

  Definition good_pos (p : pos) : Prop := lc (p_byte p) = Some (p_line p, p_col p).
  Definition good_range (r : range) : Prop :=
    r_file r = fname /\ good_pos (r_start r) /\ good_pos (r_end r) /\ p_byte (r_start r) <= p_byte (r_end r).

  Lemma range_between_good a b :
    good_range a -> good_range b -> p_byte (r_start a) <= p_byte (r_end b) -> good_range (range_between a b).
  Proof. intros (Fa & Sa & _ & _) (_ & _ & Eb & _) H. unfold good_range, range_between; simpl. auto. Qed.

  Lemma with_end_good r p :
    good_range r -> good_pos p -> p_byte (r_start r) <= p_byte p -> good_range (with_end r p).
  Proof. intros (F & S & _ & _) Hp H. unfold good_range, with_end; simpl. auto. Qed.

  Lemma empty_range_good p : good_pos p -> good_range (empty_range_at fname p).
  Proof. intros Hp. unfold good_range, empty_range_at; simpl. repeat split; auto. lia. Qed.

  (* The edit range of reference / literal-value completion (decoder/expr_reference_completion.go,
     decoder/expr_literal_value_completion.go) as repaired by the fix commit:
       editRng := expr.Range(); if !editRng.ContainsPos(pos) { editRng.End = pos }
       if editRng.Start.Byte > pos.Byte { editRng.Start = pos }                                *)
  Definition edit_range (r : range) (p : pos) : range :=
    let r1 := if contains_pos r p then r else with_end r p in
    if Z.ltb (p_byte p) (p_byte (r_start r1)) then with_start r1 p else r1.

  (* ... and as it was before the fix (kept to state what the defect was) *)
  Definition edit_range_prefix (r : range) (p : pos) : range :=
    if contains_pos r p then r else with_end r p.

  Lemma edit_range_good r p : good_range r -> good_pos p -> good_range (edit_range r p).
  Proof.
    intros (F & S & E & L) Hp. unfold edit_range, contains_pos, contains_offset.
    destruct (Z.leb (p_byte (r_start r)) (p_byte p)) eqn:H1; simpl.
    - apply Z.leb_le in H1.
      destruct (Z.ltb (p_byte p) (p_byte (r_end r))) eqn:H2; simpl.
      + assert (Z.ltb (p_byte p) (p_byte (r_start r)) = false) as -> by (apply Z.ltb_ge; lia).
        repeat split; auto.
      + assert (Z.ltb (p_byte p) (p_byte (r_start r)) = false) as -> by (apply Z.ltb_ge; lia).
        repeat split; auto.
    - apply Z.leb_gt in H1.
      assert (Z.ltb (p_byte p) (p_byte (r_start r)) = true) as -> by (apply Z.ltb_lt; lia).
      repeat split; simpl; auto. lia.
  Qed.

  Lemma edit_range_reaches_cursor r p : good_range r -> good_pos p ->
    p_byte (r_start (edit_range r p)) <= p_byte p <= p_byte (r_end (edit_range r p)).
  Proof.
    intros (F & S & E & L) Hp. unfold edit_range, contains_pos, contains_offset.
    destruct (Z.leb (p_byte (r_start r)) (p_byte p)) eqn:H1; simpl.
    - apply Z.leb_le in H1.
      destruct (Z.ltb (p_byte p) (p_byte (r_end r))) eqn:H2; simpl.
      + assert (Z.ltb (p_byte p) (p_byte (r_start r)) = false) as -> by (apply Z.ltb_ge; lia).
        apply Z.ltb_lt in H2. lia.
      + assert (Z.ltb (p_byte p) (p_byte (r_start r)) = false) as -> by (apply Z.ltb_ge; lia).
        simpl. lia.
    - apply Z.leb_gt in H1.
      assert (Z.ltb (p_byte p) (p_byte (r_start r)) = true) as -> by (apply Z.ltb_lt; lia).
      simpl. lia.
  Qed.

  (* the pre-fix computation is refuted by any cursor before the expression *)
  Lemma edit_range_prefix_refuted r p :
    p_byte p < p_byte (r_start r) -> ~ good_range (edit_range_prefix r p).
  Proof.
    intros H (_ & _ & _ & L). unfold edit_range_prefix, contains_pos, contains_offset in L.
    assert (Z.leb (p_byte (r_start r)) (p_byte p) = false) as E by (apply Z.leb_gt; lia).
    rewrite E in L. simpl in L. lia.
  Qed.
End Good.

(* ---- reader / printer ---- *)
Definition pos_of_sexp (x : sexp) : option pos :=
  match x with
  | SList [l; c; b] =>
      match as_Z l, as_Z c, as_Z b with
      | Some l, Some c, Some b => Some {| p_line := l; p_col := c; p_byte := b |}
      | _, _, _ => None
      end
  | _ => None
  end.

(* (rng "file" l c b l c b) *)
Definition range_of_sexp (x : sexp) : option range :=
  match x with
  | SList [SAtom _; SStr f; l1; c1; b1; l2; c2; b2] =>
      match pos_of_sexp (SList [l1; c1; b1]), pos_of_sexp (SList [l2; c2; b2]) with
      | Some s, Some e => Some {| r_file := f; r_start := s; r_end := e |}
      | _, _ => None
      end
  | _ => None
  end.

Definition sexp_of_range (r : range) : sexp :=
  SList [SAtom "rng"; SStr (r_file r); sZ (p_line (r_start r)); sZ (p_col (r_start r)); sZ (p_byte (r_start r));
         sZ (p_line (r_end r)); sZ (p_col (r_end r)); sZ (p_byte (r_end r))].
