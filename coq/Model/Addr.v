(* lang.Address and its String() rendering (lang/address_steps.go). *)
From Coq Require Import String Ascii List ZArith Bool.
From HV Require Import Base.Sexp Base.Str.
Import ListNotations.
Open Scope string_scope.

Inductive step :=
| SRoot (n : string)          (* RootStep *)
| SAttr (n : string)          (* AttrStep *)
| SIdxNum (z : Z)             (* IndexStep with a number key; z = Int64 of the big float *)
| SIdxStr (s : string)        (* IndexStep with a string key *)
| SIdxBad.                    (* IndexStep with any other key type *)

Definition address := list step.

Definition hex2 (n : N) : string := String (hexdigit (N.div n 16)) (String (hexdigit (N.modulo n 16)) "").

(* strconv.Quote, exact for bytes < 0x80; bytes >= 0x80 are passed through, which is what Go
   does for valid UTF-8 encodings of printable runes (the only ones the harness generates). *)
Definition go_quote_char (c : ascii) : string :=
  let n := N_of_ascii c in
  if N.eqb n 34 then "\""" else if N.eqb n 92 then "\\"
  else if N.eqb n 7 then "\a" else if N.eqb n 8 then "\b" else if N.eqb n 12 then "\f"
  else if N.eqb n 10 then "\n" else if N.eqb n 13 then "\r" else if N.eqb n 9 then "\t"
  else if N.eqb n 11 then "\v"
  else if orb (N.ltb n 32) (N.eqb n 127) then "\x" ++ hex2 n
  else String c "".

Fixpoint go_quote_body (s : string) : string :=
  match s with EmptyString => "" | String c r => go_quote_char c ++ go_quote_body r end.

Definition go_quote (s : string) : string := """" ++ go_quote_body s ++ """".

Definition step_string (s : step) : string :=
  match s with
  | SRoot n => n
  | SAttr n => "." ++ n
  | SIdxNum z => "[" ++ string_of_Z z ++ "]"
  | SIdxStr k => "[" ++ go_quote k ++ "]"
  | SIdxBad => "<INVALIDKEY-lang.IndexStep>"
  end.

Fixpoint addr_string (a : address) : string :=
  match a with [] => "" | s :: r => step_string s ++ addr_string r end.

(* Address.Equals: two empty addresses are NOT equal *)
Fixpoint steps_eqb (a b : address) : bool :=
  match a, b with
  | [], [] => true
  | x :: a', y :: b' => andb (String.eqb (step_string x) (step_string y)) (steps_eqb a' b')
  | _, _ => false
  end.

Definition addr_equals (a b : address) : bool :=
  match a, b with [], [] => false | _, _ => steps_eqb a b end.

Definition step_of_sexp (x : sexp) : option step :=
  match x with
  | SList [SAtom t; SStr n] =>
      if String.eqb t "root" then Some (SRoot n) else if String.eqb t "attr" then Some (SAttr n)
      else if String.eqb t "idxs" then Some (SIdxStr n) else None
  | SList [SAtom t; SAtom z] =>
      if String.eqb t "idxn" then option_map SIdxNum (Z_of_string z) else None
  | SList [SAtom t] => if String.eqb t "idxbad" then Some SIdxBad else None
  | _ => None
  end.

Definition addr_of_sexp (x : sexp) : option address :=
  match x with SList l => map_opt step_of_sexp l | _ => None end.
