(* Pieces of reference collection that are pure functions of already decoded data:
   resolveBlockAddress (decoder/reference_targets.go), reference.TraversalToLocalOrigin,
   appendOrigins (decoder/expr_one_of_ref_origins.go), the final ordering of origins
   (decoder/reference_origins.go). *)
From Coq Require Import String Ascii List ZArith Bool.
From HV Require Import Base.Sexp Base.Str Base.Pos Base.SortSpec Model.Addr Model.DepKeys Model.Schema Model.Ref.
Import ListNotations.
Open Scope string_scope.

(* ---- resolveBlockAddress ---- *)
Inductive addr_step :=
| AStatic (name : string)
| ALabel (idx : nat)
| AAttrValue (name : string) (optional : bool)
| AAttrName.                      (* not valid for blocks: "unknown step" *)

(* what the attribute lookup + evaluation yields for an AttrValueStep *)
Inductive attr_value := AVAbsent | AVNotString | AVStr (s : string).

Section Resolve.
  Variable labels : list string.
  Variable attr_val : string -> attr_value.

  (* the loop; [i] is the index in the step list (the root step is the one at index 0, even if
     earlier optional steps were skipped - as in the Go code) *)
  Fixpoint resolve_steps (i : nat) (steps : list addr_step) (acc : address) : option address :=
    match steps with
    | [] => Some acc
    | s :: rest =>
        let continue_with (name : string) :=
          resolve_steps (S i) rest (List.app acc [match i with O => SRoot name | _ => SAttr name end]) in
        match s with
        | AStatic name => continue_with name
        | ALabel idx => match nth_error labels idx with Some l => continue_with l | None => None end
        | AAttrValue name optional =>
            match attr_val name with
            | AVAbsent => if optional then resolve_steps (S i) rest acc else None
            | AVNotString => None
            | AVStr v => continue_with v
            end
        | AAttrName => None
        end
    end.

  Definition resolve_block_address (steps : option (list addr_step)) : option address :=
    match steps with None => None | Some st => resolve_steps 0 st [] end.
End Resolve.

(* ---- reference.TraversalToLocalOrigin: self.* only where the body enables it ---- *)
Definition traversal_to_local_origin (addr : option address) (root_is_self : bool) (r : range) (cs : list ocons) (allow_self : bool)
  : option origin :=
  if root_is_self && negb allow_self then None
  else match addr with Some a => Some (OLocal a r cs) | None => None end.

(* ---- appendOrigins: merge the origins produced by the alternatives of a one-of ---- *)
Definition o_addr (o : origin) : option address :=
  match o with OLocal a _ _ => Some a | OPath _ a _ _ => Some a | ODirect _ _ _ => None end.

Definition append_cons (o : origin) (cs : list ocons) : origin :=
  match o with
  | OLocal a r c => OLocal a r (List.app c cs)
  | OPath r a p c => OPath r a p (List.app c cs)
  | ODirect _ _ _ => o
  end.

Definition o_cons (o : origin) : list ocons :=
  match o with OLocal _ _ c => c | OPath _ _ _ c => c | ODirect _ _ _ => [] end.

Definition same_ref (a b : origin) : bool :=
  match o_addr a, o_addr b with
  | Some x, Some y =>
      (* rangesEqual compares the two positions only, not the file name *)
      addr_equals x y && pos_eqb (r_start (o_range a)) (r_start (o_range b)) && pos_eqb (r_end (o_range a)) (r_end (o_range b))
  | _, _ => false
  end.

(* find the first existing matchable origin with the same address and range and extend it *)
Fixpoint merge_into (l : list origin) (n : origin) : option (list origin) :=
  match l with
  | [] => None
  | x :: rest =>
      if same_ref x n then Some (append_cons x (o_cons n) :: rest)
      else match merge_into rest n with Some r => Some (x :: r) | None => None end
  end.

Fixpoint append_origins (origins news : list origin) : list origin :=
  match news with
  | [] => origins
  | n :: rest =>
      match o_addr n with
      | None => append_origins (List.app origins [n]) rest
      | Some _ =>
          match merge_into origins n with
          | Some merged => append_origins merged rest
          | None => append_origins (List.app origins [n]) rest
          end
      end
  end.

(* ---- the final ordering: stable by (file, start byte) ---- *)
Definition origin_ltb (a b : origin) : bool :=
  let ra := o_range a in let rb := o_range b in
  if negb (String.eqb (r_file ra) (r_file rb)) then String.ltb (r_file ra) (r_file rb)
  else Z.ltb (p_byte (r_start ra)) (p_byte (r_start rb)).

Definition sort_origins (l : list origin) : list origin := stable_sort origin_ltb l.

(* ---------------- runner entries ---------------- *)
Definition addr_step_of_sexp (x : sexp) : option addr_step :=
  match x with
  | SList [SAtom k] => if String.eqb k "attrname" then Some AAttrName else None
  | SList [SAtom k; SStr n] => if String.eqb k "static" then Some (AStatic n) else None
  | SList [SAtom k; SAtom i] => if String.eqb k "label" then option_map (fun z => ALabel (Z.to_nat z)) (Z_of_string i) else None
  | SList [SAtom k; SStr n; o] => if String.eqb k "attrvalue" then option_map (AAttrValue n) (as_bool o) else None
  | _ => None
  end.

Definition attr_value_of_sexp (x : sexp) : option (string * attr_value) :=
  match x with
  | SList [SStr n; SList [SAtom k]] =>
      if String.eqb k "absent" then Some (n, AVAbsent) else if String.eqb k "notstring" then Some (n, AVNotString) else None
  | SList [SStr n; SList [SAtom k; SStr v]] => if String.eqb k "str" then Some (n, AVStr v) else None
  | _ => None
  end.

Definition run_collect (kind : string) (args : list sexp) : option sexp :=
  if String.eqb kind "blockaddr" then
    (* (blockaddr STEPS|() (labels...) ((name value)...)) -> (addr ADDRESS) | (none) *)
    match args with
    | [steps; SList ls; SList avs] =>
        match opt_of_sexp (fun s => match s with SList l => map_opt addr_step_of_sexp l | _ => None end) steps,
              map_opt as_str ls, map_opt attr_value_of_sexp avs with
        | Some steps, Some ls, Some avs =>
            let lookup n := match alookup n avs with Some v => v | None => AVAbsent end in
            Some (match resolve_block_address ls lookup steps with
                  | Some a => SList [SAtom "addr"; sexp_of_addr a]
                  | None => SList [SAtom "none"] end)
        | _, _, _ => None
        end
    | _ => None
    end
  else if String.eqb kind "appendorigins" then
    match args with
    | [SList a; SList b] =>
        match map_opt origin_of_sexp a, map_opt origin_of_sexp b with
        | Some a, Some b => Some (SList (map sexp_of_origin (append_origins a b)))
        | _, _ => None
        end
    | _ => None
    end
  else if String.eqb kind "sortorigins" then
    match args with
    | [SList a] => option_map (fun l => SList (map sexp_of_origin (sort_origins l))) (map_opt origin_of_sexp a)
    | _ => None
    end
  else None.
