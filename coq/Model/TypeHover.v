(* What a hover says about a type and about a reference target (decoder/hover.go: hoverContentForType,
   hoverContentForReferenceTarget; reference/target.go: Target.FriendlyName; cty's Type.FriendlyName).
   The address a target is shown under (Target.Address) is modelled in Model/Ref.v and is an input here. *)
From Coq Require Import String List Bool Arith Ascii.
From HV Require Import Base.Sexp Base.SortSpec Model.Schema.
Import ListNotations.
Open Scope string_scope.

(* cty.Type.FriendlyName *)
Fixpoint friendly (t : ty) : string :=
  match t with
  | TNil => ""
  | TDyn => "dynamic"
  | TBool => "bool"
  | TNum => "number"
  | TStr => "string"
  | TList e => "list of " ++ friendly e
  | TSet e => "set of " ++ friendly e
  | TMap e => "map of " ++ friendly e
  | TTuple _ => "tuple"
  | TObject _ => "object"
  end.

Fixpoint indent (n : nat) : string := match n with O => "" | S m => "  " ++ indent m end.

Definition nl : string := String (ascii_of_nat 10) "".

Definition attr_ltb (a b : string * (ty * bool)) : bool := String.ltb (fst a) (fst b).

(* sortedObjectAttrNames: the attribute names of an object type in byte order (sort.Strings), whatever
   order the type's map is visited in *)
Definition sorted_attrs (ats : list (string * (ty * bool))) : list (string * (ty * bool)) := stable_sort attr_ltb ats.

(* hoverContentForType; None = "unsupported type" *)
Fixpoint type_content (fuel : nat) (t : ty) (lvl : nat) : option string :=
  match fuel with
  | O => None
  | S f =>
      match t with
      | TNil => None
      | TDyn | TBool | TNum | TStr =>
          Some (match lvl with O => "_" ++ friendly t ++ "_" | S _ => friendly t end)
      | TObject ats =>
          match ats with
          | [] => Some (friendly t)
          | _ =>
              let lines := map (fun a : string * (ty * bool) =>
                  let vt := fst (snd a) in
                  let data := match type_content f vt (S lvl) with Some d => d | None => friendly vt end in
                  let data := if snd (snd a) then "optional, " ++ data else data in
                  indent (S lvl) ++ fst a ++ " = " ++ data ++ nl) (sorted_attrs ats) in
              let body := "{" ++ nl ++ String.concat "" lines ++ indent lvl ++ "}" in
              Some (match lvl with
                    | O => "```" ++ nl ++ body ++ nl ++ "```" ++ nl ++ "_object_"
                    | S _ => body
                    end)
          end
      | TList _ | TSet _ | TMap _ | TTuple _ =>
          Some (match lvl with O => "_" ++ friendly t ++ "_" | S _ => friendly t end)
      end
  end.

Fixpoint ty_depth (t : ty) : nat :=
  match t with
  | TList e | TSet e | TMap e => S (ty_depth e)
  | TTuple ts => S (fold_right (fun x acc => Nat.max (ty_depth x) acc) 0 ts)
  | TObject ats => S (fold_right (fun a acc => Nat.max (ty_depth (fst (snd a))) acc) 0 ats)
  | _ => 1
  end.

(* Target.FriendlyName *)
Definition target_friendly (name : string) (t : ty) : string :=
  if negb (String.eqb name "") then name
  else match t with TNil => "reference" | _ => friendly t end.

(* hoverContentForReferenceTarget: [addr] is the address the target is shown under at the cursor *)
Definition reference_hover_content (addr name : string) (t : ty) (description : string) : string :=
  let shown := "`" ++ addr ++ "`" in
  let ty_part := match t with
                 | TNil => None
                 | _ => match type_content (S (ty_depth t)) t 0 with Some c => Some (nl ++ c) | None => None end
                 end in
  let shown := shown ++ match ty_part with Some p => p | None => " " ++ target_friendly name t end in
  if String.eqb description "" then shown else shown ++ nl ++ nl ++ description.

(* (refhover addr name type description) -> content *)
Definition run_type_hover (kind : string) (args : list sexp) : option sexp :=
  if String.eqb kind "refhover" then
    match args with
    | [SStr addr; SStr name; t; SStr desc] =>
        match ty_of_sexp t with
        | Some t => Some (SStr (reference_hover_content addr name t desc))
        | None => None
        end
    | _ => None
    end
  else if String.eqb kind "typecontent" then
    match args with
    | [t] => match ty_of_sexp t with
             | Some t => Some (match type_content (S (ty_depth t)) t 0 with Some c => SStr c | None => SAtom "unsupported" end)
             | None => None
             end
    | _ => None
    end
  else None.
