(* decoder/candidates.go, body_candidates.go, label_candidates.go: completion at a position of a
   body that is not inside an attribute value (body / label level).  Positions inside a value are
   delegated to the value-level completion, which this file does not model. *)
From Coq Require Import String Ascii List ZArith Bool.
From HV Require Import Base.Sexp Base.Str Base.Pos Base.SortSpec Model.Addr Model.DepKeys Model.Schema Model.Ast Model.Merge.
Import ListNotations.
Open Scope string_scope.

(* hcl.Range.SliceBytes (clamping) *)
Definition slice_bytes (file : string) (r : range) : string :=
  let len := Z.of_nat (String.length file) in
  let clamp z := if Z.ltb z 0 then 0%Z else if Z.ltb len z then len else z in
  let s := clamp (p_byte (r_start r)) in
  let e := clamp (p_byte (r_end r)) in
  let e := if Z.ltb e s then s else e in
  String.substring (Z.to_nat s) (Z.to_nat (e - s)) file.

(* lexer tokens: only the kinds the code looks at are distinguished *)
Inductive tok_kind := TIdent | TNewline | TEOF | TQuotedLit | TCQuote | TOther.
Record token := { tk_kind : tok_kind; tk_rng : range }.

Definition prev_tok (ts : list token) (i : nat) : option token :=
  match i with O => None | S j => nth_error ts j end.

(* nameTokenRangeAtPos: None = error *)
Fixpoint name_token_range (all : list token) (i : nat) (ts : list token) (p : pos) : option range :=
  match ts with
  | [] => None
  | t :: rest =>
      if contains_pos (tk_rng t) p then
        match tk_kind t with
        | TIdent => Some (tk_rng t)
        | TNewline =>
            match prev_tok all i with
            | Some pt => match tk_kind pt with TIdent => Some (tk_rng pt) | _ => None end
            | None => None
            end
        | _ => None
        end
      else
        match tk_kind t, prev_tok all i with
        | TEOF, Some pt =>
            if pos_eqb (r_start (tk_rng t)) p && pos_eqb (r_end (tk_rng t)) p then
              match tk_kind pt with
              | TIdent => Some (tk_rng pt)
              | _ => name_token_range all (S i) rest p
              end
            else name_token_range all (S i) rest p
        | _, _ => name_token_range all (S i) rest p
        end
  end.

(* labelTokenRangeAtPos *)
Fixpoint label_token_range (all : list token) (i : nat) (ts : list token) (p : pos) : option range :=
  match ts with
  | [] => None
  | t :: rest =>
      if contains_pos (tk_rng t) p then
        match tk_kind t with
        | TQuotedLit | TIdent => Some (tk_rng t)
        | TCQuote =>
            match prev_tok all i with
            | Some pt => match tk_kind pt with TQuotedLit => Some (tk_rng pt) | _ => label_token_range all (S i) rest p end
            | None => label_token_range all (S i) rest p
            end
        | _ => label_token_range all (S i) rest p
        end
      else label_token_range all (S i) rest p
  end.

Inductive cand_kind := CKAttr | CKBlock | CKLabel.
Record cand := { c_label : string; c_kind : cand_kind; c_rng : range; c_desc : string; c_deprecated : bool }.

Record cands := { cs_list : list cand; cs_complete : bool }.

Definition cand_ltb (a b : cand) : bool := String.ltb (c_label a) (c_label b).

Definition is_attr_declarable (b : body) (name : string) (s : attr_schema) : bool :=
  negb (af_computed (as_flags s) && negb (af_optional (as_flags s))) &&
  negb (match find_attr name (b_attrs b) with Some _ => true | None => false end).

Definition count_type (blocks : list block) (t : string) : Z :=
  Z.of_nat (List.length (filter (fun k => String.eqb (k_type k) t) blocks)).

Definition is_block_declarable (b : body) (t : string) (s : block_schema) : bool :=
  Z.eqb (bk_max s) 0 || Z.ltb (count_type (b_blocks b) t) (bk_max s).

Definition has_prefix (prefix name : string) : bool :=
  String.eqb prefix "" || String.prefix prefix name.

Section BodyCandidates.
  Variable max_candidates : Z.
  Variable b : body.
  Variable bs : body_schema.
  Variable prefix : string.
  Variable edit : range.

  (* count / for_each of the extensions (after the fix commits: filtered by the prefix, counted,
     and taking precedence over a schema attribute of the same name) *)
  Definition ext_cands : list cand :=
    List.app
      (if ext_has ext_count (bs_ext bs) && negb (match find_attr "count" (b_attrs b) with Some _ => true | None => false end)
          && String.prefix prefix "count"
       then [{| c_label := "count"; c_kind := CKAttr; c_rng := edit; c_desc := as_desc count_attr_schema; c_deprecated := false |}] else [])
      (if ext_has ext_for_each (bs_ext bs) && negb (match find_attr "for_each" (b_attrs b) with Some _ => true | None => false end)
          && String.prefix prefix "for_each"
       then [{| c_label := "for_each"; c_kind := CKAttr; c_rng := edit; c_desc := as_desc for_each_attr_schema; c_deprecated := false |}] else []).

  Definition is_ext_name (name : string) : bool :=
    (ext_has ext_count (bs_ext bs) && String.eqb name "count") || (ext_has ext_for_each (bs_ext bs) && String.eqb name "for_each").

  (* the loops: (accumulated candidates, count, hit the limit?) *)
  Fixpoint attr_loop (l : list (string * attr_schema)) (acc : list cand) (count : Z) : list cand * Z * bool :=
    match l with
    | [] => (acc, count, false)
    | (name, s) :: rest =>
        if is_ext_name name then attr_loop rest acc count
        else if negb (is_attr_declarable b name s) then attr_loop rest acc count
        else if negb (has_prefix prefix name) then attr_loop rest acc count
        else if Z.leb max_candidates count then (acc, count, true)
        else attr_loop rest (List.app acc [{| c_label := name; c_kind := CKAttr; c_rng := edit; c_desc := as_desc s;
                                              c_deprecated := af_deprecated (as_flags s) |}]) (count + 1)
    end.

  Fixpoint block_loop (l : list (string * block_schema)) (acc : list cand) (count : Z) : list cand * Z * bool :=
    match l with
    | [] => (acc, count, false)
    | (t, s) :: rest =>
        if match alookup t (bs_attrs bs) with Some _ => true | None => false end then block_loop rest acc count
        else if negb (is_block_declarable b t s) then block_loop rest acc count
        else if negb (has_prefix prefix t) then block_loop rest acc count
        else if Z.leb max_candidates count then (acc, count, true)
        else block_loop rest (List.app acc [{| c_label := t; c_kind := CKBlock; c_rng := edit; c_desc := bk_desc s;
                                               c_deprecated := bk_deprecated s |}]) (count + 1)
    end.

  (* bodySchemaCandidates; the final sort.Sort by label is modelled as the stable sort (labels are
     unique unless a schema attribute is itself called count/for_each under that extension) *)
  Definition body_schema_candidates : cands :=
    let acc0 := ext_cands in
    let '(acc1, count1, stop1) :=
      match bs_attrs bs with
      | [] =>
          match bs_any bs with
          | Some s =>
              let c0 := Z.of_nat (List.length acc0) in
              if String.eqb prefix "" then
                if Z.leb max_candidates c0 then (acc0, c0, true)
                else (List.app acc0 [{| c_label := "name"; c_kind := CKAttr; c_rng := edit; c_desc := as_desc s;
                                        c_deprecated := af_deprecated (as_flags s) |}], (c0 + 1)%Z, false)
              else (acc0, c0, false)
          | None => (acc0, Z.of_nat (List.length acc0), false)
          end
      | ats => attr_loop ats acc0 (Z.of_nat (List.length acc0))
      end in
    if stop1 then {| cs_list := acc1; cs_complete := false |} else
    let '(acc2, _, stop2) := block_loop (bs_blocks bs) acc1 count1 in
    if stop2 then {| cs_list := acc2; cs_complete := false |}
    else {| cs_list := stable_sort cand_ltb acc2; cs_complete := true |}.
End BodyCandidates.

(* label candidates from the dependent bodies; [decoded] = the dependent-body keys in sorted order,
   each with its decoded label pairs (json.Unmarshal in Go; supplied by the harness) *)
Section LabelCandidates.
  Variable max_candidates : Z.
  Variable idx : Z.
  Variable prefix : string.
  Variable edit : range.

  Fixpoint label_pairs_loop (pairs : list label_dep) (body : body_schema) (found : list string) (acc : list cand) (count : Z)
    : list string * list cand * Z :=
    match pairs with
    | [] => (found, acc, count)
    | l :: rest =>
        if negb (Z.eqb (ld_index l) idx) then label_pairs_loop rest body found acc count
        else if negb (has_prefix prefix (ld_value l)) then label_pairs_loop rest body found acc count
        else if existsb (String.eqb (ld_value l)) found then label_pairs_loop rest body found acc count
        else label_pairs_loop rest body (ld_value l :: found)
               (List.app acc [{| c_label := ld_value l; c_kind := CKLabel; c_rng := edit; c_desc := bs_desc body; c_deprecated := false |}])
               (count + 1)
    end.

  Fixpoint label_keys_loop (keys : list (list label_dep * body_schema)) (found : list string) (acc : list cand) (count : Z)
    : list cand * bool :=
    match keys with
    | [] => (acc, true)
    | (pairs, body) :: rest =>
        if Z.leb max_candidates count then (acc, false)
        else let '(found', acc', count') := label_pairs_loop pairs body found acc count in
             label_keys_loop rest found' acc' count'
    end.

  Definition label_candidates (keys : list (list label_dep * body_schema)) : cands :=
    let '(acc, complete) := label_keys_loop keys [] [] 0%Z in
    {| cs_list := stable_sort cand_ltb acc; cs_complete := complete |}.
End LabelCandidates.

Inductive outcome :=
| OCands (c : cands)
| OZero                         (* lang.ZeroCandidates, nil error *)
| OErr (msg : string)           (* PositionalError *)
| ODelegated (a : attr) (bs : body_schema).   (* inside an attribute value: value-level completion (Model/ValueCands.v) with the body schema in force *)

Definition range_within_file_dot (file : string) (e : range) (p : pos) : bool :=
  (* edge case: trailing '.' right after the expression *)
  Z.eqb (p_byte p - p_byte (r_end e)) 1 &&
  String.eqb (slice_bytes file {| r_file := r_file e; r_start := r_end e; r_end := p |}) ".".

(* isPosInsideAttrExpr (with the fix: the end position only counts when it does not precede the start) *)
Definition pos_inside_attr_expr (file : string) (a : attr) (p : pos) : bool :=
  let e := expr_range (a_expr a) in
  contains_pos e p
  || (Z.eqb (p_byte (r_end e)) (p_byte p) && Z.leb (p_byte (r_start e)) (p_byte p))
  || Z.eqb (p_byte (r_end (a_eq_rng a))) (p_byte p)
  || range_within_file_dot file e p.

Definition is_pos_outside_body (k : block) (p : pos) : bool :=
  contains_pos (k_open_rng k) p || contains_pos (k_close_rng k) p ||
  contains_pos (range_between (k_type_rng k) (k_open_rng k)) p.

(* decoded dependent-body keys of a block schema: aligned with bk_dep *)
Definition decoded_keys := list (string * list label_dep).

Fixpoint zip_keys (dep : list (string * body_schema)) (dec : decoded_keys) : list (list label_dep * body_schema) :=
  match dep with
  | [] => []
  | (k, b) :: rest =>
      match alookup k dec with
      | Some pairs => (pairs, b) :: zip_keys rest dec
      | None => zip_keys rest dec                       (* undecodable key: skipped *)
      end
  end.

Section CompletionAtPos.
  Variable max_candidates : Z.
  Variable file : string.
  Variable tokens : option (list token).     (* None = the lexer reported errors *)
  Variable decoded : decoded_keys.
  Variable p : pos.

  Definition name_rng (fname : string) : range :=
    match tokens with
    | Some ts => match name_token_range ts 0 ts p with Some r => r | None => empty_range_at fname p end
    | None => empty_range_at fname p
    end.

  Fixpoint attrs_outcome (attrs : list attr) (b : body) (bs : body_schema) : option outcome :=
    match attrs with
    | [] => None
    | a :: rest =>
        if pos_inside_attr_expr file a p then
          let known :=
            (ext_has ext_count (bs_ext bs) && String.eqb (a_name a) "count") ||
            (ext_has ext_for_each (bs_ext bs) && String.eqb (a_name a) "for_each") ||
            match alookup (a_name a) (bs_attrs bs) with Some _ => true | None => false end ||
            match bs_any bs with Some _ => true | None => false end in
          Some (if known then ODelegated a bs else OZero)
        else if contains_pos (a_name_rng a) p then
          Some (OCands (body_schema_candidates max_candidates b bs (slice_bytes file (with_end (a_name_rng a) p)) (a_rng a)))
        else if contains_pos (a_eq_rng a) p then Some OZero
        else attrs_outcome rest b bs
    end.

  Fixpoint labels_outcome (k : block) (sc : block_schema) (i : nat) (rngs : list range) : option outcome :=
    match rngs with
    | [] => None
    | lr :: rest =>
        if contains_pos lr p then
          match nth_error (bk_labels sc) i with
          | None => Some (OErr ("unexpected label (" ++ string_of_Z (Z.of_nat i) ++ ") " ++ go_quote (nth i (k_labels k) "")))
          | Some ls =>
              let tokr := match tokens with Some ts => label_token_range ts 0 ts p | None => None end in
              let rng := match tokr with Some r => r | None => empty_range_at (r_file (b_rng (k_body k))) p end in
              let prefix_rng := with_end rng p in
              if negb (ls_completable ls) then Some OZero
              else Some (OCands (label_candidates max_candidates (Z.of_nat i) (slice_bytes file prefix_rng) rng
                                   (zip_keys (bk_dep sc) decoded)))
          end
        else labels_outcome k sc (S i) rest
    end.

  Fixpoint completion_body (b : body) (bs : body_schema) : outcome :=
    let fix blocks_outcome (l : list block) : option outcome :=
      match l with
      | [] => None
      | k :: rest =>
          if contains_pos (k_rng k) p then
            match alookup (k_type k) (bs_blocks bs) with
            | None => Some (OErr ("unknown block type " ++ go_quote (k_type k)))
            | Some sc =>
                if contains_pos (k_type_rng k) p then
                  Some (OCands (body_schema_candidates max_candidates b bs (slice_bytes file (with_end (k_type_rng k) p)) (k_rng k)))
                else
                  match labels_outcome k sc 0 (k_label_rngs k) with
                  | Some o => Some o
                  | None =>
                      if is_pos_outside_body k p then Some (OErr ("position outside of " ++ go_quote (k_type k) ++ " body"))
                      else
                        match k with Block _ _ _ _ _ _ _ _ kb =>
                          if contains_pos (b_rng kb) p then
                            let '(m, _) := merge_block_body_schemas sc k in
                            Some (completion_body kb m)
                          else blocks_outcome rest
                        end
                  end
            end
          else blocks_outcome rest
      end in
    match attrs_outcome (b_attrs b) b bs with
    | Some o => o
    | None =>
        match blocks_outcome (b_blocks b) with
        | Some o => o
        | None =>
            let rng := name_rng (r_file (b_rng b)) in
            OCands (body_schema_candidates max_candidates b bs (slice_bytes file rng) rng)
        end
    end.
End CompletionAtPos.

(* ---------------- reader / printer / runner ---------------- *)
Definition tok_kind_of (s : string) : tok_kind :=
  if String.eqb s "ident" then TIdent else if String.eqb s "newline" then TNewline
  else if String.eqb s "eof" then TEOF else if String.eqb s "quotedlit" then TQuotedLit
  else if String.eqb s "cquote" then TCQuote else TOther.

Definition token_of_sexp (x : sexp) : option token :=
  match x with
  | SList [SAtom k; r] => option_map (fun r => {| tk_kind := tok_kind_of k; tk_rng := r |}) (range_of_sexp r)
  | _ => None
  end.

Definition decoded_of_sexp (x : sexp) : option (string * list label_dep) :=
  match x with
  | SList [SStr k; SList ls] => option_map (fun l => (k, l)) (map_opt DepKeys.label_of_sexp ls)
  | _ => None
  end.

Definition sexp_of_cand (c : cand) : sexp :=
  SList [SStr (c_label c); sZ (match c_kind c with CKAttr => 1 | CKBlock => 2 | CKLabel => 3 end)%Z;
         sexp_of_range (c_rng c); SStr (c_desc c); sB (c_deprecated c)].

Definition sexp_of_outcome (o : outcome) : sexp :=
  match o with
  | OCands c => SList [SAtom "cands"; sB (cs_complete c); SList (map sexp_of_cand (cs_list c))]
  | OZero => SList [SAtom "cands"; sB true; SList []]
  | OErr m => SList [SAtom "err"; SStr m]
  | ODelegated _ _ => SList [SAtom "delegated"]
  end.

(* (completion MAX "file bytes" (tokens...)|nolex ((key (pairs))...) POS BODY SCHEMA) *)
Definition run_completion (args : list sexp) : option sexp :=
  match args with
  | [mx; SStr file; toks; SList dec; p; b; bs] =>
      let tokens := match toks with
                    | SList ts => map_opt token_of_sexp ts
                    | _ => None
                    end in
      let lex_failed := match toks with SAtom _ => true | _ => false end in
      match as_Z mx, map_opt decoded_of_sexp dec, pos_of_sexp p, Ast.body_of_sexp b, Schema.body_of_sexp bs with
      | Some mx, Some dec, Some p, Some b, Some bs =>
          match tokens, lex_failed with
          | None, false => None
          | _, _ => Some (sexp_of_outcome (completion_body mx file (if lex_failed then None else tokens) dec p b bs))
          end
      | _, _, _, _, _ => None
      end
  | _ => None
  end.

(* (completions MAX "file bytes" TOKENS DECODED BODY SCHEMA ((POS OBSERVED)...)):
   all positions of one file in one case; positions inside attribute values are delegated (skipped) *)
Definition run_completions (args : list sexp) : option sexp :=
  match args with
  | [mx; SStr file; toks; SList dec; b; bs; SList pairs] =>
      let tokens := match toks with SList ts => map_opt token_of_sexp ts | _ => None end in
      let lex_failed := match toks with SAtom _ => true | _ => false end in
      match as_Z mx, map_opt decoded_of_sexp dec, Ast.body_of_sexp b, Schema.body_of_sexp bs with
      | Some mx, Some dec, Some b, Some bs =>
          match tokens, lex_failed with
          | None, false => None
          | _, _ =>
              let tk := if lex_failed then None else tokens in
              let bad := flat_map (fun pr =>
                match pr with
                | SList [p; obs] =>
                    match pos_of_sexp p with
                    | Some pp =>
                        let out := sexp_of_outcome (completion_body mx file tk dec pp b bs) in
                        if sexp_eqb out (SList [SAtom "delegated"]) then []
                        else if sexp_eqb out obs then [] else [SList [p; out]]
                    | None => [SList [p; SAtom "badpos"]]
                    end
                | _ => [SAtom "badpair"]
                end) pairs in
              match bad with
              | [] => Some (SList [SAtom "allok"])
              | _ => Some (SList (SAtom "mismatch" :: bad))
              end
          end
      | _, _, _, _ => None
      end
  | _ => None
  end.
