(* CollectReferenceOrigins: the loop over the attributes and blocks of every file of a path
   (decoder/reference_origins.go), on top of the value-level descent of Model/Origins.v and the
   schema merge of Model/Merge.v. *)
From Coq Require Import String List ZArith Bool.
From HV Require Import Base.Sexp Base.Str Base.Pos Base.SortSpec Model.Addr Model.DepKeys Model.Schema Model.Ast
                       Model.Merge Model.Ref Model.Collect Model.Origins.
Import ListNotations.
Open Scope string_scope.

Record implied := { im_origin : address; im_target : address; im_path : path; im_scope : string; im_type : ty }.

Definition implied_of_sexp (x : sexp) : option implied :=
  match x with
  | SList [SAtom "implied"; oa; ta; SStr p; SStr sc; t] =>
      match addr_of_sexp oa, addr_of_sexp ta, ty_of_sexp t with
      | Some oa, Some ta, Some t =>
          Some {| im_origin := oa; im_target := ta; im_path := {| pa_path := p; pa_lang := "hcl" |}; im_scope := sc; im_type := t |}
      | _, _, _ => None
      end
  | _ => None
  end.

Definition targets_of_sexp (x : sexp) : option (path * range) :=
  match x with
  | SList [SAtom "targets"; SStr p; r] => option_map (fun r => ({| pa_path := p; pa_lang := "hcl" |}, r)) (range_of_sexp r)
  | _ => None
  end.

Fixpoint keep_some {A} (l : list (option A)) : list A :=
  match l with [] => [] | Some x :: r => x :: keep_some r | None :: r => keep_some r end.

(* the schema in force for an attribute name: the count / for_each extensions first, then the declared
   attributes, then AnyAttribute; None = unknown to the schema *)
Definition attr_schema_for (bs : body_schema) (name : string) : option attr_schema :=
  if ext_has ext_count (bs_ext bs) && String.eqb name "count" then Some count_attr_schema
  else if ext_has ext_for_each (bs_ext bs) && String.eqb name "for_each" then Some for_each_attr_schema
  else match alookup name (bs_attrs bs) with Some a => Some a | None => bs_any bs end.

Definition as_origin_for (a : attr_schema) : sexp := match a with AttrSchema _ _ _ _ _ _ _ og => og end.

(* OriginForTarget of an attribute: a path origin on the attribute's name *)
Definition attr_path_origin (name : string) (name_rng : range) (og : sexp) : list origin :=
  match origin_for_of_sexp og with
  | Some f =>
      match of_steps f with
      | [] => []
      | st => match object_address name 0 st with
              | Some ad => [OPath name_rng ad (of_path f) [{| oc_scope := of_scope f; oc_type := of_type f |}]]
              | None => []
              end
      end
  | None => []
  end.

Section BodyOrigins.
  Variable conv : ty -> ty -> bool.
  Variable funcs : fsigs.
  Variable exprs : list (range * oexpr).            (* the value of each attribute, by the attribute's range *)

  Fixpoint lookup_expr (l : list (range * oexpr)) (r : range) : option oexpr :=
    match l with [] => None | (r', e) :: rest => if range_eqb r' r then Some e else lookup_expr rest r end.

  Definition attr_origins_in (bs : body_schema) (a : attr) : list origin :=
    match attr_schema_for bs (a_name a) with
    | None => []                                                      (* unknown attribute: skipped *)
    | Some s =>
        List.app (attr_path_origin (a_name a) (a_name_rng a) (as_origin_for s))
       (List.app (if af_depkey (as_flags s)
                  then match targets_of_sexp (bs_targets bs) with
                       | Some (p, r) => [ODirect (expr_range (a_expr a)) p r]
                       | None => []
                       end
                  else [])
                 (match lookup_expr exprs (a_rng a) with
                  | Some e => cons_origins conv (ext_has ext_self_refs (bs_ext bs)) funcs origin_for_of_sexp (as_cons s) e
                  | None => []
                  end))
    end.

  Fixpoint body_origins (bs : body_schema) (b : body) {struct b} : list origin * list implied :=
    match b with
    | Body attrs blocks _ _ =>
        let fix go (l : list block) : list origin * list implied :=
          match l with
          | [] => ([], [])
          | k :: r =>
              let here := match alookup (k_type k) (bs_blocks bs) with
                          | None => ([], [])                              (* unknown block: skipped *)
                          | Some ks => body_origins (fst (merge_block_body_schemas ks k)) (k_body k)
                          end in
              let rest := go r in
              (List.app (fst here) (fst rest), List.app (snd here) (snd rest))
          end in
        let nested := go blocks in
        (List.app (flat_map (attr_origins_in bs) attrs) (fst nested),
         List.app (keep_some (map implied_of_sexp (bs_implied bs))) (snd nested))
    end.

  Definition implied_origin (im : implied) (o : origin) : list origin :=
    match o with
    | OLocal a r _ =>
        if addr_equals a (im_origin im)
        then [OPath r (im_target im) (im_path im) [{| oc_scope := im_scope im; oc_type := im_type im |}]]
        else []
    | _ => []
    end.

  (* CollectReferenceOrigins over the files of a path (in the order of their names) *)
  Definition collect_origins (root : option body_schema) (files : list body) : list origin :=
    match root with
    | None => []
    | Some sch =>
        let per := map (body_origins sch) files in
        let os := flat_map fst per in
        let ims := flat_map snd per in
        let extra := flat_map (fun im => flat_map (implied_origin im) os) ims in
        sort_origins (List.app os extra)
    end.
End BodyOrigins.

Definition expr_entry_of_sexp (x : sexp) : option (range * oexpr) :=
  match x with
  | SList [r; e] => match range_of_sexp r, oexpr_of_sexp e with Some r, Some e => Some (r, e) | _, _ => None end
  | _ => None
  end.

(* (collectorigins (funcs...) SCHEMA|() (BODY...) ((attr-range EXPR)...)) *)
Definition run_origins_body (kind : string) (args : list sexp) : option sexp :=
  if String.eqb kind "collectorigins" then
    match args with
    | [SList fs; sch; SList bodies; SList es] =>
        match map_opt fsig_of_sexp fs, opt_of_sexp Model.Schema.body_of_sexp sch, map_opt Model.Ast.body_of_sexp bodies, map_opt expr_entry_of_sexp es with
        | Some fs, Some sch, Some bodies, Some es =>
            Some (SList (map sexp_of_origin (collect_origins prim_conv fs es sch bodies)))
        | _, _, _, _ => None
        end
    | _ => None
    end
  else None.
