(* Function-name completion (decoder/expr_function.go: functionExpr.matchingFunctions).
   The function table is a Go map, visited in an unspecified order; candidates are those whose
   name starts with the typed text and whose return type converts to the expected type; they are
   then stably sorted by name.  cty's convertibility is an input ([conv], a table computed by the
   real library for the types of the case). *)
From Coq Require Import String List Bool.
From HV Require Import Base.Sexp Base.SortSpec Model.Schema Model.Ref.
Import ListNotations.
Open Scope string_scope.

Record fdecl := { fd_name : string; fd_ret : ty }.

Record fcand := { fc_label : string; fc_newtext : string; fc_snippet : string }.

Section FuncCands.
  (* convert.Convert(cty.UnknownVal(from), to) succeeds *)
  Variable conv : ty -> ty -> bool.

  Definition func_fits (prefix : string) (expected : ty) (f : fdecl) : bool :=
    String.prefix prefix (fd_name f) && conv (fd_ret f) expected.

  Definition cand_of (f : fdecl) : fcand :=
    {| fc_label := fd_name f; fc_newtext := fd_name f ++ "()"; fc_snippet := fd_name f ++ "(${0})" |}.

  Definition fcand_ltb (a b : fcand) : bool := String.ltb (fc_label a) (fc_label b).

  (* [funcs] in the order the map happened to be visited *)
  Definition matching_functions (funcs : list fdecl) (prefix : string) (expected : ty) : list fcand :=
    stable_sort fcand_ltb (map cand_of (filter (func_fits prefix expected) funcs)).
End FuncCands.

Definition fdecl_of_sexp (x : sexp) : option fdecl :=
  match x with
  | SList [SStr n; t] => match ty_of_sexp t with Some t => Some {| fd_name := n; fd_ret := t |} | None => None end
  | _ => None
  end.

Definition sexp_of_fcand (c : fcand) : sexp := SList [SStr (fc_label c); SStr (fc_newtext c); SStr (fc_snippet c)].

(* (funccands conv ((name ret)...) prefix expected) -> ((label newtext snippet)...) *)
Definition run_func_cands (kind : string) (args : list sexp) : option sexp :=
  if String.eqb kind "funccands" then
    match args with
    | [SList cv; SList fs; SStr pfx; ty] =>
        match map_opt conv_entry_of_sexp cv, map_opt fdecl_of_sexp fs, ty_of_sexp ty with
        | Some cv, Some fs, Some ty => Some (SList (map sexp_of_fcand (matching_functions (conv_lookup cv) fs pfx ty)))
        | _, _, _ => None
        end
    | _ => None
    end
  else None.
