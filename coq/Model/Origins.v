(* Reference origins of one expression under one constraint: the value-level descent of
   decoder/expr_*_ref_origins.go, expr_any_{operator,template,conditional,for}.go and
   functionExpr.ReferenceOrigins.  hclsyntax's Variables() (used by the fallback) is an annotation
   [vars] on the nodes where the fallback can apply, filled in from the real library. *)
From Coq Require Import String List ZArith Bool.
From HV Require Import Base.Sexp Base.Str Base.Pos Model.Addr Model.DepKeys Model.Schema Model.Ref Model.Collect.
Import ListNotations.
Open Scope string_scope.

(* a traversal as written: its range, whether its root is "self", lang.TraversalToAddress *)
Inductive trav := Trav (rng : range) (is_self : bool) (addr : option address).

Inductive oexpr :=
| XTrav (t : trav)                                        (* ScopeTraversalExpr *)
| XTuple (vars : list trav) (elems : list oexpr)          (* TupleConsExpr *)
| XObject (vars : list trav) (items : list xitem)         (* ObjectConsExpr *)
| XTemplate (lit : bool) (parts : list oexpr)             (* TemplateExpr, IsStringLiteral *)
| XWrap (e : oexpr)                                       (* TemplateWrapExpr *)
| XBinary (ret p1 p2 : ty) (l r : oexpr)                  (* BinaryOpExpr: Op.Type, Op.Impl.Params() *)
| XUnary (ret p : ty) (e : oexpr)
| XParens (e : oexpr)
| XCond (c t f : oexpr)
| XFor (vars : list trav) (coll : oexpr) (key : option oexpr) (val : oexpr) (cond : option oexpr)
| XCall (name : string) (args : list oexpr)               (* hcl.ExprCall succeeds *)
| XOther (vars : list trav)                               (* anything else: literals, index, splat, ... *)
with xitem :=
| XItem (k : xkey) (v : oexpr)
with xkey :=
| KRaw (name : string) (rng : range)                      (* rawObjectKey succeeds *)
| KParens (e : oexpr) (rng : range)                       (* ( expr ) = ... *)
| KOther (rng : range).

Definition key_range (k : xkey) : range := match k with KRaw _ r | KParens _ r | KOther r => r end.

(* function signatures of the path context: parameter types and the variadic parameter's type *)
Definition fsigs := list (string * (list ty * option ty)).

Definition is_iterable (t : ty) : bool :=
  match t with TDyn | TList _ | TMap _ | TSet _ | TTuple _ | TObject _ => true | _ => false end.

Definition iter_key_type (t : ty) : option ty :=
  match t with
  | TDyn => Some TDyn | TList _ => Some TNum | TSet e => Some e | TTuple _ => Some TNum
  | TMap _ => Some TStr | TObject _ => Some TStr | _ => None
  end.

Definition iter_val_type (t : ty) : option ty :=
  match t with
  | TDyn => Some TDyn | TList e => Some e | TSet e => Some e | TTuple _ => Some TDyn
  | TMap e => Some e | TObject _ => Some TDyn | _ => None
  end.

Definition any_cons (t : ty) : list ocons := [{| oc_scope := ""; oc_type := t |}].

(* (originfor steps path scope type) of an object attribute *)
Record origin_for := { of_steps : list addr_step; of_path : path; of_scope : string; of_type : ty }.

(* resolveObjectAddress *)
Fixpoint object_address (name : string) (i : nat) (steps : list addr_step) : option address :=
  match steps with
  | [] => Some []
  | s :: r =>
      match (match s with AStatic n => Some n | AAttrName => Some name | _ => None end) with
      | None => None
      | Some n =>
          match object_address name (S i) r with
          | Some a => Some ((match i with O => SRoot n | _ => SAttr n end) :: a)
          | None => None
          end
      end
  end.

Section Origins.
  Variable conv : ty -> ty -> bool.
  Variable allow_self : bool.
  Variable funcs : fsigs.
  Variable origin_for_of : sexp -> option origin_for.

  Definition trav_origin (cs : list ocons) (t : trav) : list origin :=
    match t with
    | Trav r self addr =>
        match traversal_to_local_origin addr self r cs allow_self with Some o => [o] | None => [] end
    end.

  (* "collect any/all origins with vague constraint" *)
  Definition fallback (vars : list trav) : list origin := flat_map (trav_origin (any_cons TDyn)) vars.

  (* the five collection shapes a for expression's input may have, merged as a one-of *)
  Definition for_coll_types : list ty := [TList TDyn; TSet TDyn; TTuple []; TMap TDyn; TObject []].

  Fixpoint any_origins (t : ty) (e : oexpr) {struct e} : list origin :=
    let fix all (t : ty) (l : list oexpr) : list origin :=
      match l with [] => [] | x :: r => List.app (any_origins t x) (all t r) end in
    let key_origins (k : xkey) : list origin :=
      match k with KParens ke _ => any_origins TStr ke | _ => [] end in
    let fix map_items (el : ty) (l : list xitem) : list origin :=
      match l with
      | [] => []
      | XItem k v :: r => List.app (List.app (key_origins k) (any_origins el v)) (map_items el r)
      end in
    let fix obj_items (l : list xitem) : list origin :=
      match l with
      | [] => []
      | XItem k v :: r => List.app (key_origins k) (obj_items r)
      end in
    let fix args_origins (params : list ty) (varp : option ty) (l : list oexpr) : list origin :=
      match l with
      | [] => []
      | a :: r =>
          match params with
          | p :: ps => List.app (any_origins p a) (args_origins ps varp r)
          | [] => match varp with
                  | Some vt => List.app (any_origins vt a) (args_origins [] varp r)
                  | None => []                       (* too many arguments: stop *)
                  end
          end
      end in
    let non_complex : list origin :=
      match e with
      | XBinary ret p1 p2 l r => if conv ret t then List.app (any_origins p1 l) (any_origins p2 r) else []
      | XUnary ret p x => if conv ret t then any_origins p x else []
      | XParens x => any_origins t x
      | XTemplate lit parts => if lit then [] else all TStr parts
      | XWrap x => any_origins TStr x
      | XCond c a b => List.app (any_origins TBool c) (List.app (any_origins t a) (any_origins t b))
      | XFor vars coll key val cond =>
          match iter_key_type t, iter_val_type t with
          | Some kt, Some vt =>
              let c := fold_left (fun acc ct => append_origins acc (any_origins ct coll)) for_coll_types [] in
              let k := match key with Some ke => any_origins kt ke | None => [] end in
              let v := any_origins vt val in
              let d := match cond with Some ce => any_origins TBool ce | None => [] end in
              List.app c (List.app k (List.app v d))
          | _, _ => fallback vars
          end
      | XCall name args =>
          match alookup name funcs with
          | None => []
          | Some (params, varp) =>
              match params, varp with
              | [], None => []
              | _, _ => args_origins params varp args
              end
          end
      | XTrav tr => trav_origin (any_cons t) tr
      | XTuple vars _ => fallback vars
      | XObject vars _ => fallback vars
      | XOther vars => fallback vars
      end in
    match t, e with
    | TList el, XTuple _ elems => all el elems
    | TSet el, XTuple _ elems => all el elems
    | TTuple _, XTuple _ _ => []                 (* elements are literal-typed: no origins *)
    | TMap el, XObject _ items => map_items el items
    | TObject ats, XObject _ items => match ats with [] => [] | _ => obj_items items end
    | _, _ => non_complex
    end.

  (* originConstraintsFromCons *)
  Definition ref_cons (scope : string) (t : ty) (has_addr : bool) : list ocons :=
    if has_addr then []
    else match t with
         | TNil => if String.eqb scope "" then [] else [{| oc_scope := scope; oc_type := t |}]
         | _ => [{| oc_scope := scope; oc_type := t |}]
         end.

  Fixpoint cons_origins (c : constraint) (e : oexpr) {struct c} : list origin :=
    match c with
    | CAny t _ => any_origins t e
    | CRef scope t _ addr_scope =>
        match e with
        | XTrav tr => trav_origin (ref_cons scope t (match addr_scope with Some _ => true | None => false end)) tr
        | _ => []
        end
    | CList (Some ec) _ _ | CSet (Some ec) _ _ =>
        match e with
        | XTuple _ elems => flat_map (cons_origins ec) elems
        | _ => []
        end
    | CTuple es =>
        match e with
        | XTuple _ elems =>
            (fix zip (es : list constraint) (l : list oexpr) : list origin :=
               match es, l with
               | ec :: es', x :: l' => List.app (cons_origins ec x) (zip es' l')
               | _, _ => []
               end) es elems
        | _ => []
        end
    | CMap (Some ec) _ _ _ _ =>
        match e with
        | XObject _ items =>
            flat_map (fun it => match it with XItem k v =>
              List.app (match k with KParens ke _ => any_origins TStr ke | _ => [] end) (cons_origins ec v) end) items
        | _ => []
        end
    | CObject ats _ _ _ =>
        match e with
        | XObject _ items =>
            match ats with
            | [] => []
            | _ =>
              flat_map (fun it => match it with XItem k v =>
                List.app (match k with KParens ke _ => any_origins TStr ke | _ => [] end)
                  (match k with
                   | KRaw name krng =>
                       (fix find (l : list (string * attr_schema)) : list origin :=
                          match l with
                          | [] => []
                          | (n, a) :: r =>
                              if String.eqb n name then
                                List.app (cons_origins (as_cons a) v)
                                  (match a with AttrSchema _ _ _ _ _ _ _ og =>
                                     match origin_for_of og with
                                     | Some f =>
                                         match of_steps f with
                                         | [] => []
                                         | st => match object_address name 0 st with
                                                 | Some ad => [OPath krng ad (of_path f) [{| oc_scope := of_scope f; oc_type := of_type f |}]]
                                                 | None => []
                                                 end
                                         end
                                     | None => []
                                     end
                                   end)
                              else find r
                          end) ats
                   | _ => []
                   end) end) items
            end
        | _ => []
        end
    | COneOf cs =>
        (fix alts (l : list constraint) (acc : list origin) : list origin :=
           match l with
           | [] => acc
           | a :: r => alts r (append_origins acc (cons_origins a e))
           end) cs []
    | _ => []
    end.
End Origins.

(* convert.Convert(cty.UnknownVal(from), to) for the result types of HCL's operators (bool, number) *)
Definition prim_conv (from to : ty) : bool :=
  match to with
  | TDyn => true
  | TStr => match from with TBool | TNum | TStr => true | _ => false end
  | TBool => match from with TBool => true | _ => false end
  | TNum => match from with TNum => true | _ => false end
  | _ => false
  end.

(* ---------------- reader ---------------- *)
Definition trav_of_sexp (x : sexp) : option trav :=
  match x with
  | SList [r; s; a] =>
      match range_of_sexp r, as_bool s, opt_of_sexp addr_of_sexp a with
      | Some r, Some s, Some a => Some (Trav r s a)
      | _, _, _ => None
      end
  | _ => None
  end.

Definition travs_of_sexp (x : sexp) : option (list trav) :=
  match x with SList l => map_opt trav_of_sexp l | _ => None end.

Fixpoint oexpr_of_sexp (x : sexp) : option oexpr :=
  let fix many (l : list sexp) : option (list oexpr) :=
    match l with
    | [] => Some []
    | a :: r => match oexpr_of_sexp a, many r with Some e, Some es => Some (e :: es) | _, _ => None end
    end in
  let opt (x : sexp) : option (option oexpr) :=
    match x with SList [] => Some None | _ => option_map Some (oexpr_of_sexp x) end in
  let fix items (l : list sexp) : option (list xitem) :=
    match l with
    | [] => Some []
    | SList [k; v] :: r =>
        match (match k with
               | SList [SAtom "raw"; SStr n; rg] => option_map (KRaw n) (range_of_sexp rg)
               | SList [SAtom "parens"; ke; rg] =>
                   match oexpr_of_sexp ke, range_of_sexp rg with Some ke, Some rg => Some (KParens ke rg) | _, _ => None end
               | SList [SAtom "other"; rg] => option_map KOther (range_of_sexp rg)
               | _ => None
               end), oexpr_of_sexp v, items r with
        | Some k, Some v, Some r => Some (XItem k v :: r)
        | _, _, _ => None
        end
    | _ => None
    end in
  match x with
  | SList [SAtom "trav"; t] => option_map XTrav (trav_of_sexp t)
  | SList [SAtom "tuple"; vs; SList es] =>
      match travs_of_sexp vs, many es with Some vs, Some es => Some (XTuple vs es) | _, _ => None end
  | SList [SAtom "object"; vs; SList its] =>
      match travs_of_sexp vs, items its with Some vs, Some its => Some (XObject vs its) | _, _ => None end
  | SList [SAtom "template"; lit; SList ps] =>
      match as_bool lit, many ps with Some lit, Some ps => Some (XTemplate lit ps) | _, _ => None end
  | SList [SAtom "wrap"; e] => option_map XWrap (oexpr_of_sexp e)
  | SList [SAtom "binary"; rt; p1; p2; l; r] =>
      match ty_of_sexp rt, ty_of_sexp p1, ty_of_sexp p2, oexpr_of_sexp l, oexpr_of_sexp r with
      | Some rt, Some p1, Some p2, Some l, Some r => Some (XBinary rt p1 p2 l r)
      | _, _, _, _, _ => None
      end
  | SList [SAtom "unary"; rt; p; e] =>
      match ty_of_sexp rt, ty_of_sexp p, oexpr_of_sexp e with
      | Some rt, Some p, Some e => Some (XUnary rt p e) | _, _, _ => None end
  | SList [SAtom "parens"; e] => option_map XParens (oexpr_of_sexp e)
  | SList [SAtom "cond"; c; a; b] =>
      match oexpr_of_sexp c, oexpr_of_sexp a, oexpr_of_sexp b with
      | Some c, Some a, Some b => Some (XCond c a b) | _, _, _ => None end
  | SList [SAtom "for"; vs; coll; k; v; cnd] =>
      match travs_of_sexp vs, oexpr_of_sexp coll, opt k, oexpr_of_sexp v, opt cnd with
      | Some vs, Some coll, Some k, Some v, Some cnd => Some (XFor vs coll k v cnd)
      | _, _, _, _, _ => None
      end
  | SList [SAtom "call"; SStr n; SList args] => option_map (XCall n) (many args)
  | SList [SAtom "other"; vs] => option_map XOther (travs_of_sexp vs)
  | _ => None
  end.

Definition origin_for_of_sexp (x : sexp) : option origin_for :=
  match x with
  | SList [SAtom "originfor"; SList steps; SStr p; SStr sc; t] =>
      match map_opt addr_step_of_sexp steps, ty_of_sexp t with
      | Some st, Some t => Some {| of_steps := st; of_path := {| pa_path := p; pa_lang := "hcl" |}; of_scope := sc; of_type := t |}
      | _, _ => None
      end
  | _ => None
  end.

Definition fsig_of_sexp (x : sexp) : option (string * (list ty * option ty)) :=
  match x with
  | SList [SStr n; SList ps; vp] =>
      match map_opt ty_of_sexp ps, opt_of_sexp ty_of_sexp vp with
      | Some ps, Some vp => Some (n, (ps, vp))
      | _, _ => None
      end
  | _ => None
  end.

(* (exprorigins allow-self (funcs...) CONSTRAINT EXPR) -> (origins...) *)
Definition run_origins (kind : string) (args : list sexp) : option sexp :=
  if String.eqb kind "exprorigins" then
    match args with
    | [self; SList fs; c; e] =>
        match as_bool self, map_opt fsig_of_sexp fs, cons_of_sexp c, oexpr_of_sexp e with
        | Some self, Some fs, Some c, Some e =>
            Some (SList (map sexp_of_origin (cons_origins prim_conv self fs origin_for_of_sexp c e)))
        | _, _, _, _ => None
        end
    | _ => None
    end
  else None.
