(* decoder/internal/schemahelper: dependency keys of a block, dependent body lookup,
   MergeBlockBodySchemas, dynamic-block schema, count/for_each attribute schemas. *)
From Coq Require Import String Ascii List ZArith Bool.
From HV Require Import Base.Sexp Base.Str Base.Pos Model.Addr Model.DepKeys Model.Schema Model.Ast.
Import ListNotations.
Open Scope string_scope.

Definition nl : string := String (ascii_of_nat 10) "".

Definition no_flags : attr_flags :=
  {| af_required := false; af_optional := false; af_computed := false; af_deprecated := false;
     af_sensitive := false; af_writeonly := false; af_depkey := false |}.
Definition optional_flags : attr_flags :=
  {| af_required := false; af_optional := true; af_computed := false; af_deprecated := false;
     af_sensitive := false; af_writeonly := false; af_depkey := false |}.
Definition required_flags : attr_flags :=
  {| af_required := true; af_optional := false; af_computed := false; af_deprecated := false;
     af_sensitive := false; af_writeonly := false; af_depkey := false |}.

Definition nil_sexp : sexp := SList [].

(* schemahelper.CountAttributeSchema / ForEachAttributeSchema *)
Definition count_attr_schema : attr_schema :=
  AttrSchema optional_flags None
    ("Total number of instances of this block." ++ nl ++ nl ++ "**Note**: A given block cannot use both `count` and `for_each`.")
    (CAny TNum false) [] 0 nil_sexp nil_sexp.

Definition for_each_attr_schema : attr_schema :=
  AttrSchema optional_flags None
    ("A meta-argument that accepts a map or a set of strings, and creates an instance for each item in that map or set." ++ nl ++ nl ++ "**Note**: A given block cannot use both `count` and `for_each`.")
    (COneOf [CAny (TMap TDyn) false; CAny (TSet TStr) false; CAny (TObject []) false]) [] 0 nil_sexp nil_sexp.

(* ---- dependencyKeysFromBlock ---- *)
Fixpoint label_keys (i : nat) (ls : list label_schema) (labels : list string) : list label_dep * bool :=
  (* returns (keys, complete?) ; complete = false means "mismatching label schema": early return *)
  match ls with
  | [] => ([], true)
  | l :: r =>
      if ls_depkey l then
        match nth_error labels i with
        | None => ([], false)
        | Some v =>
            let '(ks, ok) := label_keys (S i) r labels in
            ({| ld_index := Z.of_nat i; ld_value := v |} :: ks, ok)
        end
      else label_keys (S i) r labels
  end.

(* the keys found before a mismatching label are kept: Go returns dk as built so far *)
Fixpoint label_keys_prefix (i : nat) (ls : list label_schema) (labels : list string) : list label_dep :=
  match ls with
  | [] => []
  | l :: r =>
      if ls_depkey l then
        match nth_error labels i with
        | None => []
        | Some v => {| ld_index := Z.of_nat i; ld_value := v |} :: label_keys_prefix (S i) r labels
        end
      else label_keys_prefix (S i) r labels
  end.

Inductive key_static := KStatic (v : static_val) | KJson (j : string) | KBad.

Record attr_key := { ak_name : string; ak_static : key_static; ak_addr : address }.

Definition attr_key_for (name : string) (s : attr_schema) (attrs : list attr) : option attr_key :=
  if negb (af_depkey (as_flags s)) then None else
  match find_attr name attrs with
  | Some a =>
      match a_expr a with
      | ETraversal _ None => None                      (* unparsable traversal: skipped *)
      | ETraversal _ (Some ad) => Some {| ak_name := name; ak_static := KStatic SVNone; ak_addr := ad |}
      | _ =>
          match a_val a with
          | EvSkip => None
          | EvStatic v => Some {| ak_name := name; ak_static := KStatic v; ak_addr := [] |}
          | EvJson j => Some {| ak_name := name; ak_static := KJson j; ak_addr := [] |}
          | EvUnmarshalable => Some {| ak_name := name; ak_static := KBad; ak_addr := [] |}
          end
      end
  | None =>
      match as_default s with
      | Some v => Some {| ak_name := name; ak_static := KStatic v; ak_addr := [] |}
      | None => None
      end
  end.

Fixpoint attr_keys (sattrs : list (string * attr_schema)) (attrs : list attr) : list attr_key :=
  match sattrs with
  | [] => []
  | (n, s) :: r =>
      match attr_key_for n s attrs with
      | Some k => k :: attr_keys r attrs
      | None => attr_keys r attrs
      end
  end.

Record dep_keys := { dk_labels : list label_dep; dk_attrs : list attr_key }.

Definition dependency_keys (labels_schema : list label_schema) (body_s : option body_schema) (k : block) : dep_keys :=
  let '(_, complete) := label_keys 0 labels_schema (k_labels k) in
  let ls := label_keys_prefix 0 labels_schema (k_labels k) in
  if negb complete then {| dk_labels := ls; dk_attrs := [] |} else
  match body_s with
  | None => {| dk_labels := ls; dk_attrs := [] |}
  | Some bs => {| dk_labels := ls; dk_attrs := attr_keys (bs_attrs bs) (b_attrs (k_body k)) |}
  end.

(* rendering of the key: None = MarshalJSON error *)
Definition attr_key_json (a : attr_key) : option string :=
  let addr := addr_string (ak_addr a) in
  let st := match ak_static a with
            | KStatic v => Some (static_json v)
            | KJson j => Some (Some j)
            | KBad => None
            end in
  match st with
  | None => None
  | Some st =>
      let fields := List.app (match st with Some s => ["""static"":" ++ s] | None => [] end)
                             (if String.eqb addr "" then [] else ["""addr"":" ++ json_string addr]) in
      Some ("{""name"":" ++ json_string (ak_name a) ++ ",""expr"":{" ++ join "," fields ++ "}}")
  end.

Definition ak_expr_json (a : attr_key) : string :=
  match attr_key_json a with
  | Some s => s          (* name is a common prefix of both sides of a tie, so comparing the whole item is the same *)
  | None => ""
  end.
Definition ak_ltb (a b : attr_key) : bool :=
  pair_ltb (ak_name a, ak_expr_json a) (ak_name b, ak_expr_json b).

Definition dep_keys_json (dk : dep_keys) : option string :=
  match map_opt attr_key_json (Base.SortSpec.stable_sort ak_ltb (dk_attrs dk)) with
  | None => None
  | Some ajs =>
      let fields := List.app
        (match dk_labels dk with [] => [] | _ => ["""labels"":[" ++ join "," (map label_json (sorted_labels (dk_labels dk))) ++ "]"] end)
        (match dk_attrs dk with [] => [] | _ => ["""attrs"":[" ++ join "," ajs ++ "]"] end) in
      Some ("{" ++ join "," fields ++ "}")
  end.

Inductive lookup_result := LookupFailed | LookupSuccessful | LookupPartiallySuccessful | NoDependentKeys.

Definition has_dep_key_attr (b : body_schema) : bool :=
  existsb (fun p => af_depkey (as_flags (snd p))) (bs_attrs b).

(* blockSchema.DependentBodySchema; [seen] = seenNestedDepKeys; body_s = the Body in force *)
Definition dependent_body_schema_step (labels_schema : list label_schema) (dep : list (string * body_schema))
    (body_s : option body_schema) (k : block) : option body_schema * dep_keys * lookup_result :=
  let dk := dependency_keys labels_schema body_s k in
  match dep_keys_json dk with
  | None => (None, {| dk_labels := []; dk_attrs := [] |}, LookupFailed)
  | Some key =>
      match dk_labels dk, dk_attrs dk with
      | [], [] => (body_s, {| dk_labels := []; dk_attrs := [] |}, NoDependentKeys)
      | _, _ =>
          match alookup key dep with
          | Some db => (Some db, dk, LookupSuccessful)
          | None => (None, dk, LookupFailed)
          end
      end
  end.

Definition dependent_body_schema (bs : block_schema) (k : block) : option body_schema * dep_keys * lookup_result :=
  let '(r1, dk1, res1) := dependent_body_schema_step (bk_labels bs) (bk_dep bs) (bk_body bs) k in
  match res1, r1 with
  | LookupSuccessful, Some db =>
      if has_dep_key_attr db then
        let '(r2, dk2, res2) := dependent_body_schema_step (bk_labels bs) (bk_dep bs) (Some db) k in
        match res2 with
        | LookupSuccessful => (r2, dk2, LookupSuccessful)
        | _ => (Some db, dk1, LookupPartiallySuccessful)
        end
      else (Some db, dk1, LookupSuccessful)
  | _, _ => (r1, dk1, res1)
  end.

(* ---- buildDynamicBlockSchema ---- *)
Definition set_dynamic (e : option extensions) : option extensions :=
  match e with
  | None => Some {| ext_count := false; ext_for_each := false; ext_dynamic := true; ext_self_refs := false |}
  | Some x => Some {| ext_count := ext_count x; ext_for_each := ext_for_each x; ext_dynamic := true; ext_self_refs := ext_self_refs x |}
  end.

Definition body_with_ext (b : body_schema) (e : option extensions) : body_schema :=
  match b with BodySchema a an bl _ dc ds dt hu tg im tgs => BodySchema a an bl e dc ds dt hu tg im tgs end.

Definition block_with_body (k : block_schema) (b : option body_schema) : block_schema :=
  match k with BlockSchema l t _ d mn mx dp ds md ad => BlockSchema l t b d mn mx dp ds md ad end.

Definition propagate_dynamic (k : block_schema) : block_schema :=
  match bk_body k with
  | None => k
  | Some b => block_with_body k (Some (body_with_ext b (set_dynamic (bs_ext b))))
  end.

Definition empty_body : body_schema := BodySchema [] None [] None None "" "" "" [] [] nil_sexp.

Definition content_block (body : option body_schema) : block_schema :=
  BlockSchema [] BTNil body [] 1 1 false "The body of each generated block" [] nil_sexp.

Definition dynamic_key (block_name : string) : string :=
  schema_key [{| ld_index := 0; ld_value := block_name |}] [].

Fixpoint dynamic_dep (names : list string) (source : list (string * block_schema)) : list (string * body_schema) :=
  match names with
  | [] => []
  | n :: r =>
      let body := match alookup n source with Some k => bk_body k | None => None end in
      aset (dynamic_key n)
           (BodySchema [] None [("content", content_block body)] None None "" "" "" [] [] nil_sexp)
           (dynamic_dep r source)
  end.

Definition dynamic_block_schema (input_blocks : list string) (source : list (string * block_schema)) : block_schema :=
  BlockSchema
    [{| ls_name := "name"; ls_depkey := true; ls_completable := true; ls_mods := []; ls_desc := "" |}]
    BTNil
    (Some (BodySchema
      [("for_each", AttrSchema required_flags None
          "A meta-argument that accepts a list, map or a set of strings, and creates an instance for each item in that list, map or set."
          (COneOf [CAny (TMap TDyn) false; CAny (TList TDyn) false; CAny (TSet TStr) false]) [] 0 nil_sexp nil_sexp);
       ("iterator", AttrSchema optional_flags None
          "The name of a temporary variable that represents the current element of the complex value. Defaults to the label of the dynamic block."
          (CLitType TStr false) [] 0 nil_sexp nil_sexp);
       ("labels", AttrSchema optional_flags None
          "A list of strings that specifies the block labels, in order, to use for each generated block."
          (CAny (TList TStr) false) [] 0 nil_sexp nil_sexp)]
      None [] None None "" "" "" [] [] nil_sexp))
    (dynamic_dep input_blocks source) 0 0 false
    "A dynamic block to produce blocks dynamically by iterating over a given complex value" [] nil_sexp.

(* ---- MergeBlockBodySchemas ---- *)
Fixpoint overlay_attrs (dep : list (string * attr_schema)) (m : list (string * attr_schema)) :=
  match dep with [] => m | (n, a) :: r => overlay_attrs r (aset n a m) end.

Fixpoint overlay_blocks (dyn : bool) (dep : list (string * block_schema)) (m : list (string * block_schema)) :=
  match dep with
  | [] => m
  | (n, k) :: r => overlay_blocks dyn r (aset n (if dyn then propagate_dynamic k else k) m)
  end.

Definition merge_block_body_schemas (bs : block_schema) (k : block) : body_schema * lookup_result :=
  let m := match bk_body bs with Some b => b | None => empty_body end in
  let '(dep, _, res) := dependent_body_schema bs k in
  let dyn := ext_has ext_dynamic (bs_ext m) in
  match res, dep with
  | (LookupSuccessful | LookupPartiallySuccessful), Some d =>
      let attrs := overlay_attrs (bs_attrs d) (bs_attrs m) in
      let blocks1 := overlay_blocks dyn (bs_blocks d) (bs_blocks m) in
      let blocks2 := if dyn && negb (match bs_blocks d with [] => true | _ => false end)
                     then aset "dynamic" (dynamic_block_schema (akeys (bs_blocks d)) blocks1) blocks1
                     else blocks1 in
      (BodySchema attrs (bs_any m) blocks2
         (match bs_ext d with Some e => Some e | None => bs_ext m end)
         (bs_docs d) (bs_desc m) (bs_detail m) (bs_hover_url m)
         (List.app (bs_targetable m) (bs_targetable d)) (List.app (bs_implied m) (bs_implied d)) (bs_targets d), res)
  | _, _ =>
      match res with
      | LookupFailed | NoDependentKeys =>
          if dyn && negb (match bs_blocks m with [] => true | _ => false end) then
            let blocks1 := map (fun p => (fst p, propagate_dynamic (snd p))) (bs_blocks m) in
            let blocks2 := aset "dynamic" (dynamic_block_schema (akeys blocks1) blocks1) blocks1 in
            (BodySchema (bs_attrs m) (bs_any m) blocks2 (bs_ext m) (bs_docs m) (bs_desc m) (bs_detail m)
               (bs_hover_url m) (bs_targetable m) (bs_implied m) (bs_targets m), res)
          else (m, res)
      | _ => (m, res)
      end
  end.

(* ---- runner entries ---- *)
Definition sexp_of_result (r : lookup_result) : sexp :=
  SAtom (match r with LookupFailed => "failed" | LookupSuccessful => "successful"
                    | LookupPartiallySuccessful => "partial" | NoDependentKeys => "nokeys" end).

Definition block_of_body_sexp (x : sexp) : option block :=
  match Ast.body_of_sexp (SList [SAtom "body"; SList []; SList [x];
                                 SList [SAtom "rng"; SStr ""; SAtom "0"; SAtom "0"; SAtom "0"; SAtom "0"; SAtom "0"; SAtom "0"];
                                 SList [SAtom "rng"; SStr ""; SAtom "0"; SAtom "0"; SAtom "0"; SAtom "0"; SAtom "0"; SAtom "0"]]) with
  | Some (Body _ [k] _ _) => Some k
  | _ => None
  end.

(* (merge BLOCKSCHEMA BLOCK) -> (merged RESULT BODY) *)
Definition run_merge (args : list sexp) : option sexp :=
  match args with
  | [bs; k] =>
      match Schema.block_of_sexp bs, block_of_body_sexp k with
      | Some bs, Some k =>
          let '(m, res) := merge_block_body_schemas bs k in
          Some (SList [SAtom "merged"; sexp_of_result res; sexp_of_body m])
      | _, _ => None
      end
  | _ => None
  end.
