(* LinksInFile (decoder/links.go): documentation links of the top-level blocks of a file, attached to the
   labels and attribute values that selected the body carrying the link.  The decoration of the URL
   (net/url parsing and re-encoding with the decoder's UTM options) is a table computed with the Go library. *)
From Coq Require Import String List ZArith Bool.
From HV Require Import Base.Sexp Base.Str Base.Pos Model.Addr Model.DepKeys Model.Schema Model.Ast Model.Merge.
Import ListNotations.
Open Scope string_scope.
Open Scope list_scope.

Record link := { lk_uri : string; lk_tooltip : string; lk_rng : range }.

Section Links.
  Variable url : string -> option string.      (* docsURL: None = the URL does not parse *)

  Definition block_links (ks : block_schema) (k : block) : list link :=
    match dependent_body_schema ks k with
    | (Some dep, dk, (LookupSuccessful | LookupPartiallySuccessful | NoDependentKeys)) =>
        match bs_docs dep with
        | Some (u, tip) =>
            match url u with
            | Some u' =>
                flat_map (fun ld => match nth_error (k_label_rngs k) (Z.to_nat (ld_index ld)) with
                                    | Some r => [{| lk_uri := u'; lk_tooltip := tip; lk_rng := r |}]
                                    | None => []
                                    end) (dk_labels dk)
                ++ flat_map (fun ak => match find_attr (ak_name ak) (b_attrs (k_body k)) with
                                       | Some a => [{| lk_uri := u'; lk_tooltip := tip; lk_rng := expr_range (a_expr a) |}]
                                       | None => []       (* the key comes from a default value *)
                                       end) (dk_attrs dk)
            | None => []
            end
        | None => []
        end
    | _ => []
    end.

  Definition links_in_body (bs : body_schema) (b : body) : list link :=
    flat_map (fun k => match alookup (k_type k) (bs_blocks bs) with
                       | Some ks => block_links ks k
                       | None => []
                       end) (b_blocks b).
End Links.

(* (links SCHEMA BODY ((url decorated)...)) -> ((uri tooltip range)...) *)
Definition run_links (kind : string) (args : list sexp) : option sexp :=
  if String.eqb kind "links" then
    match args with
    | [sch; b; SList us] =>
        match Schema.body_of_sexp sch, Ast.body_of_sexp b,
              map_opt (fun x => match x with
                                | SList [SStr a; SStr d] => Some (a, Some d)
                                | SList [SStr a; SList []] => Some (a, None)
                                | _ => None end) us with
        | Some sch, Some b, Some us =>
            let url u := match alookup u us with Some r => r | None => None end in
            Some (SList (map (fun l => SList [SStr (lk_uri l); SStr (lk_tooltip l); sexp_of_range (lk_rng l)]) (links_in_body url sch b)))
        | _, _, _ => None
        end
    | _ => None
    end
  else None.
