(* HoverAtPos inside attribute values: which sub-expression answers, i.e. the RANGE of the hover data
   (decoder/expr_*_hover.go, the hover parts of expr_any_{operator,template,conditional,for,index}.go and
   expr_function.go).  The content of the hover is not modelled here.

   Inputs computed with the real library: whether a written reference resolves, the static values of
   expressions (LiteralValue), and for type declarations the ranges of parentheses / opening brackets and
   whether typeexpr.TypeConstraint accepts an expression. *)
From Coq Require Import String Ascii List ZArith Bool.
From HV Require Import Base.Sexp Base.Str Base.SortSpec Base.Pos Model.Addr Model.DepKeys Model.Schema Model.Ast Model.Merge
                       Model.Ref Model.Collect Model.Origins Model.ValueTargets Model.BodyQueries Model.ValueTokens.
Import ListNotations.
Open Scope string_scope.
Open Scope list_scope.

(* None = out of fuel; Some None = no hover; Some (Some r) = hover data with range r *)
Definition hres := option (option range).
Definition hnil : hres := Some None.
Definition hret (r : range) : hres := Some (Some r).

Definition range_table := list (range * range).
Fixpoint lookup_range (l : range_table) (r : range) : option range :=
  match l with [] => None | (k, v) :: rest => if range_eqb k r then Some v else lookup_range rest r end.

Section Descent.
  Variable funcs : fsigs.
  Variable vals : list (range * sexp).
  Variable parens : range_table.        (* call expression -> from its opening to its closing parenthesis *)
  Variable opens : range_table.         (* object / tuple constructor -> its opening bracket *)
  Variable typeok : list range.         (* expressions typeexpr.TypeConstraint accepts without diagnostics *)
  Variable pos : pos.
  Variable rec : constraint -> sexpr -> hres.
  Variable rec_type : sexpr -> hres.

  Definition at_pos (r : range) : bool := contains_pos r pos.
  Definition first_at (l : list sexpr) : option sexpr := find (fun x => at_pos (se_rng x)) l.
  Definition orec (c : option constraint) (e : sexpr) : hres := match c with Some c => rec c e | None => hnil end.

  Definition list_hover (elem : option constraint) (e : sexpr) : hres :=
    match se_node e with
    | NTuple elems => match first_at elems with Some x => orec elem x | None => hret (se_rng e) end
    | _ => hnil
    end.

  Fixpoint tuple_walk (cs : list constraint) (elems : list sexpr) : option hres :=
    match cs, elems with
    | c :: cs', x :: xs' => if at_pos (se_rng x) then Some (rec c x) else tuple_walk cs' xs'
    | _, _ => None
    end.

  Definition tuple_hover (cs : list constraint) (e : sexpr) : hres :=
    match se_node e with
    | NTuple elems => match tuple_walk cs elems with Some h => h | None => hret (se_rng e) end
    | _ => hnil
    end.

  Fixpoint map_walk (elem : option constraint) (interp : bool) (items : list sitem) : option hres :=
    match items with
    | [] => None
    | SItem krng k v :: r =>
        if at_pos krng then
          Some (match k with SKParens pe => if interp then rec (CAny TStr false) pe else hnil | _ => hnil end)
        else if at_pos (se_rng v) then Some (orec elem v)
        else map_walk elem interp r
    end.

  Definition map_hover (elem : option constraint) (interp : bool) (e : sexpr) : hres :=
    match se_node e with
    | NObject items => match map_walk elem interp items with Some h => h | None => hret (se_rng e) end
    | _ => hnil
    end.

  Fixpoint object_walk (ats : list (string * constraint)) (interp : bool) (items : list sitem) : option hres :=
    match items with
    | [] => None
    | SItem krng k v :: r =>
        let known := match k with SKRaw name => alookup name ats | _ => None end in
        let on_key : option hres :=
          if at_pos krng then
            match k, interp with
            | SKParens pe, true => Some (rec (CAny TStr false) pe)
            | _, _ => match known with Some _ => Some (hret (range_between krng (se_rng v))) | None => None end
            end
          else None in
        match on_key with
        | Some h => Some h
        | None =>
            match known with
            | Some c => if at_pos (se_rng v) then Some (rec c v) else object_walk ats interp r
            | None => object_walk ats interp r
            end
        end
    end.

  Definition object_hover (ats : list (string * constraint)) (interp : bool) (e : sexpr) : hres :=
    match se_node e with
    | NObject items => match object_walk ats interp items with Some h => h | None => hret (se_rng e) end
    | _ => hnil
    end.

  Definition by_type_hover (lit : bool) (typ : ty) (e : sexpr) : hres :=
    let c t := if lit then CLitType t false else CAny t false in
    match typ with
    | TList el => match se_node e with NTuple _ => list_hover (Some (c el)) e | _ => hnil end
    | TSet el => match se_node e with NTuple _ => list_hover (Some (c el)) e | _ => hnil end
    | TTuple ts =>
        (* (an any-expression of tuple type hands its elements to literal types, unlike lists and sets) *)
        match se_node e with NTuple _ => tuple_hover (map (fun t => CLitType t false) ts) e | _ => hnil end
    | TMap el => match se_node e with NObject _ => map_hover (Some (c el)) (negb lit) e | _ => hnil end
    | TObject ats => match se_node e with NObject _ => object_hover (lit_attrs ats) (negb lit) e | _ => hnil end
    | _ => hnil
    end.

  Definition literal_type_hover (t : ty) (e : sexpr) : hres :=
    let typ := if is_dyn t then match se_vt e with Some t' => t' | None => t end else t in
    let prim_part :=
      if is_prim typ then
        match se_node e with
        | NLit lt => if lit_convertible lt typ then hret (se_rng e) else hnil
        | _ => hnil
        end
      else by_type_hover true typ e in
    match typ, se_node e with
    | TStr, NTemplate lit parts => if lit || all_string_parts parts then hret (se_rng e) else prim_part
    | _, _ => prim_part
    end.

  Definition literal_value_hover (cv : sexp) (t : ty) (e : sexpr) : hres :=
    let lv (v : sexp) := CLitValue v (val_type v) false in
    match t with
    | TStr =>
        match se_node e, value_of vals e with
        | NTemplate lit parts, Some v => if sexp_eqb cv v && (lit || all_string_parts parts) then hret (se_rng e) else hnil
        | _, _ => hnil
        end
    | TBool | TNum =>
        match se_node e, value_of vals e with
        | NLit _, Some v => if sexp_eqb cv v then hret (se_rng e) else hnil
        | _, _ => hnil
        end
    | TList el =>
        match se_node e with
        | NTuple elems =>
            let fix go (vs : list sexp) (l : list sexpr) : option hres :=
              match l with
              | [] => None
              | x :: l' =>
                  match vs with
                  | [] => Some hnil                                  (* more elements than the fixed value has *)
                  | v :: vs' =>
                      if at_pos (se_rng x) then
                        match value_of vals x with
                        | Some xv => Some (if sexp_eqb v xv then rec (lv v) x else hnil)
                        | None => go vs' l'
                        end
                      else go vs' l'
                  end
              end in
            match go (val_elems cv) elems with
            | Some h => h
            | None => list_hover (Some (CLitType el false)) e
            end
        | _ => hnil
        end
    | TSet el =>
        match se_node e with
        | NTuple elems =>
            let members := val_elems cv in
            let fix go (n : nat) (l : list sexpr) : option hres :=
              match l with
              | [] => None
              | x :: l' =>
                  match n with
                  | O => Some hnil
                  | S n' =>
                      if at_pos (se_rng x) then
                        match value_of vals x with
                        | Some xv => Some (if ty_eqb el (val_type xv) && existsb (sexp_eqb xv) members then rec (lv xv) x else hnil)
                        | None => go n' l'
                        end
                      else go n' l'
                  end
              end in
            match go (length members) elems with
            | Some h => h
            | None => list_hover (Some (CLitType el false)) e
            end
        | _ => hnil
        end
    | TTuple ts => match se_node e with NTuple _ => tuple_hover (map (fun x => CLitType x false) ts) e | _ => hnil end
    | TMap el =>
        match se_node e with
        | NObject items =>
            let entries := val_entries cv in
            let fix go (l : list sitem) : option hres :=
              match l with
              | [] => None
              | SItem _ (SKRaw k) x :: l' =>
                  match alookup k entries with
                  | None => Some hnil
                  | Some v =>
                      if at_pos (se_rng x) then
                        match value_of vals x with
                        | Some xv => Some (if sexp_eqb v xv then rec (lv xv) x else hnil)
                        | None => go l'
                        end
                      else go l'
                  end
              | _ => Some hnil
              end in
            match go items with
            | Some h => h
            | None => map_hover (Some (CLitType el false)) false e
            end
        | _ => hnil
        end
    | TObject ats => match se_node e with NObject _ => object_hover (lit_attrs ats) false e | _ => hnil end
    | _ => hnil
    end.

  Definition reference_hover (e : sexpr) : hres :=
    match se_node e with NTrav _ _ true => hret (se_rng e) | _ => hnil end.

  Definition function_hover (e : sexpr) : hres :=
    match se_node e with
    | NCall name nrng args =>
        match alookup name funcs with
        | None => hnil
        | Some (params, varp) =>
            if at_pos nrng then hret (se_rng e)
            else
              match params, varp with
              | [], None => hnil
              | _, _ =>
                  let fix go (ps : list ty) (l : list sexpr) : hres :=
                    match l with
                    | [] => hnil
                    | a :: r =>
                        match ps with
                        | p :: ps' => if at_pos (se_rng a) then rec (CAny p false) a else go ps' r
                        | [] => match varp with
                                | Some vp => if at_pos (se_rng a) then rec (CAny vp false) a else go [] r
                                | None => hnil
                                end
                        end
                    end in
                  go params args
              end
        end
    | _ => hnil
    end.

  Definition any_simple_hover (t : ty) (skip : bool) (e : sexpr) : hres :=
    let fallback :=
      match reference_hover e with
      | Some (Some r) => hret r
      | None => None
      | Some None =>
          match function_hover e with
          | Some None => literal_type_hover t e
          | x => x
          end
      end in
    match se_node e with
    | NBinary rt p1 p2 l r =>
        if prim_conv rt t then
          (if at_pos (se_rng l) then rec (CAny p1 false) l else if at_pos (se_rng r) then rec (CAny p2 false) r else hnil)
        else hnil
    | NUnary rt p x => if prim_conv rt t then (if at_pos (se_rng x) then rec (CAny p false) x else hnil) else hnil
    | NParens x => if at_pos (se_rng x) then rec (CAny t skip) x else fallback
    | NTemplate true _ => fallback
    | NTemplate false parts => match first_at parts with Some p => rec (CAny TStr false) p | None => hnil end
    | NWrap x => if at_pos (se_rng x) then rec (CAny TStr false) x else hnil
    | NCond c a b =>
        if at_pos (se_rng c) then rec (CAny TBool false) c
        else if at_pos (se_rng a) then rec (CAny TDyn false) a
        else if at_pos (se_rng b) then rec (CAny TDyn false) b
        else fallback
    | NFor coll key val cond =>
        if is_iterable t then
          if at_pos (se_rng coll) then rec (CAny t skip) coll
          else
            match (match key with Some k => if at_pos (se_rng k) then Some k else None | None => None end) with
            | Some k => match iter_key_type t with Some kt => rec (CAny kt false) k | None => fallback end
            | None =>
                if at_pos (se_rng val) then
                  match iter_val_type t with Some vt' => rec (CAny vt' false) val | None => fallback end
                else
                  match cond with
                  | Some c => if at_pos (se_rng c) then rec (CAny TBool false) c else fallback
                  | None => fallback
                  end
            end
        else fallback
    | NIndex k => if at_pos (se_rng k) then rec (CAny TStr false) k else fallback
    | _ => fallback
    end.

  Definition any_hover (t : ty) (skip : bool) (e : sexpr) : hres :=
    match t, se_node e with
    | (TList _ | TSet _ | TTuple _), NTuple _ => by_type_hover false t e
    | (TMap _ | TObject _), NObject _ =>
        match t with
        | TObject ats => object_hover (lit_attrs ats) true e
        | _ => by_type_hover false t e
        end
    | _, _ => any_simple_hover t skip e
    end.

  Fixpoint one_of_hover (cs : list constraint) (e : sexpr) : hres :=
    match cs with
    | [] => hnil
    | c :: r => match rec c e with Some None => one_of_hover r e | x => x end
    end.

  Definition close_range (r : range) : range :=
    {| r_file := r_file r;
       r_start := {| p_line := p_line (r_end r); p_col := p_col (r_end r) - 1; p_byte := p_byte (r_end r) - 1 |};
       r_end := r_end r |}.

  Definition type_ok (r : range) : bool := existsb (range_eqb r) typeok.

  Definition type_decl_hover (e : sexpr) : hres :=
    match se_node e with
    | NTrav _ [_] _ => if at_pos (se_rng e) then hret (se_rng e) else hnil
    | NCall name nrng args =>
        if at_pos nrng then (if type_ok (se_rng e) then hret (se_rng e) else hnil)
        else
          match lookup_range parens (se_rng e) with
          | Some pr =>
              if at_pos pr then
                if is_elem_type_name name then
                  match args with
                  | [a] => if at_pos (se_rng a) then rec_type a else hnil
                  | _ => hnil
                  end
                else if String.eqb name "object" then
                  match args with
                  | [a] =>
                      match se_node a with
                      | NObject items =>
                          if at_pos (se_rng a) then
                            let on_bracket := (match lookup_range opens (se_rng a) with Some o => at_pos o | None => false end)
                                              || at_pos (close_range (se_rng a)) in
                            if on_bracket then (if type_ok (se_rng e) then hret (se_rng a) else hnil)
                            else
                              let fix go (l : list sitem) : hres :=
                                match l with
                                | [] => hnil
                                | SItem krng k v :: r =>
                                    if at_pos krng then
                                      match k with SKRaw _ => hret (range_between krng (se_rng v)) | _ => hnil end
                                    else if at_pos (se_rng v) then rec_type v
                                    else go r
                                end in
                              go items
                          else hnil
                      | _ => hnil
                      end
                  | _ => hnil
                  end
                else if String.eqb name "tuple" then
                  match args with
                  | [a] =>
                      match se_node a with
                      | NTuple elems =>
                          if at_pos (se_rng a) then
                            let on_bracket := (match lookup_range opens (se_rng a) with Some o => at_pos o | None => false end)
                                              || at_pos (close_range (se_rng a)) in
                            if on_bracket then (if type_ok (se_rng e) then hret (se_rng e) else hnil)
                            else match first_at elems with Some x => rec_type x | None => hnil end
                          else hnil
                      | _ => hnil
                      end
                  | _ => hnil
                  end
                else hnil
              else hnil
          | None => hnil
          end
    | _ => hnil
    end.

  Definition step_hover (c : constraint) (e : sexpr) : hres :=
    match c with
    | CAny t skip => any_hover t skip e
    | CLitType t _ => literal_type_hover t e
    | CLitValue v t _ => literal_value_hover v t e
    | CKeyword kw _ =>
        match se_node e with
        | NTrav root [_] _ => if String.eqb root kw then hret (se_rng e) else hnil
        | _ => hnil
        end
    | CRef _ _ _ _ => reference_hover e
    | CTypeDecl => type_decl_hover e
    | CList elem _ _ | CSet elem _ _ => list_hover elem e
    | CTuple cs => tuple_hover cs e
    | CMap elem _ interp _ _ => map_hover elem interp e
    | CObject ats _ _ interp => object_hover (obj_attrs ats) interp e
    | COneOf cs => one_of_hover cs e
    end.
End Descent.

Fixpoint type_hover (parens opens : range_table) (typeok : list range) (p : pos) (fuel : nat) (e : sexpr) : hres :=
  match fuel with
  | O => None
  | S n => type_decl_hover parens opens typeok p (type_hover parens opens typeok p n) e
  end.

Fixpoint value_hover (funcs : fsigs) (vals : list (range * sexp)) (parens opens : range_table) (typeok : list range)
         (p : pos) (fuel : nat) (c : constraint) (e : sexpr) : hres :=
  match fuel with
  | O => None
  | S n => step_hover funcs vals parens opens typeok p (value_hover funcs vals parens opens typeok p n)
                      (type_hover parens opens typeok p n) c e
  end.

(* ---------------- the whole file: body level (Model/Hover.v) + values ---------------- *)
From HV Require Import Model.Completion Model.Hover.

Section File.
  Variable p : pos.

  (* the attribute whose value the body-level walk delegates to, with the schema in force there: the same path
     as hover_body (first attribute claiming the position, else the block containing it, with the merged schema) *)
  Fixpoint delegated_attr (fuel : nat) (b : body) (bs : body_schema) : option (attr * attr_schema) :=
    match fuel with
    | O => None
    | S n =>
        let fix attrs (l : list attr) : option (option (attr * attr_schema)) :=
          match l with
          | [] => None
          | a :: rest =>
              if contains_pos (a_rng a) p then
                match hover_attr_schema bs (a_name a) with
                | None => Some None
                | Some s =>
                    if contains_pos (a_name_rng a) p then Some None
                    else if contains_pos (expr_range (a_expr a)) p then Some (Some (a, s))
                    else attrs rest
                end
              else attrs rest
          end in
        match attrs (b_attrs b) with
        | Some r => r
        | None =>
            let fix blocks (l : list block) : option (attr * attr_schema) :=
              match l with
              | [] => None
              | k :: rest =>
                  if contains_pos (k_rng k) p then
                    match alookup (k_type k) (bs_blocks bs) with
                    | None => None
                    | Some sc =>
                        if contains_pos (b_rng (k_body k)) p
                        then delegated_attr n (k_body k) (fst (merge_block_body_schemas sc k))
                        else blocks rest
                    end
                  else blocks rest
              end in
            blocks (b_blocks b)
        end
    end.
End File.

Definition ranges_of_sexp (x : sexp) : option (list range) :=
  match x with SList l => map_opt range_of_sexp l | _ => None end.
Definition range_table_of_sexp (x : sexp) : option range_table :=
  match x with
  | SList l => map_opt (fun y => match y with
                                 | SList [a; b] => match range_of_sexp a, range_of_sexp b with Some a, Some b => Some (a, b) | _, _ => None end
                                 | _ => None end) l
  | _ => None
  end.

(* (hoversv BODY SCHEMA ((POS OBSERVED)...) EXPRS FUNCS VALS PARENS OPENS TYPEOK): the positions whose observed
   outcome the model (body level + value ranges) does not reproduce *)
Definition run_value_hover (kind : string) (args : list sexp) : option sexp :=
  if String.eqb kind "hoversv" then
    match args with
    | [b; bs; SList pairs; SList es; SList fs; SList vs; pr; op; tk] =>
        match Ast.body_of_sexp b, Schema.body_of_sexp bs, map_opt sexpr_entry_of_sexp es, map_opt fsig_of_sexp fs,
              map_opt (fun x => match x with SList [r; v] => option_map (fun r' => (r', v)) (range_of_sexp r) | _ => None end) vs,
              range_table_of_sexp pr, range_table_of_sexp op, ranges_of_sexp tk with
        | Some b, Some bs, Some es, Some fs, Some vs, Some pr, Some op, Some tk =>
            let bad := flat_map (fun pair =>
              match pair with
              | SList [p; obs] =>
                  match pos_of_sexp p with
                  | Some pp =>
                      match hover_body pp b bs with
                      | HDelegated =>
                          match delegated_attr pp 40 b bs with
                          | Some (a, s) =>
                              match lookup_sexpr es (a_rng a) with
                              | Some e =>
                                  match value_hover fs vs pr op tk pp 40 (as_cons s) e with
                                  | Some (Some r) =>
                                      match obs with
                                      | SList [SAtom h; _; rr] =>
                                          if String.eqb h "hover" && sexp_eqb rr (sexp_of_range r) then []
                                          else [SList [p; SList [SAtom "hover-range"; sexp_of_range r]]]
                                      | _ => [SList [p; SList [SAtom "hover-range"; sexp_of_range r]]]
                                      end
                                  | Some None => if sexp_eqb obs (SList [SAtom "nohover"]) then [] else [SList [p; SList [SAtom "nohover"]]]
                                  | None => [SList [p; SAtom "out-of-fuel"]]
                                  end
                              | None => [SList [p; SAtom "no-expression"]]
                              end
                          | None => [SList [p; SAtom "no-delegated-attribute"]]
                          end
                      | o => if hover_matches o obs then [] else [SList [p; sexp_of_hover o]]
                      end
                  | None => [SList [p; SAtom "badpos"]]
                  end
              | _ => [SAtom "badpair"]
              end) pairs in
            match bad with [] => Some (SList [SAtom "allok"]) | _ => Some (SList (SAtom "mismatch" :: bad)) end
        | _, _, _, _, _, _, _, _ => None
        end
    | _ => None
    end
  else None.
