(* decoder/validate.go + decoder/internal/walker + validator/*: the schema-directed walk with
   its context (unknown-schema flag, per-body block counters) and the eight stock validators. *)
From Coq Require Import String Ascii List ZArith Bool.
From HV Require Import Base.Sexp Base.Str Base.Pos Base.SortSpec Model.Addr Model.DepKeys Model.Schema Model.Ast Model.Merge.
Import ListNotations.
Open Scope string_scope.

Inductive severity := SevError | SevWarning.
Inductive diag_kind :=
| KUnexpectedAttr | KUnexpectedBlock | KMissingRequired | KTooManyLabels | KNotEnoughLabels
| KTooManyBlocks | KTooFewBlocks | KDeprecatedAttr | KDeprecatedBlock.
(* d_kind / d_name are model-side classification (not printed): which validator produced the
   diagnostic and for which attribute / block type *)
Record diag := { d_kind : diag_kind; d_name : string; d_sev : severity; d_summary : string; d_detail : string; d_subject : range }.

Definition q (s : string) : string := go_quote s.
Definition dstr (z : Z) : string := string_of_Z z.

(* walker: schema of an attribute *)
Definition walker_attr_schema (bs : body_schema) (name : string) : option attr_schema :=
  let base := match alookup name (bs_attrs bs) with
              | Some a => Some a
              | None => bs_any bs
              end in
  let base := if ext_has ext_count (bs_ext bs) && String.eqb name "count" then Some count_attr_schema else base in
  if ext_has ext_for_each (bs_ext bs) && String.eqb name "for_each" then Some for_each_attr_schema else base.

(* validators on an attribute *)
Definition attr_diags (unknown : bool) (s : option attr_schema) (a : attr) : list diag :=
  List.app
    (match s with
     | Some sc => if af_deprecated (as_flags sc) then
         [{| d_kind := KDeprecatedAttr; d_name := a_name a; d_sev := SevWarning; d_summary := q (a_name a) ++ " is deprecated";
             d_detail := "Reason: " ++ q (as_desc sc); d_subject := a_rng a |}] else []
     | None => [] end)
    (match s with
     | None => if unknown then [] else
         [{| d_kind := KUnexpectedAttr; d_name := a_name a; d_sev := SevError; d_summary := "Unexpected attribute";
             d_detail := "An attribute named " ++ q (a_name a) ++ " is not expected here"; d_subject := a_rng a |}]
     | Some _ => [] end).

(* surplus labels: one error per label beyond the schema's, on that label's range *)
Fixpoint surplus_label_diags (valid : nat) (i : nat) (type : string) (rngs : list range) : list diag :=
  match rngs with
  | [] => []
  | r :: rest =>
      let d := if Nat.leb valid i then
        [{| d_kind := KTooManyLabels; d_name := type; d_sev := SevError; d_summary := "Too many labels specified for " ++ q type;
            d_detail := "Only " ++ dstr (Z.of_nat valid) ++ " label(s) are expected for " ++ q type ++ " blocks";
            d_subject := r |}] else [] in
      List.app d (surplus_label_diags valid (S i) type rest)
  end.

(* validators on a block (context: the enclosing body's) *)
Definition block_diags (unknown : bool) (s : option block_schema) (k : block) : list diag :=
  match s with
  | Some sc =>
      let valid := List.length (bk_labels sc) in
      List.app (surplus_label_diags valid 0 (k_type k) (firstn (List.length (k_labels k)) (k_label_rngs k)))
      (List.app
        (if Nat.ltb (List.length (k_labels k)) valid then
          [{| d_kind := KNotEnoughLabels; d_name := k_type k; d_sev := SevError; d_summary := "Not enough labels specified for " ++ q (k_type k);
              d_detail := "All " ++ q (k_type k) ++ " blocks must have " ++ dstr (Z.of_nat valid) ++ " label(s)";
              d_subject := k_type_rng k |}] else [])
        (if bk_deprecated sc then
          [{| d_kind := KDeprecatedBlock; d_name := k_type k; d_sev := SevWarning; d_summary := q (k_type k) ++ " is deprecated";
              d_detail := "Reason: " ++ q (bk_desc sc); d_subject := k_type_rng k |}] else []))
  | None =>
      if unknown then [] else
        [{| d_kind := KUnexpectedBlock; d_name := k_type k; d_sev := SevError; d_summary := "Unexpected block";
            d_detail := "Blocks of type " ++ q (k_type k) ++ " are not expected here"; d_subject := k_type_rng k |}]
  end.

Definition count_blocks (type : string) (blocks : list block) : Z :=
  Z.of_nat (List.length (filter (fun k => String.eqb (k_type k) type) blocks)).

(* number of `dynamic "<name>"` blocks in a body *)
Definition count_dynamic (name : string) (blocks : list block) : Z :=
  Z.of_nat (List.length (filter (fun k => String.eqb (k_type k) "dynamic" &&
     match k_labels k with l :: _ => String.eqb l name | [] => false end) blocks)).

(* validators on a body with a schema *)
Definition body_diags (bs : body_schema) (b : body) : list diag :=
  List.app
    (flat_map (fun p : string * block_schema =>
       let '(name, sc) := p in
       let found := count_blocks name (b_blocks b) in
       if negb (Z.eqb (bk_max sc) 0) && Z.ltb 0 found && Z.ltb (bk_max sc) found then
         [{| d_kind := KTooManyBlocks; d_name := name; d_sev := SevError; d_summary := "Too many blocks specified for " ++ q name;
             d_detail := "Only " ++ dstr (bk_max sc) ++ " block(s) are expected for " ++ q name; d_subject := b_rng b |}]
       else []) (bs_blocks bs))
  (List.app
    (flat_map (fun p : string * block_schema =>
       let '(name, sc) := p in
       let found := count_blocks name (b_blocks b) in
       let has_dyn := ext_has ext_dynamic (bs_ext bs) && Z.ltb 0 (count_dynamic name (b_blocks b)) in
       if negb (Z.eqb (bk_min sc) 0) && Z.ltb found (bk_min sc) && negb has_dyn then
         [{| d_kind := KTooFewBlocks; d_name := name; d_sev := SevError; d_summary := "Too few blocks specified for " ++ q name;
             d_detail := "At least " ++ dstr (bk_min sc) ++ " block(s) are expected for " ++ q name; d_subject := b_rng b |}]
       else []) (bs_blocks bs))
    (flat_map (fun p : string * attr_schema =>
       let '(name, sc) := p in
       if af_required (as_flags sc) && negb (match find_attr name (b_attrs b) with Some _ => true | None => false end) then
         [{| d_kind := KMissingRequired; d_name := name; d_sev := SevError; d_summary := "Required attribute " ++ q name ++ " not specified";
             d_detail := "An attribute named " ++ q name ++ " is required here"; d_subject := b_rng b |}]
       else []) (bs_attrs bs))).

(* walker.Walk on a block and on the blocks of a body.  [rec] is the walk of a body (the
   recursive call), [unknown'] the flag in force in the enclosing body, [s] its schema. *)
Section WalkBlocks.
  Variable rec : bool -> option body_schema -> body -> list diag.
  Variable unknown' : bool.
  Variable s : option body_schema.

  Definition block_schema_for (k : block) : option block_schema :=
    match s with Some bs => alookup (k_type k) (bs_blocks bs) | None => None end.

  Definition walk_block (k : block) : list diag :=
    let ks := block_schema_for k in
    let own := block_diags unknown' ks k in
    let inner :=
      match k with Block _ _ _ _ _ _ _ _ kb =>
        match ks with
        | Some sc =>
            match bk_body sc with
            | Some _ =>
                let '(m, res) := merge_block_body_schemas sc k in
                let u := unknown' || match res with LookupFailed | LookupPartiallySuccessful => true | _ => false end in
                rec u (Some m) kb
            | None => rec unknown' None kb
            end
        | None => rec unknown' None kb
        end
      end in
    List.app own inner.

  Fixpoint walk_blocks (l : list block) : list diag :=
    match l with
    | [] => []
    | k :: rest => List.app (walk_block k) (walk_blocks rest)
    end.
End WalkBlocks.

Definition unknown_in (unknown : bool) (s : option body_schema) : bool :=
  unknown || match s with None => true | Some _ => false end.

(* walker.Walk on a body; [unknown] is the inherited flag *)
Fixpoint walk_body (unknown : bool) (s : option body_schema) (b : body) : list diag :=
  match b with
  | Body attrs blocks _ _ =>
      List.app
        (flat_map (fun a => attr_diags (unknown_in unknown s)
                     (match s with Some bs => walker_attr_schema bs (a_name a) | None => None end) a) attrs)
        (List.app (walk_blocks walk_body (unknown_in unknown s) s blocks)
                  (match s with Some bs => body_diags bs b | None => [] end))
  end.

Definition validate_file (schema : body_schema) (b : body) : list diag := walk_body false (Some schema) b.

(* ---- printing (diagnostics are compared as a sorted multiset) ---- *)
Definition sexp_of_diag (d : diag) : sexp :=
  SList [SAtom (match d_sev d with SevError => "error" | SevWarning => "warning" end);
         SStr (d_summary d); SStr (d_detail d); sexp_of_range (d_subject d)].

Definition sort_strings (l : list string) : list string := stable_sort String.ltb l.

Definition diags_canonical (ds : list diag) : sexp :=
  SList (SAtom "diags" :: map SStr (sort_strings (map (fun d => show (sexp_of_diag d)) ds))).

(* (validate BODYSCHEMA BODY) -> (diags "..." ...) *)
Definition run_validate (args : list sexp) : option sexp :=
  match args with
  | [bs; b] =>
      match Schema.body_of_sexp bs, Ast.body_of_sexp b with
      | Some bs, Some b => Some (diags_canonical (validate_file bs b))
      | _, _ => None
      end
  | _ => None
  end.
