(* Body-level parts of SemanticTokensInFile (decoder/semantic_tokens.go) and SymbolsInFile /
   Decoder.Symbols (decoder/symbols.go).  Tokens inside attribute values are not modelled here:
   the comparison is restricted to attribute-name, block-type and block-label tokens. *)
From Coq Require Import String Ascii List ZArith Bool.
From HV Require Import Base.Sexp Base.Str Base.Pos Base.SortSpec Model.Addr Model.DepKeys Model.Schema Model.Ast Model.Merge.
Import ListNotations.
Open Scope string_scope.

(* ---------------- semantic tokens ---------------- *)
Inductive tok_type := TokAttrName | TokBlockType | TokBlockLabel.
Record stoken := { st_type : tok_type; st_mods : list string; st_rng : range }.

(* schema of an attribute as tokensForBody looks it up: named first, then the extensions, then any *)
Definition token_attr_schema (bs : body_schema) (name : string) : option attr_schema :=
  match alookup name (bs_attrs bs) with
  | Some a => Some a
  | None =>
      if ext_has ext_count (bs_ext bs) && String.eqb name "count" then Some count_attr_schema
      else if ext_has ext_for_each (bs_ext bs) && String.eqb name "for_each" then Some for_each_attr_schema
      else bs_any bs
  end.

Fixpoint label_tokens (mods : list string) (ls : list label_schema) (rngs : list range) : list stoken :=
  match ls, rngs with
  | l :: ls', r :: rs' => {| st_type := TokBlockLabel; st_mods := List.app mods (ls_mods l); st_rng := r |} :: label_tokens mods ls' rs'
  | _, _ => []
  end.

Section TokBlocks.
  Variable rec : body_schema -> list string -> body -> list stoken.
  Variable bs : body_schema.
  Variable parent_mods : list string.

  Definition block_tokens (k : block) : list stoken :=
    match alookup (k_type k) (bs_blocks bs) with
    | None => []
    | Some sc =>
        let bmods := List.app parent_mods (bk_mods sc) in
        {| st_type := TokBlockType; st_mods := bmods; st_rng := k_type_rng k |} ::
        List.app (label_tokens bmods (bk_labels sc) (k_label_rngs k))
          (match k with Block _ _ _ _ _ _ _ _ kb =>
             let '(m, _) := merge_block_body_schemas sc k in rec m bmods kb end)
    end.

  Fixpoint blocks_tokens (l : list block) : list stoken :=
    match l with [] => [] | k :: rest => List.app (block_tokens k) (blocks_tokens rest) end.
End TokBlocks.

Fixpoint tokens_body (bs : body_schema) (mods : list string) (b : body) : list stoken :=
  match b with
  | Body attrs blocks _ _ =>
      List.app
        (flat_map (fun a => match token_attr_schema bs (a_name a) with
                            | Some s => [{| st_type := TokAttrName; st_mods := List.app mods (as_mods s); st_rng := a_name_rng a |}]
                            | None => [] end) attrs)
        (blocks_tokens tokens_body bs mods blocks)
  end.

Definition stoken_ltb (a b : stoken) : bool := Z.ltb (p_byte (r_start (st_rng a))) (p_byte (r_start (st_rng b))).

Definition tokens_in_file (schema : body_schema) (b : body) : list stoken :=
  stable_sort stoken_ltb (tokens_body schema [] b).

Definition sexp_of_stoken (t : stoken) : sexp :=
  SList [SAtom (match st_type t with TokAttrName => "attr" | TokBlockType => "block" | TokBlockLabel => "label" end);
         sStrs (st_mods t); sexp_of_range (st_rng t)].

(* compared as a list sorted by (start byte, rendering): the order among tokens with equal
   start is not determined by sort.Slice *)
Definition canon_strings (l : list sexp) : sexp :=
  SList (map SStr (stable_sort String.ltb (map show l))).

Definition run_tokens (args : list sexp) : option sexp :=
  match args with
  | bs :: b :: _ =>
      match Schema.body_of_sexp bs, Ast.body_of_sexp b with
      | Some bs, Some b => Some (canon_strings (map sexp_of_stoken (tokens_in_file bs b)))
      | _, _ => None
      end
  | _ => None
  end.

(* ---------------- symbols ---------------- *)
Inductive symbol :=
| Symbol (kind : string) (name : string) (extra : string) (rng : range) (nested : list symbol).

Definition sym_rng s := match s with Symbol _ _ _ r _ => r end.
Definition sym_name s := match s with Symbol _ n _ _ _ => n end.
Definition sym_nested s := match s with Symbol _ _ _ _ n => n end.

Definition expr_kind (e : expr) : string :=
  match e with
  | ETraversal _ _ => "ref"
  | ELiteral _ t => "lit:" ++ t
  | ETemplate _ is_str all_str => if is_str || all_str then "lit:string" else ""
  | ETuple _ _ => "tuple"
  | EObject _ _ => "object"
  | EOther _ _ => ""
  end.

Fixpoint expr_symbols (e : expr) : list symbol :=
  let fix elems (i : nat) (l : list expr) : list symbol :=
    match l with
    | [] => []
    | x :: r => Symbol "expr" (string_of_Z (Z.of_nat i)) (expr_kind x) (expr_range x) (expr_symbols x) :: elems (S i) r
    end in
  let fix items (l : list obj_item) : list symbol :=
    match l with
    | [] => []
    | ObjItem kr (Some key) v :: r =>
        Symbol "expr" key (expr_kind v) (range_between kr (expr_range v)) (expr_symbols v) :: items r
    | ObjItem _ None _ :: r => items r
    end in
  match e with
  | ETuple _ es => elems O es
  | EObject _ its => items its
  | _ => []
  end.

Definition sym_ltb (a b : symbol) : bool := Z.ltb (p_byte (r_start (sym_rng a))) (p_byte (r_start (sym_rng b))).

Fixpoint join_labels (ls : list string) : string :=
  match ls with [] => "" | l :: r => " " ++ go_quote l ++ join_labels r end.

Section SymBlocks.
  Variable rec : option body_schema -> body -> list symbol.
  Variable bs : option body_schema.
  Definition block_symbol (k : block) : symbol :=
    let inner := match bs with
                 | Some s => match alookup (k_type k) (bs_blocks s) with
                             | Some sc => Some (fst (merge_block_body_schemas sc k))
                             | None => None end
                 | None => None end in
    Symbol "block" (k_type k ++ join_labels (k_labels k)) (String.concat "|" (k_type k :: k_labels k)) (k_rng k)
           (match k with Block _ _ _ _ _ _ _ _ kb => rec inner kb end).
  Fixpoint blocks_symbols (l : list block) : list symbol :=
    match l with [] => [] | k :: rest => block_symbol k :: blocks_symbols rest end.
End SymBlocks.

(* symbolsForBody on native syntax: attributes (in any order), then blocks, stably sorted by start *)
Fixpoint symbols_body (bs : option body_schema) (b : body) : list symbol :=
  match b with
  | Body attrs blocks _ _ =>
      stable_sort sym_ltb
        (List.app (map (fun a => Symbol "attr" (a_name a) (expr_kind (a_expr a)) (a_rng a) (expr_symbols (a_expr a))) attrs)
                  (blocks_symbols symbols_body bs blocks))
  end.

Fixpoint sexp_of_symbol (s : symbol) : sexp :=
  let fix go (l : list symbol) : list sexp := match l with [] => [] | x :: r => sexp_of_symbol x :: go r end in
  match s with
  | Symbol k n e r nested => SList [SAtom "sym"; SAtom k; SStr n; SStr e; sexp_of_range r; SList (go nested)]
  end.

(* (symbols SCHEMA|() BODY) *)
Definition run_symbols (args : list sexp) : option sexp :=
  match args with
  | bs :: b :: _ =>
      match opt_of_sexp Schema.body_of_sexp bs, Ast.body_of_sexp b with
      | Some bs, Some b => Some (SList (map sexp_of_symbol (symbols_body bs b)))
      | _, _ => None
      end
  | _ => None
  end.

(* workspace query: paths in the reader's order, unreadable paths skipped, files in name order,
   top-level symbols whose name contains the query *)
Fixpoint contains_str (q s : string) : bool :=
  String.prefix q s || match s with EmptyString => false | String _ r => contains_str q r end.

Definition workspace_symbols (q : string) (paths : list (bool * list (string * list symbol))) : list symbol :=
  flat_map (fun p : bool * list (string * list symbol) =>
    if fst p then flat_map (fun f : string * list symbol => filter (fun s => String.eqb q "" || contains_str q (sym_name s)) (snd f)) (snd p)
    else []) paths.
