(* Semantic tokens inside attribute values: the SemanticTokens methods of the expression kinds
   (decoder/expr_*_semtok.go, expr_any_{operator,template,conditional,for,index}.go, expr_function.go,
   expr_reference_semtok.go), and with them the complete result of SemanticTokensInFile.

   Whether a written reference resolves (Origins.AtPos + Targets.Match of the collected path context) is an
   annotation on the traversal, computed with the real library; the static values of expressions (compared with
   LiteralValue constraints) are a table computed with the real evaluator. *)
From Coq Require Import String Ascii List ZArith Bool.
From HV Require Import Base.Sexp Base.Str Base.SortSpec Base.Pos Model.Addr Model.DepKeys Model.Schema Model.Ast Model.Merge
                       Model.Ref Model.Collect Model.Origins Model.ValueTargets Model.BodyQueries.
Import ListNotations.
Open Scope string_scope.
Open Scope list_scope.

(* one step of a traversal: its kind and source range *)
Inductive tstep := TSRoot (r : range) | TSAttr (r : range) | TSIdxStr (r : range) | TSIdxNum (r : range) | TSIdxOther (r : range)
                  | TSIdxUnknown (r : range)   (* nothing written between the brackets: the key is the parser's unknown value *).

Inductive sexpr :=
| SE (rng : range) (vt : option ty) (n : snode)
with snode :=
| NTrav (root : string) (steps : list tstep) (resolved : bool)     (* ScopeTraversalExpr *)
| NLit (t : ty)                                                     (* LiteralValueExpr: Val.Type() *)
| NTemplate (lit : bool) (parts : list sexpr)                       (* TemplateExpr, IsStringLiteral *)
| NWrap (e : sexpr)                                                 (* TemplateWrapExpr *)
| NTuple (elems : list sexpr)                                       (* TupleConsExpr *)
| NObject (items : list sitem)                                      (* ObjectConsExpr *)
| NBinary (ret p1 p2 : ty) (l r : sexpr)
| NUnary (ret p : ty) (e : sexpr)
| NParens (e : sexpr)
| NCond (c t f : sexpr)
| NFor (coll : sexpr) (key : option sexpr) (val : sexpr) (cond : option sexpr)
| NIndex (key : sexpr)
| NCall (name : string) (name_rng : range) (args : list sexpr)      (* FunctionCallExpr *)
| NOther
with sitem :=
| SItem (krng : range) (k : skey) (v : sexpr)
with skey :=
| SKRaw (name : string)                                             (* rawObjectKey succeeds *)
| SKParens (e : sexpr)                                              (* ( expr ) = ...: the ParenthesesExpr *)
| SKOther.

Definition se_rng (e : sexpr) : range := match e with SE r _ _ => r end.
Definition se_vt (e : sexpr) : option ty := match e with SE _ v _ => v end.
Definition se_node (e : sexpr) : snode := match e with SE _ _ n => n end.

Record vtoken := { vk_type : string; vk_rng : range }.
Definition tok (t : string) (r : range) : vtoken := {| vk_type := t; vk_rng := r |}.

(* result of a descent: None = out of fuel, Some None = delegated, Some (Some l) = tokens *)
Definition tres := option (option (list vtoken)).
Definition ret (l : list vtoken) : tres := Some (Some l).

Definition shift_start (r : range) (d : Z) : range :=
  {| r_file := r_file r;
     r_start := {| p_line := p_line (r_start r); p_col := p_col (r_start r) + d; p_byte := p_byte (r_start r) + d |};
     r_end := r_end r |}.
Definition shift_end (r : range) (d : Z) : range :=
  {| r_file := r_file r; r_start := r_start r;
     r_end := {| p_line := p_line (r_end r); p_col := p_col (r_end r) + d; p_byte := p_byte (r_end r) + d |} |}.

(* what stands between the brackets of an index step; nothing for an index left open (as repaired) *)
Definition idx_token (t : string) (r : range) : list vtoken :=
  let r' := shift_end (shift_start r 1) (-1) in
  if Z.ltb (p_byte (r_start r')) (p_byte (r_end r')) then [tok t r'] else [].

(* semanticTokensForTraversal *)
Definition step_tokens (s : tstep) : list vtoken :=
  match s with
  | TSRoot r => [tok "reference-step" r]
  | TSAttr r => [tok "reference-step" (shift_start r 1)]
  | TSIdxStr r => idx_token "map-key" r
  | TSIdxNum r => idx_token "number" r
  | TSIdxOther _ | TSIdxUnknown _ => []
  end.

Definition lit_convertible (from to : ty) : bool :=
  match from, to with
  | TDyn, _ => true
  | TNum, (TNum | TStr) | TBool, (TBool | TStr) | TStr, TStr => true
  | _, _ => false
  end.

Definition is_prim_type_name (n : string) : bool :=
  existsb (String.eqb n) ["bool"; "number"; "string"; "null"; "any"].
Definition is_elem_type_name (n : string) : bool := existsb (String.eqb n) ["list"; "set"; "map"].

Fixpoint bind_all (l : list tres) : tres :=
  match l with
  | [] => ret []
  | None :: _ => None
  | Some None :: r => match bind_all r with None => None | _ => Some None end
  | Some (Some a) :: r => match bind_all r with Some (Some b) => ret (a ++ b) | x => x end
  end.

(* ---- cty values as the schema serialiser writes them: (str s) (bool b) (num text) (seq TYPE (v...)) (kv TYPE ((k v)...))
   (null TYPE) (unknown); equal values have equal renderings (RawEquals) ---- *)
Definition val_type (v : sexp) : ty :=
  match v with
  | SList [SAtom "str"; _] => TStr
  | SList [SAtom "bool"; _] => TBool
  | SList [SAtom "num"; _] => TNum
  | SList [SAtom "seq"; t; _] | SList [SAtom "kv"; t; _] | SList [SAtom "null"; t] =>
      match ty_of_sexp t with Some t' => t' | None => TDyn end
  | _ => TDyn
  end.
Definition val_elems (v : sexp) : list sexp := match v with SList [SAtom "seq"; _; SList l] => l | _ => [] end.
Definition val_entries (v : sexp) : list (string * sexp) :=
  match v with
  | SList [SAtom "kv"; _; SList l] =>
      flat_map (fun e => match e with SList [SStr k; x] => [(k, x)] | _ => [] end) l
  | _ => []
  end.

Section Descent.
  Variable funcs : fsigs.
  Variable vals : list (range * sexp).         (* expr.Value(nil) of the expressions that evaluate without error *)
  Variable rec : constraint -> sexpr -> tres.
  Variable rec_type : sexpr -> tres.           (* TypeDeclaration.SemanticTokens with less fuel *)

  Fixpoint lookup_val (l : list (range * sexp)) (r : range) : option sexp :=
    match l with [] => None | (r', v) :: rest => if range_eqb r' r then Some v else lookup_val rest r end.
  Definition value_of (e : sexpr) : option sexp := lookup_val vals (se_rng e).

  Definition list_like (elem : option constraint) (e : sexpr) : tres :=
    match se_node e, elem with
    | NTuple ((_ :: _) as elems), Some ec => bind_all (map (rec ec) elems)
    | _, _ => ret []
    end.

  Fixpoint tuple_like (cs : list constraint) (elems : list sexpr) : list tres :=
    match cs, elems with
    | c :: cs', x :: xs' => rec c x :: tuple_like cs' xs'
    | _, _ => []
    end.

  Definition key_paren_tokens (interp : bool) (k : skey) : tres :=
    match k with
    | SKParens pe => if interp then rec (CAny TStr false) pe else ret []
    | _ => ret []
    end.

  Definition map_tokens (elem : option constraint) (interp : bool) (e : sexpr) : tres :=
    match se_node e, elem with
    | NObject ((_ :: _) as items), Some ec =>
        bind_all (map (fun i => match i with
                                | SItem krng (SKRaw _) v => bind_all [ret [tok "map-key" krng]; rec ec v]
                                | SItem _ (SKParens pe) v => if interp then bind_all [rec (CAny TStr false) pe; rec ec v] else ret []
                                | SItem _ SKOther _ => ret []
                                end) items)
    | _, _ => ret []
    end.

  Definition object_tokens (ats : list (string * constraint)) (interp : bool) (e : sexpr) : tres :=
    match se_node e, ats with
    | NObject ((_ :: _) as items), _ :: _ =>
        bind_all (map (fun i => match i with
                                | SItem krng k v =>
                                    bind_all [key_paren_tokens interp k;
                                              match k with
                                              | SKRaw name => match alookup name ats with
                                                              | Some c => bind_all [ret [tok "object-key" krng]; rec c v]
                                                              | None => ret []
                                                              end
                                              | _ => ret []
                                              end]
                                end) items)
    | _, _ => ret []
    end.

  (* LiteralType.SemanticTokens *)
  Definition literal_type_tokens (t : ty) (e : sexpr) : tres :=
    let typ := if is_dyn t then match se_vt e with Some t' => t' | None => t end else t in
    match typ, se_node e with
    | TStr, NTemplate true _ => ret [tok "string" (se_rng e)]
    | _, _ =>
        if is_prim typ then
          match se_node e with
          | NLit lt => if lit_convertible lt typ
                       then match lt with
                            | TBool => ret [tok "bool" (se_rng e)]
                            | TNum => ret [tok "number" (se_rng e)]
                            | TStr => ret [tok "string" (se_rng e)]
                            | _ => ret []
                            end
                       else ret []
          | _ => ret []
          end
        else
          match typ with
          | TList el | TSet el => match se_node e with NTuple _ => list_like (Some (CLitType el false)) e | _ => ret [] end
          | TTuple ts => match se_node e with
                         | NTuple ((_ :: _) as elems) =>
                             match ts with [] => ret [] | _ => bind_all (tuple_like (map (fun x => CLitType x false) ts) elems) end
                         | _ => ret []
                         end
          | TMap el => map_tokens (Some (CLitType el false)) false e
          | TObject ats => object_tokens (lit_attrs ats) false e
          | _ => ret []
          end
    end.

  Definition all_string_parts (parts : list sexpr) : bool :=
    match parts with
    | [] => false
    | _ => forallb (fun p => match se_node p with NLit TStr => true | _ => false end) parts
    end.

  (* LiteralValue.SemanticTokens *)
  Definition literal_value_tokens (cv : sexp) (t : ty) (e : sexpr) : tres :=
    let typ := if is_dyn t then match se_vt e with Some t' => t' | None => t end else t in
    let lv (v : sexp) := CLitValue v (val_type v) false in
    match typ with
    | TStr =>
        match se_node e, value_of e with
        | NTemplate lit parts, Some v =>
            if sexp_eqb cv v && (lit || all_string_parts parts) then ret [tok "string" (se_rng e)] else ret []
        | _, _ => ret []
        end
    | TBool | TNum =>
        match se_node e, value_of e with
        | NLit _, Some v =>
            if sexp_eqb cv v then ret [tok (match typ with TBool => "bool" | _ => "number" end) (se_rng e)] else ret []
        | _, _ => ret []
        end
    | TList _ =>
        match se_node e with
        | NTuple elems =>
            let fix go (vs : list sexp) (l : list sexpr) : list tres :=
              match vs, l with
              | v :: vs', x :: l' =>
                  (match value_of x with
                   | Some xv => if sexp_eqb v xv then rec (lv v) x else ret []
                   | None => ret []
                   end) :: go vs' l'
              | _, _ => []
              end in
            bind_all (go (val_elems cv) elems)
        | _ => ret []
        end
    | TSet el =>
        match se_node e with
        | NTuple elems =>
            let members := val_elems cv in
            bind_all (map (fun x => match value_of x with
                                    | Some xv => if ty_eqb el (val_type xv) && existsb (sexp_eqb xv) members then rec (lv xv) x else ret []
                                    | None => ret []
                                    end) (firstn (length members) elems))
        | _ => ret []
        end
    | TTuple ts =>
        match se_node e with
        | NTuple ((_ :: _) as elems) =>
            match ts with [] => ret [] | _ => bind_all (tuple_like (map (fun x => CLitType x false) ts) elems) end
        | _ => ret []
        end
    | TMap _ =>
        match se_node e with
        | NObject items =>
            bind_all (map (fun i => match i with
                                    | SItem krng (SKRaw k) x =>
                                        match alookup k (val_entries cv) with
                                        | None => ret []
                                        | Some v =>
                                            bind_all [ret [tok "map-key" krng];
                                                      match value_of x with
                                                      | Some xv => if sexp_eqb v xv then rec (lv xv) x else ret []
                                                      | None => ret []
                                                      end]
                                        end
                                    | _ => ret []
                                    end) items)
        | _ => ret []
        end
    | TObject ats => object_tokens (lit_attrs ats) false e
    | _ => ret []
    end.

  Definition reference_tokens (e : sexpr) : list vtoken :=
    match se_node e with
    | NTrav _ steps true => flat_map step_tokens steps
    | _ => []
    end.

  Definition function_tokens (e : sexpr) : tres :=
    match se_node e with
    | NCall name nrng args =>
        match alookup name funcs with
        | None => ret []
        | Some (params, varp) =>
            match params, varp with
            | [], None => ret [tok "function-name" nrng]
            | _, _ =>
                let fix go (ps : list ty) (l : list sexpr) : list tres :=
                  match l with
                  | [] => []
                  | a :: r =>
                      match ps with
                      | p :: ps' => rec (CAny p false) a :: go ps' r
                      | [] => match varp with
                              | Some vp => rec (CAny vp false) a :: go [] r
                              | None => []
                              end
                      end
                  end in
                bind_all (ret [tok "function-name" nrng] :: go params args)
            end
        end
    | _ => ret []
    end.

  (* Any.semanticTokensForNonComplexExpr *)
  Definition any_simple (t : ty) (skip : bool) (e : sexpr) : tres :=
    let fallback :=
      match reference_tokens e with
      | (_ :: _) as ts => ret ts
      | [] =>
          match function_tokens e with
          | Some (Some []) => literal_type_tokens t e
          | x => x
          end
      end in
    match se_node e with
    | NBinary rt p1 p2 l r => if prim_conv rt t then bind_all [rec (CAny p1 false) l; rec (CAny p2 false) r] else ret []
    | NUnary rt p x => if prim_conv rt t then rec (CAny p false) x else ret []
    | NParens x => rec (CAny t skip) x
    | NTemplate true _ => literal_type_tokens TStr e
    | NTemplate false parts => bind_all (map (rec (CAny TStr false)) parts)
    | NWrap x => rec (CAny TStr false) x
    | NCond c a b => bind_all [rec (CAny TBool false) c; rec (CAny t skip) a; rec (CAny t skip) b]
    | NFor coll key val cond =>
        if is_iterable t then
          match (match key with Some _ => iter_key_type t | None => Some TDyn end), iter_val_type t with
          | Some kt, Some vt' =>
              bind_all [rec (CAny t skip) coll;
                        match key with Some k => rec (CAny kt false) k | None => ret [] end;
                        rec (CAny vt' false) val;
                        match cond with Some c => rec (CAny TBool false) c | None => ret [] end]
          | _, _ => fallback
          end
        else fallback
    | NIndex k => rec (CAny TStr false) k
    | _ => fallback
    end.

  (* Any.SemanticTokens *)
  Definition any_tokens (t : ty) (skip : bool) (e : sexpr) : tres :=
    match t, se_node e with
    | TList el, NTuple _ => list_like (Some (CAny el false)) e
    | TSet el, NTuple _ => list_like (Some (CAny el false)) e
    | TTuple ts, NTuple elems =>
        match elems, ts with
        | _ :: _, _ :: _ => bind_all (tuple_like (map (fun x => CAny x false) ts) elems)
        | _, _ => ret []
        end
    | TMap el, NObject _ => map_tokens (Some (CAny el false)) true e
    | TObject ats, NObject _ => object_tokens (map (fun a => (fst a, CLitType (fst (snd a)) false)) ats) true e
    | _, _ => any_simple t skip e
    end.

  Fixpoint one_of_tokens (cs : list constraint) (e : sexpr) : tres :=
    match cs with
    | [] => ret []
    | c :: r => match rec c e with
                | Some (Some []) => one_of_tokens r e
                | x => x
                end
    end.

  (* TypeDeclaration.SemanticTokens *)
  Definition type_decl_tokens (e : sexpr) : tres :=
    match se_node e with
    | NTrav root [_] _ => if is_prim_type_name root then ret [tok "type-primitive" (se_rng e)] else ret []
    | NCall name nrng args =>
        if is_elem_type_name name then
          match args with
          | [] => ret [tok "type-complex" nrng]
          | [a] => bind_all [ret [tok "type-complex" nrng]; rec_type a]
          | _ => ret []
          end
        else if String.eqb name "object" then
          match args with
          | [a] =>
              match se_node a with
              | NObject items =>
                  let fix go (l : list sitem) : list tres :=
                    match l with
                    | [] => []
                    | SItem krng (SKRaw _) v :: r => ret [tok "attr-name" krng] :: rec_type v :: go r
                    | _ => []                                   (* an un-decodable key ends the walk *)
                    end in
                  bind_all (ret [tok "type-complex" nrng] :: go items)
              | _ => ret []
              end
          | _ => ret [tok "type-complex" nrng]
          end
        else if String.eqb name "tuple" then
          match args with
          | [a] =>
              match se_node a with
              | NTuple elems => bind_all (ret [tok "type-complex" nrng] :: map rec_type elems)
              | _ => ret []
              end
          | _ => ret [tok "type-complex" nrng]
          end
        else ret []
    | _ => ret []
    end.

  Definition step_tokens_for (c : constraint) (e : sexpr) : tres :=
    match c with
    | CAny t skip => any_tokens t skip e
    | CLitType t _ => literal_type_tokens t e
    | CLitValue v t _ => literal_value_tokens v t e
    | CKeyword kw _ =>
        match se_node e with
        | NTrav root [_] _ => if String.eqb root kw then ret [tok "keyword" (se_rng e)] else ret []
        | _ => ret []
        end
    | CRef _ _ _ _ => ret (reference_tokens e)
    | CTypeDecl => type_decl_tokens e
    | CList elem _ _ | CSet elem _ _ => list_like elem e
    | CTuple cs => match se_node e, cs with
                   | NTuple ((_ :: _) as elems), _ :: _ => bind_all (tuple_like cs elems)
                   | _, _ => ret []
                   end
    | CMap elem _ interp _ _ => map_tokens elem interp e
    | CObject ats _ _ interp => object_tokens (obj_attrs ats) interp e
    | COneOf cs => one_of_tokens cs e
    end.
End Descent.

Fixpoint type_tokens (funcs : fsigs) (fuel : nat) (e : sexpr) : tres :=
  match fuel with
  | O => None
  | S n => type_decl_tokens (type_tokens funcs n) e
  end.

Fixpoint value_tokens (funcs : fsigs) (vals : list (range * sexp)) (fuel : nat) (c : constraint) (e : sexpr) : tres :=
  match fuel with
  | O => None
  | S n => step_tokens_for funcs vals (value_tokens funcs vals n) (type_tokens funcs n) c e
  end.

(* ---------------- the whole file ---------------- *)
Section File.
  Variable funcs : fsigs.
  Variable vals : list (range * sexp).
  Variable exprs : list (range * sexpr).

  Fixpoint lookup_sexpr (l : list (range * sexpr)) (r : range) : option sexpr :=
    match l with [] => None | (r', e) :: rest => if range_eqb r' r then Some e else lookup_sexpr rest r end.

  Definition attr_value_tokens (bs : body_schema) (a : attr) : tres :=
    match token_attr_schema bs (a_name a) with
    | None => ret []
    | Some s => match lookup_sexpr exprs (a_rng a) with
                | Some e => value_tokens funcs vals 40 (as_cons s) e
                | None => None
                end
    end.

  Fixpoint body_value_tokens (fuel : nat) (bs : body_schema) (b : body) : tres :=
    match fuel with
    | O => None
    | S n =>
        bind_all (map (attr_value_tokens bs) (b_attrs b) ++
                  map (fun k => match alookup (k_type k) (bs_blocks bs) with
                                | None => ret []
                                | Some sc => body_value_tokens n (fst (merge_block_body_schemas sc k)) (k_body k)
                                end) (b_blocks b))
    end.
End File.

(* ---------------- reader / runner entry ---------------- *)
Definition tstep_of_sexp (x : sexp) : option tstep :=
  match x with
  | SList [SAtom k; r] =>
      match range_of_sexp r with
      | Some r => if String.eqb k "root" then Some (TSRoot r) else if String.eqb k "attr" then Some (TSAttr r)
                  else if String.eqb k "idxs" then Some (TSIdxStr r) else if String.eqb k "idxn" then Some (TSIdxNum r)
                  else if String.eqb k "idxo" then Some (TSIdxOther r)
                  else if String.eqb k "idxu" then Some (TSIdxUnknown r) else None
      | None => None
      end
  | _ => None
  end.

Fixpoint sexpr_of_sexp (x : sexp) : option sexpr :=
  let fix many (l : list sexp) : option (list sexpr) :=
    match l with
    | [] => Some []
    | a :: r => match sexpr_of_sexp a, many r with Some e, Some es => Some (e :: es) | _, _ => None end
    end in
  let opt (y : sexp) : option (option sexpr) :=
    match y with SList [] => Some None | _ => option_map Some (sexpr_of_sexp y) end in
  let fix items (l : list sexp) : option (list sitem) :=
    match l with
    | [] => Some []
    | SList [kr; k; v] :: r =>
        match range_of_sexp kr,
              (match k with
               | SList [SAtom "raw"; SStr n] => Some (SKRaw n)
               | SList [SAtom "parens"; pe] => option_map SKParens (sexpr_of_sexp pe)
               | SList [SAtom "other"] => Some SKOther
               | _ => None
               end), sexpr_of_sexp v, items r with
        | Some kr, Some k, Some v, Some rs => Some (SItem kr k v :: rs)
        | _, _, _, _ => None
        end
    | _ => None
    end in
  match x with
  | SList [r; vt; n] =>
      match range_of_sexp r, oty_of_sexp vt with
      | Some r, Some vt =>
          let node : option snode :=
            match n with
            | SList [SAtom "trav"; SStr root; SList steps; res] =>
                match map_opt tstep_of_sexp steps, as_bool res with Some st, Some b => Some (NTrav root st b) | _, _ => None end
            | SList [SAtom "lit"; t] => option_map NLit (ty_of_sexp t)
            | SList [SAtom "template"; lit; SList ps] =>
                match as_bool lit, many ps with Some l, Some ps => Some (NTemplate l ps) | _, _ => None end
            | SList [SAtom "wrap"; e] => option_map NWrap (sexpr_of_sexp e)
            | SList [SAtom "tuple"; SList es] => option_map NTuple (many es)
            | SList [SAtom "object"; SList its] => option_map NObject (items its)
            | SList [SAtom "binary"; rt; p1; p2; l; r] =>
                match ty_of_sexp rt, ty_of_sexp p1, ty_of_sexp p2, sexpr_of_sexp l, sexpr_of_sexp r with
                | Some rt, Some p1, Some p2, Some l, Some r => Some (NBinary rt p1 p2 l r)
                | _, _, _, _, _ => None
                end
            | SList [SAtom "unary"; rt; p; e] =>
                match ty_of_sexp rt, ty_of_sexp p, sexpr_of_sexp e with Some rt, Some p, Some e => Some (NUnary rt p e) | _, _, _ => None end
            | SList [SAtom "parens"; e] => option_map NParens (sexpr_of_sexp e)
            | SList [SAtom "cond"; c; a; b] =>
                match sexpr_of_sexp c, sexpr_of_sexp a, sexpr_of_sexp b with Some c, Some a, Some b => Some (NCond c a b) | _, _, _ => None end
            | SList [SAtom "for"; coll; k; v; cnd] =>
                match sexpr_of_sexp coll, opt k, sexpr_of_sexp v, opt cnd with
                | Some coll, Some k, Some v, Some cnd => Some (NFor coll k v cnd)
                | _, _, _, _ => None
                end
            | SList [SAtom "index"; k] => option_map NIndex (sexpr_of_sexp k)
            | SList [SAtom "call"; SStr name; nr; SList args] =>
                match range_of_sexp nr, many args with Some nr, Some args => Some (NCall name nr args) | _, _ => None end
            | SList [SAtom "other"] => Some NOther
            | _ => None
            end in
          option_map (SE r vt) node
      | _, _ => None
      end
  | _ => None
  end.

Definition sexp_of_vtoken (t : vtoken) : sexp := SList [SAtom (vk_type t); SList []; sexp_of_range (vk_rng t)].

Definition sexp_of_body_token (t : stoken) : sexp :=
  SList [SAtom (match st_type t with TokAttrName => "attr-name" | TokBlockType => "block-type" | TokBlockLabel => "block-label" end);
         sStrs (st_mods t); sexp_of_range (st_rng t)].

Definition sexpr_entry_of_sexp (x : sexp) : option (range * sexpr) :=
  match x with
  | SList [r; e] => match range_of_sexp r, sexpr_of_sexp e with Some r, Some e => Some (r, e) | _, _ => None end
  | _ => None
  end.

(* (alltokens SCHEMA BODY ((attr-range sexpr)...) FUNCS ((expr-range value)...)) -> every token of the file, in canonical order *)
Definition run_value_tokens (kind : string) (args : list sexp) : option sexp :=
  if String.eqb kind "alltokens" then
    match args with
    | [sch; b; SList es; SList fs; SList vs] =>
        match Schema.body_of_sexp sch, Ast.body_of_sexp b, map_opt sexpr_entry_of_sexp es, map_opt fsig_of_sexp fs,
              map_opt (fun x => match x with SList [r; v] => option_map (fun r' => (r', v)) (range_of_sexp r) | _ => None end) vs with
        | Some sch, Some b, Some es, Some fs, Some vs =>
            match body_value_tokens fs vs es 40 sch b with
            | Some (Some vts) =>
                Some (canon_strings (map sexp_of_body_token (tokens_body sch [] b) ++ map sexp_of_vtoken vts))
            | Some None => Some (SList [SAtom "delegated"])
            | None => Some (SList [SAtom "out-of-fuel"])
            end
        | _, _, _, _, _ => None
        end
    | _ => None
    end
  else None.
