(* reference.Target(s) / Origin(s): the matching relation (reference/target.go, targets.go,
   origins.go).  cty's convertibility is an input (a table computed by the real library for the
   types occurring in the case): theorems are proved for an arbitrary [conv]. *)
From Coq Require Import String List ZArith Bool.
From HV Require Import Base.Sexp Base.Str Base.Pos Base.SortSpec Base.Lex Model.Addr Model.DepKeys Model.Schema.
Import ListNotations.
Open Scope string_scope.

Inductive target :=
| Target (addr local_addr : address) (from : option range) (scope : string)
         (rng def_rng : option range) (t : ty) (name : string) (nested : list target).

Definition t_addr x := match x with Target a _ _ _ _ _ _ _ _ => a end.
Definition t_local x := match x with Target _ a _ _ _ _ _ _ _ => a end.
Definition t_from x := match x with Target _ _ a _ _ _ _ _ _ => a end.
Definition t_scope x := match x with Target _ _ _ a _ _ _ _ _ => a end.
Definition t_rng x := match x with Target _ _ _ _ a _ _ _ _ => a end.
Definition t_def x := match x with Target _ _ _ _ _ a _ _ _ => a end.
Definition t_type x := match x with Target _ _ _ _ _ _ a _ _ => a end.
Definition t_name x := match x with Target _ _ _ _ _ _ _ a _ => a end.
Definition t_nested x := match x with Target _ _ _ _ _ _ _ _ a => a end.

Record ocons := { oc_scope : string; oc_type : ty }.
Record path := { pa_path : string; pa_lang : string }.
Definition path_eqb (a b : path) : bool := String.eqb (pa_path a) (pa_path b) && String.eqb (pa_lang a) (pa_lang b).

Inductive origin :=
| OLocal (addr : address) (rng : range) (cons : list ocons)
| OPath (rng : range) (addr : address) (tpath : path) (cons : list ocons)
| ODirect (rng : range) (tpath : path) (trange : range).

Definition o_range (o : origin) : range :=
  match o with OLocal _ r _ | OPath r _ _ _ | ODirect r _ _ => r end.

Fixpoint ty_eqb (a b : ty) : bool :=
  let fix tys (x y : list ty) : bool :=
    match x, y with [], [] => true | p :: x', q :: y' => ty_eqb p q && tys x' y' | _, _ => false end in
  let fix oas (x y : list (string * (ty * bool))) : bool :=
    match x, y with
    | [], [] => true
    | (n, (t, o)) :: x', (m, (u, p)) :: y' => String.eqb n m && ty_eqb t u && Bool.eqb o p && oas x' y'
    | _, _ => false
    end in
  match a, b with
  | TNil, TNil | TDyn, TDyn | TBool, TBool | TNum, TNum | TStr, TStr => true
  | TList x, TList y | TSet x, TSet y | TMap x, TMap y => ty_eqb x y
  | TTuple x, TTuple y => tys x y
  | TObject x, TObject y => oas x y
  | _, _ => false
  end.

Definition is_nil (t : ty) : bool := match t with TNil => true | _ => false end.
Definition is_dyn (t : ty) : bool := match t with TDyn => true | _ => false end.
Definition is_tuple (t : ty) : bool := match t with TTuple _ => true | _ => false end.
Definition is_empty_tuple (t : ty) : bool := match t with TTuple [] => true | _ => false end.

Section Matching.
  (* convert.Convert(cty.UnknownVal(from), to) succeeds *)
  Variable conv : ty -> ty -> bool.

  (* Target.IsConvertibleToType *)
  Definition is_convertible (t : target) (typ : ty) : bool :=
    (negb (is_nil typ) && negb (is_nil (t_type t)) && (is_dyn (t_type t) || conv (t_type t) typ))
    || (is_nil typ && is_nil (t_type t)).

  Definition matches_scope (t : target) (scope : string) : bool :=
    String.eqb scope "" || String.eqb (t_scope t) scope.

  (* Target.MatchesConstraint(schema.Reference{OfScopeId, OfType}) *)
  Definition matches_constraint (t : target) (scope : string) (typ : ty) : bool :=
    matches_scope t scope && is_convertible t typ.

  (* the loop over the origin's constraints in Target.Matches; state = (matchesCons, truncate?) *)
  Fixpoint cons_loop (t : target) (cs : list ocons) (acc : bool * bool) : bool * bool :=
    match cs with
    | [] => acc
    | c :: r =>
        let '(m, trunc) := acc in
        if negb (matches_scope t (oc_scope c)) then cons_loop t r acc
        else if is_dyn (t_type t) then cons_loop t r (true, true)
        else if is_empty_tuple (oc_type c) && is_tuple (t_type t) then cons_loop t r (true, trunc)
        else
          let m1 := m || (negb (is_nil (oc_type c)) && is_convertible t (oc_type c)) in
          let m2 := m1 || (is_nil (oc_type c) && is_nil (t_type t)) in
          cons_loop t r (m2, trunc)
    end.

  Definition truncate_to (n : nat) (a : address) : address :=
    if Nat.ltb n (List.length a) then firstn n a else a.

  (* Target.Matches(origin) for a matchable origin with address [oaddr], constraints [cs], range [orng] *)
  Definition target_matches (t : target) (oaddr : address) (cs : list ocons) (orng : range) : bool :=
    let init := match cs with [] => negb (is_nil (t_type t)) | _ => false end in
    let '(mcons, trunc) := cons_loop t cs (init, false) in
    let origin_addr := if trunc then truncate_to (List.length (t_addr t)) oaddr else oaddr in
    let local_origin_addr := if trunc then truncate_to (List.length (t_local t)) oaddr else oaddr in
    let range_ok := match t_from t with Some fr => range_overlaps fr orng | None => true end in
    ((addr_equals (t_local t) local_origin_addr && range_ok) || addr_equals (t_addr t) origin_addr) && mcons.

  (* Targets.Match: deep walk in pre-order collecting every matching target *)
  Fixpoint deep_match (oaddr : address) (cs : list ocons) (orng : range) (t : target) : list target :=
    let fix go (l : list target) : list target :=
      match l with [] => [] | x :: r => List.app (deep_match oaddr cs orng x) (go r) end in
    match t with
    | Target _ _ _ _ _ _ _ _ nested =>
        List.app (if target_matches t oaddr cs orng then [t] else []) (go nested)
    end.

  Definition targets_match (ts : list target) (oaddr : address) (cs : list ocons) (orng : range) : list target :=
    flat_map (deep_match oaddr cs orng) ts.

  (* Origins.Match(localPath, target, targetPath): origins first for the target, then its nested targets *)
  Definition origin_matches (local_path target_path : path) (t : target) (o : origin) : bool :=
    match o with
    | OLocal a r cs => path_eqb local_path target_path && target_matches t a cs r
    | OPath r a tp cs => path_eqb tp target_path && target_matches t a cs r
    | ODirect _ _ _ => false
    end.

  Fixpoint origins_match (os : list origin) (local_path target_path : path) (t : target) : list origin :=
    let fix go (l : list target) : list origin :=
      match l with [] => [] | x :: r => List.app (origins_match os local_path target_path x) (go r) end in
    match t with
    | Target _ _ _ _ _ _ _ _ nested =>
        List.app (filter (origin_matches local_path target_path t) os) (go nested)
    end.
End Matching.

(* Origins.AtPos *)
Definition origins_at_pos (os : list origin) (file : string) (p : pos) : list origin :=
  filter (fun o => String.eqb (r_file (o_range o)) file && contains_pos (o_range o) p) os.

Definition rng_has (r : option range) (file : string) (p : pos) : bool :=
  match r with Some x => String.eqb (r_file x) file && contains_pos x p | None => false end.

(* Targets.InnermostAtPos (after the fix commit: nested results are appended, not assigned) *)
Fixpoint innermost_at_pos (fuel : nat) (ts : list target) (file : string) (p : pos) : list target :=
  match fuel with
  | O => []
  | S f =>
      let matching := filter (fun t => rng_has (t_rng t) file p) ts in
      fold_left (fun acc t =>
        if rng_has (t_def t) file p then List.app acc [t]
        else
          match innermost_at_pos f (t_nested t) file p with
          | [] => List.app acc [t]
          | nested => List.app acc nested
          end) matching []
  end.

Fixpoint target_depth (t : target) : nat :=
  let fix go (l : list target) : nat := match l with [] => O | x :: r => Nat.max (target_depth x) (go r) end in
  match t with Target _ _ _ _ _ _ _ _ nested => S (go nested) end.

Definition forest_depth (ts : list target) : nat := fold_right (fun t n => Nat.max (target_depth t) n) O ts.

(* cty.Type.GoString for the types the model knows *)
Fixpoint ty_gostring (t : ty) : string :=
  let fix tys (l : list ty) : list string := match l with [] => [] | a :: r => ty_gostring a :: tys r end in
  let fix oas (l : list (string * (ty * bool))) : list string :=
    match l with [] => [] | (n, (t, _)) :: r => (go_quote n ++ ":" ++ ty_gostring t) :: oas r end in
  let fix opts (l : list (string * (ty * bool))) : list string :=
    match l with [] => [] | (n, (_, o)) :: r => if o then go_quote n :: opts r else opts r end in
  match t with
  | TNil => "cty.NilType" | TDyn => "cty.DynamicPseudoType"
  | TBool => "cty.Bool" | TNum => "cty.Number" | TStr => "cty.String"
  | TList e => "cty.List(" ++ ty_gostring e ++ ")"
  | TSet e => "cty.Set(" ++ ty_gostring e ++ ")"
  | TMap e => "cty.Map(" ++ ty_gostring e ++ ")"
  | TTuple [] => "cty.EmptyTuple"
  | TTuple ts => "cty.Tuple([]cty.Type{" ++ join ", " (tys ts) ++ "})"
  | TObject [] => "cty.EmptyObject"
  | TObject ats =>
      match opts ats with
      | [] => "cty.Object(map[string]cty.Type{" ++ join ", " (oas ats) ++ "})"
      | os => "cty.ObjectWithOptionalAttrs(map[string]cty.Type{" ++ join ", " (oas ats) ++ "}, []string{" ++ join ", " os ++ "})"
      end
  end.

(* Targets.Less (after the fix commits): lexicographic on
   (local address, address, position, scope, type name, name, definition position); the last key of the
   implementation, the description text, is not part of the model's targets *)
Definition lex := lexc.

Definition orange_cmp (a b : option range) : comparison :=
  match a, b with
  | None, None => Eq
  | None, Some _ => Lt
  | Some _, None => Gt
  | Some x, Some y =>
      lex (String.compare (r_file x) (r_file y))
          (lex (Z.compare (p_byte (r_start x)) (p_byte (r_start y))) (Z.compare (p_byte (r_end x)) (p_byte (r_end y))))
  end.

Definition type_name (t : ty) : string := match t with TNil => "" | _ => ty_gostring t end.

Definition target_cmp (a b : target) : comparison :=
  lex (String.compare (addr_string (t_local a)) (addr_string (t_local b)))
 (lex (String.compare (addr_string (t_addr a)) (addr_string (t_addr b)))
 (lex (orange_cmp (t_rng a) (t_rng b))
 (lex (String.compare (t_scope a) (t_scope b))
 (lex (String.compare (type_name (t_type a)) (type_name (t_type b)))
 (lex (String.compare (t_name a) (t_name b))
      (orange_cmp (t_def a) (t_def b))))))).

Definition targets_less (a b : target) : bool := match target_cmp a b with Lt => true | _ => false end.

(* ... and before it: neither asymmetric nor transitive *)
Definition targets_less_prefix (a b : target) : bool :=
  String.ltb (addr_string (t_local a)) (addr_string (t_local b)) || String.ltb (addr_string (t_addr a)) (addr_string (t_addr b)).

(* ---- completion: MatchWalk ---- *)
Section Walk.
  Variable conv : ty -> ty -> bool.
  Variable self_active : bool.
  Variable ref_scope : string.
  Variable ref_type : ty.
  Variable prefix : string.
  Variable outer_body origin_rng : range.

  Definition first_is_self (a : address) : bool :=
    match a with s :: _ => String.eqb (step_string s) "self" | [] => false end.

  Definition target_in_range (t : target) (body : range) : bool :=
    match t_rng t with
    | Some r => String.eqb (r_file body) (r_file r) && (contains_pos body (r_start r) || pos_eqb (r_end body) (r_end r))
    | None => false
    end.

  Section OneTarget.
    Variable contains_match_nested : bool.     (* target.NestedTargets.containsMatch(...) *)
    Definition local_target_matches (t : target) : bool :=
      match t_local t with
      | [] => false
      | _ =>
          if negb (String.prefix prefix (addr_string (t_local t))) then false
          else if negb self_active && first_is_self (t_local t) then false
          else
            let has_nested := contains_match_nested in
            let cyc := match t_rng t with
                       | Some r => negb has_nested &&
                           (range_overlaps r origin_rng ||
                            (String.eqb (r_file r) (r_file origin_rng) && Z.eqb (p_line (r_end r)) (p_line (r_start origin_rng))))
                       | None => false end in
            if cyc then false
            else if match t_from t with Some fr => negb (range_overlaps fr origin_rng) | None => false end then false
            else matches_constraint conv t ref_scope ref_type || has_nested
      end.

    Definition abs_target_matches (t : target) : bool :=
      match t_addr t with
      | [] => false
      | _ =>
          if negb (String.prefix prefix (addr_string (t_addr t))) then false
          else if target_in_range t outer_body then false
          else matches_constraint conv t ref_scope ref_type || contains_match_nested
      end.
  End OneTarget.

  Fixpoint contains_match (fuel : nat) (ts : list target) : bool :=
    match fuel with
    | O => false
    | S f =>
        existsb (fun t =>
          let cm := contains_match f (t_nested t) in
          local_target_matches cm t || abs_target_matches cm t || cm) ts
    end.

  Fixpoint match_walk (fuel : nat) (ts : list target) : list target :=
    match fuel with
    | O => []
    | S f =>
        flat_map (fun t =>
          let cm := contains_match f (t_nested t) in
          if local_target_matches cm t || abs_target_matches cm t then [t]
          else match_walk f (t_nested t)) ts
    end.

  (* Target.Address(ctx, pos) *)
  Definition target_address (t : target) (p : pos) : address :=
    match t_local t with
    | [] => t_addr t
    | _ =>
        match t_addr t with
        | [] => t_local t
        | _ =>
            if first_is_self (t_local t) && self_active &&
               match t_from t with Some fr => contains_pos fr p | None => false end
            then t_local t else t_addr t
        end
    end.
End Walk.

(* ---- the two decoder-level lookups over a world of paths (decoder/reference_targets.go,
        decoder/reference_origins.go) ---- *)
Record path_ctx := { pc_path : path; pc_ok : bool; pc_targets : list target; pc_origins : list origin }.

Fixpoint find_path (w : list path_ctx) (p : path) : option path_ctx :=
  match w with
  | [] => None
  | c :: r => if path_eqb (pc_path c) p then (if pc_ok c then Some c else None) else find_path r p
  end.

Record ref_target := { rt_origin : range; rt_path : path; rt_range : range; rt_def : option range }.

Section Lookups.
  Variable conv : ty -> ty -> bool.
  Variable w : list path_ctx.

  Definition resolve_origin (own : path_ctx) (o : origin) : list ref_target :=
    match o with
    | ODirect r tp tr => [{| rt_origin := r; rt_path := tp; rt_range := tr; rt_def := None |}]
    | OPath r a tp cs =>
        match find_path w tp with
        | None => []
        | Some c =>
            flat_map (fun t => match t_rng t with
                               | Some tr => [{| rt_origin := r; rt_path := tp; rt_range := tr; rt_def := t_def t |}]
                               | None => [] end)
                     (targets_match conv (pc_targets c) a cs r)
        end
    | OLocal a r cs =>
        flat_map (fun t => match t_rng t with
                           | Some tr => [{| rt_origin := r; rt_path := pc_path own; rt_range := tr; rt_def := t_def t |}]
                           | None => [] end)
                 (targets_match conv (pc_targets own) a cs r)
    end.

  (* Decoder.ReferenceTargetsForOriginAtPos: None = an error is returned *)
  Definition targets_for_origin_at_pos (p : path) (file : string) (x : pos) : option (list ref_target) :=
    match find_path w p with
    | None => None
    | Some own =>
        match origins_at_pos (pc_origins own) file x with
        | [] => None                                  (* NoOriginFound *)
        | os => Some (flat_map (resolve_origin own) os)
        end
    end.

  Definition ro_ltb (a b : path * range) : bool :=
    let '(pa, ra) := a in let '(pb, rb) := b in
    if negb (String.eqb (pa_path pa) (pa_path pb)) then String.ltb (pa_path pa) (pa_path pb)
    else if negb (String.eqb (r_file ra) (r_file rb)) then String.ltb (r_file ra) (r_file rb)
    else Z.ltb (p_byte (r_start ra)) (p_byte (r_start rb)).

  (* Decoder.ReferenceOriginsTargetingPos *)
  Definition origins_targeting_pos (p : path) (file : string) (x : pos) : list (path * range) :=
    match find_path w p with
    | None => []
    | Some own =>
        let ts := innermost_at_pos (S (forest_depth (pc_targets own))) (pc_targets own) file x in
        let raw := flat_map (fun t =>
                     flat_map (fun c => if pc_ok c
                                        then map (fun o => (pc_path c, o_range o)) (origins_match conv (pc_origins c) (pc_path c) p t)
                                        else []) w) ts in
        Base.SortSpec.stable_sort ro_ltb raw
    end.
End Lookups.

(* ---------------- reader / printer / runner entries ---------------- *)
Definition orange_of_sexp (x : sexp) : option (option range) :=
  match x with SList [] => Some None | _ => option_map Some (range_of_sexp x) end.

Fixpoint target_of_sexp (x : sexp) : option target :=
  let fix ts (l : list sexp) : option (list target) :=
    match l with
    | [] => Some []
    | a :: r => match target_of_sexp a, ts r with Some t, Some rs => Some (t :: rs) | _, _ => None end
    end in
  match x with
  | SList [SAtom _; ad; la; fr; SStr sc; rg; df; ty; SStr nm; SList nested] =>
      match addr_of_sexp ad, addr_of_sexp la, orange_of_sexp fr, orange_of_sexp rg, orange_of_sexp df, ty_of_sexp ty, ts nested with
      | Some ad, Some la, Some fr, Some rg, Some df, Some ty, Some nested => Some (Target ad la fr sc rg df ty nm nested)
      | _, _, _, _, _, _, _ => None
      end
  | _ => None
  end.

Definition sexp_of_addr (a : address) : sexp :=
  SList (map (fun s => match s with
    | SRoot n => SList [SAtom "root"; SStr n] | SAttr n => SList [SAtom "attr"; SStr n]
    | SIdxNum z => SList [SAtom "idxn"; sZ z] | SIdxStr k => SList [SAtom "idxs"; SStr k]
    | SIdxBad => SList [SAtom "idxbad"] end) a).

Fixpoint sexp_of_target (t : target) : sexp :=
  let fix ts (l : list target) : list sexp := match l with [] => [] | a :: r => sexp_of_target a :: ts r end in
  match t with
  | Target ad la fr sc rg df ty nm nested =>
      SList [SAtom "target"; sexp_of_addr ad; sexp_of_addr la; sopt sexp_of_range fr; SStr sc;
             sopt sexp_of_range rg; sopt sexp_of_range df; sexp_of_ty ty; SStr nm; SList (ts nested)]
  end.

Definition ocons_of_sexp (x : sexp) : option ocons :=
  match x with
  | SList [SStr sc; ty] => option_map (fun t => {| oc_scope := sc; oc_type := t |}) (ty_of_sexp ty)
  | _ => None
  end.

Definition path_of_sexp (x : sexp) : option path :=
  match x with SList [SStr p; SStr l] => Some {| pa_path := p; pa_lang := l |} | _ => None end.

Definition origin_of_sexp (x : sexp) : option origin :=
  match x with
  | SList [SAtom k; a; b; c] =>
      if String.eqb k "local" then
        match addr_of_sexp a, range_of_sexp b, c with
        | Some ad, Some r, SList cs => option_map (OLocal ad r) (map_opt ocons_of_sexp cs)
        | _, _, _ => None end
      else if String.eqb k "direct" then
        match range_of_sexp a, path_of_sexp b, range_of_sexp c with
        | Some r, Some p, Some tr => Some (ODirect r p tr) | _, _, _ => None end
      else None
  | SList [SAtom k; a; b; c; d] =>
      if String.eqb k "path" then
        match range_of_sexp a, addr_of_sexp b, path_of_sexp c, d with
        | Some r, Some ad, Some p, SList cs => option_map (OPath r ad p) (map_opt ocons_of_sexp cs)
        | _, _, _, _ => None end
      else None
  | _ => None
  end.

Definition sexp_of_ocons (c : ocons) : sexp := SList [SStr (oc_scope c); sexp_of_ty (oc_type c)].
Definition sexp_of_path (p : path) : sexp := SList [SStr (pa_path p); SStr (pa_lang p)].

Definition sexp_of_origin (o : origin) : sexp :=
  match o with
  | OLocal a r cs => SList [SAtom "local"; sexp_of_addr a; sexp_of_range r; SList (map sexp_of_ocons cs)]
  | OPath r a p cs => SList [SAtom "path"; sexp_of_range r; sexp_of_addr a; sexp_of_path p; SList (map sexp_of_ocons cs)]
  | ODirect r p tr => SList [SAtom "direct"; sexp_of_range r; sexp_of_path p; sexp_of_range tr]
  end.

(* conversion table: ((from to bool) ...) *)
Definition conv_entry_of_sexp (x : sexp) : option (ty * ty * bool) :=
  match x with
  | SList [a; b; c] => match ty_of_sexp a, ty_of_sexp b, as_bool c with Some a, Some b, Some c => Some (a, b, c) | _, _, _ => None end
  | _ => None
  end.

Fixpoint conv_lookup (tbl : list (ty * ty * bool)) (a b : ty) : bool :=
  match tbl with
  | [] => false
  | (x, y, r) :: rest => if ty_eqb x a && ty_eqb y b then r else conv_lookup rest a b
  end.

Definition origin_parts (o : origin) : option (address * list ocons * range) :=
  match o with
  | OLocal a r cs => Some (a, cs, r)
  | OPath r a _ cs => Some (a, cs, r)
  | ODirect _ _ _ => None
  end.

Definition pctx_of_sexp (x : sexp) : option path_ctx :=
  match x with
  | SList [p; ok; SList ts; SList os] =>
      match path_of_sexp p, as_bool ok, map_opt target_of_sexp ts, map_opt origin_of_sexp os with
      | Some p, Some ok, Some ts, Some os => Some {| pc_path := p; pc_ok := ok; pc_targets := ts; pc_origins := os |}
      | _, _, _, _ => None
      end
  | _ => None
  end.

Definition run_ref (kind : string) (args : list sexp) : option sexp :=
  if String.eqb kind "tmatch" then
    match args with
    | [SList cv; t; o] =>
        match map_opt conv_entry_of_sexp cv, target_of_sexp t, origin_of_sexp o with
        | Some cv, Some t, Some o =>
            match origin_parts o with
            | Some (a, cs, r) => Some (sB (target_matches (conv_lookup cv) t a cs r))
            | None => None
            end
        | _, _, _ => None
        end
    | _ => None
    end
  else if String.eqb kind "tsmatch" then
    match args with
    | [SList cv; SList ts; o] =>
        match map_opt conv_entry_of_sexp cv, map_opt target_of_sexp ts, origin_of_sexp o with
        | Some cv, Some ts, Some o =>
            match origin_parts o with
            | Some (a, cs, r) => Some (SList (map sexp_of_target (targets_match (conv_lookup cv) ts a cs r)))
            | None => None
            end
        | _, _, _ => None
        end
    | _ => None
    end
  else if String.eqb kind "omatch" then
    match args with
    | [SList cv; SList os; lp; t; tp] =>
        match map_opt conv_entry_of_sexp cv, map_opt origin_of_sexp os, path_of_sexp lp, target_of_sexp t, path_of_sexp tp with
        | Some cv, Some os, Some lp, Some t, Some tp =>
            Some (SList (map sexp_of_origin (origins_match (conv_lookup cv) os lp tp t)))
        | _, _, _, _, _ => None
        end
    | _ => None
    end
  else if String.eqb kind "innermost" then
    match args with
    | [SList ts; SStr file; p] =>
        match map_opt target_of_sexp ts, pos_of_sexp p with
        | Some ts, Some p => Some (SList (map sexp_of_target (innermost_at_pos (S (forest_depth ts)) ts file p)))
        | _, _ => None
        end
    | _ => None
    end
  else if String.eqb kind "atpos" then
    match args with
    | [SList os; SStr file; p] =>
        match map_opt origin_of_sexp os, pos_of_sexp p with
        | Some os, Some p => Some (SList (map sexp_of_origin (origins_at_pos os file p)))
        | _, _ => None
        end
    | _ => None
    end
  else if String.eqb kind "less" then
    match args with
    | [a; b] => match target_of_sexp a, target_of_sexp b with Some a, Some b => Some (sB (targets_less a b)) | _, _ => None end
    | _ => None
    end
  else if String.eqb kind "gotodef" then
    match args with
    | [SList cv; SList w; p; SStr file; x] =>
        match map_opt conv_entry_of_sexp cv, map_opt pctx_of_sexp w, path_of_sexp p, pos_of_sexp x with
        | Some cv, Some w, Some p, Some x =>
            match targets_for_origin_at_pos (conv_lookup cv) w p file x with
            | None => Some (SList [SAtom "error"])
            | Some rts => Some (SList (map (fun rt => SList [sexp_of_range (rt_origin rt); SStr (pa_path (rt_path rt));
                                                             sexp_of_range (rt_range rt); sopt sexp_of_range (rt_def rt)]) rts))
            end
        | _, _, _, _ => None
        end
    | _ => None
    end
  else if String.eqb kind "findrefs" then
    match args with
    | [SList cv; SList w; p; SStr file; x] =>
        match map_opt conv_entry_of_sexp cv, map_opt pctx_of_sexp w, path_of_sexp p, pos_of_sexp x with
        | Some cv, Some w, Some p, Some x =>
            Some (SList (map (fun pr => SList [SStr (pa_path (fst pr)); sexp_of_range (snd pr)])
                             (origins_targeting_pos (conv_lookup cv) w p file x)))
        | _, _, _, _ => None
        end
    | _ => None
    end
  else if String.eqb kind "matchwalk" then
    match args with
    | [SList cv; self; SStr sc; ty; SStr pfx; outer; org; SList ts] =>
        match map_opt conv_entry_of_sexp cv, as_bool self, ty_of_sexp ty, range_of_sexp outer, range_of_sexp org, map_opt target_of_sexp ts with
        | Some cv, Some self, Some ty, Some outer, Some org, Some ts =>
            let fuel := S (forest_depth ts) in
            Some (SList (map (fun t => SStr (addr_string (target_address self t (r_start org))))
                             (match_walk (conv_lookup cv) self sc ty pfx outer org fuel ts)))
        | _, _, _, _, _, _ => None
        end
    | _ => None
    end
  else None.
