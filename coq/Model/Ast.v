(* The syntax tree as hcl-lang sees it (hclsyntax.Body/Block/Attribute and the expression node
   kinds the decoder distinguishes).  Results of HCL's own evaluators/static analysers are
   annotations filled in by the harness from the real library (DESIGN.md 3.5). *)
From Coq Require Import String List ZArith Bool.
From HV Require Import Base.Sexp Base.Pos Model.Addr Model.DepKeys.
Import ListNotations.
Open Scope string_scope.

(* attr.Expr.Value(nil), as dependencyKeysFromBlock consumes it *)
Inductive eval_result :=
| EvSkip                          (* diagnostics and a null value: attribute skipped *)
| EvStatic (v : static_val)       (* a value SimpleJSONValue can render from the model *)
| EvJson (json : string)          (* a complex value, rendered by ctyjson in the harness *)
| EvUnmarshalable.                (* unknown value: MarshalJSON fails *)

Inductive expr :=
| ETraversal (r : range) (addr : option address)      (* ScopeTraversalExpr + TraversalToAddress *)
| ELiteral (r : range) (t : string)                   (* LiteralValueExpr, friendly type tag *)
| ETemplate (r : range) (string_literal multiline : bool)
| ETuple (r : range) (elems : list expr)
| EObject (r : range) (items : list obj_item)
| EOther (r : range) (kind : string)
with obj_item :=
| ObjItem (key_rng : range) (key : option string) (v : expr).   (* key = literal string key, if any *)

Definition expr_range (e : expr) : range :=
  match e with
  | ETraversal r _ | ELiteral r _ | ETemplate r _ _ | ETuple r _ | EObject r _ | EOther r _ => r
  end.

Record attr := {
  a_name : string; a_expr : expr; a_rng : range; a_name_rng : range; a_eq_rng : range; a_val : eval_result }.

Inductive body :=
| Body (attrs : list attr) (blocks : list block) (rng end_rng : range)
with block :=
| Block (type : string) (labels : list string) (label_rngs : list range)
        (type_rng open_rng close_rng rng def_rng : range) (b : body).

Definition b_attrs b := match b with Body a _ _ _ => a end.
Definition b_blocks b := match b with Body _ a _ _ => a end.
Definition b_rng b := match b with Body _ _ a _ => a end.
Definition b_end_rng b := match b with Body _ _ _ a => a end.

Definition k_type k := match k with Block a _ _ _ _ _ _ _ _ => a end.
Definition k_labels k := match k with Block _ a _ _ _ _ _ _ _ => a end.
Definition k_label_rngs k := match k with Block _ _ a _ _ _ _ _ _ => a end.
Definition k_type_rng k := match k with Block _ _ _ a _ _ _ _ _ => a end.
Definition k_open_rng k := match k with Block _ _ _ _ a _ _ _ _ => a end.
Definition k_close_rng k := match k with Block _ _ _ _ _ a _ _ _ => a end.
Definition k_rng k := match k with Block _ _ _ _ _ _ a _ _ => a end.
Definition k_def_rng k := match k with Block _ _ _ _ _ _ _ a _ => a end.
Definition k_body k := match k with Block _ _ _ _ _ _ _ _ a => a end.

(* induction principle that reaches the blocks nested in a body *)
Section BodyInd.
  Variable P : body -> Prop.
  Variable Q : block -> Prop.
  Hypothesis Hbody : forall attrs blocks r e, Forall Q blocks -> P (Body attrs blocks r e).
  Hypothesis Hblock : forall t ls lrs tr o c r d b, P b -> Q (Block t ls lrs tr o c r d b).
  Fixpoint body_ind' (b : body) : P b :=
    match b with
    | Body attrs blocks r e =>
        Hbody attrs blocks r e
          ((fix go (l : list block) : Forall Q l :=
              match l with
              | [] => Forall_nil Q
              | k :: rest => Forall_cons k (block_ind' k) (go rest)
              end) blocks)
    end
  with block_ind' (k : block) : Q k :=
    match k with Block t ls lrs tr o c r d b => Hblock t ls lrs tr o c r d b (body_ind' b) end.
End BodyInd.

Fixpoint find_attr (n : string) (l : list attr) : option attr :=
  match l with
  | [] => None
  | a :: r => if String.eqb n (a_name a) then Some a else find_attr n r
  end.

(* ---------------- reader ---------------- *)
Definition eval_of_sexp (x : sexp) : option eval_result :=
  match x with
  | SList [SAtom t] =>
      if String.eqb t "skip" then Some EvSkip else if String.eqb t "unmarshalable" then Some EvUnmarshalable else None
  | SList [SAtom t; SStr j] => if String.eqb t "json" then Some (EvJson j) else None
  | SList [SAtom t; v] => if String.eqb t "static" then option_map EvStatic (static_of_sexp v) else None
  | _ => None
  end.

Definition opt_of_sexp_str (k : sexp) : option (option string) :=
  match k with SList [] => Some None | SStr s => Some (Some s) | _ => None end.

Fixpoint expr_of_sexp (x : sexp) : option expr :=
  let fix exprs (l : list sexp) : option (list expr) :=
    match l with
    | [] => Some []
    | a :: r => match expr_of_sexp a, exprs r with Some e, Some es => Some (e :: es) | _, _ => None end
    end in
  let fix items (l : list sexp) : option (list obj_item) :=
    match l with
    | [] => Some []
    | SList [kr; k; v] :: r =>
        match range_of_sexp kr, opt_of_sexp_str k, expr_of_sexp v, items r with
        | Some kr, Some k, Some v, Some rs => Some (ObjItem kr k v :: rs)
        | _, _, _, _ => None
        end
    | _ => None
    end in
  match x with
  | SList (SAtom k :: r :: args) =>
      match range_of_sexp r with
      | None => None
      | Some r =>
          if String.eqb k "trav" then
            match args with
            | [SList []] => Some (ETraversal r None)
            | [SList [a]] => option_map (fun a => ETraversal r (Some a)) (addr_of_sexp a)
            | _ => None end
          else if String.eqb k "lit" then
            match args with [SStr t] => Some (ELiteral r t) | _ => None end
          else if String.eqb k "tmpl" then
            match args with [a; b] => match as_bool a, as_bool b with Some a, Some b => Some (ETemplate r a b) | _, _ => None end | _ => None end
          else if String.eqb k "tuple" then
            match args with [SList es] => option_map (ETuple r) (exprs es) | _ => None end
          else if String.eqb k "object" then
            match args with [SList its] => option_map (EObject r) (items its) | _ => None end
          else if String.eqb k "other" then
            match args with [SStr t] => Some (EOther r t) | _ => None end
          else None
      end
  | _ => None
  end.

Definition attr_of_sexp (x : sexp) : option attr :=
  match x with
  | SList [SStr n; e; r; nr; er; v] =>
      match expr_of_sexp e, range_of_sexp r, range_of_sexp nr, range_of_sexp er, eval_of_sexp v with
      | Some e, Some r, Some nr, Some er, Some v =>
          Some {| a_name := n; a_expr := e; a_rng := r; a_name_rng := nr; a_eq_rng := er; a_val := v |}
      | _, _, _, _, _ => None
      end
  | _ => None
  end.

Fixpoint body_of_sexp (x : sexp) : option body :=
  let fix blocks (l : list sexp) : option (list block) :=
    match l with
    | [] => Some []
    | SList [SStr t; SList ls; SList lrs; tr; orng; crng; r; dr; b] :: rest =>
        match map_opt as_str ls, map_opt range_of_sexp lrs, range_of_sexp tr, range_of_sexp orng,
              range_of_sexp crng, range_of_sexp r, range_of_sexp dr, body_of_sexp b, blocks rest with
        | Some ls, Some lrs, Some tr, Some orng, Some crng, Some r, Some dr, Some b, Some rs =>
            Some (Block t ls lrs tr orng crng r dr b :: rs)
        | _, _, _, _, _, _, _, _, _ => None
        end
    | _ => None
    end in
  match x with
  | SList [SAtom _; SList ats; SList bls; r; er] =>
      match map_opt attr_of_sexp ats, blocks bls, range_of_sexp r, range_of_sexp er with
      | Some ats, Some bls, Some r, Some er => Some (Body ats bls r er)
      | _, _, _, _ => None
      end
  | _ => None
  end.
