(* schema.BodySchema / BlockSchema / AttributeSchema / LabelSchema / Constraint as data.
   Go maps are association lists sorted by key with unique keys (the harness emits them sorted;
   wf_* below state it).  Fields the modelled functions only move around (TargetableAs,
   ImpliedOrigins, Targets, addresses) are carried as opaque s-expressions. *)
From Coq Require Import String List ZArith Bool.
From HV Require Import Base.Sexp Base.Str Model.Addr Model.DepKeys.
Import ListNotations.
Open Scope string_scope.

Inductive block_type := BTNil | BTList | BTMap | BTObject | BTSet.

Record extensions := { ext_count : bool; ext_for_each : bool; ext_dynamic : bool; ext_self_refs : bool }.

Record label_schema := {
  ls_name : string; ls_depkey : bool; ls_completable : bool; ls_mods : list string; ls_desc : string }.

Record attr_flags := {
  af_required : bool; af_optional : bool; af_computed : bool; af_deprecated : bool;
  af_sensitive : bool; af_writeonly : bool; af_depkey : bool }.

(* cty types as far as the model looks into them *)
Inductive ty :=
| TNil | TDyn | TBool | TNum | TStr
| TList (t : ty) | TSet (t : ty) | TMap (t : ty)
| TTuple (ts : list ty)
| TObject (ats : list (string * (ty * bool))).   (* name -> (type, optional), sorted by name *)

Inductive constraint :=
| CAny (t : ty) (skip_complex : bool)
| CLitType (t : ty) (skip_complex : bool)
| CLitValue (v : sexp) (t : ty) (deprecated : bool)
| CKeyword (kw name : string)
| CRef (scope : string) (t : ty) (name : string) (addr_scope : option string)
| CTypeDecl
| CList (e : option constraint) (min max : Z)
| CSet (e : option constraint) (min max : Z)
| CTuple (es : list constraint)
| CMap (e : option constraint) (name : string) (interp : bool) (min max : Z)
| CObject (ats : list (string * attr_schema)) (attrs_nil : bool) (name : string) (interp : bool)
| COneOf (cs : list constraint)
with attr_schema :=
| AttrSchema (fl : attr_flags) (default : option static_val) (desc : string) (c : constraint)
             (mods : list string) (hooks : Z) (addr : sexp) (origin_for : sexp).

Definition as_flags (a : attr_schema) := match a with AttrSchema f _ _ _ _ _ _ _ => f end.
Definition as_default (a : attr_schema) := match a with AttrSchema _ d _ _ _ _ _ _ => d end.
Definition as_desc (a : attr_schema) := match a with AttrSchema _ _ d _ _ _ _ _ => d end.
Definition as_cons (a : attr_schema) := match a with AttrSchema _ _ _ c _ _ _ _ => c end.
Definition as_mods (a : attr_schema) := match a with AttrSchema _ _ _ _ m _ _ _ => m end.
Definition as_hooks (a : attr_schema) := match a with AttrSchema _ _ _ _ _ h _ _ => h end.
Definition as_addr (a : attr_schema) := match a with AttrSchema _ _ _ _ _ _ x _ => x end.

Inductive body_schema :=
| BodySchema (attrs : list (string * attr_schema)) (any_attr : option attr_schema)
             (blocks : list (string * block_schema)) (ext : option extensions)
             (docs : option (string * string)) (desc detail hover_url : string)
             (targetable implied : list sexp) (targets : sexp)
with block_schema :=
| BlockSchema (labels : list label_schema) (bt : block_type) (body : option body_schema)
              (dep : list (string * body_schema)) (min max : Z) (deprecated : bool)
              (desc : string) (mods : list string) (addr : sexp).

Definition bs_attrs b := match b with BodySchema a _ _ _ _ _ _ _ _ _ _ => a end.
Definition bs_any b := match b with BodySchema _ a _ _ _ _ _ _ _ _ _ => a end.
Definition bs_blocks b := match b with BodySchema _ _ a _ _ _ _ _ _ _ _ => a end.
Definition bs_ext b := match b with BodySchema _ _ _ a _ _ _ _ _ _ _ => a end.
Definition bs_docs b := match b with BodySchema _ _ _ _ a _ _ _ _ _ _ => a end.
Definition bs_desc b := match b with BodySchema _ _ _ _ _ a _ _ _ _ _ => a end.
Definition bs_detail b := match b with BodySchema _ _ _ _ _ _ a _ _ _ _ => a end.
Definition bs_hover_url b := match b with BodySchema _ _ _ _ _ _ _ a _ _ _ => a end.
Definition bs_targetable b := match b with BodySchema _ _ _ _ _ _ _ _ a _ _ => a end.
Definition bs_implied b := match b with BodySchema _ _ _ _ _ _ _ _ _ a _ => a end.
Definition bs_targets b := match b with BodySchema _ _ _ _ _ _ _ _ _ _ a => a end.

Definition bk_labels b := match b with BlockSchema a _ _ _ _ _ _ _ _ _ => a end.
Definition bk_type b := match b with BlockSchema _ a _ _ _ _ _ _ _ _ => a end.
Definition bk_body b := match b with BlockSchema _ _ a _ _ _ _ _ _ _ => a end.
Definition bk_dep b := match b with BlockSchema _ _ _ a _ _ _ _ _ _ => a end.
Definition bk_min b := match b with BlockSchema _ _ _ _ a _ _ _ _ _ => a end.
Definition bk_max b := match b with BlockSchema _ _ _ _ _ a _ _ _ _ => a end.
Definition bk_deprecated b := match b with BlockSchema _ _ _ _ _ _ a _ _ _ => a end.
Definition bk_desc b := match b with BlockSchema _ _ _ _ _ _ _ a _ _ => a end.
Definition bk_mods b := match b with BlockSchema _ _ _ _ _ _ _ _ a _ => a end.
Definition bk_addr b := match b with BlockSchema _ _ _ _ _ _ _ _ _ a => a end.

Definition ext_has (f : extensions -> bool) (e : option extensions) : bool :=
  match e with Some x => f x | None => false end.

(* association lists *)
Fixpoint alookup {A} (k : string) (l : list (string * A)) : option A :=
  match l with
  | [] => None
  | (k', v) :: r => if String.eqb k k' then Some v else alookup k r
  end.

(* insert or overwrite keeping the list sorted by key (Go: m[k] = v) *)
Fixpoint aset {A} (k : string) (v : A) (l : list (string * A)) : list (string * A) :=
  match l with
  | [] => [(k, v)]
  | (k', v') :: r =>
      if String.eqb k k' then (k, v) :: r
      else if String.ltb k k' then (k, v) :: (k', v') :: r
      else (k', v') :: aset k v r
  end.

Definition akeys {A} (l : list (string * A)) : list string := map fst l.

(* ---------------- reader ---------------- *)
Definition bt_of_Z (z : Z) : block_type :=
  match z with 1%Z => BTList | 2%Z => BTMap | 3%Z => BTObject | 4%Z => BTSet | _ => BTNil end.

Definition strs_of_sexp (x : sexp) : option (list string) :=
  match x with SList l => map_opt as_str l | _ => None end.

Definition flags_of_sexp (x : sexp) : option attr_flags :=
  match x with
  | SList [a; b; c; d; e; f; g] =>
      match as_bool a, as_bool b, as_bool c, as_bool d, as_bool e, as_bool f, as_bool g with
      | Some a, Some b, Some c, Some d, Some e, Some f, Some g =>
          Some {| af_required := a; af_optional := b; af_computed := c; af_deprecated := d;
                  af_sensitive := e; af_writeonly := f; af_depkey := g |}
      | _, _, _, _, _, _, _ => None
      end
  | _ => None
  end.

Definition opt_of_sexp {A} (f : sexp -> option A) (x : sexp) : option (option A) :=
  match x with
  | SList [] => Some None
  | _ => match f x with Some a => Some (Some a) | None => None end
  end.

Fixpoint ty_of_sexp (x : sexp) : option ty :=
  let fix tys (l : list sexp) : option (list ty) :=
    match l with
    | [] => Some []
    | a :: r => match ty_of_sexp a, tys r with Some t, Some ts => Some (t :: ts) | _, _ => None end
    end in
  let fix oas (l : list sexp) : option (list (string * (ty * bool))) :=
    match l with
    | [] => Some []
    | SList [SStr n; t; o] :: r =>
        match ty_of_sexp t, as_bool o, oas r with
        | Some t, Some o, Some rs => Some ((n, (t, o)) :: rs)
        | _, _, _ => None
        end
    | _ => None
    end in
  match x with
  | SAtom a =>
      if String.eqb a "nil" then Some TNil else if String.eqb a "dyn" then Some TDyn
      else if String.eqb a "bool" then Some TBool else if String.eqb a "num" then Some TNum
      else if String.eqb a "str" then Some TStr else None
  | SList [SAtom a; e] =>
      if String.eqb a "list" then option_map TList (ty_of_sexp e)
      else if String.eqb a "set" then option_map TSet (ty_of_sexp e)
      else if String.eqb a "map" then option_map TMap (ty_of_sexp e)
      else if String.eqb a "tuple" then
        match e with SList l => option_map TTuple (tys l) | _ => None end
      else if String.eqb a "object" then
        match e with SList l => option_map TObject (oas l) | _ => None end
      else None
  | _ => None
  end.

Fixpoint cons_of_sexp (x : sexp) : option constraint :=
  let fix conss (l : list sexp) : option (list constraint) :=
    match l with
    | [] => Some []
    | a :: r => match cons_of_sexp a, conss r with Some t, Some ts => Some (t :: ts) | _, _ => None end
    end in
  let fix nattrs (l : list sexp) : option (list (string * attr_schema)) :=
    match l with
    | [] => Some []
    | SList [SStr n; a] :: r =>
        match attr_of_sexp a, nattrs r with Some a, Some rs => Some ((n, a) :: rs) | _, _ => None end
    | _ => None
    end in
  let ocons (e : sexp) : option (option constraint) :=
    match e with
    | SList [] => Some None
    | _ => match cons_of_sexp e with Some c => Some (Some c) | None => None end
    end in
  match x with
  | SList (SAtom k :: args) =>
      if String.eqb k "any" then
        match args with [t; s] => match ty_of_sexp t, as_bool s with Some t, Some s => Some (CAny t s) | _, _ => None end | _ => None end
      else if String.eqb k "littype" then
        match args with [t; s] => match ty_of_sexp t, as_bool s with Some t, Some s => Some (CLitType t s) | _, _ => None end | _ => None end
      else if String.eqb k "litval" then
        match args with [v; t; d] => match ty_of_sexp t, as_bool d with Some t, Some d => Some (CLitValue v t d) | _, _ => None end | _ => None end
      else if String.eqb k "keyword" then
        match args with [SStr a; SStr b] => Some (CKeyword a b) | _ => None end
      else if String.eqb k "ref" then
        match args with
        | [SStr sc; t; SStr nm; ad] =>
            match ty_of_sexp t, opt_of_sexp as_str ad with Some t, Some ad => Some (CRef sc t nm ad) | _, _ => None end
        | _ => None end
      else if String.eqb k "typedecl" then Some CTypeDecl
      else if String.eqb k "list" then
        match args with [e; mn; mx] => match ocons e, as_Z mn, as_Z mx with Some e, Some mn, Some mx => Some (CList e mn mx) | _, _, _ => None end | _ => None end
      else if String.eqb k "set" then
        match args with [e; mn; mx] => match ocons e, as_Z mn, as_Z mx with Some e, Some mn, Some mx => Some (CSet e mn mx) | _, _, _ => None end | _ => None end
      else if String.eqb k "tuple" then
        match args with [SList es] => option_map CTuple (conss es) | _ => None end
      else if String.eqb k "map" then
        match args with
        | [e; SStr nm; ip; mn; mx] =>
            match ocons e, as_bool ip, as_Z mn, as_Z mx with
            | Some e, Some ip, Some mn, Some mx => Some (CMap e nm ip mn mx) | _, _, _, _ => None end
        | _ => None end
      else if String.eqb k "object" then
        match args with
        | [SList ats; isnil; SStr nm; ip] =>
            match nattrs ats, as_bool isnil, as_bool ip with
            | Some ats, Some isnil, Some ip => Some (CObject ats isnil nm ip) | _, _, _ => None end
        | _ => None end
      else if String.eqb k "oneof" then
        match args with [SList cs] => option_map COneOf (conss cs) | _ => None end
      else None
  | _ => None
  end
with attr_of_sexp (x : sexp) : option attr_schema :=
  match x with
  | SList [SAtom _; fl; df; SStr desc; c; md; hk; ad; og] =>
      match flags_of_sexp fl, opt_of_sexp static_of_sexp df, cons_of_sexp c, strs_of_sexp md, as_Z hk with
      | Some fl, Some df, Some c, Some md, Some hk => Some (AttrSchema fl df desc c md hk ad og)
      | _, _, _, _, _ => None
      end
  | _ => None
  end.

Fixpoint nattrs_of_sexp (l : list sexp) : option (list (string * attr_schema)) :=
  match l with
  | [] => Some []
  | SList [SStr n; a] :: r =>
      match attr_of_sexp a, nattrs_of_sexp r with Some a, Some rs => Some ((n, a) :: rs) | _, _ => None end
  | _ => None
  end.

Definition label_of_sexp (x : sexp) : option label_schema :=
  match x with
  | SList [SStr n; dk; cp; md; SStr ds] =>
      match as_bool dk, as_bool cp, strs_of_sexp md with
      | Some dk, Some cp, Some md => Some {| ls_name := n; ls_depkey := dk; ls_completable := cp; ls_mods := md; ls_desc := ds |}
      | _, _, _ => None
      end
  | _ => None
  end.

Definition ext_of_sexp (x : sexp) : option extensions :=
  match x with
  | SList [a; b; c; d] =>
      match as_bool a, as_bool b, as_bool c, as_bool d with
      | Some a, Some b, Some c, Some d => Some {| ext_count := a; ext_for_each := b; ext_dynamic := c; ext_self_refs := d |}
      | _, _, _, _ => None
      end
  | _ => None
  end.

Definition docs_of_sexp (x : sexp) : option (string * string) :=
  match x with SList [SStr u; SStr t] => Some (u, t) | _ => None end.

Fixpoint body_of_sexp (x : sexp) : option body_schema :=
  let fix nblocks (l : list sexp) : option (list (string * block_schema)) :=
    match l with
    | [] => Some []
    | SList [SStr n; b] :: r =>
        match block_of_sexp b, nblocks r with Some b, Some rs => Some ((n, b) :: rs) | _, _ => None end
    | _ => None
    end in
  match x with
  | SList [SAtom _; SList ats; any; SList bls; ex; dc; SStr desc; SStr detail; SStr hurl; SList tg; SList im; tgs] =>
      match nattrs_of_sexp ats, opt_of_sexp attr_of_sexp any, nblocks bls, opt_of_sexp ext_of_sexp ex, opt_of_sexp docs_of_sexp dc with
      | Some ats, Some any, Some bls, Some ex, Some dc => Some (BodySchema ats any bls ex dc desc detail hurl tg im tgs)
      | _, _, _, _, _ => None
      end
  | _ => None
  end
with block_of_sexp (x : sexp) : option block_schema :=
  let fix nbodies (l : list sexp) : option (list (string * body_schema)) :=
    match l with
    | [] => Some []
    | SList [SStr n; b] :: r =>
        match body_of_sexp b, nbodies r with Some b, Some rs => Some ((n, b) :: rs) | _, _ => None end
    | _ => None
    end in
  match x with
  | SList [SAtom _; SList lbs; bt; bd; SList dep; mn; mx; depr; SStr desc; md; ad] =>
      match map_opt label_of_sexp lbs, as_Z bt,
            match bd with SList [] => Some None | _ => option_map Some (body_of_sexp bd) end,
            nbodies dep, as_Z mn, as_Z mx, as_bool depr, strs_of_sexp md with
      | Some lbs, Some bt, Some bd, Some dep, Some mn, Some mx, Some depr, Some md =>
          Some (BlockSchema lbs (bt_of_Z bt) bd dep mn mx depr desc md ad)
      | _, _, _, _, _, _, _, _ => None
      end
  | _ => None
  end.

(* ---------------- printer (inverse of the reader; used to compare derived schemas) ---------------- *)
Definition sStrs (l : list string) : sexp := SList (map SStr l).

Definition sexp_of_static (v : static_val) : sexp :=
  match v with
  | SVNone => SList [SAtom "none"]
  | SVNull => SList [SAtom "null"]
  | SVBool true => SList [SAtom "true"]
  | SVBool false => SList [SAtom "false"]
  | SVStr s => SList [SAtom "str"; SStr s]
  | SVNum z => SList [SAtom "num"; sZ z]
  end.

Fixpoint sexp_of_ty (t : ty) : sexp :=
  let fix tys (l : list ty) : list sexp := match l with [] => [] | a :: r => sexp_of_ty a :: tys r end in
  let fix oas (l : list (string * (ty * bool))) : list sexp :=
    match l with [] => [] | (n, (t, o)) :: r => SList [SStr n; sexp_of_ty t; sB o] :: oas r end in
  match t with
  | TNil => SAtom "nil" | TDyn => SAtom "dyn" | TBool => SAtom "bool" | TNum => SAtom "num" | TStr => SAtom "str"
  | TList e => SList [SAtom "list"; sexp_of_ty e]
  | TSet e => SList [SAtom "set"; sexp_of_ty e]
  | TMap e => SList [SAtom "map"; sexp_of_ty e]
  | TTuple ts => SList [SAtom "tuple"; SList (tys ts)]
  | TObject ats => SList [SAtom "object"; SList (oas ats)]
  end.

Definition sexp_of_flags (f : attr_flags) : sexp :=
  SList [sB (af_required f); sB (af_optional f); sB (af_computed f); sB (af_deprecated f);
         sB (af_sensitive f); sB (af_writeonly f); sB (af_depkey f)].

Definition sopt {A} (f : A -> sexp) (o : option A) : sexp := match o with Some a => f a | None => SList [] end.

Fixpoint sexp_of_cons (c : constraint) : sexp :=
  let fix conss (l : list constraint) : list sexp := match l with [] => [] | a :: r => sexp_of_cons a :: conss r end in
  let fix nattrs (l : list (string * attr_schema)) : list sexp :=
    match l with [] => [] | (n, a) :: r => SList [SStr n; sexp_of_attr a] :: nattrs r end in
  let ocons (o : option constraint) : sexp := match o with Some c => sexp_of_cons c | None => SList [] end in
  match c with
  | CAny t s => SList [SAtom "any"; sexp_of_ty t; sB s]
  | CLitType t s => SList [SAtom "littype"; sexp_of_ty t; sB s]
  | CLitValue v t d => SList [SAtom "litval"; v; sexp_of_ty t; sB d]
  | CKeyword a b => SList [SAtom "keyword"; SStr a; SStr b]
  | CRef sc t nm ad => SList [SAtom "ref"; SStr sc; sexp_of_ty t; SStr nm; sopt SStr ad]
  | CTypeDecl => SList [SAtom "typedecl"]
  | CList e mn mx => SList [SAtom "list"; ocons e; sZ mn; sZ mx]
  | CSet e mn mx => SList [SAtom "set"; ocons e; sZ mn; sZ mx]
  | CTuple es => SList [SAtom "tuple"; SList (conss es)]
  | CMap e nm ip mn mx => SList [SAtom "map"; ocons e; SStr nm; sB ip; sZ mn; sZ mx]
  | CObject ats isnil nm ip => SList [SAtom "object"; SList (nattrs ats); sB isnil; SStr nm; sB ip]
  | COneOf cs => SList [SAtom "oneof"; SList (conss cs)]
  end
with sexp_of_attr (a : attr_schema) : sexp :=
  match a with
  | AttrSchema fl df desc c md hk ad og =>
      SList [SAtom "attr"; sexp_of_flags fl; sopt sexp_of_static df; SStr desc; sexp_of_cons c; sStrs md; sZ hk; ad; og]
  end.

Definition sexp_of_label (l : label_schema) : sexp :=
  SList [SStr (ls_name l); sB (ls_depkey l); sB (ls_completable l); sStrs (ls_mods l); SStr (ls_desc l)].

Definition sexp_of_ext (e : extensions) : sexp :=
  SList [sB (ext_count e); sB (ext_for_each e); sB (ext_dynamic e); sB (ext_self_refs e)].

Definition Z_of_bt (b : block_type) : Z :=
  match b with BTNil => 0 | BTList => 1 | BTMap => 2 | BTObject => 3 | BTSet => 4 end%Z.

Fixpoint sexp_of_body (b : body_schema) : sexp :=
  let fix nblocks (l : list (string * block_schema)) : list sexp :=
    match l with [] => [] | (n, k) :: r => SList [SStr n; sexp_of_block k] :: nblocks r end in
  match b with
  | BodySchema ats any bls ex dc desc detail hurl tg im tgs =>
      SList [SAtom "body"; SList (map (fun p => SList [SStr (fst p); sexp_of_attr (snd p)]) ats);
             sopt sexp_of_attr any; SList (nblocks bls); sopt sexp_of_ext ex;
             sopt (fun p => SList [SStr (fst p); SStr (snd p)]) dc; SStr desc; SStr detail; SStr hurl;
             SList tg; SList im; tgs]
  end
with sexp_of_block (k : block_schema) : sexp :=
  let fix nbodies (l : list (string * body_schema)) : list sexp :=
    match l with [] => [] | (n, b) :: r => SList [SStr n; sexp_of_body b] :: nbodies r end in
  match k with
  | BlockSchema lbs bt bd dep mn mx depr desc md ad =>
      SList [SAtom "block"; SList (map sexp_of_label lbs); sZ (Z_of_bt bt);
             match bd with Some b => sexp_of_body b | None => SList [] end;
             SList (nbodies dep); sZ mn; sZ mx; sB depr; SStr desc; sStrs md; ad]
  end.
