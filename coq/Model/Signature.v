(* decoder/signature.go: SignatureAtPos.  hclsyntax.VisitAll visits nodes in pre-order; the model
   receives the function-call nodes in that order. *)
From Coq Require Import String Ascii List ZArith Bool.
From HV Require Import Base.Sexp Base.Str Base.Pos Model.Completion.
Import ListNotations.
Open Scope string_scope.

Record call := { cl_name : string; cl_rng : range; cl_open : range; cl_close : range; cl_args : list range }.

Record param := { pm_name : string; pm_type : string; pm_desc : string }.   (* type = FriendlyName *)
Record fsig := { fs_params : list param; fs_var : option param; fs_ret : string; fs_desc : string }.

Record sig := { sg_name : string; sg_desc : string; sg_params : list (string * string); sg_active : Z }.

Definition ellipsis : string := String (ascii_of_nat 226) (String (ascii_of_nat 128) (String (ascii_of_nat 166) "")).

Definition param_names (f : fsig) : string :=
  join ", " (List.app (map (fun p => pm_name p ++ " " ++ pm_type p) (fs_params f))
                      (match fs_var f with Some v => [ellipsis ++ pm_name v ++ " " ++ pm_type v] | None => [] end)).

Definition sig_name (c : call) (f : fsig) : string := cl_name c ++ "(" ++ param_names f ++ ") " ++ fs_ret f.

(* recoverLeftBytes with the predicate "r == ',' && byteOffset > lim": the bytes from the nearest
   such comma up to the position ("" if none).  A comma is one byte and no byte of a multi-byte
   rune equals it, so the scan is done on bytes. *)
Fixpoint recover_left_comma (fuel : nat) (file : string) (lim : Z) (i : Z) (pos : Z) : string :=
  match fuel with
  | O => ""
  | S f =>
      if Z.leb i 0 then ""
      else
        match String.get (Z.to_nat (i - 1)) file with
        | Some c =>
            if Ascii.eqb c ","%char && Z.ltb lim i then String.substring (Z.to_nat (i - 1)) (Z.to_nat (pos - (i - 1))) file
            else recover_left_comma f file lim (i - 1) pos
        | None => ""
        end
  end.

Fixpoint trim_right_blank_rev (l : list ascii) : list ascii :=
  match l with
  | c :: r => if Ascii.eqb c " "%char || Ascii.eqb c (ascii_of_nat 9) || Ascii.eqb c (ascii_of_nat 10) then trim_right_blank_rev r else l
  | [] => []
  end.

Definition trim_right_blank (s : string) : string :=
  string_of_list_ascii (rev (trim_right_blank_rev (rev (list_ascii_of_string s)))).

(* the scan over the arguments: (active, found, lastArgEnd, lastArgIdx) *)
Fixpoint arg_scan (args : list range) (i : Z) (p : pos) (last_end : Z) (last_idx : Z) : Z * bool * Z * Z :=
  match args with
  | [] => (0%Z, false, last_end, last_idx)
  | a :: rest =>
      if Z.ltb (p_byte p) (p_byte (r_start a)) then (0%Z, false, last_end, last_idx)
      else if contains_pos a p || Z.eqb (p_byte (r_end a)) (p_byte p) then (i, true, last_end, last_idx)
      else arg_scan rest (i + 1) p (p_byte (r_end a)) i
  end.

Inductive effect := NoEffect | Clear | Set_ (s : sig).

(* the argument slot: the argument under the cursor, else the slot after the last argument if a
   comma (followed by blanks only) precedes the cursor *)
Definition choose_active (found : bool) (act lidx : Z) (comma : bool) : Z :=
  if found then act else if comma then (lidx + 1)%Z else act.

(* too many arguments and no variadic parameter: none; beyond the fixed parameters: the variadic one *)
Definition clamp_active (plen act : Z) (has_var : bool) : option Z :=
  if Z.leb plen act && negb has_var then None
  else Some (if Z.leb plen act then (plen - 1)%Z else act).

Definition call_effect (funcs : list (string * fsig)) (file : string) (p : pos) (c : call) : effect :=
  if negb (contains_pos (cl_rng c) p) then NoEffect else
  match Schema.alookup (cl_name c) funcs with
  | None => NoEffect
  | Some f =>
      match fs_params f, fs_var f with
      | [], None => Set_ {| sg_name := sig_name c f; sg_desc := fs_desc f; sg_params := []; sg_active := 0 |}
      | _, _ =>
          if negb (contains_pos (range_between (cl_open c) (cl_close c)) p) then NoEffect else
          let '(act, found, last_end, last_idx) := arg_scan (cl_args c) 0 p (p_byte (r_start (cl_open c))) 0 in
          let comma := String.eqb (trim_right_blank (recover_left_comma (S (Z.to_nat (p_byte p))) file last_end (p_byte p) (p_byte p))) "," in
          let plen := (Z.of_nat (List.length (fs_params f)) + match fs_var f with Some _ => 1 | None => 0 end)%Z in
          match clamp_active plen (choose_active found act last_idx comma) (match fs_var f with None => false | Some _ => true end) with
          | None => Clear
          | Some a =>
              Set_ {| sg_name := sig_name c f; sg_desc := fs_desc f;
                      sg_params := List.app (map (fun q => (pm_name q, pm_desc q)) (fs_params f))
                                            (match fs_var f with Some v => [(pm_name v, pm_desc v)] | None => [] end);
                      sg_active := a |}
          end
      end
  end.

Definition apply_effect (acc : option sig) (e : effect) : option sig :=
  match e with NoEffect => acc | Clear => None | Set_ s => Some s end.

Definition signature_at_pos (funcs : list (string * fsig)) (file : string) (calls : list call) (p : pos) : option sig :=
  fold_left (fun acc c => apply_effect acc (call_effect funcs file p c)) calls None.

(* ---- reader / runner ---- *)
Definition param_of_sexp (x : sexp) : option param :=
  match x with SList [SStr n; SStr t; SStr d] => Some {| pm_name := n; pm_type := t; pm_desc := d |} | _ => None end.

Definition fsig_of_sexp (x : sexp) : option (string * fsig) :=
  match x with
  | SList [SStr name; SList ps; v; SStr ret; SStr desc] =>
      match map_opt param_of_sexp ps, Schema.opt_of_sexp param_of_sexp v with
      | Some ps, Some v => Some (name, {| fs_params := ps; fs_var := v; fs_ret := ret; fs_desc := desc |})
      | _, _ => None
      end
  | _ => None
  end.

Definition call_of_sexp (x : sexp) : option call :=
  match x with
  | SList [SStr n; r; o; c; SList args] =>
      match range_of_sexp r, range_of_sexp o, range_of_sexp c, map_opt range_of_sexp args with
      | Some r, Some o, Some c, Some args => Some {| cl_name := n; cl_rng := r; cl_open := o; cl_close := c; cl_args := args |}
      | _, _, _, _ => None
      end
  | _ => None
  end.

Definition sexp_of_sig (s : option sig) : sexp :=
  match s with
  | None => SList [SAtom "nosig"]
  | Some s => SList [SAtom "sig"; SStr (sg_name s); SStr (sg_desc s);
                     SList (map (fun q => SList [SStr (fst q); SStr (snd q)]) (sg_params s)); sZ (sg_active s)]
  end.

(* (signatures (FUNCS) "file" (CALLS) ((POS OBSERVED)...)) -> (allok) | (mismatch ...) *)
Definition run_signatures (args : list sexp) : option sexp :=
  match args with
  | [SList fs; SStr file; SList cs; SList pairs] =>
      match map_opt fsig_of_sexp fs, map_opt call_of_sexp cs with
      | Some fs, Some cs =>
          let bad := flat_map (fun pr =>
            match pr with
            | SList [p; obs] =>
                match pos_of_sexp p with
                | Some pp => let out := sexp_of_sig (signature_at_pos fs file cs pp) in
                             if sexp_eqb out obs then [] else [SList [p; out]]
                | None => [SList [p; SAtom "badpos"]]
                end
            | _ => [SAtom "badpair"]
            end) pairs in
          match bad with [] => Some (SList [SAtom "allok"]) | _ => Some (SList (SAtom "mismatch" :: bad)) end
      | _, _ => None
      end
  | _ => None
  end.
