(* C05: interleavings of read-only steps.  A query is a sequence of steps each of which reads the
   shared world and the thread's own local state and produces the thread's next local state; it
   cannot write the world (that is what C04 / the effect inventory establish for the code). *)
From Coq Require Import List Arith Bool.
Import ListNotations.

Section Conc.
  Variables (World Local : Type).
  Variable step : World -> Local -> Local.        (* one step of a thread; finished threads are fixpoints *)

  Definition threads := nat -> Local.
  Definition upd (ts : threads) (i : nat) (l : Local) : threads := fun j => if Nat.eqb j i then l else ts j.

  (* run a schedule: at each tick the scheduled thread takes one step *)
  Fixpoint run (w : World) (ts : threads) (sched : list nat) : threads :=
    match sched with
    | [] => ts
    | i :: rest => run w (upd ts i (step w (ts i))) rest
    end.

  Fixpoint iter (n : nat) (w : World) (l : Local) : Local :=
    match n with O => l | S k => iter k w (step w l) end.

  Definition steps_of (i : nat) (sched : list nat) : nat := count_occ Nat.eq_dec sched i.

  (* whatever the interleaving, thread i ends in the state it reaches running alone *)
  Theorem interleaving_irrelevant w sched : forall ts i,
    run w ts sched i = iter (steps_of i sched) w (ts i).
  Proof.
    induction sched as [|j rest IH]; intros ts i; cbn [run steps_of count_occ iter]; [reflexivity|].
    rewrite IH. unfold upd, steps_of.
    destruct (Nat.eq_dec j i) as [->|Hne].
    - rewrite Nat.eqb_refl. reflexivity.
    - destruct (Nat.eqb_spec i j); [congruence|reflexivity].
  Qed.

  (* two schedules that give thread i the same number of steps give it the same result *)
  Corollary schedule_independent w ts s1 s2 i :
    steps_of i s1 = steps_of i s2 -> run w ts s1 i = run w ts s2 i.
  Proof. intros H. now rewrite !interleaving_irrelevant, H. Qed.
End Conc.
