(* schema.Constraint.EmptyCompletionData (schema/constraint_*.go): the text and the snippet inserted
   for an empty value of each constraint, with the tab-stop counter threaded through.
   Snippets are token lists (text / tab stop) rendered to the LSP string for comparison. *)
From Coq Require Import String Ascii List ZArith Bool.
From HV Require Import Base.Sexp Base.Str Model.Addr Model.DepKeys Model.Schema Model.Merge.
Import ListNotations.
Open Scope string_scope.

Inductive sn := SnText (s : string) | SnStop (n : Z) (default : string).

Definition render_sn (x : sn) : string :=
  match x with
  | SnText s => s
  | SnStop n "" => "${" ++ string_of_Z n ++ "}"
  | SnStop n d => "${" ++ string_of_Z n ++ ":" ++ d ++ "}"
  end.
Fixpoint render (l : list sn) : string := match l with [] => "" | x :: r => render_sn x ++ render r end.

Fixpoint stops (l : list sn) : list Z :=
  match l with [] => [] | SnStop n _ :: r => n :: stops r | SnText _ :: r => stops r end.

Record cdata := { cd_new : string; cd_snip : list sn; cd_trigger : bool; cd_next : Z }.

Definition cd_empty (d : cdata) : bool := String.eqb (cd_new d) "" || String.eqb (render (cd_snip d)) "".

Fixpoint indent (n : nat) : string := match n with O => "" | S k => "  " ++ indent k end.

Definition bracket_stop (next : Z) (trig : bool) : cdata :=
  {| cd_new := "[ ]"; cd_snip := [SnText "[ "; SnStop next ""; SnText " ]"]; cd_trigger := trig; cd_next := next + 1 |}.

Definition brace_stop (next : Z) (lvl : nat) (trig : bool) : cdata :=
  {| cd_new := "{" ++ nl ++ indent (S lvl) ++ nl ++ indent lvl ++ "}";
     cd_snip := [SnText ("{" ++ nl ++ indent (S lvl)); SnStop next ""; SnText (nl ++ indent lvl ++ "}")];
     cd_trigger := trig; cd_next := next + 1 |}.

Definition is_primitive (t : ty) : bool := match t with TBool | TNum | TStr => true | _ => false end.

(* the constraint a LiteralType of a complex type is expanded to *)
Definition expand_lit_type (t : ty) : option constraint :=
  match t with
  | TList e => Some (CList (Some (CLitType e false)) 0 0)
  | TSet e => Some (CSet (Some (CLitType e false)) 0 0)
  | TMap e => Some (CMap (Some (CLitType e false)) "" false 0 0)
  | TTuple ts => Some (CTuple (map (fun e => CLitType e false) ts))
  | TObject ats =>
      Some (CObject (map (fun p : string * (ty * bool) =>
              let '(n, (t, opt)) := p in
              (n, AttrSchema {| af_required := negb opt; af_optional := opt; af_computed := false; af_deprecated := false;
                                af_sensitive := false; af_writeonly := false; af_depkey := false |}
                             None "" (CLitType t false) [] 0 nil_sexp nil_sexp)) ats) false "" false)
  | _ => None
  end.

Fixpoint concat_sep (l0 : list (list sn)) : list sn :=
  match l0 with [] => [] | [x] => x | x :: r => List.app x (SnText ", " :: concat_sep r) end.


(* ---- LiteralValue.EmptyCompletionData: the value as the harness serialises a cty.Value:
        (bool t|f) (str "s") (num "digits") (seq TYPE (v...)) (kv TYPE (("k" v)...)), anything else is not rendered ---- *)
Fixpoint has_newline (s : string) : bool :=
  match s with EmptyString => false | String c r => Nat.eqb (nat_of_ascii c) 10 || has_newline r end.

Fixpoint trim_suffix_nl (s : string) : string :=
  match s with
  | EmptyString => EmptyString
  | String c EmptyString => if Nat.eqb (nat_of_ascii c) 10 then EmptyString else s
  | String c r => String c (trim_suffix_nl r)
  end.

Definition lit_prim_text (v : sexp) (lvl : nat) : option string :=
  match v with
  | SList [SAtom a; x] =>
      if String.eqb a "bool" then
        match as_bool x with Some true => Some "true" | Some false => Some "false" | None => None end
      else if String.eqb a "str" then
        match x with
        | SStr s0 =>
            if has_newline s0 && Nat.eqb lvl 0 then Some ("<<<STRING" ++ nl ++ trim_suffix_nl s0 ++ nl ++ "STRING" ++ nl)
            else Some (go_quote s0)
        | _ => None
        end
      else if String.eqb a "num" then match x with SStr n => Some n | _ => None end
      else None
  | _ => None
  end.

Definition empty_cd (next : Z) : cdata := {| cd_new := ""; cd_snip := []; cd_trigger := false; cd_next := next |}.

Fixpoint concat_comma (l0 : list (list sn)) : list sn :=
  match l0 with [] => [] | [x] => x | x :: r => List.app x (SnText ", " :: concat_comma r) end.

(* the (name, attribute schema) list Object.EmptyCompletionData walks for an object VALUE: every attribute a
   LiteralValue of its value, required unless the object type marks it optional *)
Definition lit_object_attrs (t : sexp) (entries : list sexp) : list (string * attr_schema) :=
  let opt_of (n : string) : bool :=
    match ty_of_sexp t with
    | Some (TObject ats) => match alookup n ats with Some (_, o) => o | None => false end
    | _ => false
    end in
  flat_map (fun e => match e with
                     | SList [SStr n; v] =>
                         [(n, AttrSchema {| af_required := negb (opt_of n); af_optional := opt_of n; af_computed := false; af_deprecated := false;
                                            af_sensitive := false; af_writeonly := false; af_depkey := false |}
                                         None "" (CLitValue v TNil false) [] 0 nil_sexp nil_sexp)]
                     | _ => []
                     end) entries.

Definition is_object_type (t : sexp) : bool := match ty_of_sexp t with Some (TObject _) => true | _ => false end.

(* loops of Tuple and Object, parameterised by the recursive call *)
Section Loops.
  Variable rec : constraint -> Z -> nat -> option cdata.
  Variable lvl : nat.
  Variable next0 : Z.

  Fixpoint tuple_go (l : list constraint) (last : Z) (news : list string) (snips : list (list sn)) : option cdata :=
    match l with
    | [] => Some {| cd_new := "[ " ++ join ", " (rev news) ++ " ]";
                    cd_snip := List.app (SnText "[ " :: concat_sep (rev snips)) [SnText " ]"];
                    cd_trigger := false; cd_next := last |}
    | e :: r =>
        match rec e last lvl with
        | None => None
        | Some d => if cd_empty d then Some (bracket_stop next0 (cd_trigger d))
                    else tuple_go r (cd_next d) (cd_new d :: news) (cd_snip d :: snips)
        end
    end.


  (* list / set / tuple VALUES: [a, b, c]; an element without text makes the whole value empty *)
  Fixpoint seq_go (l : list sexp) (last : Z) (news : list string) (snips : list (list sn)) : option cdata :=
    match l with
    | [] => Some {| cd_new := "[" ++ join ", " (rev news) ++ "]";
                    cd_snip := List.app (SnText "[" :: concat_comma (rev snips)) [SnText "]"];
                    cd_trigger := false; cd_next := last |}
    | v :: r =>
        match rec (CLitValue v TNil false) last lvl with
        | None => None
        | Some d => if cd_empty d then Some (empty_cd last)
                    else seq_go r (cd_next d) (cd_new d :: news) (cd_snip d :: snips)
        end
    end.

  (* map VALUES: one line per entry, keys in byte order *)
  Fixpoint map_go (l : list sexp) (last : Z) (news : string) (snip : list sn) : option cdata :=
    match l with
    | [] => Some {| cd_new := "{" ++ nl ++ news ++ indent lvl ++ "}";
                    cd_snip := List.app (SnText ("{" ++ nl) :: snip) [SnText (indent lvl ++ "}")];
                    cd_trigger := false; cd_next := last |}
    | SList [SStr k; v] :: r =>
        match rec (CLitValue v TNil false) last (S lvl) with
        | None => None
        | Some d => if cd_empty d then Some (empty_cd last)
                    else map_go r (cd_next d) (news ++ indent (S lvl) ++ go_quote k ++ " = " ++ cd_new d ++ nl)
                                (List.app snip (SnText (indent (S lvl) ++ go_quote k ++ " = ") :: List.app (cd_snip d) [SnText nl]))
        end
    | _ => None
    end.

  Variable empty_obj : cdata.
  Fixpoint object_go (l : list (string * attr_schema)) (np : Z) (any_req : bool) (news : string) (snip : list sn) : option cdata :=
    match l with
    | [] => if any_req then Some {| cd_new := "{" ++ nl ++ news ++ indent lvl ++ "}";
                                    cd_snip := List.app (SnText ("{" ++ nl) :: snip) [SnText (indent lvl ++ "}")];
                                    cd_trigger := false; cd_next := np |}
            else Some empty_obj
    | (name, a) :: r =>
        match rec (as_cons a) np (S lvl) with
        | None => None
        | Some d =>
            if cd_empty d then Some empty_obj
            else if af_required (as_flags a)
              then object_go r (cd_next d) true (news ++ indent (S lvl) ++ name ++ " = " ++ cd_new d ++ nl)
                      (List.app snip (SnText (indent (S lvl) ++ name ++ " = ") :: List.app (cd_snip d) [SnText nl]))
              else object_go r np any_req news snip
        end
    end.
End Loops.

Section Ecd.
  Variable prefill : bool.

  (* None = out of fuel or a literal value the model does not render *)
  Fixpoint ecd (fuel : nat) (c : constraint) (next : Z) (lvl : nat) : option cdata :=
    match fuel with
    | O => None
    | S f =>
        let elem_based (e : option constraint) :=
          match e with
          | None => Some (bracket_stop next false)
          | Some ec =>
              match ecd f ec next lvl with
              | None => None
              | Some d =>
                  if cd_empty d then Some (bracket_stop next (cd_trigger d))
                  else Some {| cd_new := "[ " ++ cd_new d ++ " ]";
                               cd_snip := List.app (SnText "[ " :: cd_snip d) [SnText " ]"];
                               cd_trigger := false; cd_next := cd_next d |}
              end
          end in
        match c with
        | CAny t skip => if prefill then ecd f (CLitType t skip) next lvl
                         else Some {| cd_new := ""; cd_snip := []; cd_trigger := true; cd_next := 0 |}
        | CRef _ _ _ _ => Some {| cd_new := ""; cd_snip := []; cd_trigger := true; cd_next := 0 |}
        | CKeyword _ _ | CTypeDecl => Some {| cd_new := ""; cd_snip := []; cd_trigger := true; cd_next := next |}
        | CLitType t _ =>
            match t with
            | TBool => Some {| cd_new := "false"; cd_snip := [SnStop next "false"]; cd_trigger := false; cd_next := next + 1 |}
            | TStr => Some {| cd_new := """value"""; cd_snip := [SnText """"; SnStop next "value"; SnText """"]; cd_trigger := false; cd_next := next + 1 |}
            | TNum => Some {| cd_new := "0"; cd_snip := [SnStop next "0"]; cd_trigger := false; cd_next := next + 1 |}
            | _ => match expand_lit_type t with
                   | Some c' => ecd f c' next lvl
                   | None => Some {| cd_new := ""; cd_snip := []; cd_trigger := false; cd_next := next |}
                   end
            end
        | CLitValue v _ _ =>
            match lit_prim_text v lvl with
            | Some txt => Some {| cd_new := txt; cd_snip := [SnText txt]; cd_trigger := false; cd_next := next |}
            | None =>
                match v with
                | SList [SAtom a; t; SList l] =>
                    if String.eqb a "seq" then seq_go (ecd f) lvl l next [] []
                    else if String.eqb a "kv" then
                      if is_object_type t then
                        let ats := lit_object_attrs t l in
                        let empty_obj := brace_stop next lvl (match ats with [] => false | _ => true end) in
                        if negb prefill then Some empty_obj
                        else object_go (ecd f) lvl empty_obj ats next false "" []
                      else map_go (ecd f) lvl l next "" []
                    else None
                | _ => None
                end
            end
        | CList e _ _ => elem_based e
        | CSet e _ _ => elem_based e
        | CTuple es =>
            match es with
            | [] => Some (bracket_stop next false)
            | _ => tuple_go (ecd f) lvl next es next [] []
            end
        | CMap e _ _ _ _ =>
            match e with
            | None => Some (brace_stop next lvl false)
            | Some ec =>
                match ecd f ec (next + 1) (S lvl) with
                | None => None
                | Some d =>
                    if cd_empty d then Some (brace_stop next lvl (cd_trigger d))
                    else Some {| cd_new := "{" ++ nl ++ indent (S lvl) ++ """name"" = " ++ cd_new d ++ nl ++ indent lvl ++ "}";
                                 cd_snip := List.app (SnText ("{" ++ nl ++ indent (S lvl) ++ """") :: SnStop next "name" :: SnText """ = " :: cd_snip d)
                                                     [SnText (nl ++ indent lvl ++ "}")];
                                 cd_trigger := cd_trigger d; cd_next := cd_next d |}
                end
            end
        | CObject ats _ _ _ =>
            let empty_obj := brace_stop next lvl (match ats with [] => false | _ => true end) in
            if negb prefill then Some empty_obj
            else
              object_go (ecd f) lvl empty_obj ats next false "" []
        | COneOf cs =>
            match cs with
            | [] => Some {| cd_new := ""; cd_snip := []; cd_trigger := false; cd_next := next |}
            | c0 :: _ => ecd f c0 next lvl
            end
        end
    end.
End Ecd.

(* (ecd PREFILL CONSTRAINT NEXT LEVEL) -> (cd "newtext" "snippet" trigger next) | (delegated) *)
Definition run_ecd (args : list sexp) : option sexp :=
  match args with
  | [pf; c; n; l] =>
      match as_bool pf, cons_of_sexp c, as_Z n, as_Z l with
      | Some pf, Some c, Some n, Some l =>
          match ecd pf 40 c n (Z.to_nat l) with
          | Some d => Some (SList [SAtom "cd"; SStr (cd_new d); SStr (render (cd_snip d)); sB (cd_trigger d); sZ (cd_next d)])
          | None => Some (SList [SAtom "delegated"])
          end
      | _, _, _, _ => None
      end
  | _ => None
  end.
