(* Completion of an attribute value with completion hooks (decoder/expression_candidates.go:
   attrValueCompletionAtPos, candidatesFromHooks).
   What the registered hook functions return and what the expression's own completion returns are
   inputs; modelled: the edit range given to every hook candidate, the text handed to the hooks,
   the order and number of candidates under the decoder's limit, and the completeness flag. *)
From Coq Require Import String List Bool ZArith Ascii.
From HV Require Import Base.Sexp Base.Pos Model.Completion.
Import ListNotations.
Open Scope string_scope.
Open Scope list_scope.

Record hcand := { h_label : string; h_text : string }.

(* candidatesFromHooks: editRng *)
Definition hook_edit_range (e : range) (empty_or_multiline : bool) (p : pos) : range :=
  let r1 := if empty_or_multiline then with_end e p else e in
  if Z.ltb (p_byte p) (p_byte (r_start r1)) then with_start r1 p else r1.

(* strings.TrimLeft(prefix, double-quote) *)
Fixpoint trim_left_quotes (s : string) : string :=
  match s with
  | String c r => if Ascii.eqb c """"%char then trim_left_quotes r else s
  | EmptyString => s
  end.

(* the text handed to every hook: the file's bytes from the start of the value to the cursor *)
Definition hook_prefix (file : string) (e : range) (p : pos) : string :=
  trim_left_quotes (slice_bytes file (with_end e p)).

Record ocand := { oc_label : string; oc_range : range; oc_hook : bool }.

Section Hooks.
  Variable max : nat.               (* d.maxCandidates *)

  (* the hook loop returns as soon as [max] candidates were taken *)
  Definition hook_candidates (string_typed : bool) (results : list (list hcand)) : list hcand :=
    if string_typed then firstn max (concat results) else [].

  (* attrValueCompletionAtPos: (IsComplete, candidates).  [has_hooks]: the attribute schema lists hooks;
     [results]: what each registered hook returned, in schema order; [exprc]: the candidates of the
     expression's own completion with their edit ranges *)
  Definition attr_value_completion (has_hooks string_typed : bool) (results : list (list hcand))
             (er : range) (exprc : list (string * range)) : bool * list ocand :=
    let hooks := if has_hooks then hook_candidates string_typed results else [] in
    let hc := map (fun h => {| oc_label := h_label h; oc_range := er; oc_hook := true |}) hooks in
    let ec := map (fun c => {| oc_label := fst c; oc_range := snd c; oc_hook := false |}) exprc in
    let count := length hc in
    if Nat.leb max count then (false, hc)
    else if Nat.ltb (max - count) (length ec) then (false, hc ++ firstn (max - count) ec)
    else (negb has_hooks, hc ++ ec).
End Hooks.

Definition hcand_of_sexp (x : sexp) : option hcand :=
  match x with
  | SList [SStr l; SStr t] => Some {| h_label := l; h_text := t |}
  | _ => None
  end.

Definition hres_of_sexp (x : sexp) : option (list hcand) :=
  match x with SList l => map_opt hcand_of_sexp l | _ => None end.

Definition ecand_of_sexp (x : sexp) : option (string * range) :=
  match x with
  | SList [SStr l; r] => match range_of_sexp r with Some r => Some (l, r) | None => None end
  | _ => None
  end.

Definition sexp_of_ocand (c : ocand) : sexp := SList [SStr (oc_label c); sexp_of_range (oc_range c)].

(* (hookcands max file exprrange emptyormultiline pos hashooks stringtyped (hookresults...) (exprcands...) echoed)
     -> (prefix complete ((label range)...)) *)
Definition run_hook_cands (kind : string) (args : list sexp) : option sexp :=
  if String.eqb kind "hookcands" then
    match args with
    | [mx; SStr file; e; em; p; hh; st; SList rs; SList ecs; echoed] =>
        match as_Z mx, range_of_sexp e, as_bool em, pos_of_sexp p, as_bool hh, as_bool st, map_opt hres_of_sexp rs, map_opt ecand_of_sexp ecs, as_bool echoed with
        | Some mx, Some e, Some em, Some p, Some hh, Some st, Some rs, Some ecs, Some echoed =>
            let '(complete, cs) := attr_value_completion (Z.to_nat mx) hh st rs (hook_edit_range e em p) ecs in
            (* [echoed]: a hook that reports the text it was handed was reached *)
            Some (SList [if echoed then SStr (hook_prefix file e p) else SAtom "noprefix"; sB complete; SList (map sexp_of_ocand cs)])
        | _, _, _, _, _, _, _, _, _ => None
        end
    | _ => None
    end
  else None.
