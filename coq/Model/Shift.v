(* C18: translation of a file's positions.  Inserting [dl] lines / [db] bytes at byte offset [at]
   of file [file] moves every position at or after [at]. *)
From Coq Require Import String List ZArith Bool.
From HV Require Import Base.Sexp Base.Pos Model.Addr Model.DepKeys Model.Schema Model.Ast Model.Merge Model.Validate Model.BodyQueries.
Import ListNotations.

Section Shift.
  Variable file : string.
  Variable at_ dl db : Z.

  Definition shift_pos (p : pos) : pos :=
    if Z.leb at_ (p_byte p) then {| p_line := p_line p + dl; p_col := p_col p; p_byte := p_byte p + db |} else p.

  Definition shift_range (r : range) : range :=
    if String.eqb (r_file r) file then {| r_file := r_file r; r_start := shift_pos (r_start r); r_end := shift_pos (r_end r) |} else r.

  Fixpoint shift_expr (e : expr) : expr :=
    let fix exprs (l : list expr) : list expr := match l with [] => [] | x :: r => shift_expr x :: exprs r end in
    let fix items (l : list obj_item) : list obj_item :=
      match l with [] => [] | ObjItem kr k v :: r => ObjItem (shift_range kr) k (shift_expr v) :: items r end in
    match e with
    | ETraversal r a => ETraversal (shift_range r) a
    | ELiteral r t => ELiteral (shift_range r) t
    | ETemplate r a b => ETemplate (shift_range r) a b
    | ETuple r es => ETuple (shift_range r) (exprs es)
    | EObject r its => EObject (shift_range r) (items its)
    | EOther r k => EOther (shift_range r) k
    end.

  Definition shift_attr (a : attr) : attr :=
    {| a_name := a_name a; a_expr := shift_expr (a_expr a); a_rng := shift_range (a_rng a);
       a_name_rng := shift_range (a_name_rng a); a_eq_rng := shift_range (a_eq_rng a); a_val := a_val a |}.

  Fixpoint shift_body (b : body) : body :=
    let fix blocks (l : list block) : list block :=
      match l with
      | [] => []
      | Block t ls lrs tr o c r d kb :: rest =>
          Block t ls (map shift_range lrs) (shift_range tr) (shift_range o) (shift_range c) (shift_range r) (shift_range d) (shift_body kb) :: blocks rest
      end in
    match b with
    | Body attrs bls r e => Body (map shift_attr attrs) (blocks bls) (shift_range r) (shift_range e)
    end.

  Definition shift_block (k : block) : block :=
    match k with
    | Block t ls lrs tr o c r d kb =>
        Block t ls (map shift_range lrs) (shift_range tr) (shift_range o) (shift_range c) (shift_range r) (shift_range d) (shift_body kb)
    end.

  Definition shift_diag (d : diag) : diag :=
    {| d_kind := d_kind d; d_name := d_name d; d_sev := d_sev d; d_summary := d_summary d; d_detail := d_detail d;
       d_subject := shift_range (d_subject d) |}.

  Definition shift_stoken (t : stoken) : stoken :=
    {| st_type := st_type t; st_mods := st_mods t; st_rng := shift_range (st_rng t) |}.
End Shift.
