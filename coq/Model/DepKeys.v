(* schema.DependencyKeys -> schema.SchemaKey (schema/dependent_schema.go):
   MarshalJSON stable-sorts labels by index and attributes by name, then encoding/json. *)
From Coq Require Import String Ascii List ZArith Bool.
From HV Require Import Base.Sexp Base.Str Base.SortSpec Model.Addr.
Import ListNotations.
Open Scope string_scope.

Record label_dep := { ld_index : Z; ld_value : string }.

(* ExpressionValue.Static rendered through ctyjson.SimpleJSONValue *)
Inductive static_val :=
| SVNone                 (* cty.NilVal: field omitted *)
| SVStr (s : string)
| SVNum (z : Z)          (* integral numbers only: the harness generates no others *)
| SVBool (b : bool)
| SVNull.

Record attr_dep := { ad_name : string; ad_static : static_val; ad_addr : address }.

(* encoding/json string escaping with the default HTML escaping *)
Definition json_escape_char (c : ascii) : string :=
  let n := N_of_ascii c in
  if N.eqb n 34 then "\""" else if N.eqb n 92 then "\\"
  else if N.ltb n 32 then
    (if N.eqb n 8 then "\b" else if N.eqb n 12 then "\f" else if N.eqb n 10 then "\n"
     else if N.eqb n 13 then "\r" else if N.eqb n 9 then "\t" else "\u00" ++ hex2 n)
  else if N.eqb n 60 then "\u003c" else if N.eqb n 62 then "\u003e" else if N.eqb n 38 then "\u0026"
  else String c "".

Fixpoint json_escape (s : string) : string :=
  match s with EmptyString => "" | String c r => json_escape_char c ++ json_escape r end.

Definition json_string (s : string) : string := """" ++ json_escape s ++ """".

Definition label_json (l : label_dep) : string :=
  "{""index"":" ++ string_of_Z (ld_index l) ++ ",""value"":" ++ json_string (ld_value l) ++ "}".

Definition static_json (v : static_val) : option string :=
  match v with
  | SVNone => None
  | SVStr s => Some (json_string s)
  | SVNum z => Some (string_of_Z z)
  | SVBool b => Some (if b then "true" else "false")
  | SVNull => Some "null"
  end.

Definition expr_json (a : attr_dep) : string :=
  let addr := addr_string (ad_addr a) in
  let fields := List.app
    (match static_json (ad_static a) with Some s => ["""static"":" ++ s] | None => [] end)
    (if String.eqb addr "" then [] else ["""addr"":" ++ json_string addr]) in
  "{" ++ join "," fields ++ "}".

Definition attr_json (a : attr_dep) : string :=
  "{""name"":" ++ json_string (ad_name a) ++ ",""expr"":" ++ expr_json a ++ "}".

(* comparators of MarshalJSON (after the fix commit: ties on index / name are broken on the
   value / the rendered expression, so that the key does not depend on the listing order) *)
Definition pair_ltb (a b : string * string) : bool :=
  String.ltb (fst a) (fst b) || (String.eqb (fst a) (fst b) && String.ltb (snd a) (snd b)).
Definition label_ltb (a b : label_dep) : bool :=
  Z.ltb (ld_index a) (ld_index b) || (Z.eqb (ld_index a) (ld_index b) && String.ltb (ld_value a) (ld_value b)).
Definition attr_sort_key (a : attr_dep) : string * string := (ad_name a, expr_json a).
Definition attr_ltb (a b : attr_dep) : bool := pair_ltb (attr_sort_key a) (attr_sort_key b).

Definition sorted_labels (ls : list label_dep) := stable_sort label_ltb ls.
Definition sorted_attrs (ats : list attr_dep) := stable_sort attr_ltb ats.

Definition schema_key (ls : list label_dep) (ats : list attr_dep) : string :=
  let fields := List.app
    (match ls with [] => [] | _ => ["""labels"":[" ++ join "," (map label_json (sorted_labels ls)) ++ "]"] end)
    (match ats with [] => [] | _ => ["""attrs"":[" ++ join "," (map attr_json (sorted_attrs ats)) ++ "]"] end) in
  "{" ++ join "," fields ++ "}".

(* ---- reader ---- *)
Definition label_of_sexp (x : sexp) : option label_dep :=
  match x with
  | SList [i; SStr v] => option_map (fun z => {| ld_index := z; ld_value := v |}) (as_Z i)
  | _ => None
  end.

Definition static_of_sexp (x : sexp) : option static_val :=
  match x with
  | SList [SAtom t] =>
      if String.eqb t "none" then Some SVNone else if String.eqb t "null" then Some SVNull
      else if String.eqb t "true" then Some (SVBool true) else if String.eqb t "false" then Some (SVBool false) else None
  | SList [SAtom t; SStr s] => if String.eqb t "str" then Some (SVStr s) else None
  | SList [SAtom t; SAtom z] => if String.eqb t "num" then option_map SVNum (Z_of_string z) else None
  | _ => None
  end.

Definition attrdep_of_sexp (x : sexp) : option attr_dep :=
  match x with
  | SList [SStr n; st; ad] =>
      match static_of_sexp st, addr_of_sexp ad with
      | Some s, Some a => Some {| ad_name := n; ad_static := s; ad_addr := a |}
      | _, _ => None
      end
  | _ => None
  end.

(* (schemakey (labels...) (attrs...)) -> (key "...") *)
Definition run_schemakey (args : list sexp) : option sexp :=
  match args with
  | [SList ls; SList ats] =>
      match map_opt label_of_sexp ls, map_opt attrdep_of_sexp ats with
      | Some l, Some a => Some (SList [SAtom "key"; SStr (schema_key l a)])
      | _, _ => None
      end
  | _ => None
  end.
