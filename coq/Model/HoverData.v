(* schema.ConstraintWithHoverData.EmptyHoverData (schema/constraint_{list,set,tuple,map,object,literal_type,
   literal_value}.go): the text shown when a VALUE is hovered - the description of the value the constraint
   expects.  Seven constraint kinds implement it; for the others (any-expression, keyword, reference, one-of,
   type declaration) the type assertion in the callers fails and nothing is described.
   Result: None = out of fuel or a literal value the model does not render; Some None = nil (nothing to show);
   Some (Some s) = the content. *)
From Coq Require Import String Ascii List ZArith Bool.
From HV Require Import Base.Sexp Base.Str Model.Addr Model.DepKeys Model.Schema Model.Merge Model.Snippet.
Import ListNotations.
Open Scope string_scope.

Definition fence : string := "```".

(* the comment behind an attribute of an object listing *)
Definition flag_names (f : attr_flags) : list string :=
  List.app (if af_optional f then ["optional"] else []) (if af_sensitive f then ["sensitive"] else []).

Definition flag_comment (f : attr_flags) : string :=
  match flag_names f with [] => "" | l => " # " ++ join ", " l end.

Definition attr_line (lvl : nat) (name content : string) (f : attr_flags) : string :=
  indent (S lvl) ++ name ++ " = " ++ content ++ flag_comment f ++ nl.

Definition open_fence (lvl : nat) : string := match lvl with O => fence ++ nl | _ => "" end.
Definition close_fence (lvl : nat) : string := match lvl with O => nl ++ fence ++ nl | _ => "" end.

(* primitive literal VALUES *)
Definition lit_prim_hover (v : sexp) (lvl : nat) : option string :=
  match v with
  | SList [SAtom a; x] =>
      if String.eqb a "bool" then
        match as_bool x with Some true => Some "true" | Some false => Some "false" | None => None end
      else if String.eqb a "str" then
        match x with
        | SStr s0 =>
            if has_newline s0 && Nat.eqb lvl 0 then Some (fence ++ nl ++ trim_suffix_nl s0 ++ nl ++ fence ++ nl)
            else Some (go_quote s0)
        | _ => None
        end
      else if String.eqb a "num" then match x with SStr n => Some n | _ => None end
      else None
  | _ => None
  end.

Definition prim_type_name (t : ty) : option string :=
  match t with TBool => Some "bool" | TNum => Some "number" | TStr => Some "string" | _ => None end.

Section Loops.
  Variable rec : constraint -> nat -> option (option string).
  Variable lvl : nat.

  (* Tuple: every element at the same level; one element without hover data and nothing is shown *)
  Fixpoint tuple_hd (l : list constraint) (acc : list string) : option (option (list string)) :=
    match l with
    | [] => Some (Some (rev acc))
    | e :: r =>
        match rec e lvl with
        | None => None
        | Some None => Some None
        | Some (Some s) => tuple_hd r (s :: acc)
        end
    end.

  (* list / set / tuple VALUES *)
  Fixpoint seq_hd (l : list sexp) (acc : list string) : option (option (list string)) :=
    match l with
    | [] => Some (Some (rev acc))
    | v :: r =>
        match rec (CLitValue v TNil false) lvl with
        | None => None
        | Some None => Some None
        | Some (Some s) => seq_hd r (s :: acc)
        end
    end.

  (* map VALUES: one line per entry, keys in byte order *)
  Fixpoint map_hd (l : list sexp) (acc : string) : option (option string) :=
    match l with
    | [] => Some (Some acc)
    | SList [SStr k; v] :: r =>
        match rec (CLitValue v TNil false) (S lvl) with
        | None => None
        | Some None => Some None
        | Some (Some s) => map_hd r (acc ++ indent (S lvl) ++ go_quote k ++ " = " ++ s ++ nl)
        end
    | _ => None
    end.

  (* Object: one line per declared attribute, names in byte order (the list arrives sorted) *)
  Fixpoint object_hd (l : list (string * attr_schema)) : option (option (list string)) :=
    match l with
    | [] => Some (Some [])
    | (name, a) :: r =>
        match rec (as_cons a) (S lvl) with
        | None => None
        | Some None => Some None
        | Some (Some s) =>
            match object_hd r with
            | Some (Some ls) => Some (Some (attr_line lvl name s (as_flags a) :: ls))
            | x => x
            end
        end
    end.
End Loops.

Definition object_text (lvl : nat) (lines : list string) : string :=
  open_fence lvl ++ "{" ++ nl ++ String.concat "" lines ++ indent lvl ++ "}" ++ close_fence lvl.

Definition wrap1 (name : string) (r : option (option string)) : option (option string) :=
  match r with
  | Some (Some s) => Some (Some (name ++ "(" ++ s ++ ")"))
  | x => x
  end.

Fixpoint ehd (fuel : nat) (c : constraint) (lvl : nat) : option (option string) :=
  match fuel with
  | O => None
  | S f =>
      let object_of (ats : list (string * attr_schema)) :=
        match ats with
        | [] => match lvl with O => Some None | _ => Some (Some "{}") end
        | _ => match object_hd (ehd f) lvl ats with
               | Some (Some ls) => Some (Some (object_text lvl ls))
               | Some None => Some None
               | None => None
               end
        end in
      match c with
      | CAny _ _ | CRef _ _ _ _ | CKeyword _ _ | CTypeDecl | COneOf _ => Some None
      | CList e _ _ => match e with None => Some None | Some ec => wrap1 "list" (ehd f ec lvl) end
      | CSet e _ _ => match e with None => Some None | Some ec => wrap1 "set" (ehd f ec lvl) end
      | CMap e _ _ _ _ => match e with None => Some None | Some ec => wrap1 "map" (ehd f ec lvl) end
      | CTuple es =>
          match tuple_hd (ehd f) lvl es [] with
          | Some (Some l) => Some (Some ("tuple([" ++ join ", " l ++ "])"))
          | Some None => Some None
          | None => None
          end
      | CObject ats _ _ _ => object_of ats
      | CLitType t _ =>
          match prim_type_name t with
          | Some n => Some (Some n)
          | None => match expand_lit_type t with
                    | Some c' => ehd f c' lvl
                    | None => Some None
                    end
          end
      | CLitValue v _ _ =>
          match lit_prim_hover v lvl with
          | Some txt => Some (Some txt)
          | None =>
              match v with
              | SList [SAtom a; t; SList l] =>
                  if String.eqb a "seq" then
                    match seq_hd (ehd f) lvl l [] with
                    | Some (Some xs) =>
                        match ty_of_sexp t with
                        | Some (TList _) => Some (Some ("tolist([" ++ join ", " xs ++ "])"))
                        | Some (TSet _) => Some (Some ("toset([" ++ join ", " xs ++ "])"))
                        | Some (TTuple _) => Some (Some ("[" ++ join ", " xs ++ "]"))
                        | _ => None
                        end
                    | Some None => Some None
                    | None => None
                    end
                  else if String.eqb a "kv" then
                    if is_object_type t then object_of (lit_object_attrs t l)
                    else
                      match map_hd (ehd f) lvl l "" with
                      | Some (Some body) =>
                          Some (Some (open_fence lvl ++ "tomap({" ++ nl ++ body ++ indent lvl ++ "})" ++ close_fence lvl))
                      | x => x
                      end
                  else None
              | _ => None
              end
          end
      end
  end.

(* (ehd CONSTRAINT LEVEL) -> (hd "content") | (nil) | (delegated) = not modelled *)
Definition run_ehd (args : list sexp) : option sexp :=
  match args with
  | [c; l] =>
      match cons_of_sexp c, as_Z l with
      | Some c, Some l =>
          match ehd 40 c (Z.to_nat l) with
          | Some (Some s) => Some (SList [SAtom "hd"; SStr s])
          | Some None => Some (SList [SAtom "nil"])
          | None => Some (SList [SAtom "delegated"])
          end
      | _, _ => None
      end
  | _ => None
  end.
