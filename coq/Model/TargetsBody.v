(* CollectReferenceTargets at body level: decodeReferenceTargetsForBody (decoder/reference_targets.go)
   - blocks addressable as reference / as type of an attribute / with unknown nested references, blocks whose
   body or dependent body is data (with the inferred nested targets of collectInferredReferenceTargetsForBody:
   attributes, object / list / set / map blocks, self references), TargetableAs of bodies - on top of the
   value-level descent of Model/ValueTargets.v for attributes, the count / for_each extensions, the schema
   merge of Model/Merge.v and the block address of Model/Collect.v. *)
From Coq Require Import String List ZArith Bool.
From HV Require Import Base.Sexp Base.Str Base.Pos Base.SortSpec Model.Addr Model.DepKeys Model.Schema Model.Ast
                       Model.Merge Model.Ref Model.Collect Model.ValueTargets.
Import ListNotations.
Open Scope string_scope.
Open Scope list_scope.

(* schema.BlockAddrSchema *)
Record block_addr := {
  ba_steps : list addr_step; ba_name : string; ba_scope : string;
  ba_as_ref : bool; ba_body_data : bool; ba_infer_body : bool; ba_body_self : bool;
  ba_dep_data : bool; ba_infer_dep : bool; ba_unknown_nested : bool; ba_dep_self : bool;
  ba_type_of : option string }.

Definition block_addr_of_sexp (x : sexp) : option (option block_addr) :=
  match x with
  | SList [] => Some None
  | SList [SAtom _; SList steps; SStr name; SStr scope; SList [asref; bdata; ibody; bself; ddata; idep; unk; dself]; ato] =>
      match map_opt addr_step_of_sexp steps,
            map_opt as_bool [asref; bdata; ibody; bself; ddata; idep; unk; dself],
            (match ato with SList [] => Some None | SStr a => Some (Some a) | _ => None end) with
      | Some steps, Some [asref; bdata; ibody; bself; ddata; idep; unk; dself], Some ato =>
          Some (Some {| ba_steps := steps; ba_name := name; ba_scope := scope; ba_as_ref := asref; ba_body_data := bdata;
                        ba_infer_body := ibody; ba_body_self := bself; ba_dep_data := ddata; ba_infer_dep := idep;
                        ba_unknown_nested := unk; ba_dep_self := dself; ba_type_of := ato |})
      | _, _, _ => None
      end
  | _ => None
  end.

(* schema.AttributeAddrSchema, as the schema serialiser writes it *)
Definition vstep_of_schema_step (x : sexp) : option vstep :=
  match x with
  | SList [SAtom k] => if String.eqb k "attrname" then Some VName else Some VOther
  | SList [SAtom k; SStr n] => if String.eqb k "static" then Some (VStatic n) else Some VOther
  | _ => Some VOther
  end.

Definition attr_addr_of_schema (x : sexp) : option (option attr_addr) :=
  match x with
  | SList [] => Some None
  | SList [SAtom _; SList steps; SStr name; SStr scope; ty; rf] =>
      match map_opt vstep_of_schema_step steps, as_bool ty, as_bool rf with
      | Some steps, Some ty, Some rf =>
          Some (Some {| aa_steps := steps; aa_name := name; aa_scope := scope; aa_as_type := ty; aa_as_ref := rf |})
      | _, _, _ => None
      end
  | _ => None
  end.

Definition as_addr (a : attr_schema) : sexp := match a with AttrSchema _ _ _ _ _ _ ad _ => ad end.

(* schema.Targetable *)
Inductive targetable := Targetable (addr : address) (scope : string) (t : ty) (nested : list targetable).

Fixpoint targetable_of_sexp (x : sexp) : option targetable :=
  let fix many (l : list sexp) : option (list targetable) :=
    match l with
    | [] => Some []
    | a :: r => match targetable_of_sexp a, many r with Some t, Some ts => Some (t :: ts) | _, _ => None end
    end in
  match x with
  | SList [SAtom _; ad; SStr scope; ty; _; _; _; SList nested] =>
      match addr_of_sexp ad, ty_of_sexp ty, many nested with
      | Some ad, Some ty, Some nested => Some (Targetable ad scope ty nested)
      | _, _, _ => None
      end
  | _ => None
  end.

(* decodeTargetableBody: the declaration a body stands for, placed on the enclosing block *)
Fixpoint targetable_target (parent : option (range * range)) (t : targetable) : target :=
  match t with
  | Targetable ad scope ty nested =>
      Target ad [] None scope (option_map fst parent) (option_map snd parent) ty ""
             (map (targetable_target parent) nested)
  end.

(* the count / for_each extensions: block-local names declared by the attribute *)
Definition local_target (root name : string) (t : ty) (body_rng : range) (a : attr) : target :=
  Target [] [SRoot root; SAttr name] (Some body_rng) "" (Some (a_rng a)) (Some (a_name_rng a)) t "" [].

Fixpoint lookup_rng {A} (l : list (range * A)) (r : range) : option A :=
  match l with [] => None | (r', e) :: rest => if range_eqb r' r then Some e else lookup_rng rest r end.

Fixpoint keep_opt {A} (l : list (option A)) : list A :=
  match l with [] => [] | Some x :: r => x :: keep_opt r | None :: r => keep_opt r end.

(* ---- bodySchemaAsAttrTypes / bodyToDataType: the type a body stands for as data ---- *)
Definition wrap_block_type (bt : block_type) (o : ty) : ty :=
  match bt with BTList => TList o | BTMap => TMap o | BTSet => TSet o | _ => o end.

(* cty normalises the attribute names of an object type (Unicode NFC); [nfc] maps the names of the schema that
   are not in normal form to their normal form *)
Definition norm_name (nfc : list (string * string)) (n : string) : string :=
  match alookup n nfc with Some m => m | None => n end.

Fixpoint attr_types (nfc : list (string * string)) (fuel : nat) (body : option body_schema) : option (list (string * (ty * bool))) :=
  match fuel with
  | O => None
  | S n =>
      match body with
      | None => Some []
      | Some bs =>
          let ats := fold_left (fun m p => match cons_type (as_cons (snd p)) with
                                           | Some t => aset (norm_name nfc (fst p)) (t, false) m
                                           | None => m end) (bs_attrs bs) [] in
          fold_left (fun acc p => match acc, attr_types nfc n (bk_body (snd p)) with
                                  | Some m, Some o => Some (aset (norm_name nfc (fst p)) (wrap_block_type (bk_type (snd p)) (TObject o), false) m)
                                  | _, _ => None
                                  end) (bs_blocks bs) (Some ats)
      end
  end.

Definition data_type (nfc : list (string * string)) (fuel : nat) (bt : block_type) (body : option body_schema) : option ty :=
  option_map (fun o => wrap_block_type bt (TObject o)) (attr_types nfc fuel body).

Definition sorted_nested (l : list target) : list target := stable_sort targets_less l.

Section Inferred.
  Variable exprs : list (range * texpr).
  Variable nfc : list (string * string).
  (* pairs (from byte, to byte) between which the file holds nothing but white space *)
  Variable gaps : list (Z * Z).
  Variable scope : string.
  Variable self_refs : bool.            (* BodySelfRef || DependentBodySelfRef of the block address schema *)

  Definition is_gap (a b : range) : bool :=
    existsb (fun g => Z.eqb (fst g) (p_byte (r_end a)) && Z.eqb (snd g) (p_byte (r_start b))) gaps.

  (* the range of a collection of blocks: that of the first one, extended over the following ones as long as
     only white space lies in between *)
  Fixpoint widen (cur : range) (rest : list range) : range :=
    match rest with
    | [] => cur
    | r :: rs => widen (if is_gap cur r then with_end cur (r_end r) else cur) rs
    end.

  Definition missing_item_range (b : body) : range := empty_range_at (r_file (b_rng b)) (r_start (b_rng b)).

  Definition skip_attr (c : constraint) : bool :=
    match cons_type c with None | Some TNil => true | _ => false end.

  Definition local_step (on : bool) (self_addr : address) (s : step) : address := if on then self_addr ++ [s] else [].

  Fixpoint inferred (fuel : nat) (addr : address) (b : body) (obs : option body_schema)
           (self_rng : option range) (self_addr : address) {struct fuel} : option (list target) :=
    match fuel with
    | O => None
    | S n =>
        match obs with
        | None => Some []
        | Some bs =>
            let sr := if self_refs then (match self_rng with Some r => Some r | None => Some (b_rng b) end) else self_rng in
            let from := if self_refs then sr else None in
            let attr_part :=
              concat_opt (map (fun p =>
                let name := fst p in let c := as_cons (snd p) in
                if skip_attr c then Some []
                else
                  let written := find_attr name (b_attrs b) in
                  let ctx := {| tc_name := ""; tc_scope := scope; tc_as_type := true; tc_as_ref := false;
                                tc_addr := addr ++ [SAttr name];
                                tc_local := if self_refs then Some (self_addr ++ [SAttr name]) else None;
                                tc_from := from;
                                tc_rng := option_map a_rng written; tc_def := option_map a_name_rng written |} in
                  match written with
                  | Some a => match lookup_rng exprs (a_rng a) with
                              | Some e => value_targets n c (Some ctx) e
                              | None => None
                              end
                  | None => value_targets n c (Some ctx) (EEmpty (missing_item_range b))
                  end) (bs_attrs bs)) in
            let block_part :=
              concat_opt (map (fun p =>
                let bt := fst p in let ks := snd p in
                let bl := filter (fun k => String.eqb (k_type k) bt) (b_blocks b) in
                let baddr := addr ++ [SAttr bt] in
                let blocal := local_step self_refs self_addr (SAttr bt) in
                match bl, attr_types nfc n (bk_body ks) with
                | [], _ => Some []
                | _, None => None
                | first :: others, Some ot =>
                    let elem_type := TObject ot in
                    match bk_type ks with
                    | BTObject =>
                        match inferred n baddr (k_body first) (bk_body ks) sr blocal with
                        | Some nested => Some [Target baddr blocal from scope (Some (k_rng first)) (Some (k_def_rng first)) elem_type ""
                                                      (sorted_nested nested)]
                        | None => None
                        end
                    | BTList =>
                        let whole := widen (k_rng first) (map k_rng others) in
                        match concat_opt (mapi_from (fun i k =>
                                 let eaddr := baddr ++ [SIdxNum (Z.of_nat i)] in
                                 let elocal := local_step self_refs blocal (SIdxNum (Z.of_nat i)) in
                                 match inferred n eaddr (k_body k) (bk_body ks) sr elocal with
                                 | Some nested =>
                                     (* the first element shares its range with the collection (pointer alias) *)
                                     Some [Target eaddr elocal from scope (Some (match i with O => whole | _ => k_rng k end))
                                                  (Some (k_def_rng k)) elem_type "" (sorted_nested nested)]
                                 | None => None
                                 end) 0 bl) with
                        | Some elems => Some [Target baddr blocal from scope (Some whole) None (TList elem_type) "" (sorted_nested elems)]
                        | None => None
                        end
                    | BTSet =>
                        Some [Target baddr blocal from scope (Some (widen (k_rng first) (map k_rng others))) None (TSet elem_type) "" []]
                    | BTMap =>
                        let keyed := filter (fun k => match k_labels k with [] => false | _ => true end) bl in
                        match keyed with
                        | [] => Some [Target baddr blocal from scope (Some (missing_item_range b)) None (TMap elem_type) "" []]
                        | kfirst :: kothers =>
                            let whole := widen (k_rng kfirst) (map k_rng kothers) in
                            match concat_opt (mapi_from (fun i k =>
                                     let key := norm_name nfc (match k_labels k with l :: _ => l | [] => "" end) in
                                     let eaddr := baddr ++ [SIdxStr key] in
                                     let elocal := local_step self_refs blocal (SIdxStr key) in
                                     match inferred n eaddr (k_body k) (bk_body ks) sr elocal with
                                     | Some nested =>
                                         Some [Target eaddr elocal from scope (Some (match i with O => whole | _ => k_rng k end))
                                                      (Some (k_def_rng k)) elem_type "" (sorted_nested nested)]
                                     | None => None
                                     end) 0 keyed) with
                            | Some elems => Some [Target baddr blocal from scope (Some whole) None (TMap elem_type) "" (sorted_nested elems)]
                            | None => None
                            end
                        end
                    | BTNil => Some []
                    end
                end) (bs_blocks bs)) in
            match attr_part, block_part with
            | Some x, Some y => Some (x ++ y)
            | _, _ => None
            end
        end
    end.
End Inferred.

Section BodyTargets.
  Variable exprs : list (range * texpr).                              (* the value of each attribute, by the attribute's range *)
  Variable avals : list (range * list (string * attr_value)).         (* per block (by range): values read by AttrValueStep *)
  Variable gaps : list (Z * Z).                                       (* white-space-only stretches of the file *)
  Variable typedecls : list (range * ty).                             (* typeexpr.TypeConstraint of an attribute value, where it succeeds *)
  Variable nfc : list (string * string).                              (* schema names that are not in Unicode normal form *)

  Definition attr_schema_named (bs : body_schema) (name : string) : option attr_schema :=
    match alookup name (bs_attrs bs) with Some a => Some a | None => bs_any bs end.

  (* targets of one attribute; None = out of fuel / unreadable, Some None = delegated *)
  Definition one_attr (fuel : nat) (bs : body_schema) (b : body) (a : attr) : option (list target) :=
    if ext_has ext_count (bs_ext bs) && String.eqb (a_name a) "count" then Some [local_target "count" "index" TNum (b_rng b) a]
    else if ext_has ext_for_each (bs_ext bs) && String.eqb (a_name a) "for_each"
    then Some [local_target "each" "key" TStr (b_rng b) a; local_target "each" "value" TDyn (b_rng b) a]
    else
      match attr_schema_named bs (a_name a) with
      | None => Some []                                             (* unknown attribute: nothing *)
      | Some s =>
          match attr_addr_of_schema (as_addr s), lookup_rng exprs (a_rng a) with
          | Some aa, Some e => attr_targets fuel (a_name a) (a_rng a) (a_name_rng a) aa (as_cons s) e
          | _, _ => None
          end
      end.

  (* referenceAsTypeOf: the type written in the named attribute, the dynamic type when it cannot be read *)
  Definition type_of_target_type (ks : block_schema) (k : block) (attr_name : string) : ty :=
    match b_blocks (k_body k) with
    | _ :: _ => TDyn                                                    (* JustAttributes reports the blocks *)
    | [] =>
        if String.eqb attr_name "" then TDyn
        else
          match find_attr attr_name (b_attrs (k_body k)), bk_body ks with
          | Some a, Some sb =>
              match alookup attr_name (bs_attrs sb) with
              | Some (AttrSchema _ _ _ CTypeDecl _ _ _ _) =>
                  match lookup_rng typedecls (a_rng a) with Some t => t | None => TDyn end
              | _ => TDyn
              end
          | _, _ => TDyn
          end
    end.

  (* the targets standing for a block itself; [n] = fuel for what is inferred from its body *)
  Definition block_own_targets (n : nat) (ks : block_schema) (ba : block_addr) (addr : address) (k : block) : option (list target) :=
    let rng := Some (k_rng k) in
    let def := Some (k_def_rng k) in
    let self_refs := ba_dep_self ba || ba_body_self ba in
    let infer := inferred exprs nfc gaps (ba_scope ba) self_refs n addr (k_body k) in
    let as_ref := if ba_as_ref ba then [Target addr [] None (ba_scope ba) rng def TNil (ba_name ba) []] else [] in
    let type_of := match ba_type_of ba with
                   | Some an => [Target addr [] None (ba_scope ba) rng def (type_of_target_type ks k an) "" []]
                   | None => []
                   end in
    let unknown := if ba_unknown_nested ba then [Target addr [] None (ba_scope ba) rng def TDyn "" []] else [] in
    (* the static body as data *)
    let static_infer := ba_infer_body ba && match bk_body ks with Some _ => true | None => false end in
    let static_from := if static_infer && ba_body_self ba then rng else None in
    let static_part : option (option target) :=
      if ba_body_data ba then
        match data_type nfc n (bk_type ks) (bk_body ks),
              (if static_infer then infer (bk_body ks) None (if ba_body_self ba then [SRoot "self"] else []) else Some []) with
        | Some t, Some nested => Some (Some (Target addr [] static_from (ba_scope ba) rng def t "" (sorted_nested nested)))
        | _, _ => None
        end
      else Some None in
    (* the dependent body as data: replaces the static one when both are *)
    let dep_part : option (option target) :=
      if ba_dep_data ba then
        match dependent_body_schema ks k with
        | (Some dep, _, LookupSuccessful) =>
            let full := if ba_body_data ba then fst (merge_block_body_schemas ks k) else dep in
            let base_from := if ba_body_data ba then static_from else None in
            let infer_dep := ba_infer_dep ba && match bk_dep ks with [] => false | _ => true end in
            match data_type nfc n (bk_type ks) (Some full),
                  (if infer_dep then infer (Some full) None (if ba_dep_self ba then [SRoot "self"] else []) else Some []) with
            | Some t, Some nested =>
                Some (Some (Target addr (if infer_dep && ba_dep_self ba then [SRoot "self"] else [])
                                   (if infer_dep && ba_dep_self ba then rng else base_from)
                                   (ba_scope ba) rng def t "" (sorted_nested nested)))
            | _, _ => None
            end
        | _ => Some None
        end
      else Some None in
    match static_part, dep_part with
    | Some st, Some dp =>
        let data := match dp with Some d => [d] | None => match st with Some x => [x] | None => [] end end in
        Some (as_ref ++ type_of ++ data ++ unknown)
    | _, _ => None
    end.

  Section Step.
    (* the recursive call with less fuel, and the fuel left for attribute values *)
    Variable rec : body_schema -> option (range * range) -> body -> option (option (list target)).
    Variable n : nat.

    Fixpoint attrs_targets (bs : body_schema) (b : body) (l : list attr) : option (list target) :=
      match l with
      | [] => Some []
      | a :: r => match one_attr n bs b a, attrs_targets bs b r with Some x, Some y => Some (x ++ y) | _, _ => None end
      end.

    (* what one schema-known block contributes: what is declared inside it, then the block itself *)
    Definition block_targets (ks : block_schema) (k : block) : option (option (list target)) :=
      match block_addr_of_sexp (bk_addr ks) with
      | None => None
      | Some oba =>
          match rec (fst (merge_block_body_schemas ks k)) (Some (k_rng k, k_def_rng k)) (k_body k) with
          | Some (Some inner) =>
              match oba with
              | None => Some (Some inner)
              | Some ba =>
                  let vals := match lookup_rng avals (k_rng k) with Some v => v | None => [] end in
                  let lookup nm := match alookup nm vals with Some v => v | None => AVAbsent end in
                  match resolve_block_address (k_labels k) lookup (Some (ba_steps ba)) with
                  | None => Some (Some inner)                       (* unresolvable address: only what is inside *)
                  | Some addr =>
                      match block_own_targets n ks ba addr k with
                      | Some own => Some (Some (inner ++ own))
                      | None => None
                      end
                  end
              end
          | Some None => Some None
          | None => None
          end
      end.

    Fixpoint blocks_targets (bs : body_schema) (l : list block) : option (option (list target)) :=
      match l with
      | [] => Some (Some [])
      | k :: r =>
          match alookup (k_type k) (bs_blocks bs) with
          | None => blocks_targets bs r                             (* unknown block: nothing *)
          | Some ks =>
              match block_targets ks k, blocks_targets bs r with
              | Some (Some x), Some (Some y) => Some (Some (x ++ y))
              | Some None, Some _ | Some _, Some None => Some None
              | _, _ => None
              end
          end
      end.

    Definition body_step (bs : body_schema) (parent : option (range * range)) (b : body) : option (option (list target)) :=
      match attrs_targets bs b (b_attrs b), blocks_targets bs (b_blocks b), map_opt targetable_of_sexp (bs_targetable bs) with
      | Some ats, Some (Some bts), Some tgs =>
          Some (Some (stable_sort targets_less (ats ++ bts ++ map (targetable_target parent) tgs)))
      | Some _, Some None, Some _ => Some None
      | _, _, _ => None
      end.
  End Step.

  Fixpoint body_targets (fuel : nat) (bs : body_schema) (parent : option (range * range)) (b : body)
    : option (option (list target)) :=
    match fuel with
    | O => None
    | S n => body_step (body_targets n) n bs parent b
    end.
End BodyTargets.

(* ---------------- reader / runner entry ---------------- *)
Definition expr_entry_of_sexp (x : sexp) : option (range * texpr) :=
  match x with
  | SList [r; e] => match range_of_sexp r, texpr_of_sexp e with Some r, Some e => Some (r, e) | _, _ => None end
  | _ => None
  end.

Definition aval_entry_of_sexp (x : sexp) : option (range * list (string * attr_value)) :=
  match x with
  | SList [r; SList vs] =>
      match range_of_sexp r, map_opt attr_value_of_sexp vs with Some r, Some vs => Some (r, vs) | _, _ => None end
  | _ => None
  end.

Definition gap_of_sexp (x : sexp) : option (Z * Z) :=
  match x with
  | SList [SAtom a; SAtom b] => match Z_of_string a, Z_of_string b with Some a, Some b => Some (a, b) | _, _ => None end
  | _ => None
  end.

Definition typedecl_entry_of_sexp (x : sexp) : option (range * ty) :=
  match x with
  | SList [r; t] => match range_of_sexp r, ty_of_sexp t with Some r, Some t => Some (r, t) | _, _ => None end
  | _ => None
  end.

(* (bodytargets SCHEMA BODY ((attr-range texpr)...) ((block-range ((name value)...))...) ((from to)...) ((attr-range type)...) ((name nfc-name)...))
   -> targets *)
Definition run_targets_body (kind : string) (args : list sexp) : option sexp :=
  if String.eqb kind "bodytargets" then
    match args with
    | [sch; b; SList es; SList avs; SList gs; SList tds; SList nf] =>
        match Schema.body_of_sexp sch, Ast.body_of_sexp b, map_opt expr_entry_of_sexp es, map_opt aval_entry_of_sexp avs,
              map_opt gap_of_sexp gs, map_opt typedecl_entry_of_sexp tds,
              map_opt (fun x => match x with SList [SStr a; SStr b] => Some (a, b) | _ => None end) nf with
        | Some sch, Some b, Some es, Some avs, Some gs, Some tds, Some nf =>
            match body_targets es avs gs tds nf 40 sch None b with
            | Some (Some ts) => Some (SList (map sexp_of_target ts))
            | Some None => Some (SList [SAtom "delegated"])
            | None => Some (SList [SAtom "out-of-fuel"])
            end
        | _, _, _, _, _, _, _ => None
        end
    | _ => None
    end
  else None.
